import Lean.Data.Json
import Ahbicht.Model.CFV
import Ahbicht.Model.Parse
import Ahbicht.Model.Ahb
import Ahbicht.Model.Fc
import Ahbicht.Model.AhbEval
import Ahbicht.Model.Resolve
import Ahbicht.Model.Extract
import Ahbicht.Model.Val
import Ahbicht.Model.Full
import Ahbicht.Model.Time
import Ahbicht.Model.Iso
import Ahbicht.Model.Json
import Ahbicht.Model.Heap
import Ahbicht.Model.Async
/-!
# line-protocol driver: one JSON request per line on stdin, one JSON answer per line on stdout
-/
open Lean Ahbicht

def str (cs : List Char) : Json := Json.str (String.ofList cs)

def atomJson : Atom → Json
  | .cond k => Json.arr #["cond", str k]
  | .pkg k none => Json.arr #["pkg", str k, Json.null]
  | .pkg k (some r) => Json.arr #["pkg", str k, str r]
  | .time k => Json.arr #["time", str k]

partial def exprJson : Expr → Json
  | .leaf a => atomJson a
  | .bin o l r => Json.arr #[Json.str o.ruleName, exprJson l, exprJson r]

partial def nexprJson : NExpr → Json
  | .leaf a => atomJson a
  | .node o as => Json.arr (#[Json.str o.ruleName] ++ (as.map nexprJson).toArray)

partial def exprOfJson (j : Json) : Except String Expr := do
  let a ← j.getArr?
  let tag ← (a[0]? |>.getD Json.null).getStr?
  let strAt (i : Nat) : Except String (List Char) := do
    let s ← (a[i]? |>.getD Json.null).getStr?
    pure s.toList
  match tag with
  | "cond" => pure (.leaf (.cond (← strAt 1)))
  | "time" => pure (.leaf (.time (← strAt 1)))
  | "pkg" =>
    let rep := match a[2]? with
      | some (Json.str r) => some r.toList
      | _ => none
    pure (.leaf (.pkg (← strAt 1) rep))
  | _ =>
    let op ← match tag with
      | "or_composition" => pure Op.or_ | "xor_composition" => pure Op.xor_
      | "and_composition" => pure Op.and_ | "then_also_composition" => pure Op.then_
      | t => throw s!"bad tag {t}"
    if a.size != 3 then throw "binary node expected"
    pure (.bin op (← exprOfJson a[1]!) (← exprOfJson a[2]!))

def optStr : Option String → Json | some s => Json.str s | none => Json.null
def optBool : Option Bool → Json | some b => Json.bool b | none => Json.null

def errName : EvalErr → String
  | .invalidExpr => "InvalidExpressionError" | .notImplemented => "NotImplementedError"
  | .valueError => "ValueError" | .keyError => "KeyError" | .other => "other"

def lookupObj (j : Json) (field : String) (k : List Char) : Option Json :=
  match j.getObjVal? field with
  | .ok o => match o.getObjVal? (String.ofList k) with | .ok v => some v | .error _ => none
  | .error _ => none

def rcEnvOf (j : Json) : List Char → Option CFV := fun k =>
  match lookupObj j "rc" k with
  | some (Json.str s) => match s with | "F" => some .F | "U" => some .U | "K" => some .K | "N" => some .N | _ => none
  | _ => none

def hintEnvOf (j : Json) : List Char → Option String := fun k =>
  match lookupObj j "hints" k with
  | some (Json.str s) => some s
  | _ => none

def fcEnvOf (j : Json) : FcEnv := fun k =>
  match lookupObj j "fc" k with
  | some (Json.arr a) =>
    match a[0]?, a[1]? with
    | some (Json.bool b), some (Json.str m) => some ⟨b, some m⟩
    | some (Json.bool b), _ => some ⟨b, none⟩
    | _, _ => none
  | _ => none

def rcResultJson (r : RcResult) : Json :=
  Json.mkObj [("fulfilled", optBool r.fulfilled), ("conditional", optBool r.conditional), ("fce", optStr r.fce), ("hints", optStr r.hints)]

def optStrOf (j : Json) (k : String) : Option String :=
  match j.getObjVal? k with | .ok (Json.str s) => some s | _ => none

def nodeResOf (j : Json) : Except String NodeRes := do
  match j.getObjVal? "invalid" with
  | .ok (Json.str m) => pure (.invalid m)
  | _ =>
    let ind ← match Ind.ofString? (← getStrE j "ind") with | some i => pure i | none => throw "bad indicator"
    let ful := match j.getObjVal? "fulfilled" with | .ok (Json.bool b) => some b | _ => none
    let fcOk := match j.getObjVal? "fc_ok" with | .ok (Json.bool b) => b | _ => true
    pure (.ok ⟨ind, ful, optStrOf j "hints", fcOk, optStrOf j "fc_msg"⟩)
where getStrE (j : Json) (k : String) : Except String String := j.getObjValAs? String k

def dataElementOf (j : Json) : Except String DataElement := do
  let k ← j.getObjValAs? String "k"
  let disc ← j.getObjValAs? String "disc"
  if k == "free" then
    pure (.free disc (← nodeResOf (← j.getObjVal? "res")) (optStrOf j "input") (optStrOf j "vtype"))
  else
    let es ← (← j.getObjVal? "entries").getArr?
    let entries ← es.toList.mapM fun e => do
      pure (⟨← e.getObjValAs? String "q", ← e.getObjValAs? String "m", ← nodeResOf (← e.getObjVal? "res")⟩ : PoolEntry)
    pure (.pool disc entries (optStrOf j "input"))

def segmentOf (j : Json) : Except String Segment := do
  let des ← (← j.getObjVal? "des").getArr?
  pure ⟨← j.getObjValAs? String "disc", ← nodeResOf (← j.getObjVal? "res"), ← des.toList.mapM dataElementOf⟩

mutual
partial def groupOf (j : Json) : Except String Group := do
  let gs ← (← j.getObjVal? "groups").getArr?
  let ss ← (← j.getObjVal? "segs").getArr?
  pure (.mk (← j.getObjValAs? String "disc") (← nodeResOf (← j.getObjVal? "res")) (← groupsOf gs.toList) (← ss.toList.mapM segmentOf))
partial def groupsOf (js : List Json) : Except String Groups :=
  match js with
  | [] => pure .nil
  | j :: rest => do pure (.cons (← groupOf j) (← groupsOf rest))
end

def charsOf (j : Json) (k : String) : Except String (List Char) := do
  pure (← j.getObjValAs? String k).toList

def dataElementTOf (j : Json) : Except String DataElementT := do
  let k ← j.getObjValAs? String "k"
  let disc ← j.getObjValAs? String "disc"
  if k == "free" then
    pure (.free disc (← charsOf j "expr") (optStrOf j "input") (optStrOf j "vtype"))
  else
    let es ← (← j.getObjVal? "entries").getArr?
    let entries ← es.toList.mapM fun e => do
      pure ((← e.getObjValAs? String "q"), (← e.getObjValAs? String "m"), (← charsOf e "expr"))
    pure (.pool disc entries (optStrOf j "input"))

def segmentTOf (j : Json) : Except String SegmentT := do
  let des ← (← j.getObjVal? "des").getArr?
  pure ⟨← j.getObjValAs? String "disc", ← charsOf j "expr", ← des.toList.mapM dataElementTOf⟩

mutual
partial def groupTOf (j : Json) : Except String GroupT := do
  let gs ← (← j.getObjVal? "groups").getArr?
  let ss ← (← j.getObjVal? "segs").getArr?
  pure (.mk (← j.getObjValAs? String "disc") (← charsOf j "expr") (← groupsTOf gs.toList) (← ss.toList.mapM segmentTOf))
partial def groupsTOf (js : List Json) : Except String GroupsT :=
  match js with
  | [] => pure .nil
  | j :: rest => do pure (.cons (← groupTOf j) (← groupsTOf rest))
end

def outJson (o : Out) : Json :=
  Json.mkObj [("disc", o.disc), ("is_de", o.isDataElement), ("status", o.status.name), ("hints", optStr o.hints),
    ("fc_ok", optBool o.fcOk), ("fc_msg", optStr o.fcMsg),
    ("possible", match o.possible with | some l => Json.arr (l.map fun kv => Json.arr #[Json.str kv.1, Json.str kv.2]).toArray | none => Json.null),
    ("dtype", optStr o.dtype)]

def vErrName : VErr → String | .notImplemented => "NotImplementedError" | .valueError => "ValueError" | .other => "other"

-- order-preserving wire form of `J`: objects travel as {"o": [[k, v], …]}, arrays as {"a": […]}
mutual
partial def jOfWire (w : Json) : Except String J :=
  match w with
  | Json.null => pure .null
  | Json.bool b => pure (.bool b)
  | Json.str s => pure (.str s)
  | _ =>
    match w.getObjVal? "a" with
    | .ok (Json.arr xs) => do pure (.arr (← jlOfWire xs.toList))
    | _ => match w.getObjVal? "o" with
      | .ok (Json.arr kvs) => do pure (.obj (← joOfWire kvs.toList))
      | _ => throw "bad wire json"
partial def jlOfWire (xs : List Json) : Except String JL :=
  match xs with
  | [] => pure .nil
  | x :: rest => do pure (.cons (← jOfWire x) (← jlOfWire rest))
partial def joOfWire (kvs : List Json) : Except String JO :=
  match kvs with
  | [] => pure .nil
  | kv :: rest => do
    let a ← kv.getArr?
    let k ← (a[0]? |>.getD Json.null).getStr?
    pure (.cons k (← jOfWire (a[1]? |>.getD Json.null)) (← joOfWire rest))
end

mutual
partial def wireOfJ : J → Json
  | .null => Json.null
  | .bool b => Json.bool b
  | .str s => Json.str s
  | .arr l => Json.mkObj [("a", Json.arr (wireOfJL l).toArray)]
  | .obj o => Json.mkObj [("o", Json.arr (wireOfJO o).toArray)]
partial def wireOfJL : JL → List Json
  | .nil => []
  | .cons x xs => wireOfJ x :: wireOfJL xs
partial def wireOfJO : JO → List Json
  | .nil => []
  | .cons k v rest => Json.arr #[Json.str k, wireOfJ v] :: wireOfJO rest
end

-- value trees on the wire: ["T", data, [children]] | ["t", type, value]
mutual
partial def ltreeOfJson (j : Json) : Except String LTree := do
  let a ← j.getArr?
  let d ← (a[1]? |>.getD Json.null).getStr?
  let cs ← (a[2]? |>.getD Json.null).getArr?
  pure (.node d (← lforestOfJson cs.toList))
partial def lforestOfJson (js : List Json) : Except String LForest :=
  match js with
  | [] => pure .nil
  | j :: rest => do
    let a ← j.getArr?
    let tag ← (a[0]? |>.getD Json.null).getStr?
    if tag == "t" then
      pure (.consTok (← (a[1]? |>.getD Json.null).getStr?) (← (a[2]? |>.getD Json.null).getStr?) (← lforestOfJson rest))
    else
      pure (.consTree (← ltreeOfJson j) (← lforestOfJson rest))
end

mutual
partial def jsonOfLTree : LTree → Json
  | .node d cs => Json.arr #["T", Json.str d, Json.arr (jsonOfLForest cs).toArray]
partial def jsonOfLForest : LForest → List Json
  | .nil => []
  | .consTok ty v rest => Json.arr #["t", Json.str ty, Json.str v] :: jsonOfLForest rest
  | .consTree t rest => jsonOfLTree t :: jsonOfLForest rest
end

def natList (j : Json) : Except String (List Nat) := do
  let a ← j.getArr?
  a.toList.mapM fun x => x.getNat?

def newChildOf (j : Json) : Except String NewChild := do
  match j.getObjVal? "tok" with
  | .ok t => do
    let a ← t.getArr?
    pure (.tok (← (a[0]? |>.getD Json.null).getStr?) (← (a[1]? |>.getD Json.null).getStr?))
  | .error _ =>
    match j.getObjVal? "fresh" with
    | .ok t => do pure (.fresh (← ltreeOfJson t))
    | .error _ => do
      let e ← j.getObjVal? "existing"
      let a ← e.getArr?
      pure (.existing (← (a[0]? |>.getD Json.null).getNat?) (← natList (a[1]? |>.getD Json.null)))

def editOf (j : Json) : Except String Edit := do
  let k ← j.getObjValAs? String "k"
  match k with
  | "replace" => pure (.replace (← j.getObjValAs? Nat "i") (← newChildOf (← j.getObjVal? "c")))
  | "remove" => pure (.remove (← j.getObjValAs? Nat "i"))
  | "append" => pure (.append (← newChildOf (← j.getObjVal? "c")))
  | "rebind" => do
    let cs ← (← j.getObjVal? "cs").getArr?
    pure (.rebind (← cs.toList.mapM newChildOf))
  | "setData" => pure (.setData (← j.getObjValAs? String "d"))
  | _ => throw "bad edit"

def roundTrip (cls : String) (j : J) : Option J :=
  match cls with
  | "rc" => (loadRc j).map dumpRc
  | "fc" => (loadFcResult j).map dumpFcResult
  | "efc" => (loadEfc j).map dumpEfc
  | "ahb" => (loadAhb j).map dumpAhb
  | "extract" => (loadExtract j).map dumpExtract
  | "cer" => (loadCer j).map dumpCer
  | "tree" => (loadTree j).map dumpTree
  | _ => none

def partJson (p : Part) (cond : Json) : Json :=
  Json.arr #[Json.str (if p.cond.isSome then "part" else "bare"),
    Json.str (match p.kind with | .modal => "MODAL_MARK" | .prefix_ => "PREFIX_OPERATOR"), str p.ind, cond]

def getStr (j : Json) (k : String) : Except String String := j.getObjValAs? String k

def handle (j : Json) : Except String Json := do
  let op ← getStr j "op"
  match op with
  | "ping" => pure (Json.mkObj [("ok", true)])
  | "parse" =>
    let s ← getStr j "s"
    match parseCond s.toList with
    | some e => pure (Json.mkObj [("tree", exprJson e), ("flat", nexprJson e.flat)])
    | none => pure (Json.mkObj [("err", "SyntaxError")])
  | "scanAhb" =>
    let s ← getStr j "s"
    match scanAhb s.toList with
    | some ps => pure (Json.mkObj [("parts", Json.arr (ps.map fun p => partJson p (match p.cond with | some c => str c | none => Json.null)).toArray)])
    | none => pure (Json.mkObj [("err", "SyntaxError")])
  | "resolve" =>
    let s ← getStr j "s"
    match resolveParse s.toList with
    | .ahb ps => pure (Json.mkObj [("shape", Json.arr #["ahb", Json.arr (ps.map fun pe =>
        partJson pe.1 (match pe.2 with | some e => nexprJson e.flat | none => Json.null)).toArray])])
    | .cond e => pure (Json.mkObj [("shape", Json.arr #["cond", nexprJson e.flat])])
    | .syntaxError => pure (Json.mkObj [("err", "SyntaxError")])
  | "evalRc" =>
    let t ← exprOfJson (← j.getObjVal? "tree")
    match rcEvaluation (rcEnvOf j) (hintEnvOf j) t with
    | .ok r => pure (rcResultJson r)
    | .error e => pure (Json.mkObj [("err", errName e)])
  | "evalFc" =>
    let t ← exprOfJson (← j.getObjVal? "tree")
    match evalFc (fcEnvOf j) t with
    | .ok r => pure (Json.mkObj [("ok", r.ok), ("msg", optStr r.msg)])
    | .error e => pure (Json.mkObj [("err", errName e)])
  | "evalAhb" =>
    -- parts: [[kind, type, ind, tree|null], ...] as produced by the resolver
    let ps ← (← j.getObjVal? "parts").getArr?
    let parts ← ps.toList.mapM fun pj => do
      let a ← pj.getArr?
      let ty ← (a[1]? |>.getD Json.null).getStr?
      let ind ← (a[2]? |>.getD Json.null).getStr?
      let kind := if ty == "MODAL_MARK" then IndKind.modal else IndKind.prefix_
      match a[3]? with
      | some Json.null | none => pure ((⟨kind, ind.toList, none⟩ : Part), (none : Option Expr))
      | some t => do
        let e ← exprOfJson t
        pure ((⟨kind, ind.toList, some []⟩ : Part), some e)
    match evalAhb (rcEnvOf j) (hintEnvOf j) (fcEnvOf j) parts with
    | .ok r => pure (Json.mkObj [("indicator", r.indicator), ("fulfilled", optBool r.rc.fulfilled), ("conditional", optBool r.rc.conditional),
        ("fce", optStr r.rc.fce), ("hints", optStr r.rc.hints), ("fc_ok", r.fc.ok), ("fc_msg", optStr r.fc.msg)])
    | .error e => pure (Json.mkObj [("err", errName e)])
  | "expand" =>
    let t ← exprOfJson (← j.getObjVal? "tree")
    let P : List Char → Option (List Char) := fun k =>
      match lookupObj j "packages" k with
      | some (Json.str s) => some s.toList
      | _ => none
    let rp := (j.getObjValAs? Bool "resolve_packages").toOption.getD true
    let rt := (j.getObjValAs? Bool "replace_time").toOption.getD true
    match resolveTree P rp rt t with
    | .ok e => pure (Json.mkObj [("tree", exprJson e), ("flat", nexprJson e.flat)])
    | .error .valueError => pure (Json.mkObj [("err", "ValueError")])
    | .error .notImplemented => pure (Json.mkObj [("err", "NotImplementedError")])
    | .error .syntaxError => pure (Json.mkObj [("err", "SyntaxError")])
  | "nodeType" =>
    let k ← getStr j "key"
    let name := match nodeType k.toList with
      | some .rc => "REQUIREMENT_CONSTRAINT" | some .hint => "HINT" | some .fc => "FORMAT_CONSTRAINT"
      | some .repeatability => "REPEATABILITY_CONSTRAINT" | some .package => "PACKAGE" | none => "ValueError"
    pure (Json.mkObj [("type", name)])
  | "extract" =>
    let t ← exprOfJson (← j.getObjVal? "tree")
    let strs (l : List (List Char)) : Json := Json.arr (l.map str).toArray
    match extractRaw t with
    | none => pure (Json.mkObj [("err", "ValueError")])
    | some x =>
      let y := if (j.getObjValAs? Bool "sanitize").toOption.getD true then x.sanitize else x
      pure (Json.mkObj [("hint", strs y.hint), ("fc", strs y.fc), ("rc", strs y.rc), ("pkg", strs y.pkg), ("time", strs y.time)])
  | "gen" =>
    let getKeys (f : String) : Except String (List (List Char)) := do
      let a ← (← j.getObjVal? f).getArr?
      a.toList.mapM fun x => do pure (← x.getStr?).toList
    let fcK ← getKeys "fc"
    let rcK ← getKeys "rc"
    let res := genResults fcK rcK
    pure (Json.mkObj [("results", Json.arr (res.map fun fr =>
      Json.arr #[Json.arr (fr.1.map fun kv => Json.arr #[str kv.1, Json.bool kv.2]).toArray,
                 Json.arr (fr.2.map fun kv => Json.arr #[str kv.1, Json.str kv.2.toString]).toArray]).toArray)])
  | "validate" =>
    let soll := (j.getObjValAs? Bool "soll").toOption.getD true
    let lines ← (← j.getObjVal? "lines").getArr?
    let gs ← groupsOf lines.toList
    match validateAhb gs soll with
    | .ok outs => pure (Json.mkObj [("results", Json.arr (outs.map outJson).toArray)])
    | .error e => pure (Json.mkObj [("err", vErrName e)])
  | "validateFull" =>
    -- expression texts + content evaluation result in, validation results out (Model/Full.lean)
    let soll := (j.getObjValAs? Bool "soll").toOption.getD true
    let lines ← (← j.getObjVal? "lines").getArr?
    let gs ← groupsTOf lines.toList
    let P : List Char → Option (List Char) := fun k =>
      match lookupObj j "packages" k with
      | some (Json.str s) => some s.toList
      | _ => none
    let cer : Cer := ⟨rcEnvOf j, hintEnvOf j, fcEnvOf j, P⟩
    match validateAhbFull cer gs soll with
    | .ok outs => pure (Json.mkObj [("results", Json.arr (outs.map outJson).toArray)])
    | .error e => pure (Json.mkObj [("err", vErrName e)])
  | "validateSegment" =>
    let soll := (j.getObjValAs? Bool "soll").toOption.getD true
    let seg ← segmentOf (← j.getObjVal? "segment")
    let parent : Option RVV := match optStrOf j "parent" with
      | some "IS_REQUIRED" => some .IS_REQUIRED | some "IS_OPTIONAL" => some .IS_OPTIONAL | some "IS_FORBIDDEN" => some .IS_FORBIDDEN | _ => none
    match validateSegment seg parent soll with
    | .ok outs => pure (Json.mkObj [("results", Json.arr (outs.map outJson).toArray)])
    | .error e => pure (Json.mkObj [("err", vErrName e)])
  | "time93x" =>
    let f (k : String) : Except String Int := j.getObjValAs? Int k
    let w : Written := ⟨← f "y", ← f "m", ← f "d", ← f "H", ← f "M", ← f "S", ← f "off"⟩
    pure (Json.mkObj [("v931", hasNoUtcOffset w), ("strom", isStromtagLimit w), ("gas", isGastagLimit w)])
  | "iso" =>
    let s ← getStr j "s"
    match parseIso s with
    | .ok w =>
      pure (Json.mkObj [("r", "ok"), ("y", Json.num (JsonNumber.fromInt w.y)), ("m", Json.num (JsonNumber.fromInt w.m)), ("d", Json.num (JsonNumber.fromInt w.d)),
        ("H", Json.num (JsonNumber.fromInt w.hh)), ("M", Json.num (JsonNumber.fromInt w.mm)), ("S", Json.num (JsonNumber.fromInt w.ss)),
        ("off", Json.num (JsonNumber.fromInt w.off)),
        ("v931", hasNoUtcOffset w), ("strom", isStromtagLimit w), ("gas", isGastagLimit w)])
    | .invalid => pure (Json.mkObj [("r", "invalid")])
    | .unmodelled => pure (Json.mkObj [("r", "unmodelled")])
  | "write" =>
    let t ← j.getObjValAs? Int "t"
    let off ← j.getObjValAs? Int "off"
    let sep := ((← getStr j "sep").toList.head?).getD 'T'
    let st ← match (← getStr j "st") with
      | "zulu" => pure OffStyle.zulu
      | "short" => pure OffStyle.short
      | "long" => pure OffStyle.long
      | "negzero" => pure OffStyle.negZero
      | other => throw s!"unknown style {other}"
    let w := writeInstant t off
    pure (Json.mkObj [("s", Json.str (String.ofList (renderIso sep st w))), ("fits", styleFits st off), ("valid", w.valid)])
  | "roundtrip" =>
    let cls ← getStr j "cls"
    let w ← jOfWire (← j.getObjVal? "json")
    match roundTrip cls w with
    | some d => pure (Json.mkObj [("json", wireOfJ d)])
    | none => pure (Json.mkObj [("err", "ValidationError")])
  | "cacheOps" =>
    let mode := if (← getStr j "mode") == "deep" then CopyMode.deep else CopyMode.shareChildren
    let cap ← j.getObjValAs? Nat "cap"
    let pureTab ← j.getObjVal? "pure"
    let pp : String → Option LTree := fun s =>
      match pureTab.getObjVal? s with
      | .ok t => (ltreeOfJson t).toOption
      | .error _ => none
    let opsJ ← (← j.getObjVal? "ops").getArr?
    let ops ← opsJ.toList.mapM fun o => do
      let a ← o.getArr?
      let tag ← (a[0]? |>.getD Json.null).getStr?
      if tag == "parse" then pure (HOp.parse (← (a[1]? |>.getD Json.null).getStr?))
      else pure (HOp.edit (← (a[1]? |>.getD Json.null).getNat?) (← natList (a[2]? |>.getD Json.null)) (← editOf (a[3]? |>.getD Json.null)))
    let outs := runOps pp mode cap State.init ops
    pure (Json.mkObj [("returned", Json.arr (outs.map fun o => match o with | some t => jsonOfLTree t | none => Json.null).toArray)])
  | "gatherIfNecessary" =>
    let a ← (← j.getObjVal? "items").getArr?
    let items ← a.toList.mapM fun x => do
      let p ← x.getArr?
      let tag ← (p[0]? |>.getD Json.null).getStr?
      let v := p[1]? |>.getD Json.null
      pure (if tag == "a" then MaybeAwaitable.awaitable v else MaybeAwaitable.result v)
    pure (Json.mkObj [("result", Json.arr (gatherIfNecessary items).toArray)])
  | "trace" =>
    -- recorded program of a validation run: tasks [[ops...], ...] with ops ["set", v] | ["spawn", c] | ["get"], parent [[p, j] | null, ...], inputOf [v | null, ...]
    let tasks ← (← j.getObjVal? "tasks").getArr?
    let progs ← tasks.toList.mapM fun t => do
      let ops ← t.getArr?
      ops.toList.mapM fun o => do
        let a ← o.getArr?
        let tag ← (a[0]? |>.getD Json.null).getStr?
        match tag with
        | "set" => pure (COp.set (← (a[1]? |>.getD Json.null).getNat?))
        | "spawn" => pure (COp.spawn (← (a[1]? |>.getD Json.null).getNat?))
        | _ => pure COp.get
    let P : Tid → List COp := fun t => progs.getD t []
    let parentsJ ← (← j.getObjVal? "parent").getArr?
    let parents : List (Option (Tid × Nat)) := parentsJ.toList.map fun p =>
      match p.getArr? with
      | .ok a => match (a[0]? |>.getD Json.null).getNat?, (a[1]? |>.getD Json.null).getNat? with
        | .ok x, .ok y => some (x, y)
        | _, _ => none
      | .error _ => none
    let parent : Tid → Option (Tid × Nat) := fun t => (parents.getD t none)
    let inputsJ ← (← j.getObjVal? "inputOf").getArr?
    let inputOf : Tid → Option Nat := fun t => match inputsJ.toList.getD t Json.null with
      | Json.null => none
      | x => x.getNat?.toOption
    let n := progs.length
    -- CWF, decided on the finite program
    let wfRoot := parent 0 == none
    let wfLt := (List.range n).all fun t => match parent t with | some (p, _) => p < t | none => true
    let wfSpawn := (List.range n).all fun t => (List.range (P t).length).all fun i =>
      match (P t)[i]? with
      | some (COp.spawn c) => parent c == some (t, i)
      | _ => true
    -- WellScoped + the expected value of every get
    let gets := (List.range n).flatMap fun t => (List.range (P t).length).filterMap fun i =>
      match (P t)[i]? with
      | some COp.get => some (t, i, expected P parent t i)
      | _ => none
    let wellSc := gets.all fun g => g.2.2 == inputOf g.1
    pure (Json.mkObj [("wf", wfRoot && wfLt && wfSpawn), ("well_scoped", wellSc),
      ("gets", Json.arr (gets.map fun g => Json.arr #[Json.num g.1, Json.num g.2.1, match g.2.2 with | some v => Json.num v | none => Json.null]).toArray)])
  | _ => throw s!"unknown op {op}"

partial def loop (h : IO.FS.Stream) (out : IO.FS.Stream) : IO Unit := do
  let line ← h.getLine
  if line.isEmpty then return ()
  let ans := match Json.parse line with
    | .ok j => match handle j with
      | .ok r => r
      | .error e => Json.mkObj [("error", e)]
    | .error e => Json.mkObj [("error", e)]
  out.putStrLn ans.compress
  loop h out

def main : IO Unit := do
  loop (← IO.getStdin) (← IO.getStdout)
