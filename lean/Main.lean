import Lean.Data.Json
import Ahbicht.Model.CFV
import Ahbicht.Model.Parse
import Ahbicht.Model.Ahb
/-!
# line-protocol driver: one JSON request per line on stdin, one JSON answer per line on stdout
-/
open Lean Ahbicht

def str (cs : List Char) : Json := Json.str (String.ofList cs)

def atomJson : Atom → Json
  | .cond k => Json.arr #["cond", str k]
  | .pkg k none => Json.arr #["pkg", str k, Json.null]
  | .pkg k (some r) => Json.arr #["pkg", str k, str r]
  | .time k => Json.arr #["time", str k]

partial def exprJson : Expr → Json
  | .leaf a => atomJson a
  | .bin o l r => Json.arr #[Json.str o.ruleName, exprJson l, exprJson r]

partial def nexprJson : NExpr → Json
  | .leaf a => atomJson a
  | .node o as => Json.arr (#[Json.str o.ruleName] ++ (as.map nexprJson).toArray)

def partJson (p : Part) (cond : Json) : Json :=
  Json.arr #[Json.str (if p.cond.isSome then "part" else "bare"),
    Json.str (match p.kind with | .modal => "MODAL_MARK" | .prefix_ => "PREFIX_OPERATOR"), str p.ind, cond]

def getStr (j : Json) (k : String) : Except String String := j.getObjValAs? String k

def handle (j : Json) : Except String Json := do
  let op ← getStr j "op"
  match op with
  | "ping" => pure (Json.mkObj [("ok", true)])
  | "parse" =>
    let s ← getStr j "s"
    match parseCond s.toList with
    | some e => pure (Json.mkObj [("tree", exprJson e), ("flat", nexprJson e.flat)])
    | none => pure (Json.mkObj [("err", "SyntaxError")])
  | "scanAhb" =>
    let s ← getStr j "s"
    match scanAhb s.toList with
    | some ps => pure (Json.mkObj [("parts", Json.arr (ps.map fun p => partJson p (match p.cond with | some c => str c | none => Json.null)).toArray)])
    | none => pure (Json.mkObj [("err", "SyntaxError")])
  | "resolve" =>
    let s ← getStr j "s"
    match resolveParse s.toList with
    | .ahb ps => pure (Json.mkObj [("shape", Json.arr #["ahb", Json.arr (ps.map fun pe =>
        partJson pe.1 (match pe.2 with | some e => nexprJson e.flat | none => Json.null)).toArray])])
    | .cond e => pure (Json.mkObj [("shape", Json.arr #["cond", nexprJson e.flat])])
    | .syntaxError => pure (Json.mkObj [("err", "SyntaxError")])
  | _ => throw s!"unknown op {op}"

partial def loop (h : IO.FS.Stream) (out : IO.FS.Stream) : IO Unit := do
  let line ← h.getLine
  if line.isEmpty then return ()
  let ans := match Json.parse line with
    | .ok j => match handle j with
      | .ok r => r
      | .error e => Json.mkObj [("error", e)]
    | .error e => Json.mkObj [("error", e)]
  out.putStrLn ans.compress
  loop h out

def main : IO Unit := do
  loop (← IO.getStdin) (← IO.getStdout)
