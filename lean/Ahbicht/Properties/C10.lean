import Ahbicht.Lemmas.Subst
import Ahbicht.Lemmas.Lex
/-!
# C10 — resolving packages and time conditions is exact bracketed substitution

Token level: replacing every package token `[nP…]` by `(` tokens of its expression `)` and every time condition by
its format-constraint tokens, and then parsing, gives **exactly** the tree that expansion of the parsed tree gives
(`C10_subst_packages`, `C10_subst_time`, `C10_subst`).  One level only (`C10_one_level`); an unknown package aborts
(`C10_unknown`).  The textual form of one replacement is `C10_textual`.
-/
namespace Ahbicht.Properties.C10
open Ahbicht

/-- tokens a package is replaced by: `(` body `)` if the resolver knows a well-formed body, else the package itself -/
def pkgToks (P : List Char → Option (List Char)) : Atom → List Tok
  | .pkg k r =>
    match (P k).bind lex with
    | some bt => if (parseToks bt).isSome then .lp :: bt ++ [.rp] else [.atom (.pkg k r)]
    | none => [.atom (.pkg k r)]
  | a => [.atom a]

theorem realises_atom (a : Atom) (f : Frame) (st : List Frame) : runToks (f :: st) [.atom a] = some (f.push (.leaf a) :: st) := by
  simp [runToks, stepTok]

theorem pkg_realises (P : List Char → Option (List Char)) : Realises (pkgToks P) (pkgSubst P) := by
  intro a f st
  cases a with
  | cond k => exact realises_atom _ f st
  | time k => exact realises_atom _ f st
  | pkg k r =>
    cases hP : P k with
    | none =>
      have : pkgToks P (.pkg k r) = [.atom (.pkg k r)] := by simp [pkgToks, hP]
      rw [this]
      have : pkgSubst P (.pkg k r) = .leaf (.pkg k r) := by simp [pkgSubst, hP]
      rw [this]; exact realises_atom _ f st
    | some body =>
      cases hl : lex body with
      | none =>
        have : pkgToks P (.pkg k r) = [.atom (.pkg k r)] := by simp [pkgToks, hP, hl]
        rw [this]
        have : pkgSubst P (.pkg k r) = .leaf (.pkg k r) := by simp [pkgSubst, hP, parseCond, hl]
        rw [this]; exact realises_atom _ f st
      | some bt =>
        cases hp : parseToks bt with
        | none =>
          have : pkgToks P (.pkg k r) = [.atom (.pkg k r)] := by simp [pkgToks, hP, hl, hp]
          rw [this]
          have : pkgSubst P (.pkg k r) = .leaf (.pkg k r) := by simp [pkgSubst, hP, parseCond, hl, hp]
          rw [this]; exact realises_atom _ f st
        | some be =>
          have : pkgToks P (.pkg k r) = .lp :: bt ++ [.rp] := by simp [pkgToks, hP, hl, hp]
          rw [this]
          have : pkgSubst P (.pkg k r) = be := by simp [pkgSubst, hP, parseCond, hl, hp]
          rw [this]; exact run_bracketed hp f st

/-- **C10 (packages).** -/
theorem C10_subst_packages (P : List Char → Option (List Char)) {ts : List Tok} {e : Expr} (h : parseToks ts = some e) :
    parseToks (substToks (pkgToks P) ts) = some (e.bind (pkgSubst P)) :=
  parse_subst (pkg_realises P) h

/-- tokens of `[932][492]X[934][493]` -/
def ub3Toks : List Tok :=
  [.atom (.cond ['9','3','2']), .atom (.cond ['4','9','2']), .op .xor_, .atom (.cond ['9','3','4']), .atom (.cond ['4','9','3'])]

theorem ub3_lex : lex "[932][492]X[934][493]".toList = some ub3Toks := by decide
theorem ub3_parse : parseToks ub3Toks = some ub3Tree := by decide

def timeToks : Atom → List Tok
  | .time ['U','B','1'] => [.atom (.cond ['9','3','2'])]
  | .time ['U','B','2'] => [.atom (.cond ['9','3','4'])]
  | .time ['U','B','3'] => .lp :: ub3Toks ++ [.rp]
  | a => [.atom a]

theorem time_realises : Realises timeToks timeSubst := by
  intro a f st
  unfold timeToks timeSubst
  split
  · exact realises_atom _ f st
  · exact realises_atom _ f st
  · exact run_bracketed ub3_parse f st
  · split <;> first | exact realises_atom _ f st | simp_all

/-- **C10 (time conditions).** `[UB1]` ↦ `[932]`, `[UB2]` ↦ `[934]`, `[UB3]` ↦ `([932][492]X[934][493])` -/
theorem C10_subst_time {ts : List Tok} {e : Expr} (h : parseToks ts = some e) :
    parseToks (substToks timeToks ts) = some (expandTime e) :=
  parse_subst time_realises h

/-- **C10.** Both steps, in the order of the resolver: packages first, so that time conditions inside package
expressions are replaced as well. -/
theorem C10_subst (P : List Char → Option (List Char)) {ts : List Tok} {e e' : Expr} (h : parseToks ts = some e)
    (hx : expandPkg P e = .ok e') :
    parseToks (substToks timeToks (substToks (pkgToks P) ts)) = some (expandTime e') := by
  have he' : e' = e.bind (pkgSubst P) := by
    unfold expandPkg at hx
    split at hx
    · cases hx
    · cases hx; rfl
  rw [he']
  exact C10_subst_time (C10_subst_packages P h)

theorem atoms_bind (σ : Atom → Expr) (e : Expr) : (e.bind σ).atoms = e.atoms.flatMap (fun a => (σ a).atoms) := by
  induction e with
  | leaf a => simp [Expr.bind, Expr.atoms]
  | bin o l r ihl ihr => simp [Expr.bind, Expr.atoms, ihl, ihr]

/-- **C10 (one level).** After expansion the atoms are exactly the atoms of the package expressions, untouched:
packages inside a package expression are still packages. -/
theorem C10_one_level (P : List Char → Option (List Char)) (e : Expr) :
    (e.bind (pkgSubst P)).atoms = e.atoms.flatMap (fun a => (pkgSubst P a).atoms) := atoms_bind _ _

/-- **C10 (unknown package).** With well-formed repeatabilities, a package the resolver does not know aborts the expansion. -/
theorem C10_unknown (P : List Char → Option (List Char)) (e : Expr)
    (hrep : ∀ k r, Atom.pkg k (some r) ∈ e.atoms → repOk r = true)
    (hun : ∃ k r, Atom.pkg k r ∈ e.atoms ∧ P k = none) : expandPkg P e = .error .notImplemented := by
  obtain ⟨k, r, hmem, hk⟩ := hun
  unfold expandPkg pkgFailure
  have h1 : (pkgPairs e).any badRep = false := by
    rw [List.any_eq_false]
    intro kr hkr
    simp only [pkgPairs, List.mem_filterMap] at hkr
    obtain ⟨a, ha, hka⟩ := hkr
    cases a with
    | cond _ => simp [Atom.pkgPair] at hka
    | time _ => simp [Atom.pkgPair] at hka
    | pkg k' r' =>
      simp [Atom.pkgPair] at hka; subst hka
      cases r' with
      | none => simp [badRep]
      | some rr => simp [badRep, hrep k' rr ha]
  have h2 : (pkgPairs e).any (fun kr => (P kr.1).isNone) = true := by
    rw [List.any_eq_true]
    exact ⟨(k, r), by simp only [pkgPairs, List.mem_filterMap]; exact ⟨_, hmem, rfl⟩, by simp [hk]⟩
  simp [h1, h2]

theorem lex_seq {s s1 s2 : LState} {a b : List Char} {t1 t2 : List Tok}
    (h1 : lexFrom s a = some (s1, t1)) (h2 : lexFrom s1 b = some (s2, t2)) :
    lexFrom s (a ++ b) = some (s2, t1 ++ t2) := by
  rw [lexFrom_append, h1]; simp [h2]

/-- **C10 (textual form of one replacement).** If `pre` and `post` are texts that the scanner leaves between tokens, then replacing
the text of one atom by `(` + body + `)` replaces its token by `(` tokens of the body `)`. -/
theorem C10_textual {pre atomText body post : List Char} {ts₁ ts₂ bt : List Tok} {a : Atom}
    (h1 : lexFrom .out pre = some (.out, ts₁)) (h2 : lexFrom .out atomText = some (.out, [.atom a]))
    (h3 : lexFrom .out post = some (.out, ts₂)) (hb : lexFrom .out body = some (.out, bt)) :
    lex (pre ++ (atomText ++ post)) = some (ts₁ ++ ([.atom a] ++ ts₂)) ∧
    lex (pre ++ (['('] ++ (body ++ ([')'] ++ post)))) = some (ts₁ ++ ([.lp] ++ (bt ++ ([.rp] ++ ts₂)))) := by
  have hlp : lexFrom .out ['('] = some (.out, [.lp]) := by decide
  have hrp : lexFrom .out [')'] = some (.out, [.rp]) := by decide
  constructor
  · unfold lex; rw [lex_seq h1 (lex_seq h2 h3)]
  · unfold lex; rw [lex_seq h1 (lex_seq hlp (lex_seq hb (lex_seq hrp h3)))]

/-! non-vacuity: `[1] U [7P]` with `7P ↦ [2] O [3]` -/
example :
    let P : List Char → Option (List Char) := fun k => if k = "7P".toList then some "[2] O [3]".toList else none
    (parseCond "[1] U [7P]".toList).map (Expr.bind (pkgSubst P)) = parseCond "[1] U ([2] O [3])".toList := by decide

end Ahbicht.Properties.C10
