import Ahbicht.Model.Resolve
namespace Ahbicht.Properties.C10
theorem placeholder : True := trivial
end Ahbicht.Properties.C10
