import Ahbicht.Lemmas.Rc
/-!
# C04 — requirement-constraint evaluation equals the documented compositional semantics

`evalRc` mirrors `RequirementConstraintTransformer` (node classes, `getattr(…, "hint", None)`, both expression
builders); `denote` is the four-line specification.  The theorems say that on the documented domain the
hint / format-constraint machinery never leaks into the state, for every tree and every assignment.
-/
namespace Ahbicht.Properties.C04
open Ahbicht

variable {rcEnv : List Char → Option CFV} {hintEnv : List Char → Option String}

/-- **C04 (state).** -/
theorem C04_state {t : Expr} (hwf : WF t = true) (hv : invalidAt t = false) (ha : Assigns rcEnv hintEnv t) :
    ∃ n, evalRc (mkEnv rcEnv hintEnv) t = .ok n ∧ n.state = denote rcEnv t := by
  obtain ⟨n, hn, g⟩ := (eval_char t hwf ha).2 hv
  exact ⟨n, hn, g.state⟩

/-- the reported outcome is a function of the state alone: FULFILLED ↦ (true, conditional), NEUTRAL ↦ (true, unconditional),
UNFULFILLED ↦ (false, conditional), UNKNOWN ↦ (undetermined, undetermined) -/
theorem C04_report (n : Node) : ((report n).fulfilled, (report n).conditional) = outcomeOf n.state := by
  cases h : n.state <;> simp [report, outcomeOf, h]

/-- **C04 (outcome).** The whole of `requirement_constraint_evaluation`: for a valid expression of the documented
domain and any assignment the result exists (no other error on the domain) and reports the outcome of `denote`. -/
theorem C04_outcome {t : Expr} (hwf : WF t = true) (hv : invalidAt t = false) (ha : Assigns rcEnv hintEnv t) :
    ∃ r, rcEvaluation rcEnv hintEnv t = .ok r ∧ (r.fulfilled, r.conditional) = outcomeOf (denote rcEnv t) := by
  obtain ⟨n, hn, hst⟩ := C04_state hwf hv ha
  refine ⟨report n, ?_, by rw [C04_report, hst]⟩
  rw [rcEvaluation_eq hwf ha, hn]
  rfl

/-! non-vacuity: `([1] U [501]) O [2][901]` with 1 ↦ UNKNOWN, 2 ↦ FULFILLED is in the domain, valid, and evaluates to FULFILLED -/
section
private def ex : Expr :=
  .bin .or_ (.bin .and_ (.leaf (.cond ['1'])) (.leaf (.cond ['5','0','1'])))
            (.bin .then_ (.leaf (.cond ['2'])) (.leaf (.cond ['9','0','1'])))
private def exRc : List Char → Option CFV := fun k => if k = ['1'] then some .K else if k = ['2'] then some .F else none
private def exHint : List Char → Option String := fun k => if k = ['5','0','1'] then some "Hinweis 501" else none
example : WF ex = true ∧ invalidAt ex = false ∧ denote exRc ex = .F := by decide
example : (rcEvaluation exRc exHint ex).toOption.map (fun r => (r.fulfilled, r.conditional, r.fce, r.hints)) =
    some (some true, some true, some "[901]", some "Hinweis 501") := by decide
end

end Ahbicht.Properties.C04
