import Ahbicht.Lemmas.Lang
import Ahbicht.Lemmas.Lex
import Ahbicht.Model.Ahb
/-!
# C02 — parsers accept exactly the documented language; all else is a SyntaxError

* `C02_cond_language`: the condition parser's acceptance on token lists is exactly the grammar
  `e ::= e OP e | e e | ( e ) | atom` (soundness: nothing malformed is accepted; completeness).
* `C02_model_total`: the three entry points of the model return a tree or `SyntaxError`, nothing else
  (that the implementation lets no other exception escape is tied by the outcome-class correspondence).
* `C02_ahb_not_cond`, `C02_ahb_bad_cond`: an AHB-shaped string is never a condition expression, hence an
  AHB expression with a malformed condition part ends in `SyntaxError` (the fall-back cannot rescue it).
-/
namespace Ahbicht.Properties.C02
open Ahbicht Generated

/-- **C02 (accepted condition expressions).** -/
theorem C02_cond_language (ts : List Tok) : (parseToks ts).isSome = true ↔ Lang ts :=
  (parseToks_isSome_iff ts).trans (sh_accept_iff_lang ts)

/-- an accepted token list is never empty, never starts or ends with an operator, never has two operators in a row -/
theorem C02_no_empty : ¬ Lang [] := by
  intro h
  have := (sh_accept_iff_lang []).2 h
  simp [runSh] at this

theorem C02_no_leading_operator (o : Op3) (ts : List Tok) : ¬ Lang (.op o :: ts) := by
  intro h
  have := (sh_accept_iff_lang _).2 h
  simp [runSh, stepSh] at this

theorem C02_no_unopened_bracket (ts : List Tok) : ¬ Lang (.rp :: ts) := by
  intro h
  have := (sh_accept_iff_lang _).2 h
  simp [runSh, stepSh] at this

theorem C02_no_empty_brackets (ts : List Tok) : ¬ Lang (.lp :: .rp :: ts) := by
  intro h
  have := (sh_accept_iff_lang _).2 h
  simp [runSh, stepSh] at this

/-- **C02 (characters).** The character classes the scanner works with — extracted from the regex engine over all code points on every run —
are the documented ones: ASCII digits in keys and package numbers, the five whitespace characters of `WS`, the six operator spellings,
the four bracket characters. (The repeatability `a..b` is matched with the engine's `\d`, see DESIGN §3.3.) -/
theorem C02_classes_as_documented :
    cc_intDigit = [(48, 57)] ∧ cc_repFirstMax = [(49, 57)] ∧ cc_ws = [(9, 10), (12, 13), (32, 32)] ∧
    cc_opOr = [(79, 79), (111, 111), (8744, 8744)] ∧ cc_opXor = [(88, 88), (120, 120), (8891, 8891)] ∧
    cc_opAnd = [(85, 85), (117, 117), (8743, 8743)] ∧
    cc_lpar = [(40, 40)] ∧ cc_rpar = [(41, 41)] ∧ cc_lsqb = [(91, 91)] ∧ cc_rsqb = [(93, 93)] := by decide

/-- **C02 (totality of the model).** -/
theorem C02_model_total (cs : List Char) :
    (∃ ps, resolveParse cs = .ahb ps) ∨ (∃ e, resolveParse cs = .cond e) ∨ resolveParse cs = .syntaxError := by
  cases h : resolveParse cs with
  | ahb ps => exact Or.inl ⟨ps, rfl⟩
  | cond e => exact Or.inr (Or.inl ⟨e, rfl⟩)
  | syntaxError => exact Or.inr (Or.inr rfl)

/-- facts about the extracted classes used below -/
structure AhbFacts : Prop where
  m_ws : disj cc_mm_up_M cc_ws = true
  m_lsqb : disj cc_mm_up_M cc_lsqb = true
  m_lpar : disj cc_mm_up_M cc_lpar = true
  m_rpar : disj cc_mm_up_M cc_rpar = true
  m_or : disj cc_mm_up_M cc_opOr = true
  m_xor : disj cc_mm_up_M cc_opXor = true
  m_and : disj cc_mm_up_M cc_opAnd = true
  s_ws : disj cc_mm_up_S cc_ws = true
  s_lsqb : disj cc_mm_up_S cc_lsqb = true
  s_lpar : disj cc_mm_up_S cc_lpar = true
  s_rpar : disj cc_mm_up_S cc_rpar = true
  s_or : disj cc_mm_up_S cc_opOr = true
  s_xor : disj cc_mm_up_S cc_opXor = true
  s_and : disj cc_mm_up_S cc_opAnd = true
  k_ws : disj cc_mm_up_K cc_ws = true
  k_lsqb : disj cc_mm_up_K cc_lsqb = true
  k_lpar : disj cc_mm_up_K cc_lpar = true
  k_rpar : disj cc_mm_up_K cc_rpar = true
  k_or : disj cc_mm_up_K cc_opOr = true
  k_xor : disj cc_mm_up_K cc_opXor = true
  k_and : disj cc_mm_up_K cc_opAnd = true
  p_ws : disj cc_prefixOp cc_ws = true
  p_lsqb : disj cc_prefixOp cc_lsqb = true
  p_lpar : disj cc_prefixOp cc_lpar = true
  p_rpar : disj cc_prefixOp cc_rpar = true

theorem ahbFacts : AhbFacts := by constructor <;> decide

private theorem lex_none_of_step {c : Char} {rest : List Char} (h : lexStep .out c = none) :
    lex (c :: rest) = none := by
  simp [lex, lexFrom, h]

private theorem out_none {c : Char} (h1 : isWs c = false) (h2 : isLsqb c = false) (h3 : isLpar c = false)
    (h4 : isRpar c = false) (h5 : isOpOr c = false) (h6 : isOpXor c = false) (h7 : isOpAnd c = false) :
    lexStep .out c = none := by
  simp [lexStep, h1, h2, h3, h4, h5, h6, h7]

private theorem parse_op_first (o : Op3) (ts : List Tok) : parseToks (.op o :: ts) = none := by
  simp [parseToks, runToks, stepTok]

private theorem lex_first_tok {c : Char} {rest : List Char} {t : Tok} (h : lexStep .out c = some (.out, some t)) :
    lex (c :: rest) = none ∨ ∃ ts, lex (c :: rest) = some (t :: ts) := by
  unfold lex
  simp only [lexFrom, h]
  cases lexFrom .out rest with
  | none => exact Or.inl rfl
  | some p =>
    obtain ⟨s, ts⟩ := p
    cases s <;> first | exact Or.inr ⟨ts, rfl⟩ | exact Or.inl rfl

private theorem parseCond_op_first {c : Char} {rest : List Char} {o : Op3} (h : lexStep .out c = some (.out, some (.op o))) :
    parseCond (c :: rest) = none := by
  rcases lex_first_tok (rest := rest) h with h' | ⟨ts, h'⟩
  · simp [parseCond, h']
  · simp [parseCond, h', parse_op_first]

/-- what begins with a prefix operator is not a condition expression -/
theorem prefix_not_cond {c : Char} {rest : List Char} (hc : isPrefixOp c = true) : parseCond (c :: rest) = none := by
  have F := ahbFacts
  have h1 : isWs c = false := disj_sound F.p_ws hc
  have h2 : isLsqb c = false := disj_sound F.p_lsqb hc
  have h3 : isLpar c = false := disj_sound F.p_lpar hc
  have h4 : isRpar c = false := disj_sound F.p_rpar hc
  by_cases h5 : isOpOr c = true
  · exact parseCond_op_first (o := .or_) (by simp [lexStep, h1, h2, h3, h4, h5])
  · by_cases h6 : isOpXor c = true
    · exact parseCond_op_first (o := .xor_) (by simp [lexStep, h1, h2, h3, h4, h5, h6])
    · by_cases h7 : isOpAnd c = true
      · exact parseCond_op_first (o := .and_) (by simp [lexStep, h1, h2, h3, h4, h5, h6, h7])
      · have : lexStep .out c = none := by simp [lexStep, h1, h2, h3, h4, h5, h6, h7]
        simp [parseCond, lex_none_of_step this]

/-- what begins with a modal mark is not a condition expression -/
theorem modal_not_cond {cs mm rest : List Char} (h : modalMark cs = some (mm, rest)) : parseCond cs = none := by
  have F := ahbFacts
  cases cs with
  | nil => simp [modalMark] at h
  | cons c cs' =>
    have key : lexStep .out c = none := by
      unfold modalMark at h
      by_cases hM : inRanges cc_mm_up_M c = true
      · exact out_none (disj_sound F.m_ws hM) (disj_sound F.m_lsqb hM) (disj_sound F.m_lpar hM) (disj_sound F.m_rpar hM)
          (disj_sound F.m_or hM) (disj_sound F.m_xor hM) (disj_sound F.m_and hM)
      · by_cases hS : inRanges cc_mm_up_S c = true
        · exact out_none (disj_sound F.s_ws hS) (disj_sound F.s_lsqb hS) (disj_sound F.s_lpar hS) (disj_sound F.s_rpar hS)
            (disj_sound F.s_or hS) (disj_sound F.s_xor hS) (disj_sound F.s_and hS)
        · by_cases hK : inRanges cc_mm_up_K c = true
          · exact out_none (disj_sound F.k_ws hK) (disj_sound F.k_lsqb hK) (disj_sound F.k_lpar hK) (disj_sound F.k_rpar hK)
              (disj_sound F.k_or hK) (disj_sound F.k_xor hK) (disj_sound F.k_and hK)
          · simp [hM, hS, hK] at h
    simp [parseCond, lex_none_of_step key]

theorem scanModal_modalMark {fuel : Nat} {cs : List Char} {ps : List Part} (h : scanModal fuel cs = some ps) :
    ∃ mm rest, modalMark cs = some (mm, rest) := by
  cases fuel with
  | zero => simp [scanModal] at h
  | succ n =>
    unfold scanModal at h
    cases hm : modalMark cs with
    | none => simp [hm] at h
    | some p => exact ⟨p.1, p.2, rfl⟩

/-- **C02.** An AHB-shaped string is never a well-formed condition expression … -/
theorem C02_ahb_not_cond {cs : List Char} {ps : List Part} (h : scanAhb cs = some ps) : parseCond cs = none := by
  unfold scanAhb at h
  cases cs with
  | nil => simp at h
  | cons c rest =>
    by_cases hp : isPrefixOp c = true
    · exact prefix_not_cond hp
    · simp only [hp] at h
      cases hs : scanModal ((c :: rest).length + 1) (c :: rest) with
      | none => simp only [List.length_cons] at hs; simp [hs] at h
      | some ps' =>
        obtain ⟨mm, r, hmm⟩ := scanModal_modalMark hs
        exact modal_not_cond hmm

/-- … hence an AHB expression whose indicator structure is fine but one of whose condition parts is malformed
is rejected with `SyntaxError` (the fall-back to the condition parser cannot rescue it). -/
theorem C02_ahb_bad_cond {cs : List Char} {ps : List Part} (h : scanAhb cs = some ps)
    (hbad : ∃ p ∈ ps, ∃ c, p.cond = some c ∧ parseCond c = none) : resolveParse cs = .syntaxError := by
  unfold resolveParse
  simp only [h, C02_ahb_not_cond h]
  split
  · rename_i hall
    exfalso
    obtain ⟨p, hp, c, hc, hnone⟩ := hbad
    simp only [List.all_eq_true, List.mem_map, forall_exists_index, and_imp, forall_apply_eq_imp_iff₂] at hall
    have := hall p hp
    simp [hc, hnone] at this
  · rfl

/-- the validity check of the model answers `(false, reason)` on such input (shape of `is_valid_expression`) -/
def isValidSyntaxStage (cs : List Char) : Option (Bool × String) :=
  match resolveParse cs with
  | .syntaxError => some (false, "SyntaxError")
  | _ => none   -- evaluation stage decides (C06)

theorem C02_validity_check {cs : List Char} (h : resolveParse cs = .syntaxError) :
    isValidSyntaxStage cs = some (false, "SyntaxError") := by
  simp [isValidSyntaxStage, h]

/-! non-vacuity -/
example : scanAhb "Muss [1".toList = some [⟨.modal, "Muss".toList, some " [1".toList⟩] := by decide
example : resolveParse "Muss [1".toList = .syntaxError :=
  C02_ahb_bad_cond (ps := [⟨.modal, "Muss".toList, some " [1".toList⟩]) (by decide)
    ⟨_, List.mem_cons_self, " [1".toList, rfl, by decide⟩
example : Lang [.atom (.cond ['1']), .op .and_, .lp, .atom (.cond ['2']), .atom (.cond ['3']), .rp] :=
  (C02_cond_language _).1 (by decide)

end Ahbicht.Properties.C02
