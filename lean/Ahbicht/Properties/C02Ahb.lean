import Ahbicht.Properties.C09Split
/-!
# C02 (AHB expressions) — the AHB scanner accepts nothing but the documented shape

`C09_split_modal` / `C09_split_prefix` (Properties/C09Split.lean) say that every expression of the documented shape is split into its
parts.  Here is the converse: whatever the scanner accepts *is* of the documented shape, and the parts it returns spell the input.
-/
namespace Ahbicht.Properties.C02Ahb
open Ahbicht Generated Ahbicht.Properties.C09Split

/-- the text a part stands for -/
def partText (p : Part) : List Char := p.ind ++ p.cond.getD []


theorem matches3_true {a b c : List (Nat × Nat)} {cs : List Char} (h : matches3 a b c cs = true) :
    ∃ x y z t, cs = x :: y :: z :: t ∧ inRanges a x = true ∧ inRanges b y = true ∧ inRanges c z = true := by
  match cs, h with
  | [], h => simp [matches3] at h
  | [_], h => simp [matches3] at h
  | [_, _], h => simp [matches3] at h
  | x :: y :: z :: t, h =>
    simp [matches3] at h
    exact ⟨x, y, z, t, rfl, h.1.1, h.1.2, h.2⟩

theorem modalMark_sound {cs mm rest : List Char} (h : modalMark cs = some (mm, rest)) :
    cs = mm ++ rest ∧ SpellMark mm ∧ ∃ c tl, cs = c :: tl ∧ MarkStart c := by
  cases cs with
  | nil => simp [modalMark] at h
  | cons c cs =>
    simp only [modalMark] at h
    by_cases hM : inRanges cc_mm_up_M c = true
    · rw [if_pos hM] at h
      by_cases h3 : matches3 cc_mm_lo_u cc_mm_lo_s cc_mm_lo_s cs = true
      · rw [if_pos h3] at h
        obtain ⟨x, y, z, t, rfl, hx, hy, hz⟩ := matches3_true h3
        simp at h
        obtain ⟨rfl, rfl⟩ := h
        exact ⟨rfl, .muss _ _ _ _ hM hx hy hz, _, _, rfl, Or.inl hM⟩
      · rw [if_neg h3] at h
        simp at h
        obtain ⟨rfl, rfl⟩ := h
        exact ⟨rfl, .m _ hM, _, _, rfl, Or.inl hM⟩
    · rw [if_neg hM] at h
      by_cases hS : inRanges cc_mm_up_S c = true
      · rw [if_pos hS] at h
        by_cases h3 : matches3 cc_mm_lo_o cc_mm_lo_l cc_mm_lo_l cs = true
        · rw [if_pos h3] at h
          obtain ⟨x, y, z, t, rfl, hx, hy, hz⟩ := matches3_true h3
          simp at h
          obtain ⟨rfl, rfl⟩ := h
          exact ⟨rfl, .soll _ _ _ _ hS hx hy hz, _, _, rfl, Or.inr (Or.inl hS)⟩
        · rw [if_neg h3] at h
          simp at h
          obtain ⟨rfl, rfl⟩ := h
          exact ⟨rfl, .s _ hS, _, _, rfl, Or.inr (Or.inl hS)⟩
      · rw [if_neg hS] at h
        by_cases hK : inRanges cc_mm_up_K c = true
        · rw [if_pos hK] at h
          by_cases h3 : matches3 cc_mm_lo_a cc_mm_lo_n cc_mm_lo_n cs = true
          · rw [if_pos h3] at h
            obtain ⟨x, y, z, t, rfl, hx, hy, hz⟩ := matches3_true h3
            simp at h
            obtain ⟨rfl, rfl⟩ := h
            exact ⟨rfl, .kann _ _ _ _ hK hx hy hz, _, _, rfl, Or.inr (Or.inr hK)⟩
          · rw [if_neg h3] at h
            simp at h
            obtain ⟨rfl, rfl⟩ := h
            exact ⟨rfl, .k _ hK, _, _, rfl, Or.inr (Or.inr hK)⟩
        · rw [if_neg hK] at h
          cases h

theorem mem_takeWhile_true {p : Char → Bool} {l : List Char} {ch : Char} (h : ch ∈ l.takeWhile p) : p ch = true := by
  induction l with
  | nil => simp at h
  | cons x t ih =>
    rw [List.takeWhile_cons] at h
    by_cases hx : p x = true
    · rw [if_pos hx] at h
      rcases List.mem_cons.mp h with rfl | h'
      · exact hx
      · exact ih h'
    · rw [if_neg hx] at h
      simp at h

theorem condExpr_sound {cs ce rest : List Char} (h : condExpr cs = some (ce, rest)) :
    cs = ce ++ rest ∧ ce ≠ [] ∧ ∀ ch ∈ ce, isAhbCondChar ch = true := by
  have key : ∀ b : Bool, (if b = true then none else
      if (cs.takeWhile isAhbCondChar).isEmpty = true then none
      else some (cs.takeWhile isAhbCondChar, cs.dropWhile isAhbCondChar)) = some (ce, rest) →
      cs = ce ++ rest ∧ ce ≠ [] ∧ ∀ ch ∈ ce, isAhbCondChar ch = true := by
    intro b hb
    cases b with
    | true => simp at hb
    | false =>
      simp only [Bool.false_eq_true, if_false] at hb
      by_cases hne : (cs.takeWhile isAhbCondChar).isEmpty = true
      · rw [if_pos hne] at hb
        cases hb
      · rw [if_neg hne] at hb
        simp only [Option.some.injEq, Prod.mk.injEq] at hb
        obtain ⟨rfl, rfl⟩ := hb
        refine ⟨(List.takeWhile_append_dropWhile ..).symm, ?_, ?_⟩
        · intro he
          simp [he] at hne
        · intro ch hch
          exact mem_takeWhile_true hch
  unfold condExpr at h
  exact key _ h

theorem scanModal_sound (fuel : Nat) (cs : List Char) (ps : List Part) (h : scanModal fuel cs = some ps) :
    cs = ps.flatMap partText ∧ ps ≠ [] ∧ (∀ p ∈ ps, p.kind = .modal ∧ SpellMark p.ind) ∧
    (∀ p ∈ ps, ∀ c, p.cond = some c → c ≠ [] ∧ ∀ ch ∈ c, isAhbCondChar ch = true) ∧
    (∃ c tl, cs = c :: tl ∧ MarkStart c) := by
  induction fuel generalizing cs ps with
  | zero => simp [scanModal] at h
  | succ f ih =>
    unfold scanModal at h
    split at h
    · cases h
    · rename_i mm rest hmm
      obtain ⟨hcs, hsp, hst⟩ := modalMark_sound hmm
      split at h
      · rename_i hre
        simp only [Option.some.injEq] at h
        subst h
        have : rest = [] := by simpa using hre
        subst this
        refine ⟨by simpa [partText] using hcs, by simp, ?_, ?_, hst⟩
        · intro p hp
          simp at hp
          subst hp
          exact ⟨rfl, hsp⟩
        · intro p hp c hc
          simp at hp
          subst hp
          cases hc
      · split at h
        · cases h
        · rename_i ce rest' hce
          obtain ⟨hr, hne, hch⟩ := condExpr_sound hce
          split at h
          · rename_i hre
            simp only [Option.some.injEq] at h
            subst h
            have : rest' = [] := by simpa using hre
            subst this
            refine ⟨by simpa [partText, hr] using hcs, by simp, ?_, ?_, hst⟩
            · intro p hp
              simp at hp
              subst hp
              exact ⟨rfl, hsp⟩
            · intro p hp c hc
              simp at hp
              subst hp
              cases hc
              exact ⟨hne, hch⟩
          · cases hrec : scanModal f rest' with
            | none => simp [hrec] at h
            | some qs =>
              simp only [hrec, Option.map_some, Option.some.injEq] at h
              subst h
              obtain ⟨i1, i2, i3, i4, _⟩ := ih rest' qs hrec
              refine ⟨?_, by simp, ?_, ?_, hst⟩
              · rw [hcs, hr, i1]
                simp [partText, List.append_assoc]
              · intro p hp
                simp only [List.mem_cons] at hp
                rcases hp with rfl | hp
                · exact ⟨rfl, hsp⟩
                · exact i3 p hp
              · intro p hp c hc
                simp only [List.mem_cons] at hp
                rcases hp with rfl | hp
                · cases hc
                  exact ⟨hne, hch⟩
                · exact i4 p hp c hc

/-- **C02 (AHB shape, soundness).** If the AHB scanner accepts `cs` with parts `ps` then: the parts, concatenated, are the input; there is at
least one part; either it is a single prefix-operator part (`X`/`O`/`U` in either case, with or without condition text) or all parts
are modal-mark parts spelled `M`/`Muss`/`S`/`Soll`/`K`/`Kann` (any case) of which only the last may be bare; and every condition text
is non-empty and consists of characters of the `CONDITION_EXPRESSION` class only. -/
theorem C02_ahb_sound (cs : List Char) (ps : List Part) (h : scanAhb cs = some ps) :
    cs = ps.flatMap partText ∧ ps ≠ [] ∧
    ((∃ c cond, ps = [⟨.prefix_, [c], cond⟩] ∧ isPrefixOp c = true) ∨
     ((∀ p ∈ ps, p.kind = .modal ∧ SpellMark p.ind) ∧ (∀ p ∈ ps.dropLast, p.cond.isSome = true))) ∧
    (∀ p ∈ ps, ∀ c, p.cond = some c → c ≠ [] ∧ ∀ ch ∈ c, isAhbCondChar ch = true) := by
  cases cs with
  | nil => simp [scanAhb] at h
  | cons c rest =>
    unfold scanAhb at h
    simp only at h
    split at h
    · rename_i hp
      split at h
      · rename_i hre
        simp only [Option.some.injEq] at h
        subst h
        have : rest = [] := by simpa using hre
        subst this
        refine ⟨by simp [partText], by simp, Or.inl ⟨c, none, rfl, hp⟩, ?_⟩
        intro p hp' c' hc
        simp at hp'
        subst hp'
        cases hc
      · split at h
        · rename_i ce hce
          obtain ⟨hr, hne, hch⟩ := condExpr_sound hce
          simp only [Option.some.injEq] at h
          subst h
          refine ⟨by simp [partText, hr], by simp, Or.inl ⟨c, some ce, rfl, hp⟩, ?_⟩
          intro p hp' c' hc
          simp at hp'
          subst hp'
          cases hc
          exact ⟨hne, hch⟩
        · cases h
    · split at h
      · rename_i qs hsm
        split at h
        · rename_i hall
          simp only [Option.some.injEq] at h
          subst h
          obtain ⟨i1, i2, i3, i4, _⟩ := scanModal_sound _ _ _ hsm
          refine ⟨i1, i2, Or.inr ⟨i3, ?_⟩, i4⟩
          intro p hp'
          exact (List.all_eq_true.mp hall) p hp'
        · cases h
      · cases h

/-- in particular nothing that starts with another character than an indicator letter is accepted (no leading whitespace, no bare condition expression) -/
theorem C02_ahb_first_char (c : Char) (rest : List Char) (ps : List Part) (h : scanAhb (c :: rest) = some ps) :
    isPrefixOp c = true ∨ inRanges cc_mm_up_M c = true ∨ inRanges cc_mm_up_S c = true ∨ inRanges cc_mm_up_K c = true := by
  cases hp : isPrefixOp c with
  | true => exact Or.inl rfl
  | false =>
    right
    unfold scanAhb at h
    simp only [hp, Bool.false_eq_true, if_false] at h
    split at h
    · rename_i qs hsm
      obtain ⟨_, _, _, _, c', tl, he, hst⟩ := scanModal_sound _ _ _ hsm
      cases he
      exact hst
    · cases h

end Ahbicht.Properties.C02Ahb

