import Ahbicht.Lemmas.ValTables
/-!
# C14 — `soll_is_required` is equivalent to rewriting SOLL at every level
-/
namespace Ahbicht.Properties.C14
open Ahbicht

/-- SOLL ↦ MUSS (flag true) or KANN (flag false) in the result of a node's expression -/
def rewriteRes (b : Bool) : NodeRes → NodeRes
  | .ok r => .ok (if r.ind = .SOLL then { r with ind := if b then .MUSS else .KANN } else r)
  | x => x

def rewriteDE (b : Bool) : DataElement → DataElement
  | .free d res i v => .free d (rewriteRes b res) i v
  | x => x

def rewriteSeg (b : Bool) (s : Segment) : Segment :=
  { s with res := rewriteRes b s.res, des := s.des.map (rewriteDE b) }

mutual
def rewriteGroup (b : Bool) : Group → Group
  | .mk d res gs ss => .mk d (rewriteRes b res) (rewriteGroups b gs) (ss.map (rewriteSeg b))
def rewriteGroups (b : Bool) : Groups → Groups
  | .nil => .nil
  | .cons g gs => .cons (rewriteGroup b g) (rewriteGroups b gs)
end

/-- the table fact behind it -/
theorem map_rewrite : ∀ (f : Option Bool) (i : Ind) (b b' : Bool),
    mapOwn f i b = mapOwn f (if i = .SOLL then (if b then .MUSS else .KANN) else i) b' := by
  decide

theorem mapM_map_congr {α β γ : Type} (f : α → Except VErr γ) (g : β → Except VErr γ) (h : α → β)
    (hfg : ∀ x, f x = g (h x)) : ∀ l : List α, l.mapM f = (l.map h).mapM g := by
  intro l
  induction l with
  | nil => simp
  | cons x xs ih => simp only [List.mapM_cons, List.map_cons, ih, hfg]

theorem segLevel_rewrite (res : NodeRes) (p : Option RVV) (b b' : Bool) :
    segLevel res p b = segLevel (rewriteRes b res) p b' := by
  cases res with
  | invalid m => simp [segLevel, rewriteRes]
  | ok r =>
    simp only [segLevel, rewriteRes]
    rw [map_rewrite r.fulfilled r.ind b b']
    by_cases h : r.ind = .SOLL <;> simp [h]

theorem C14_data_element (de : DataElement) (st : RVV) (b b' : Bool) :
    validateDataElement de st b = validateDataElement (rewriteDE b de) st b' := by
  cases de with
  | pool d es i => simp [validateDataElement, rewriteDE]
  | free d res i v =>
    cases res with
    | invalid m => simp [validateDataElement, rewriteDE, rewriteRes]
    | ok r =>
      simp only [validateDataElement, rewriteDE, rewriteRes]
      rw [map_rewrite r.fulfilled r.ind b b']
      by_cases h : r.ind = .SOLL <;> simp [h]

theorem C14_segment (s : Segment) (p : Option RVV) (b b' : Bool) :
    validateSegment s p b = validateSegment (rewriteSeg b s) p b' := by
  simp only [validateSegment, rewriteSeg]
  rw [← segLevel_rewrite s.res p b b']
  congr 1
  funext x
  obtain ⟨st, h⟩ := x
  simp only
  rw [mapM_map_congr (fun de => validateDataElement de st b) (fun de => validateDataElement de st b')
    (rewriteDE b) (fun de => C14_data_element de st b b')]

mutual
theorem C14_group : ∀ (g : Group) (p : Option RVV) (b b' : Bool),
    validateGroup g p b = validateGroup (rewriteGroup b g) p b'
  | .mk d res gs ss, p, b, b' => by
    simp only [validateGroup, rewriteGroup]
    rw [← segLevel_rewrite res p b b']
    congr 1
    funext x
    obtain ⟨st, h⟩ := x
    simp only
    rw [C14_groups gs (some st) b b',
      mapM_map_congr (fun s => validateSegment s (some st) b) (fun s => validateSegment s (some st) b')
        (rewriteSeg b) (fun s => C14_segment s (some st) b b')]
theorem C14_groups : ∀ (gs : Groups) (p : Option RVV) (b b' : Bool),
    validateGroups gs p b = validateGroups (rewriteGroups b gs) p b'
  | .nil, p, b, b' => by simp [validateGroups, rewriteGroups]
  | .cons g rest, p, b, b' => by
    simp only [validateGroups, rewriteGroups]
    rw [C14_group g p b b', C14_groups rest p b b']
end

/-- **C14.** Validating with `soll_is_required = b` equals validating the AHB in which every SOLL is rewritten (to MUSS for
`true`, to KANN for `false`) — whatever flag is used for the rewritten AHB — for groups, segments and free-text elements at every depth. -/
theorem C14 (lines : Groups) (b b' : Bool) : validateAhb lines b = validateAhb (rewriteGroups b lines) b' := by
  simp only [validateAhb]
  exact C14_groups lines none b b'

end Ahbicht.Properties.C14
