import Ahbicht.Model.Val
namespace Ahbicht.Properties.C14
theorem placeholder : True := trivial
end Ahbicht.Properties.C14
