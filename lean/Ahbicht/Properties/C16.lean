import Ahbicht.Model.Val
namespace Ahbicht.Properties.C16
theorem placeholder : True := trivial
end Ahbicht.Properties.C16
