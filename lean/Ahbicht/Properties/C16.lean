import Ahbicht.Lemmas.ValTables
/-!
# C16 — an invalid expression makes one node optional and never aborts validation
-/
namespace Ahbicht.Properties.C16
open Ahbicht

/-- the result of evaluating the expression `Kann` -/
def kannRes : NodeRes := .ok ⟨.KANN, some true, none, true, none⟩

/-- replace every invalid expression by `Kann` -/
def kannify : NodeRes → NodeRes
  | .invalid _ => kannRes
  | x => x

def kannifyEntry (e : PoolEntry) : PoolEntry := { e with res := kannify e.res }

def kannifyDE : DataElement → DataElement
  | .free d res i v => .free d (kannify res) i v
  | .pool d es i => .pool d (es.map kannifyEntry) i

def kannifySeg (s : Segment) : Segment := { s with res := kannify s.res, des := s.des.map kannifyDE }

mutual
def kannifyGroup : Group → Group
  | .mk d res gs ss => .mk d (kannify res) (kannifyGroups gs) (ss.map kannifySeg)
def kannifyGroups : Groups → Groups
  | .nil => .nil
  | .cons g gs => .cons (kannifyGroup g) (kannifyGroups gs)
end

/-- discriminators of the groups, segments and free-text elements that carry an invalid expression -/
def isInvalid : NodeRes → Bool
  | .invalid _ => true
  | _ => false

def invalidDE : DataElement → List String
  | .free d res _ _ => if isInvalid res then [d] else []
  | .pool _ _ _ => []

def invalidSeg (s : Segment) : List String := (if isInvalid s.res then [s.disc] else []) ++ s.des.flatMap invalidDE

mutual
def invalidGroup : Group → List String
  | .mk d res gs ss => (if isInvalid res then [d] else []) ++ invalidGroups gs ++ ss.flatMap invalidSeg
def invalidGroups : Groups → List String
  | .nil => []
  | .cons g gs => invalidGroup g ++ invalidGroups gs
end

/-- blank out what is reported for the nodes in `S` (only their discriminator and kind remain) -/
def mask (S : List String) (o : Out) : Out :=
  if S.contains o.disc then ⟨o.disc, o.isDataElement, .IS_OPTIONAL, none, none, none, none, none⟩ else o

/-! ## helper lemmas -/

theorem liftT_val (v : RVV) : liftT (.val v) = .ok v := rfl
theorem ok_bind {ε α β} (a : α) (f : α → Except ε β) : (Except.ok a >>= f) = f a := rfl
theorem error_bind {ε α β} (e : ε) (f : α → Except ε β) : ((Except.error e : Except ε α) >>= f) = .error e := rfl
theorem map_ok {ε α β} (a : α) (f : α → β) : (Except.ok a : Except ε α).map f = .ok (f a) := rfl
theorem map_error {ε α β} (e : ε) (f : α → β) : (Except.error e : Except ε α).map f = .error e := rfl
theorem pure_eq_ok {ε α} (a : α) : (pure a : Except ε α) = .ok a := rfl

theorem kann_own : ∀ soll, mapOwn (some true) .KANN soll = .val .IS_OPTIONAL := by decide

theorem kann_combine : ∀ (p : Option RVV), okParent p = true → p ≠ some .IS_FORBIDDEN →
    combine p .IS_OPTIONAL = .val .IS_OPTIONAL := by
  intro p; cases p with
  | none => decide
  | some p => revert p; decide

theorem segLevel_kann (p : Option RVV) (soll : Bool) (hp : okParent p = true) (hf : p ≠ some .IS_FORBIDDEN) :
    segLevel kannRes p soll = .ok (.IS_OPTIONAL, none) := by
  simp only [segLevel, kannRes, if_neg hf, kann_own, liftT_val, ok_bind, kann_combine p hp hf]
  rfl

/-- a successful segment-level status below an admissible parent is a base status -/
theorem segLevel_base (res : NodeRes) (p : Option RVV) (soll : Bool) (hp : okParent p = true) (st : RVV) (h : Option String)
    (hs : segLevel res p soll = .ok (st, h)) : st.isBase = true := by
  unfold segLevel at hs
  by_cases hf : p = some .IS_FORBIDDEN
  · rw [if_pos hf] at hs
    cases hs; rfl
  · rw [if_neg hf] at hs
    cases res with
    | invalid msg => cases hs; rfl
    | ok r =>
      simp only at hs
      cases hm : mapOwn r.fulfilled r.ind soll with
      | val v =>
        have hb := mapOwn_base _ _ _ _ hm
        obtain ⟨v', hv', hb'⟩ := combine_base p v hp hf hb
        rw [hm, liftT_val, ok_bind, hv', liftT_val, ok_bind] at hs
        cases hs; exact hb'
      | notImplemented => rw [hm] at hs; cases hs
      | valueError => rw [hm] at hs; cases hs
      | other => rw [hm] at hs; cases hs

theorem segLevel_kannify (res : NodeRes) (p : Option RVV) (soll : Bool) (hp : okParent p = true) :
    (∃ e, segLevel res p soll = .error e ∧ segLevel (kannify res) p soll = .error e) ∨
    (∃ st h h', segLevel res p soll = .ok (st, h) ∧ segLevel (kannify res) p soll = .ok (st, h') ∧
      st.isBase = true ∧ (isInvalid res = false → h = h')) := by
  cases res with
  | ok r =>
    cases hs : segLevel (.ok r) p soll with
    | error e => exact .inl ⟨e, rfl, hs⟩
    | ok v =>
      obtain ⟨st, h⟩ := v
      exact .inr ⟨st, h, h, rfl, hs, segLevel_base _ _ _ hp _ _ hs, fun _ => rfl⟩
  | invalid msg =>
    by_cases hf : p = some .IS_FORBIDDEN
    · refine .inr ⟨.IS_FORBIDDEN, none, none, ?_, ?_, rfl, fun _ => rfl⟩
      · simp only [segLevel, if_pos hf]
      · simp only [segLevel, if_pos hf]
    · refine .inr ⟨.IS_OPTIONAL, some msg, none, ?_, ?_, rfl, ?_⟩
      · simp only [segLevel, if_neg hf]
      · exact segLevel_kann p soll hp hf
      · intro h; cases h

/-- congruence of `>>=` in `Except` up to maps on the results -/
theorem bind_congr_map {ε α β γ δ} (m1 : α → γ) (m2 : β → δ) (x y : Except ε α) (f g : α → Except ε β)
    (hxy : x.map m1 = y.map m1) (hfg : ∀ a b, m1 a = m1 b → (f a).map m2 = (g b).map m2) :
    (x >>= f).map m2 = (y >>= g).map m2 := by
  cases x with
  | error e =>
    cases y with
    | error e' => simp only [map_error] at hxy; cases hxy; rfl
    | ok b => simp only [map_error, map_ok] at hxy; cases hxy
  | ok a =>
    cases y with
    | error e' => simp only [map_error, map_ok] at hxy; cases hxy
    | ok b =>
      simp only [map_ok] at hxy
      simp only [ok_bind]
      exact hfg a b (Except.ok.inj hxy)

theorem mapM_congr_map {ε α β γ} (f g : α → Except ε β) (k : α → α) (m : β → γ) (l : List α)
    (h : ∀ a ∈ l, (f a).map m = (g (k a)).map m) :
    (l.mapM f).map (List.map m) = ((l.map k).mapM g).map (List.map m) := by
  induction l with
  | nil => rfl
  | cons a l ih =>
    simp only [List.map_cons, List.mapM_cons]
    apply bind_congr_map m (List.map m) _ _ _ _ (h a (List.mem_cons_self ..))
    intro b b' hb
    apply bind_congr_map (List.map m) (List.map m) _ _ _ _ (ih (fun a ha => h a (List.mem_cons_of_mem _ ha)))
    intro bs bs' hbs
    simp only [pure_eq_ok, map_ok, List.map_cons, hb, hbs]

theorem mask_segOut {res : NodeRes} (S : List String) (d : String) (st : RVV) (h h' : Option String)
    (hh : isInvalid res = false → h = h') (hS : isInvalid res = true → S.contains d = true) :
    mask S (segOut d st h) = mask S (segOut d st h') := by
  cases hi : isInvalid res with
  | false => rw [hh hi]
  | true => simp only [mask, segOut, hS hi, if_true]

theorem entryOffered_kannify (e : PoolEntry) : entryOffered (kannifyEntry e) = entryOffered e := by
  obtain ⟨q, m, res⟩ := e
  cases res <;> rfl

/-- **C16 (the node itself).** A group or segment with an invalid expression (below a parent that is not forbidden) is reported
optional with the reason as hint; a free-text element likewise. -/
theorem C16_node_segment_level (msg : String) (p : Option RVV) (soll : Bool) (hp : p ≠ some .IS_FORBIDDEN) :
    segLevel (.invalid msg) p soll = .ok (.IS_OPTIONAL, some msg) := by
  simp only [segLevel, if_neg hp]

theorem C16_node_freetext (d msg : String) (input vtype : Option String) (st : RVV) (soll : Bool) :
    ∃ o, validateDataElement (.free d (.invalid msg) input vtype) st soll = .ok o ∧ o.status = .IS_OPTIONAL ∧ o.hints = some msg := by
  exact ⟨_, rfl, rfl, rfl⟩

/-- the children of the node see the same parent status as with `Kann` -/
theorem C16_same_as_kann (p : Option RVV) (soll : Bool) (hp : okParent p = true) (hf : p ≠ some .IS_FORBIDDEN) :
    ∃ hh, segLevel kannRes p soll = .ok (.IS_OPTIONAL, hh) :=
  ⟨none, segLevel_kann p soll hp hf⟩

theorem foldl_offered_kannify (es : List PoolEntry) (init : List (String × String)) :
    ((es.map kannifyEntry).filter entryOffered).foldl (fun d e => dictInsert d e.qualifier e.meaning) init =
      (es.filter entryOffered).foldl (fun d e => dictInsert d e.qualifier e.meaning) init := by
  induction es generalizing init with
  | nil => rfl
  | cons e es ih =>
    simp only [List.map_cons, List.filter_cons, entryOffered_kannify]
    cases entryOffered e with
    | false => exact ih init
    | true => exact ih _

/-- **C16 (pool entries).** An invalid value-pool entry is offered exactly as if its expression were `Kann`. -/
theorem C16_pool (es : List PoolEntry) (st : RVV) : offered (es.map kannifyEntry) st = offered es st := by
  unfold offered
  by_cases hf : st = .IS_FORBIDDEN
  · simp only [if_pos hf]
  · simp only [if_neg hf]
    match es with
    | [] => rfl
    | [e] => rfl
    | e :: e' :: es => exact foldl_offered_kannify (e :: e' :: es) []

theorem de_mask (S : List String) (de : DataElement) (st : RVV) (soll : Bool) (hst : st.isBase = true)
    (hf : st ≠ .IS_FORBIDDEN) (hS : ∀ x ∈ invalidDE de, S.contains x = true) :
    (validateDataElement de st soll).map (mask S) = (validateDataElement (kannifyDE de) st soll).map (mask S) := by
  cases de with
  | pool d es i =>
    simp only [kannifyDE, validateDataElement, C16_pool]
  | free d res i v =>
    cases res with
    | ok r => rfl
    | invalid msg =>
      have hd : S.contains d = true := hS d (by simp [invalidDE, isInvalid])
      have hc : combine (some st) .IS_OPTIONAL = .val .IS_OPTIONAL :=
        kann_combine (some st) hst (fun h => hf (Option.some.inj h))
      obtain ⟨w, hw⟩ := suffix_base .IS_OPTIONAL (truthyStr i) rfl
      simp only [kannifyDE, kannify, kannRes, validateDataElement, kann_own, liftT_val, ok_bind, hc, hw, pure_eq_ok, map_ok,
        mask, hd, if_true]

theorem seg_mask (S : List String) (s : Segment) (p : Option RVV) (soll : Bool) (hp : okParent p = true)
    (hS : ∀ x ∈ invalidSeg s, S.contains x = true) :
    (validateSegment s p soll).map (List.map (mask S)) =
      (validateSegment (kannifySeg s) p soll).map (List.map (mask S)) := by
  obtain ⟨d, res, des⟩ := s
  simp only [validateSegment, kannifySeg]
  have hd : isInvalid res = true → S.contains d = true := fun hi => hS d (by simp [invalidSeg, hi])
  have hdes : ∀ de ∈ des, ∀ x ∈ invalidDE de, S.contains x = true := fun de hde x hx =>
    hS x (by simp only [invalidSeg, List.mem_append, List.mem_flatMap]; exact .inr ⟨de, hde, hx⟩)
  rcases segLevel_kannify res p soll hp with ⟨e, h1, h2⟩ | ⟨st, h, h', h1, h2, hb, hh⟩
  · rw [h1, h2]; rfl
  · rw [h1, h2]
    simp only [ok_bind]
    by_cases hf : st = .IS_FORBIDDEN
    · simp only [if_pos hf, pure_eq_ok, ok_bind, map_ok, List.map_cons, List.map_nil]
      rw [mask_segOut S d _ h h' hh hd]
    · simp only [if_neg hf]
      apply bind_congr_map (List.map (mask S)) (List.map (mask S)) _ _ _ _
        (mapM_congr_map _ _ kannifyDE (mask S) des (fun de hde => de_mask S de st soll hb hf (hdes de hde)))
      intro a b hab
      simp only [pure_eq_ok, map_ok, List.map_cons, hab]
      rw [mask_segOut S d _ h h' hh hd]

mutual
theorem group_mask (S : List String) : ∀ (g : Group) (p : Option RVV) (soll : Bool), okParent p = true →
    (∀ x ∈ invalidGroup g, S.contains x = true) →
    (validateGroup g p soll).map (List.map (mask S)) =
      (validateGroup (kannifyGroup g) p soll).map (List.map (mask S))
  | .mk d res gs ss, p, soll, hp, hS => by
    simp only [validateGroup, kannifyGroup]
    have hd : isInvalid res = true → S.contains d = true := fun hi => hS d (by simp [invalidGroup, hi])
    have hgs : ∀ x ∈ invalidGroups gs, S.contains x = true := fun x hx =>
      hS x (by simp only [invalidGroup, List.mem_append]; exact .inl (.inr hx))
    have hss : ∀ s ∈ ss, ∀ x ∈ invalidSeg s, S.contains x = true := fun s hs x hx =>
      hS x (by simp only [invalidGroup, List.mem_append, List.mem_flatMap]; exact .inr ⟨s, hs, hx⟩)
    rcases segLevel_kannify res p soll hp with ⟨e, h1, h2⟩ | ⟨st, h, h', h1, h2, hb, hh⟩
    · rw [h1, h2]; rfl
    · rw [h1, h2]
      simp only [ok_bind]
      by_cases hf : st = .IS_FORBIDDEN
      · simp only [if_pos hf, pure_eq_ok, map_ok, List.map_cons, List.map_nil]
        rw [mask_segOut S d _ h h' hh hd]
      · simp only [if_neg hf]
        apply bind_congr_map (List.map (mask S)) (List.map (mask S)) _ _ _ _
          (groups_mask S gs (some st) soll hb hgs)
        intro a b hab
        apply bind_congr_map (List.map (List.map (mask S))) (List.map (mask S)) _ _ _ _
          (mapM_congr_map _ _ kannifySeg (List.map (mask S)) ss
            (fun s hs => seg_mask S s (some st) soll hb (hss s hs)))
        intro a' b' hab'
        simp only [pure_eq_ok, map_ok, List.map_cons, List.map_append, List.map_flatten, hab, hab']
        rw [mask_segOut S d _ h h' hh hd]
theorem groups_mask (S : List String) : ∀ (gs : Groups) (p : Option RVV) (soll : Bool), okParent p = true →
    (∀ x ∈ invalidGroups gs, S.contains x = true) →
    (validateGroups gs p soll).map (List.map (mask S)) =
      (validateGroups (kannifyGroups gs) p soll).map (List.map (mask S))
  | .nil, p, soll, hp, hS => by
    simp only [validateGroups, kannifyGroups]
  | .cons g gs, p, soll, hp, hS => by
    simp only [validateGroups, kannifyGroups]
    have hg : ∀ x ∈ invalidGroup g, S.contains x = true := fun x hx =>
      hS x (by simp only [invalidGroups, List.mem_append]; exact .inl hx)
    have hgs : ∀ x ∈ invalidGroups gs, S.contains x = true := fun x hx =>
      hS x (by simp only [invalidGroups, List.mem_append]; exact .inr hx)
    apply bind_congr_map (List.map (mask S)) (List.map (mask S)) _ _ _ _ (group_mask S g p soll hp hg)
    intro a b hab
    apply bind_congr_map (List.map (mask S)) (List.map (mask S)) _ _ _ _ (groups_mask S gs p soll hp hgs)
    intro a' b' hab'
    simp only [pure_eq_ok, map_ok, List.map_append, hab, hab']
end

/-- **C16 (every other node).** For any set of nodes carrying invalid expressions — simultaneously — the results of all other nodes are
identical to the results for the AHB with `Kann` in their place; in particular one run aborts iff the other does. -/
theorem C16_others (lines : Groups) (soll : Bool) :
    (validateAhb lines soll).map (List.map (mask (invalidGroups lines))) =
      (validateAhb (kannifyGroups lines) soll).map (List.map (mask (invalidGroups lines))) := by
  unfold validateAhb
  exact groups_mask (invalidGroups lines) lines none soll rfl (fun x hx => by
    simpa using hx)

end Ahbicht.Properties.C16

