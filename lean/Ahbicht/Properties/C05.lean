import Ahbicht.Lemmas.Context
/-!
# C05 — hints, format constraints, brackets, operand order never change the requirement

Transformations are applied at a position given by a one-hole context `c`.  Each theorem gives, for a valid
expression of the documented domain: the transformed expression is again in the domain and valid, and has the
same `denote` under every assignment — hence (`same_outcome`, by C04) the same reported requirement outcome.
-/
namespace Ahbicht.Properties.C05
open Ahbicht

theorem and_comm' : ∀ a b : CFV, CFV.and a b = CFV.and b a := by decide
theorem or_comm' : ∀ a b : CFV, CFV.or a b = CFV.or b a := by decide
theorem xor_comm' : ∀ a b : CFV, CFV.xor a b = CFV.xor b a := by decide
theorem and_N_right : ∀ a : CFV, CFV.and a .N = a := by decide
theorem and_N_left : ∀ a : CFV, CFV.and .N a = a := by decide

/-- from the observables to the requirement outcome (uses C04's characterisation) -/
theorem same_outcome {rcEnv : List Char → Option CFV} {hintEnv : List Char → Option String} {t t' : Expr}
    (hwf : WF t = true) (hv : invalidAt t = false) (ha : Assigns rcEnv hintEnv t)
    (hwf' : WF t' = true) (hv' : invalidAt t' = false) (ha' : Assigns rcEnv hintEnv t')
    (hden : denote rcEnv t' = denote rcEnv t) :
    ∃ r r', rcEvaluation rcEnv hintEnv t = .ok r ∧ rcEvaluation rcEnv hintEnv t' = .ok r' ∧
      r'.fulfilled = r.fulfilled ∧ r'.conditional = r.conditional := by
  obtain ⟨n, hn, g⟩ := (eval_char t hwf ha).2 hv
  obtain ⟨n', hn', g'⟩ := (eval_char t' hwf' ha').2 hv'
  refine ⟨report n, report n', by rw [rcEvaluation_eq hwf ha, hn]; rfl, by rw [rcEvaluation_eq hwf' ha', hn']; rfl, ?_⟩
  have hs : n'.state = n.state := by rw [g'.state, g.state, hden]
  cases h : n.state <;> simp [report, hs, h]

/-- what `Rel` delivers for the whole expression -/
theorem rel_preserves {t t' : Expr} (h : Rel t t') (hwf : WF t = true) (hv : invalidAt t = false) :
    WF t' = true ∧ invalidAt t' = false ∧ ∀ env, denote env t' = denote env t := by
  refine ⟨by rw [h.wf, hwf], ?_, h.den⟩
  cases hi : invalidAt t' with
  | false => rfl
  | true => rw [h.inv hi] at hv; cases hv

/-! ## swapping the operands of any U / O / X -/
theorem swap_rel {o : Op} (ho : o ≠ .then_) (l r : Expr) : Rel (.bin o l r) (.bin o r l) := by
  constructor
  · intro env
    cases o with
    | or_ => exact or_comm' _ _
    | xor_ => exact xor_comm' _ _
    | and_ => exact and_comm' _ _
    | then_ => exact absurd rfl ho
  · simp [neutralOnly, Bool.and_comm]
  · rfl
  · rfl
  · cases o <;> simp [WF, Bool.and_comm] at ho ⊢
  · intro hi
    simp only [invalidAt, Bool.or_eq_true, Bool.and_eq_true] at hi ⊢
    rcases hi with (hi | hi) | hi
    · exact Or.inl (Or.inr hi)
    · exact Or.inl (Or.inl hi)
    · refine Or.inr ⟨hi.1, ?_⟩
      rcases hi.2 with (h | h) | h
      · left; left; rw [bne_comm]; exact h
      · right; exact ⟨h.2, h.1⟩
      · left; right; exact ⟨h.2, h.1⟩

/-- **C05 (operand order).** Swapping the operands of a U/O/X node anywhere keeps domain membership, validity
(in both directions) and the value under every assignment. -/
theorem C05_swap (c : Ctx) {o : Op} (ho : o ≠ .then_) (l r : Expr) :
    let t := c.fill (.bin o l r); let t' := c.fill (.bin o r l)
    WF t' = WF t ∧ invalidAt t' = invalidAt t ∧ ∀ env, denote env t' = denote env t := by
  intro t t'
  have h1 : Rel t t' := (swap_rel ho l r).fill c
  have h2 : Rel t' t := (swap_rel ho r l).fill c
  refine ⟨h1.wf, ?_, h1.den⟩
  cases hi : invalidAt t with
  | true => exact h2.inv hi
  | false =>
    cases hi' : invalidAt t' with
    | false => rfl
    | true => rw [h1.inv hi'] at hi; cases hi

/-! ## and-ing a hint onto the whole expression or onto an operand of U / O / X -/
theorem and_hint_weak_right {s h : Expr} (hh : h.isHintLeaf = true) (hwh : WF h = true) : Weak s (.bin .and_ s h) := by
  have hn := hintLeaf_neutral hh
  have hd : ∀ env, denote env h = .N := by
    intro env
    cases h with
    | leaf a => cases a <;> simp [Expr.isHintLeaf] at hh; simp [denote, hh]
    | bin o l r => simp [Expr.isHintLeaf] at hh
  have hinv : invalidAt h = false := by
    cases h with
    | leaf a => rfl
    | bin o l r => simp [Expr.isHintLeaf] at hh
  constructor
  · intro env; simp [denote, hd, and_N_right]
  · simp [neutralOnly, hn]
  · rfl
  · rfl
  · simp [WF, hwh]
  · intro hi; simpa [invalidAt, hinv] using hi

theorem and_hint_weak_left {s h : Expr} (hh : h.isHintLeaf = true) (hwh : WF h = true) : Weak s (.bin .and_ h s) := by
  have hn := hintLeaf_neutral hh
  have hd : ∀ env, denote env h = .N := by
    intro env
    cases h with
    | leaf a => cases a <;> simp [Expr.isHintLeaf] at hh; simp [denote, hh]
    | bin o l r => simp [Expr.isHintLeaf] at hh
  have hinv : invalidAt h = false := by
    cases h with
    | leaf a => rfl
    | bin o l r => simp [Expr.isHintLeaf] at hh
  constructor
  · intro env; simp [denote, hd, and_N_left]
  · simp [neutralOnly, hn]
  · rfl
  · rfl
  · simp [WF, hwh]
  · intro hi; simpa [invalidAt, hinv] using hi

/-- the hint goes on either side: `s U h` or `h U s` -/
inductive AndHint (s h : Expr) : Expr → Prop
  | right : AndHint s h (.bin .and_ s h)
  | left : AndHint s h (.bin .and_ h s)

theorem AndHint.weak {s h s' : Expr} (hs : AndHint s h s') (hh : h.isHintLeaf = true) (hwh : WF h = true) : Weak s s' := by
  cases hs
  · exact and_hint_weak_right hh hwh
  · exact and_hint_weak_left hh hwh

/-- **C05 (hint onto the whole expression).** -/
theorem C05_and_hint_root {t h t' : Expr} (hs : AndHint t h t') (hh : h.isHintLeaf = true) (hwh : WF h = true)
    (hwf : WF t = true) (hv : invalidAt t = false) :
    WF t' = true ∧ invalidAt t' = false ∧ ∀ env, denote env t' = denote env t := by
  have w := hs.weak hh hwh
  refine ⟨by rw [w.wf, hwf], ?_, w.den⟩
  cases hi : invalidAt t' with
  | false => rfl
  | true => rw [w.inv hi] at hv; cases hv

/-- **C05 (hint onto the left operand of a U/O/X anywhere).** -/
theorem C05_and_hint_left_operand (c : Ctx) {o : Op} (ho : o ≠ .then_) {s h s' : Expr} (r : Expr)
    (hs : AndHint s h s') (hh : h.isHintLeaf = true) (hwh : WF h = true)
    (hwf : WF (c.fill (.bin o s r)) = true) (hv : invalidAt (c.fill (.bin o s r)) = false) :
    WF (c.fill (.bin o s' r)) = true ∧ invalidAt (c.fill (.bin o s' r)) = false ∧
      ∀ env, denote env (c.fill (.bin o s' r)) = denote env (c.fill (.bin o s r)) :=
  rel_preserves (((hs.weak hh hwh).frameL ho r).fill c) hwf hv

/-- **C05 (hint onto the right operand of a U/O/X anywhere).** -/
theorem C05_and_hint_right_operand (c : Ctx) {o : Op} (ho : o ≠ .then_) {s h s' : Expr} (l : Expr)
    (hs : AndHint s h s') (hh : h.isHintLeaf = true) (hwh : WF h = true)
    (hwf : WF (c.fill (.bin o l s)) = true) (hv : invalidAt (c.fill (.bin o l s)) = false) :
    WF (c.fill (.bin o l s')) = true ∧ invalidAt (c.fill (.bin o l s')) = false ∧
      ∀ env, denote env (c.fill (.bin o l s')) = denote env (c.fill (.bin o l s)) :=
  rel_preserves (((hs.weak hh hwh).frameR ho l).fill c) hwf hv

/-! ## attaching a format constraint to a sub-expression that contains a requirement constraint -/
theorem attach_fc_rel {s f : Expr} (hf : f.isFcLeaf = true) (hwf : WF f = true) (hs : neutralOnly s = false) :
    Rel s (.bin .then_ s f) := by
  obtain ⟨fh, fn⟩ := fcLeaf_not_hint hf
  have sfc : s.isFcLeaf = false := by
    cases h : s.isFcLeaf with
    | false => rfl
    | true => rw [(fcLeaf_not_hint h).2] at hs; cases hs
  have shl : s.isHintLeaf = false := by
    cases h : s.isHintLeaf with
    | false => rfl
    | true => rw [hintLeaf_neutral h] at hs; cases hs
  have finv : invalidAt f = false := by
    cases f with
    | leaf a => rfl
    | bin o l r => simp [Expr.isFcLeaf] at hf
  constructor
  · intro env; simp [denote, sfc]
  · simp [neutralOnly, hs]
  · rw [sfc]; rfl
  · rw [shl]; rfl
  · simp [WF, hwf, hf, hs, sfc]
  · intro hi; simpa [invalidAt, finv] using hi

theorem attach_fc_rel_back {s f : Expr} (hf : f.isFcLeaf = true) (hwf : WF f = true) (hs : neutralOnly s = false) :
    Rel (.bin .then_ s f) s := by
  have h := attach_fc_rel hf hwf hs
  exact ⟨fun env => (h.den env).symm, h.neu.symm, h.fcl.symm, h.hl.symm, h.wf.symm,
    fun hi => by simp [invalidAt, hi]⟩

/-- **C05 (attached format constraint).** Anywhere in the expression. -/
theorem C05_attach_fc (c : Ctx) {s f : Expr} (hf : f.isFcLeaf = true) (hwff : WF f = true) (hs : neutralOnly s = false)
    (hwf : WF (c.fill s) = true) (hv : invalidAt (c.fill s) = false) :
    WF (c.fill (.bin .then_ s f)) = true ∧ invalidAt (c.fill (.bin .then_ s f)) = false ∧
      ∀ env, denote env (c.fill (.bin .then_ s f)) = denote env (c.fill s) :=
  rel_preserves ((attach_fc_rel hf hwff hs).fill c) hwf hv

/-! ## UNKNOWN is sound at the level of whole expressions -/
/-- `b` carries at least the information of `a` -/
def le (a b : CFV) : Bool := a == .K || a == b

theorem and_mono : ∀ a a' b b' : CFV, le a a' = true → le b b' = true → le (CFV.and a b) (CFV.and a' b') = true := by decide
theorem or_mono : ∀ a a' b b' : CFV, le a a' = true → le b b' = true → le (CFV.or a b) (CFV.or a' b') = true := by decide
theorem xor_mono : ∀ a a' b b' : CFV, le a a' = true → le b b' = true → le (CFV.xor a b) (CFV.xor a' b') = true := by decide
theorem le_refl : ∀ a : CFV, le a a = true := by decide
theorem le_definite : ∀ a b : CFV, le a b = true → a ≠ .K → b = a := by decide

/-- `env'` resolves UNKNOWN entries of `env` and changes nothing else -/
def RefinesEnv (env' env : List Char → Option CFV) : Prop := ∀ k, le ((env k).getD .N) ((env' k).getD .N) = true

theorem denote_mono {env env' : List Char → Option CFV} (h : RefinesEnv env' env) (t : Expr) :
    le (denote env t) (denote env' t) = true := by
  induction t with
  | leaf a =>
    cases a with
    | cond k => simp only [denote]; split <;> first | exact h k | exact le_refl _
    | pkg k r => exact le_refl _
    | time k => exact le_refl _
  | bin o l r ihl ihr =>
    cases o with
    | or_ => exact or_mono _ _ _ _ ihl ihr
    | xor_ => exact xor_mono _ _ _ _ ihl ihr
    | and_ => exact and_mono _ _ _ _ ihl ihr
    | then_ => simp only [denote]; split <;> assumption

/-- **C05 (UNKNOWN soundness).** If the expression yields a definite state while some keys are UNKNOWN, every
way of resolving those keys yields the same state (hence, by `C04_outcome`, the same outcome). -/
theorem C05_refine {env env' : List Char → Option CFV} (h : RefinesEnv env' env) (t : Expr) (hd : denote env t ≠ .K) :
    denote env' t = denote env t :=
  le_definite _ _ (denote_mono h t) hd

/-! ## brackets: finding K1 — validity is sensitive to the grouping inside a run of O when a bare hint meets a bare format constraint -/
private def c (s : String) : Expr := .leaf (.cond s.toList)
/-- the two groupings of `[501] O [901] O ([502] U [503])` -/
theorem C05_brackets_K1 :
    invalidAt (.bin .or_ (c "501") (.bin .or_ (c "901") (.bin .and_ (c "502") (c "503")))) = false ∧
    invalidAt (.bin .or_ (.bin .or_ (c "501") (c "901")) (.bin .and_ (c "502") (c "503"))) = true ∧
    (Expr.bin .or_ (c "501") (.bin .or_ (c "901") (.bin .and_ (c "502") (c "503")))).flat =
      (Expr.bin .or_ (.bin .or_ (c "501") (c "901")) (.bin .and_ (c "502") (c "503"))).flat :=
  ⟨by decide, by decide, by rfl⟩

/-! non-vacuity -/
example : WF (.bin .or_ (c "1") (c "2")) = true ∧ invalidAt (.bin .or_ (c "1") (c "2")) = false ∧ (c "501").isHintLeaf = true ∧
    neutralOnly (c "1") = false ∧ (c "901").isFcLeaf = true := by decide

end Ahbicht.Properties.C05
