import Ahbicht.Properties.C05
import Ahbicht.Properties.C01
/-!
# C05 (brackets), partial — outside the class of finding K1, re-grouping inside runs of one operator changes neither validity nor outcome

Redundant brackets in the written expression only ever change the grouping inside runs of one operator (C01: the parse results are
`flat`-equal).  `C05_brackets_partial`: two trees of the documented domain with the same flattening have the same validity and the
same value under every assignment — provided no O- or X-run has both a bare hint key and a bare format-constraint key among its
operands (that class is exactly finding K1, `C05_brackets_K1`).
-/
namespace Ahbicht.Properties.C05Brackets
open Ahbicht

def isBareHint : NExpr → Bool
  | .leaf (.cond k) => catOf k == some .hint
  | _ => false

def isBareFc : NExpr → Bool
  | .leaf (.cond k) => catOf k == some .fc
  | _ => false

mutual
/-- no O- or X-run has both a bare hint and a bare format constraint among its operands (anywhere in the expression) -/
def noHintFcRun : NExpr → Bool
  | .leaf _ => true
  | .node op args =>
    (!(op == .or_ || op == .xor_) || !(args.any isBareHint && args.any isBareFc)) && noHintFcRunL args
def noHintFcRunL : List NExpr → Bool
  | [] => true
  | a :: as => noHintFcRun a && noHintFcRunL as
end


/-! ## a semantics on the n-ary normal form -/

/-- the operator of a run, on values; `b` = "the left part consists of bare format constraints only" (used by `then_`) -/
def comb : Op → Bool → CFV → CFV → CFV
  | .and_, _, x, y => CFV.and x y
  | .or_, _, x, y => CFV.or x y
  | .xor_, _, x, y => CFV.xor x y
  | .then_, b, x, y => if b then y else x

mutual
def nDenote (env : List Char → Option CFV) : NExpr → CFV
  | .leaf a => denote env (.leaf a)
  | .node op as => nDenoteL env op as
def nDenoteL (env : List Char → Option CFV) (op : Op) : List NExpr → CFV
  | [] => .N
  | a :: as => comb op (isBareFc a) (nDenote env a) (nDenoteL env op as)
end

mutual
def nNeutral : NExpr → Bool
  | .leaf a => neutralOnly (.leaf a)
  | .node _ as => nNeutralL as
def nNeutralL : List NExpr → Bool
  | [] => true
  | a :: as => nNeutral a && nNeutralL as
end

def mixed (xs : List NExpr) : Bool := xs.any nNeutral && xs.any (fun x => !nNeutral x)

def isOX (o : Op) : Bool := o == .or_ || o == .xor_

mutual
def nInvalid : NExpr → Bool
  | .leaf _ => false
  | .node op as => nInvalidL as || (isOX op && mixed as)
def nInvalidL : List NExpr → Bool
  | [] => false
  | a :: as => nInvalid a || nInvalidL as
end

/-! ### values -/

theorem comb_N_left (op : Op) (y : CFV) : comb op true .N y = y := by
  cases op <;> cases y <;> rfl

theorem comb_assoc (op : Op) (a b : Bool) (v x y : CFV) :
    comb op a v (comb op b x y) = comb op (a && b) (comb op a v x) y := by
  cases op <;> cases a <;> cases b <;> cases v <;> cases x <;> cases y <;> rfl

theorem nDenoteL_append (env : List Char → Option CFV) (op : Op) (xs ys : List NExpr) :
    nDenoteL env op (xs ++ ys) = comb op (xs.all isBareFc) (nDenoteL env op xs) (nDenoteL env op ys) := by
  induction xs with
  | nil => simp [nDenoteL, comb_N_left]
  | cons x xs ih =>
    simp only [List.cons_append, nDenoteL, ih, List.all_cons]
    exact comb_assoc _ _ _ _ _ _

theorem isBareFc_N (env : List Char → Option CFV) (n : NExpr) (h : isBareFc n = true) : nDenote env n = .N := by
  cases n with
  | node o as => simp [isBareFc] at h
  | leaf a =>
    cases a with
    | cond k =>
      simp only [isBareFc, beq_iff_eq] at h
      simp [nDenote, denote, h]
    | pkg k r => simp [isBareFc] at h
    | time k => simp [isBareFc] at h

theorem allFc_N (env : List Char → Option CFV) (xs : List NExpr) (h : xs.all isBareFc = true) :
    nDenoteL env .then_ xs = .N := by
  induction xs with
  | nil => rfl
  | cons x xs ih =>
    simp only [List.all_cons, Bool.and_eq_true] at h
    simp [nDenoteL, comb, h.1, ih h.2]

theorem nDenoteL_single (env : List Char → Option CFV) (op : Op) (n : NExpr) :
    nDenoteL env op [n] = nDenote env n := by
  simp only [nDenoteL]
  cases hb : isBareFc n
  · cases op <;> cases nDenote env n <;> rfl
  · rw [isBareFc_N env n hb]; cases op <;> rfl

theorem nDenoteL_argsFor (env : List Char → Option CFV) (op : Op) (n : NExpr) :
    nDenoteL env op (n.argsFor op) = nDenote env n := by
  cases n with
  | leaf a => simp only [NExpr.argsFor]; exact nDenoteL_single _ _ _
  | node op' as =>
    simp only [NExpr.argsFor]
    split
    · next h => subst h; simp [nDenote]
    · exact nDenoteL_single _ _ _

theorem denote_comb (env : List Char → Option CFV) (op : Op) (l r : Expr) :
    denote env (.bin op l r) = comb op l.isFcLeaf (denote env l) (denote env r) := by
  cases op <;> rfl

theorem isFcLeaf_flat (l : Expr) : l.isFcLeaf = isBareFc l.flat := by
  cases l with
  | leaf a => cases a <;> rfl
  | bin o a b => rfl

theorem isHintLeaf_flat (l : Expr) : l.isHintLeaf = isBareHint l.flat := by
  cases l with
  | leaf a => cases a <;> rfl
  | bin o a b => rfl

theorem bareFc_argsFor (o : Op) (n : NExpr) (h : isBareFc n = true) : n.argsFor o = [n] := by
  cases n with
  | leaf a => rfl
  | node o' as => simp [isBareFc] at h

theorem bareHint_argsFor (o : Op) (n : NExpr) (h : isBareHint n = true) : n.argsFor o = [n] := by
  cases n with
  | leaf a => rfl
  | node o' as => simp [isBareHint] at h

theorem WF_bin {op : Op} {l r : Expr} (h : WF (.bin op l r) = true) : WF l = true ∧ WF r = true := by
  cases op <;> simp [WF] at h <;> simp [h]

theorem WF_then {l r : Expr} (h : WF (.bin .then_ l r) = true) (hl : l.isFcLeaf = false) : r.isFcLeaf = true := by
  simp [WF, hl] at h
  exact h.2.1

theorem denote_flat (env : List Char → Option CFV) (t : Expr) (hwf : WF t = true) :
    denote env t = nDenote env t.flat := by
  induction t with
  | leaf a => rfl
  | bin op l r ihl ihr =>
    obtain ⟨wl, wr⟩ := WF_bin hwf
    have el := ihl wl
    have er := ihr wr
    rw [denote_comb, Expr.flat, nDenote, nDenoteL_append, nDenoteL_argsFor, nDenoteL_argsFor, ← el, ← er]
    cases op with
    | and_ => rfl
    | or_ => rfl
    | xor_ => rfl
    | then_ =>
      cases hl : l.isFcLeaf with
      | true =>
        have : isBareFc l.flat = true := by rw [← isFcLeaf_flat]; exact hl
        rw [bareFc_argsFor _ _ this]
        simp [this]
      | false =>
        have hr := WF_then hwf hl
        have hrN : denote env r = .N := by
          rw [er]; apply isBareFc_N; rw [← isFcLeaf_flat]; exact hr
        cases hall : (l.flat.argsFor .then_).all isBareFc with
        | false => rfl
        | true =>
          have : denote env l = .N := by
            rw [el, ← nDenoteL_argsFor env .then_]; exact allFc_N env _ hall
          simp [comb, this, hrN]

/-! ### neutrality -/

theorem nNeutralL_append (xs ys : List NExpr) : nNeutralL (xs ++ ys) = (nNeutralL xs && nNeutralL ys) := by
  induction xs with
  | nil => simp [nNeutralL]
  | cons x xs ih => simp [nNeutralL, ih, Bool.and_assoc]

theorem nNeutralL_argsFor (op : Op) (n : NExpr) : nNeutralL (n.argsFor op) = nNeutral n := by
  cases n with
  | leaf a => simp [NExpr.argsFor, nNeutralL]
  | node op' as =>
    simp only [NExpr.argsFor]
    split
    · simp [nNeutral]
    · simp [nNeutralL]

theorem neutralOnly_flat (t : Expr) : neutralOnly t = nNeutral t.flat := by
  induction t with
  | leaf a => rfl
  | bin op l r ihl ihr =>
    rw [Expr.flat, nNeutral, nNeutralL_append, nNeutralL_argsFor, nNeutralL_argsFor, ← ihl, ← ihr]
    rfl

theorem nNeutralL_all (xs : List NExpr) : nNeutralL xs = xs.all nNeutral := by
  induction xs with
  | nil => rfl
  | cons x xs ih => simp [nNeutralL, ih]

theorem argsFor_ne_nil (op : Op) (t : Expr) : t.flat.argsFor op ≠ [] := by
  induction t with
  | leaf a => simp [Expr.flat, NExpr.argsFor]
  | bin op' l r ihl ihr =>
    rw [Expr.flat]
    by_cases h : op' = op
    · subst h
      rw [NExpr.argsFor, if_pos rfl]
      intro h
      exact ihl (List.append_eq_nil_iff.1 h).1
    · rw [NExpr.argsFor, if_neg h]; simp

/-! ### validity -/

theorem mixed_append (xs ys : List NExpr) (hx : xs ≠ []) (hy : ys ≠ []) :
    mixed (xs ++ ys) = (mixed xs || mixed ys || (nNeutralL xs != nNeutralL ys)) := by
  have key : ∀ zs : List NExpr, zs ≠ [] →
      (zs.any nNeutral || zs.any (fun x => !nNeutral x)) = true ∧
      nNeutralL zs = !(zs.any (fun x => !nNeutral x)) := by
    intro zs hz
    constructor
    · cases zs with
      | nil => exact absurd rfl hz
      | cons z zs => simp only [List.any_cons]; cases nNeutral z <;> simp
    · rw [nNeutralL_all]
      induction zs with
      | nil => exact absurd rfl hz
      | cons z zs ih =>
        cases zs with
        | nil => simp
        | cons w ws =>
          have := ih (by simp)
          simp only [List.all_cons, List.any_cons] at this ⊢
          rw [this]; cases nNeutral z <;> simp
  obtain ⟨h1, h2⟩ := key xs hx
  obtain ⟨h3, h4⟩ := key ys hy
  rw [h2, h4]
  simp only [mixed, List.any_append]
  revert h1 h3
  cases xs.any nNeutral <;> cases xs.any (fun x => !nNeutral x) <;>
    cases ys.any nNeutral <;> cases ys.any (fun x => !nNeutral x) <;> simp

theorem nInvalidL_append (xs ys : List NExpr) : nInvalidL (xs ++ ys) = (nInvalidL xs || nInvalidL ys) := by
  induction xs with
  | nil => simp [nInvalidL]
  | cons x xs ih => simp [nInvalidL, ih, Bool.or_assoc]

theorem mixed_single (n : NExpr) : mixed [n] = false := by
  simp [mixed]

theorem runInv_argsFor (o : Op) (n : NExpr) :
    (nInvalidL (n.argsFor o) || (isOX o && mixed (n.argsFor o))) = nInvalid n := by
  cases n with
  | leaf a => simp [NExpr.argsFor, nInvalidL, mixed_single]
  | node op' as =>
    simp only [NExpr.argsFor]
    split
    · next h => subst h; simp [nInvalid]
    · simp [nInvalidL, mixed_single]

theorem noHintFcRunL_iff (xs : List NExpr) : noHintFcRunL xs = true ↔ ∀ x ∈ xs, noHintFcRun x = true := by
  induction xs with
  | nil => simp [noHintFcRunL]
  | cons x xs ih => simp [noHintFcRunL, ih]

theorem any_mono {p : NExpr → Bool} {as X : List NExpr} (hsub : ∀ x ∈ as, x ∈ X) (h : as.any p = true) :
    X.any p = true := by
  rw [List.any_eq_true] at h ⊢
  obtain ⟨x, hx, hp⟩ := h
  exact ⟨x, hsub x hx, hp⟩

theorem noHint_sub (o : Op) (X : List NExpr) (n : NExpr) (hX : noHintFcRun (.node o X) = true)
    (hsub : ∀ x ∈ n.argsFor o, x ∈ X) : noHintFcRun n = true := by
  simp only [noHintFcRun, Bool.and_eq_true] at hX
  obtain ⟨hc, hL⟩ := hX
  rw [noHintFcRunL_iff] at hL
  cases n with
  | leaf a => simp [noHintFcRun]
  | node o' as =>
    by_cases h : o' = o
    · subst h
      simp only [NExpr.argsFor, if_true] at hsub
      simp only [noHintFcRun, Bool.and_eq_true]
      refine ⟨?_, ?_⟩
      · cases hox : (o' == Op.or_ || o' == Op.xor_) with
        | false => simp
        | true =>
          rw [hox] at hc
          cases h1 : as.any isBareHint with
          | false => simp
          | true =>
            cases h2 : as.any isBareFc with
            | false => simp
            | true =>
              rw [any_mono hsub h1, any_mono hsub h2] at hc
              simp at hc
      · rw [noHintFcRunL_iff]; intro x hx; exact hL x (hsub x hx)
    · simp only [NExpr.argsFor, if_neg h] at hsub
      exact hL _ (hsub _ (by simp))

theorem pair_false (o : Op) (X : List NExpr) (a b : NExpr)
    (hc : (!(o == .or_ || o == .xor_) || !(X.any isBareHint && X.any isBareFc)) = true) (hox : isOX o = true)
    (ha : a ∈ X) (hb : b ∈ X) : (isBareHint a && isBareFc b) = false := by
  simp only [isOX] at hox
  rw [hox] at hc
  cases h1 : isBareHint a with
  | false => rfl
  | true =>
    cases h2 : isBareFc b with
    | false => rfl
    | true =>
      have e1 : X.any isBareHint = true := List.any_eq_true.2 ⟨a, ha, h1⟩
      have e2 : X.any isBareFc = true := List.any_eq_true.2 ⟨b, hb, h2⟩
      rw [e1, e2] at hc
      simp at hc

theorem invalidAt_flat (t : Expr) (hk : noHintFcRun t.flat = true) : invalidAt t = nInvalid t.flat := by
  induction t with
  | leaf a => rfl
  | bin o l r ihl ihr =>
    rw [Expr.flat] at hk
    have kl : noHintFcRun l.flat = true := noHint_sub o _ _ hk (fun x hx => by simp [hx])
    have kr : noHintFcRun r.flat = true := noHint_sub o _ _ hk (fun x hx => by simp [hx])
    have el := ihl kl
    have er := ihr kr
    have pair : isOX o = true →
        ((l.isHintLeaf && r.isFcLeaf) || (l.isFcLeaf && r.isHintLeaf)) = false := by
      intro hox
      simp only [noHintFcRun, Bool.and_eq_true] at hk
      have hc := hk.1
      rw [isHintLeaf_flat, isHintLeaf_flat, isFcLeaf_flat, isFcLeaf_flat]
      have ml : ∀ h : isBareHint l.flat = true ∨ isBareFc l.flat = true,
          l.flat ∈ l.flat.argsFor o ++ r.flat.argsFor o := by
        intro h
        rcases h with h | h
        · rw [bareHint_argsFor o _ h]; simp
        · rw [bareFc_argsFor o _ h]; simp
      have mr : ∀ h : isBareHint r.flat = true ∨ isBareFc r.flat = true,
          r.flat ∈ l.flat.argsFor o ++ r.flat.argsFor o := by
        intro h
        rcases h with h | h
        · rw [bareHint_argsFor o _ h]; simp
        · rw [bareFc_argsFor o _ h]; simp
      rw [Bool.or_eq_false_iff]
      constructor
      · cases h1 : isBareHint l.flat with
        | false => rfl
        | true =>
          cases h2 : isBareFc r.flat with
          | false => rfl
          | true => exact pair_false o _ _ _ hc hox (ml (.inl h1)) (mr (.inr h2)) ▸ (by simp [h1, h2])
      · cases h1 : isBareFc l.flat with
        | false => rfl
        | true =>
          cases h2 : isBareHint r.flat with
          | false => simp
          | true => exact pair_false o _ _ _ hc hox (mr (.inl h2)) (ml (.inr h1)) ▸ (by simp [h1, h2])
    simp only [invalidAt, Expr.flat, nInvalid]
    rw [nInvalidL_append, mixed_append _ _ (argsFor_ne_nil o l) (argsFor_ne_nil o r),
      nNeutralL_argsFor, nNeutralL_argsFor, el, er, ← runInv_argsFor o l.flat, ← runInv_argsFor o r.flat,
      neutralOnly_flat l, neutralOnly_flat r]
    have hox : (o == Op.or_ || o == Op.xor_) = isOX o := rfl
    rw [hox, Bool.or_assoc (nNeutral l.flat != nNeutral r.flat)]
    cases hX : isOX o with
    | false => simp
    | true =>
      rw [pair hX]
      generalize nInvalidL (NExpr.argsFor o l.flat) = a
      generalize nInvalidL (NExpr.argsFor o r.flat) = b
      generalize mixed (NExpr.argsFor o l.flat) = c
      generalize mixed (NExpr.argsFor o r.flat) = d
      generalize (nNeutral l.flat != nNeutral r.flat) = e
      cases a <;> cases b <;> cases c <;> cases d <;> cases e <;> rfl

/-- **C05 (brackets), partial: outside K1's class.** -/
theorem C05_brackets_partial (t t' : Expr) (hwf : WF t = true) (hwf' : WF t' = true) (hflat : t.flat = t'.flat)
    (hk : noHintFcRun t.flat = true) :
    invalidAt t = invalidAt t' ∧ ∀ env, denote env t = denote env t' := by
  constructor
  · rw [invalidAt_flat t hk, invalidAt_flat t' (hflat ▸ hk), hflat]
  · intro env
    rw [denote_flat env t hwf, denote_flat env t' hwf', hflat]

/-- string level: any two writings of the same tree (e.g. with and without redundant brackets, C01) are parsed to trees with the same
validity and value, outside K1's class and as long as both parses stay in the documented domain -/
theorem C05_brackets_written {p q : Nat} {e : Expr} {ts₁ ts₂ : List Tok} (h₁ : C01.Written p e ts₁) (h₂ : C01.Written q e ts₂)
    (e₁ e₂ : Expr) (hp₁ : parseToks ts₁ = some e₁) (hp₂ : parseToks ts₂ = some e₂)
    (hwf₁ : WF e₁ = true) (hwf₂ : WF e₂ = true) (hk : noHintFcRun e.flat = true) :
    invalidAt e₁ = invalidAt e₂ ∧ ∀ env, denote env e₁ = denote env e₂ := by
  obtain ⟨a, ha, fa⟩ := C01.C01_precedence h₁
  obtain ⟨b, hb, fb⟩ := C01.C01_precedence h₂
  rw [hp₁] at ha
  rw [hp₂] at hb
  cases ha
  cases hb
  exact C05_brackets_partial e₁ e₂ hwf₁ hwf₂ (fa.trans fb.symm) (fa ▸ hk)

/-- the witness of K1 is in the excluded class -/
theorem K1_is_excluded :
    noHintFcRun (Expr.bin .or_ (.leaf (.cond "501".toList)) (.bin .or_ (.leaf (.cond "901".toList))
      (.bin .and_ (.leaf (.cond "502".toList)) (.leaf (.cond "503".toList))))).flat = false := by
  decide

end Ahbicht.Properties.C05Brackets

