import Ahbicht.Model.Iso
import Ahbicht.Properties.C20
/-!
# C20 at the level of the written string: "every way of writing it as an ISO-8601 datetime with UTC offset (or Z)"

`Model/Iso.lean` models `parse_as_datetime` on the extended ISO-8601 family.  Here: every valid datetime, written with any separator
and in any of the offset styles, is read back as exactly that datetime; whatever is read back is in range; hence two strings of the
family that denote the same instant get the same verdicts for 932 … 935, and 931 looks at the written offset only.  A string of the
family with an out-of-range field is answered "unfulfilled, with a message".
-/
namespace Ahbicht.Properties.C20
open Ahbicht Generated

/-! ## helper lemmas -/

theorem digitVal_ofNat : ∀ k, k < 10 → digitVal (Char.ofNat (48 + k)) = some k := by decide

theorem digitVal_digitChar (n : Nat) : digitVal (digitChar n) = some (n % 10) := by
  unfold digitChar
  exact digitVal_ofNat _ (Nat.mod_lt _ (by decide))

theorem num2_digitChar (a b : Nat) : num2 (digitChar a) (digitChar b) = some (10 * (a % 10) + b % 10) := by
  simp [num2, digitVal_digitChar]

theorem num2_show (n : Nat) (h : n < 100) : num2 (digitChar (n / 10)) (digitChar n) = some n := by
  rw [num2_digitChar]; congr 1; omega

theorem num4_show (n : Nat) (h : n < 10000) :
    num4 (digitChar (n / 100 / 10)) (digitChar (n / 100)) (digitChar (n % 100 / 10)) (digitChar (n % 100)) = some n := by
  have h1 : n / 100 < 100 := by omega
  have h2 : n % 100 < 100 := by omega
  simp only [num4, num2_show _ h1, num2_show _ h2]
  congr 1; omega

theorem digitVal_le (c : Char) (x : Nat) (h : digitVal c = some x) : x ≤ 9 := by
  unfold digitVal at h
  split at h
  · injection h with h; omega
  · cases h

theorem num2_le (a b : Char) (x : Nat) (h : num2 a b = some x) : x ≤ 99 := by
  unfold num2 at h
  split at h
  · rename_i p q hp hq
    injection h with h
    have := digitVal_le _ _ hp
    have := digitVal_le _ _ hq
    omega
  · cases h

theorem num4_le (a b c d : Char) (x : Nat) (h : num4 a b c d = some x) : x ≤ 9999 := by
  unfold num4 at h
  split at h
  · rename_i p q hp hq
    injection h with h
    have := num2_le _ _ _ hp
    have := num2_le _ _ _ hq
    omega
  · cases h

theorem int_beq_decide (a b : Int) : (a == b) = decide (a = b) := by
  by_cases h : a = b <;> simp [h]

theorem daysInMonth_le (y m : Nat) : daysInMonth y m ≤ 31 := by
  unfold daysInMonth
  split
  · split <;> omega
  · split <;> omega

theorem offsetTotal_bound (sg : Char) (h m s : Nat) (o : Int) (hh : offsetTotal sg h m s = some (some o)) :
    -86400 < o ∧ o < 86400 := by
  unfold offsetTotal at hh
  simp only at hh
  split at hh
  · injection hh with hh
    split at hh
    · injection hh with hh; subst hh; simp only [Int.ofNat_eq_natCast]; omega
    · cases hh
  · split at hh
    · injection hh with hh
      split at hh
      · injection hh with hh; subst hh; simp only [Int.ofNat_eq_natCast]; omega
      · cases hh
    · cases hh

theorem parseOffset_bound (r : List Char) (o : Int) (h : parseOffset r = some (some o)) : -86400 < o ∧ o < 86400 := by
  unfold parseOffset at h
  split at h
  · injection h with h; injection h with h; omega
  · split at h
    · exact offsetTotal_bound _ _ _ _ _ h
    · cases h
  · split at h
    · exact offsetTotal_bound _ _ _ _ _ h
    · cases h
  · cases h

theorem parseOffset_show (st : OffStyle) (off : Int) (h1 : -86400 < off) (h2 : off < 86400)
    (hst : styleFits st off = true) : parseOffset (showOffset st off) = some (some off) := by
  cases st
  · simp [styleFits] at hst; subst hst; rfl
  · simp only [styleFits, beq_iff_eq] at hst
    simp only [showOffset, show2, List.cons_append, List.nil_append, parseOffset]
    rw [num2_show _ (by omega), num2_show _ (by omega)]
    simp only [offsetTotal]
    have ht : off.natAbs / 3600 * 3600 + off.natAbs % 3600 / 60 * 60 + 0 = off.natAbs := by omega
    simp only [ht]
    by_cases hneg : off < 0
    · simp [hneg]; omega
    · simp [hneg]; omega
  · simp only [showOffset, show2, List.cons_append, List.nil_append, parseOffset]
    rw [num2_show _ (by omega), num2_show _ (by omega), num2_show _ (by omega)]
    simp only [offsetTotal]
    by_cases hneg : off < 0
    · simp [hneg]; omega
    · simp [hneg]; omega
  · simp [styleFits] at hst; subst hst; decide

/-- **C20 (reading back what was written).** -/
theorem C20_iso_roundtrip (w : Written) (sep : Char) (st : OffStyle)
    (hw : w.valid = true) (hst : styleFits st w.off = true) (hsep : sep ≠ 'Z') :
    parseIsoChars (renderIso sep st w) = .ok w := by
  obtain ⟨y, m, d, hh, mm, ss, off⟩ := w
  simp only [Written.valid, Bool.and_eq_true, decide_eq_true_eq] at hw
  obtain ⟨⟨⟨⟨⟨⟨⟨⟨⟨hy0, hy1⟩, hm0⟩, hd0⟩, hh0⟩, hmm0⟩, hss0⟩, hfv⟩, ho1⟩, ho2⟩ := hw
  have hfv' := hfv
  simp only [fieldsValid, Bool.and_eq_true, decide_eq_true_eq] at hfv'
  obtain ⟨⟨⟨⟨⟨⟨⟨_, _⟩, _⟩, _⟩, hdd⟩, _⟩, _⟩, _⟩ := hfv'
  have hdim : daysInMonth y.toNat m.toNat ≤ 31 := daysInMonth_le _ _
  simp only [renderIso, show4, show2, List.cons_append, List.nil_append, parseIsoChars]
  rw [if_pos ⟨trivial, trivial, trivial, trivial, hsep⟩]
  rw [num4_show _ (by omega), num2_show _ (by omega), num2_show _ (by omega), num2_show _ (by omega),
    num2_show _ (by omega), num2_show _ (by omega), parseOffset_show st off ho1 ho2 hst]
  simp only [assemble, hfv, if_true]
  simp only [Int.ofNat_eq_natCast, Int.toNat_of_nonneg hy0, Int.toNat_of_nonneg hm0, Int.toNat_of_nonneg hd0,
    Int.toNat_of_nonneg hh0, Int.toNat_of_nonneg hmm0, Int.toNat_of_nonneg hss0]

/-- **C20 (what is read is in range).** -/
theorem C20_iso_sound (cs : List Char) (w : Written) (h : parseIsoChars cs = .ok w) : w.valid = true := by
  unfold parseIsoChars at h
  split at h
  · split at h
    · unfold assemble at h
      split at h
      · split at h
        · split at h
          · rename_i y mo d hh mi s hy _ _ _ _ _ hfv _ o ho
            injection h with h
            subst h
            have hy' := num4_le _ _ _ _ _ hy
            have hb := parseOffset_bound _ _ ho
            simp only [Written.valid, Int.ofNat_eq_natCast, Int.toNat_natCast, hfv, Bool.and_eq_true, decide_eq_true_eq, and_true]
            omega
          · cases h
        · cases h
      · cases h
    · cases h
  · cases h

/-- **C20 (string level: the verdict depends on the instant only).** Two strings of the family that denote the same instant get the
same verdict for 932/933 and for 934/935 — whatever separator, offset and offset style they are written with. -/
theorem C20_iso_notation (cs₁ cs₂ : List Char) (w₁ w₂ : Written)
    (h₁ : parseIsoChars cs₁ = .ok w₁) (h₂ : parseIsoChars cs₂ = .ok w₂) (h : instant w₁ = instant w₂) :
    judgeStrom cs₁ = judgeStrom cs₂ ∧ judgeGas cs₁ = judgeGas cs₂ := by
  have hn := C20_notation w₁ w₂ h
  simp only [judgeStrom, judgeGas, judgeWith, h₁, h₂, hn.1, hn.2, and_self]

/-- **C20 (every way of writing).** Any two valid datetimes with the same instant, each written with any separator and any fitting
offset style: same verdicts, and the verdict is the one of the instant in German local time. -/
theorem C20_iso_every_writing (w₁ w₂ : Written) (sep₁ sep₂ : Char) (st₁ st₂ : OffStyle)
    (hw₁ : w₁.valid = true) (hw₂ : w₂.valid = true) (hst₁ : styleFits st₁ w₁.off = true) (hst₂ : styleFits st₂ w₂.off = true)
    (hsep₁ : sep₁ ≠ 'Z') (hsep₂ : sep₂ ≠ 'Z') (h : instant w₁ = instant w₂) :
    judgeStrom (renderIso sep₁ st₁ w₁) = judgeStrom (renderIso sep₂ st₂ w₂) ∧
    judgeGas (renderIso sep₁ st₁ w₁) = judgeGas (renderIso sep₂ st₂ w₂) ∧
    judgeStrom (renderIso sep₁ st₁ w₁) = some ⟨decide (localTod (instant w₁) = 0), !decide (localTod (instant w₁) = 0)⟩ ∧
    judgeGas (renderIso sep₁ st₁ w₁) = some ⟨decide (localTod (instant w₁) = 21600), !decide (localTod (instant w₁) = 21600)⟩ := by
  have h₁ := C20_iso_roundtrip w₁ sep₁ st₁ hw₁ hst₁ hsep₁
  have h₂ := C20_iso_roundtrip w₂ sep₂ st₂ hw₂ hst₂ hsep₂
  have hn := C20_iso_notation _ _ w₁ w₂ h₁ h₂ h
  refine ⟨hn.1, hn.2, ?_, ?_⟩
  · simp only [judgeStrom, judgeWith, h₁, isStromtagLimit, int_beq_decide]
  · simp only [judgeGas, judgeWith, h₁, isGastagLimit, int_beq_decide]

/-- **C20 (931 at string level).** fulfilled exactly if the written offset is zero; a message accompanies every "unfulfilled". -/
theorem C20_iso_931 (cs : List Char) (w : Written) (h : parseIsoChars cs = .ok w) :
    judge931 cs = some ⟨decide (w.off = 0), !decide (w.off = 0)⟩ := by
  simp only [judge931, judgeWith, h, hasNoUtcOffset, int_beq_decide]

/-- `Z`, `+00:00`, `+00:00:00` and `-00:00` are the zero offset; no other writing of the family is -/
theorem C20_iso_931_written (w : Written) (sep : Char) (st : OffStyle)
    (hw : w.valid = true) (hst : styleFits st w.off = true) (hsep : sep ≠ 'Z') :
    (judge931 (renderIso sep st w) = some ⟨true, false⟩ ↔ w.off = 0) := by
  rw [C20_iso_931 _ w (C20_iso_roundtrip w sep st hw hst hsep)]
  by_cases h0 : w.off = 0 <;> simp [h0]

/-- **C20 (out-of-range field).** A string of the family with a field out of range is unfulfilled with a message, for all five constraints. -/
theorem C20_iso_invalid (cs : List Char) (h : parseIsoChars cs = .invalid) :
    judgeStrom cs = some ⟨false, true⟩ ∧ judgeGas cs = some ⟨false, true⟩ ∧ judge931 cs = some ⟨false, true⟩ := by
  simp only [judgeStrom, judgeGas, judge931, judgeWith, h, and_self]

/-- **C20 (a message accompanies every unfulfilled verdict, none a fulfilled one).** -/
theorem C20_iso_message (f : Written → Bool) (cs : List Char) (v : Verdict) (h : judgeWith f cs = some v) :
    v.hasMessage = !v.fulfilled := by
  unfold judgeWith at h
  split at h
  · injection h with h; subst h; rfl
  · injection h with h; subst h; rfl
  · cases h

/-- the documented quirk of the offset fields: only their total is checked (`+01:75` = `+02:15`), 24 h is too much -/
theorem C20_iso_offset_total :
    parseIsoChars "2022-01-01T00:00:00+01:75".toList = .ok ⟨2022, 1, 1, 0, 0, 0, 8100⟩ ∧
    parseIsoChars "2022-01-01T00:00:00+24:00".toList = .invalid ∧
    parseIsoChars "2022-01-01T00:00:00-23:59:59".toList = .ok ⟨2022, 1, 1, 0, 0, 0, -86399⟩ := by
  decide +kernel

/-! non-vacuity: the switch day of March 2022 written in four ways, one instant, fulfilled; hypotheses of the round trip are met -/
example : (⟨2022, 3, 27, 0, 0, 0, 3600⟩ : Written).valid = true ∧ styleFits .short (3600 : Int) = true := by decide
example : judgeStrom "2022-03-26T23:00:00Z".toList = some ⟨true, false⟩ ∧
    judgeStrom "2022-03-27 00:00:00+01:00".toList = some ⟨true, false⟩ ∧
    judgeStrom "2022-03-26T18:00:00-05:00:00".toList = some ⟨true, false⟩ ∧
    judgeStrom "2022-03-27T01:00:00+02:00".toList = some ⟨true, false⟩ ∧
    judgeGas "2022-03-27T06:00:00+02:00".toList = some ⟨true, false⟩ ∧
    judgeGas "2022-03-27T06:00:00+01:00".toList = some ⟨false, true⟩ := by decide +kernel

end Ahbicht.Properties.C20
