import Ahbicht.Model.Extract
import Ahbicht.Lemmas.Product
import Ahbicht.Generated.NodeTypes
/-!
# C18 — key extraction partitions keys by range; all possible evaluations enumerated
-/
namespace Ahbicht.Properties.C18
open Ahbicht Generated

/-! ## ranges (T1: the extracted table on 0 … 3000 is the documented range function) -/
def codeOf : Option Kind → Nat
  | none => 0 | some .rc => 1 | some .hint => 2 | some .fc => 3 | some .repeatability => 4 | some .package => 5

def expandRuns : List (Nat × Nat) → List Nat
  | [] => []
  | (c, n) :: rest => List.replicate n c ++ expandRuns rest

/-- the code, on every number 0 … 3000, is the documented range function -/
theorem C18_table : expandRuns nodeTypeRuns = (List.range 3001).map (fun n => codeOf (nodeTypeNat n)) := by
  decide +kernel

/-- **C18 (ranges).** -/
theorem C18_ranges (n : Nat) :
    (nodeTypeNat n = some .rc ↔ 1 ≤ n ∧ n ≤ 499) ∧
    (nodeTypeNat n = some .repeatability ↔ 2000 ≤ n ∧ n ≤ 2499) ∧
    (nodeTypeNat n = some .hint ↔ 500 ≤ n ∧ n ≤ 900) ∧
    (nodeTypeNat n = some .fc ↔ 901 ≤ n ∧ n ≤ 999) ∧
    (nodeTypeNat n = none ↔ n = 0 ∨ (1000 ≤ n ∧ n ≤ 1999) ∨ 2500 ≤ n) := by
  unfold nodeTypeNat
  refine ⟨?_, ?_, ?_, ?_, ?_⟩ <;> (repeat' split) <;> simp <;> omega

/-- categorisation as used by evaluation: requirement (incl. repeatability) / hint / format -/
theorem C18_categories (k : List Char) (h : k.getLast? ≠ some 'P') :
    (catOf k = some .rc ↔ (1 ≤ digitsToNat k ∧ digitsToNat k ≤ 499) ∨ (2000 ≤ digitsToNat k ∧ digitsToNat k ≤ 2499)) ∧
    (catOf k = some .hint ↔ 500 ≤ digitsToNat k ∧ digitsToNat k ≤ 900) ∧
    (catOf k = some .fc ↔ 901 ≤ digitsToNat k ∧ digitsToNat k ≤ 999) := by
  have hr := C18_ranges (digitsToNat k)
  unfold catOf nodeType
  simp only [h, ↓reduceIte]
  cases hn : nodeTypeNat (digitsToNat k) with
  | none => simp; have := hr.2.2.2.2.1 hn; omega
  | some kd =>
    cases kd with
    | rc => have := hr.1.1 hn; simp; omega
    | hint => have := hr.2.2.1.1 hn; simp; omega
    | fc => have := hr.2.2.2.1.1 hn; simp; omega
    | repeatability => have := hr.2.1.1 hn; simp; omega
    | package => exfalso; unfold nodeTypeNat at hn; (repeat' split at hn) <;> simp at hn

/-! ## partition -/
/-- **C18 (partition).** Every condition key of the expression lands in exactly one of the three lists. -/
theorem C18_partition {e : Expr} {x : KeyExtract} (h : extractRaw e = some x) (k : List Char) (hk : Atom.cond k ∈ e.atoms) :
    (k ∈ x.rc ∧ k ∉ x.hint ∧ k ∉ x.fc) ∨ (k ∉ x.rc ∧ k ∈ x.hint ∧ k ∉ x.fc) ∨ (k ∉ x.rc ∧ k ∉ x.hint ∧ k ∈ x.fc) := by
  unfold extractRaw at h
  split at h
  · rename_i hall
    cases h
    have hmem : k ∈ condKeys e := mem_condKeys.2 hk
    have hc := List.all_eq_true.1 hall k hmem
    cases hcat : catOf k with
    | none => simp [hcat] at hc
    | some c => cases c <;> simp [List.mem_filter, hmem, hcat]
  · cases h

/-- packages and time conditions are categorised by token type -/
theorem C18_partition_tokens {e : Expr} {x : KeyExtract} (h : extractRaw e = some x) :
    (∀ k, k ∈ x.pkg ↔ ∃ r, Atom.pkg k r ∈ e.atoms) ∧ (∀ k, k ∈ x.time ↔ Atom.time k ∈ e.atoms) := by
  unfold extractRaw at h
  split at h
  · cases h
    constructor
    · intro k; simp only [pkgKeys, List.mem_filterMap]
      constructor
      · rintro ⟨a, ha, hka⟩; cases a <;> simp [Atom.pkgKey?] at hka; subst hka; exact ⟨_, ha⟩
      · rintro ⟨r, hr⟩; exact ⟨_, hr, rfl⟩
    · intro k; simp only [timeKeys, List.mem_filterMap]
      constructor
      · rintro ⟨a, ha, hka⟩; cases a <;> simp [Atom.timeKey?] at hka; subst hka; exact ha
      · intro hr; exact ⟨_, hr, rfl⟩
  · cases h

/-! ## sanitising: every key once, ascending numeric order -/
theorem mem_dedupKeys {α : Type} [DecidableEq α] (l : List α) (x : α) : x ∈ dedupKeys l ↔ x ∈ l := by
  induction l with
  | nil => simp [dedupKeys]
  | cons y ys ih =>
    simp only [dedupKeys, List.mem_cons, List.mem_filter, ih]
    by_cases h : x = y <;> simp [h]

theorem nodup_dedupKeys {α : Type} [DecidableEq α] (l : List α) : (dedupKeys l).Nodup := by
  induction l with
  | nil => simp [dedupKeys]
  | cons y ys ih =>
    simp only [dedupKeys, List.nodup_cons, List.mem_filter, ne_eq, not_true_eq_false, decide_false,
      Bool.false_eq_true, and_false, not_false_eq_true, true_and]
    exact ih.filter _

theorem insertBy_perm {α : Type} (f : α → Nat) (x : α) (l : List α) : (insertBy f x l).Perm (x :: l) := by
  induction l with
  | nil => exact List.Perm.refl _
  | cons y ys ih =>
    simp only [insertBy]
    split
    · exact List.Perm.refl _
    · exact (List.Perm.cons y ih).trans (List.Perm.swap x y ys)

theorem sortBy_perm {α : Type} (f : α → Nat) (l : List α) : (sortBy f l).Perm l := by
  induction l with
  | nil => exact List.Perm.refl _
  | cons x xs ih => exact (insertBy_perm f x _).trans (List.Perm.cons x ih)

theorem insertBy_sorted {α : Type} (f : α → Nat) (x : α) (l : List α) (h : l.Pairwise (fun a b => f a ≤ f b)) :
    (insertBy f x l).Pairwise (fun a b => f a ≤ f b) := by
  induction l with
  | nil => simp [insertBy]
  | cons y ys ih =>
    simp only [insertBy]
    split
    · rename_i hxy
      rw [List.pairwise_cons] at h ⊢
      refine ⟨?_, List.pairwise_cons.2 h⟩
      intro z hz
      rcases List.mem_cons.1 hz with rfl | hz
      · exact hxy
      · exact Nat.le_trans hxy (h.1 z hz)
    · rename_i hxy
      rw [List.pairwise_cons] at h ⊢
      refine ⟨?_, ih h.2⟩
      intro z hz
      have := (insertBy_perm f x ys).mem_iff.1 hz
      rcases List.mem_cons.1 this with rfl | hz'
      · omega
      · exact h.1 z hz'

theorem sortBy_sorted {α : Type} (f : α → Nat) (l : List α) : (sortBy f l).Pairwise (fun a b => f a ≤ f b) := by
  induction l with
  | nil => simp [sortBy]
  | cons x xs ih => exact insertBy_sorted f x _ ih

/-- **C18 (every condition key once, ascending).** -/
theorem C18_sorted (x : KeyExtract) :
    let s := x.sanitize
    (s.rc.Nodup ∧ s.rc.Pairwise (fun a b => digitsToNat a ≤ digitsToNat b) ∧ ∀ k, k ∈ s.rc ↔ k ∈ x.rc) ∧
    (s.hint.Nodup ∧ s.hint.Pairwise (fun a b => digitsToNat a ≤ digitsToNat b) ∧ ∀ k, k ∈ s.hint ↔ k ∈ x.hint) ∧
    (s.fc.Nodup ∧ s.fc.Pairwise (fun a b => digitsToNat a ≤ digitsToNat b) ∧ ∀ k, k ∈ s.fc ↔ k ∈ x.fc) := by
  have key : ∀ l : List (List Char), (sortBy digitsToNat (dedupKeys l)).Nodup ∧
      (sortBy digitsToNat (dedupKeys l)).Pairwise (fun a b => digitsToNat a ≤ digitsToNat b) ∧
      ∀ k, k ∈ sortBy digitsToNat (dedupKeys l) ↔ k ∈ l := by
    intro l
    refine ⟨(sortBy_perm _ _).nodup_iff.2 (nodup_dedupKeys l), sortBy_sorted _ _, fun k => ?_⟩
    rw [(sortBy_perm _ _).mem_iff, mem_dedupKeys]
  exact ⟨key x.rc, key x.hint, key x.fc⟩

/-- **C18 (union).** The extract of a composed expression holds exactly the keys of the extracts of its parts. -/
theorem C18_union {o : Op} {l r : Expr} {xl xr x : KeyExtract} (hl : extractRaw l = some xl) (hr : extractRaw r = some xr)
    (h : extractRaw (.bin o l r) = some x) :
    (∀ k, k ∈ (xl.add xr).rc ↔ k ∈ x.sanitize.rc) ∧ (∀ k, k ∈ (xl.add xr).hint ↔ k ∈ x.sanitize.hint) ∧
    (∀ k, k ∈ (xl.add xr).fc ↔ k ∈ x.sanitize.fc) := by
  have hx : x.rc = xl.rc ++ xr.rc ∧ x.hint = xl.hint ++ xr.hint ∧ x.fc = xl.fc ++ xr.fc := by
    unfold extractRaw at hl hr h
    split at hl
    · split at hr
      · split at h
        · cases hl; cases hr; cases h
          simp [condKeys_bin', List.filter_append]
        · cases h
      · cases hr
    · cases hl
  have hs := C18_sorted x
  have ha := C18_sorted { hint := xl.hint ++ xr.hint, fc := xl.fc ++ xr.fc, rc := xl.rc ++ xr.rc, pkg := xl.pkg ++ xr.pkg, time := xl.time ++ xr.time }
  simp only at hs ha
  refine ⟨fun k => ?_, fun k => ?_, fun k => ?_⟩
  · rw [hs.1.2.2 k, hx.1]; exact ha.1.2.2 k
  · rw [hs.2.1.2.2 k, hx.2.1]; exact ha.2.1.2.2 k
  · rw [hs.2.2.2.2 k, hx.2.2]; exact ha.2.2.2.2 k

/-! ## enumeration -/
/-- **C18 (product).** The code's "combinations of a product, filtered on distinct keys" enumerates exactly the assignments of one
value per key: every combination (`mem`), each once (`Nodup`).  For any key list without repetitions (sanitised lists are). -/
theorem C18_assignments {α β : Type} [DecidableEq α] [DecidableEq β] (keys : List α) (vals : List β) (hk : keys.Nodup) (hv : vals.Nodup) :
    (∀ z, z ∈ assignments keys vals ↔ (z.map (·.1) = keys ∧ ∀ p ∈ z, p.2 ∈ vals)) ∧ (assignments keys vals).Nodup :=
  ⟨fun z => (mem_assignments keys vals hk z).trans (mem_productSpec keys vals z), nodup_assignments keys vals hk hv⟩

theorem nodup_prod {α β : Type} (l₁ : List α) (l₂ : List β) (h₁ : l₁.Nodup) (h₂ : l₂.Nodup) :
    (l₁.flatMap fun a => l₂.map fun b => (a, b)).Nodup := by
  induction l₁ with
  | nil => simp
  | cons x xs ih =>
    rw [List.nodup_cons] at h₁
    simp only [List.flatMap_cons]
    rw [List.nodup_append]
    refine ⟨?_, ih h₁.2, ?_⟩
    · exact nodup_map_of_injective _ (fun a b h => by cases h; rfl) _ h₂
    · intro p hp q hq hpq
      simp only [List.mem_map] at hp
      obtain ⟨b, _, rfl⟩ := hp
      simp only [List.mem_flatMap, List.mem_map] at hq
      obtain ⟨a, ha, b', _, rfl⟩ := hq
      cases hpq
      exact h₁.1 ha

/-- what "one value per key" means for the generated pair (format assignment, requirement assignment) -/
def IsResult (fcKeys rcKeys : List (List Char)) (fr : List (List Char × Bool) × List (List Char × CFV)) : Prop :=
  fr.1.map (·.1) = fcKeys ∧ fr.2.map (·.1) = rcKeys ∧ ∀ p ∈ fr.2, p.2 = .F ∨ p.2 = .U ∨ p.2 = .K

/-- **C18 (generated results), partial: at least one key.** The generated list contains exactly the pairs of a truth assignment to the
format keys and a FULFILLED/UNFULFILLED/UNKNOWN assignment to the requirement keys, each once.  The case without any key is finding K2. -/
theorem C18_product_partial (fcKeys rcKeys : List (List Char)) (hf : fcKeys.Nodup) (hr : rcKeys.Nodup)
    (hne : ¬ (fcKeys = [] ∧ rcKeys = [])) :
    (∀ fr, fr ∈ genResults fcKeys rcKeys ↔ IsResult fcKeys rcKeys fr) ∧ (genResults fcKeys rcKeys).Nodup := by
  have hvb : ([true, false] : List Bool).Nodup := by decide
  have hvc : ([CFV.F, CFV.U, CFV.K, CFV.N] : List CFV).Nodup := by decide
  -- the two component lists, with the dummy singletons of the code for an empty key list
  have fcs_spec : ∀ z, z ∈ (if fcKeys.isEmpty then [[]] else assignments fcKeys [true, false]) ↔ z.map (·.1) = fcKeys := by
    intro z
    cases fcKeys with
    | nil => simp
    | cons k ks =>
      simp only [List.isEmpty_cons, Bool.false_eq_true, ↓reduceIte]
      rw [(C18_assignments (k :: ks) [true, false] hf hvb).1 z]
      constructor
      · exact fun h => h.1
      · intro h; refine ⟨h, fun p _ => ?_⟩; cases p.2 <;> simp
  have rcs_spec : ∀ z, z ∈ (if rcKeys.isEmpty then [[]] else assignments rcKeys [CFV.F, CFV.U, CFV.K, CFV.N]) ↔ z.map (·.1) = rcKeys := by
    intro z
    cases rcKeys with
    | nil => simp
    | cons k ks =>
      simp only [List.isEmpty_cons, Bool.false_eq_true, ↓reduceIte]
      rw [(C18_assignments (k :: ks) _ hr hvc).1 z]
      constructor
      · exact fun h => h.1
      · intro h; refine ⟨h, fun p _ => ?_⟩; cases p.2 <;> simp
  have fcs_nodup : (if fcKeys.isEmpty then [[]] else assignments fcKeys [true, false]).Nodup := by
    split
    · simp
    · exact (C18_assignments fcKeys _ hf hvb).2
  have rcs_nodup : (if rcKeys.isEmpty then [[]] else assignments rcKeys [CFV.F, CFV.U, CFV.K, CFV.N]).Nodup := by
    split
    · simp
    · exact (C18_assignments rcKeys _ hr hvc).2
  have hempty : (fcKeys.isEmpty && rcKeys.isEmpty) = false := by
    cases fcKeys <;> cases rcKeys <;> simp_all
  unfold genResults
  simp only [hempty, Bool.false_eq_true, ↓reduceIte]
  constructor
  · intro fr
    simp only [List.mem_filter, List.mem_flatMap, List.mem_map, List.all_eq_true, bne_iff_ne, ne_eq]
    constructor
    · rintro ⟨⟨f, hfm, r, hrm, rfl⟩, hN⟩
      refine ⟨(fcs_spec f).1 hfm, (rcs_spec r).1 hrm, fun p hp => ?_⟩
      have := hN p hp
      cases hp2 : p.2 <;> simp_all
    · rintro ⟨h1, h2, h3⟩
      refine ⟨⟨fr.1, (fcs_spec _).2 h1, fr.2, (rcs_spec _).2 h2, rfl⟩, fun p hp => ?_⟩
      rcases h3 p hp with h | h | h <;> simp [h]
  · refine List.Nodup.sublist List.filter_sublist ?_
    exact nodup_prod _ _ fcs_nodup rcs_nodup

/-! ### finding K2 -/
/-- with no requirement and no format key the code returns no result at all, although the product over zero keys has one element -/
theorem C18_empty_counterexample : genResults [] [] = [] ∧ (productSpec ([] : List (List Char)) [true, false]).length = 1 := by decide

/-! non-vacuity / sanity on a concrete instance: two requirement keys, one format key -/
example : (genResults [['9','0','1']] [['1'], ['2']]).length = 2 * 3 * 3 := by decide
example : assignments [1, 2] ['a', 'b', 'c'] = productSpec [1, 2] ['a', 'b', 'c'] := by decide

end Ahbicht.Properties.C18
