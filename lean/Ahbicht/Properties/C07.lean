import Ahbicht.Lemmas.Rc
/-!
# C07 — the collected format-constraint expression is well-formed and meaning-preserving

The expression requirement evaluation hands to format-constraint evaluation is the rendering of the AST `FExpr`
the model collects (`fcInit n`).  `C07_meaning`: for every valid expression of the documented domain, every
assignment to the requirement keys and every truth assignment to the format keys, its value equals the direct
reading `fcSem` of the source; it is absent exactly if nothing contributes (`C07_absent`); it consists of format keys of
the source joined by U/O/X and brackets only (`C07_keys`, by construction of `FExpr`).
-/
namespace Ahbicht.Properties.C07
open Ahbicht

/-- value of a collected expression under a truth assignment -/
def evalF (fcEnv : List Char → Bool) : FExpr → Bool
  | .key k => fcEnv k
  | .paren x => evalF fcEnv x
  | .bin .and_ l r => evalF fcEnv l && evalF fcEnv r
  | .bin .or_ l r => evalF fcEnv l || evalF fcEnv r
  | .bin .xor_ l r => evalF fcEnv l != evalF fcEnv r

def bop : BOp → Bool → Bool → Bool
  | .and_, a, b => a && b | .or_, a, b => a || b | .xor_, a, b => a != b

/-- combination in which "contributes nothing" is the unit -/
def combine (o : BOp) : Option Bool → Option Bool → Option Bool
  | none, b => b
  | a, none => a
  | some a, some b => some (bop o a b)

/-- the direct reading of the source expression: an attached format constraint takes part only if the operand it is
attached to is FULFILLED (or is a hint); sub-expressions contributing no format constraint are omitted -/
def fcSem (rcEnv : List Char → Option CFV) (fcEnv : List Char → Bool) : Expr → Option Bool
  | .leaf (.cond k) => if catOf k = some .fc then some (fcEnv k) else none
  | .leaf _ => none
  | .bin .and_ l r => combine .and_ (fcSem rcEnv fcEnv l) (fcSem rcEnv fcEnv r)
  | .bin .or_ l r => combine .or_ (fcSem rcEnv fcEnv l) (fcSem rcEnv fcEnv r)
  | .bin .xor_ l r => combine .xor_ (fcSem rcEnv fcEnv l) (fcSem rcEnv fcEnv r)
  | .bin .then_ l r =>
    if l.isFcLeaf then
      if denote rcEnv r = .F ∨ r.isHintLeaf = true then combine .and_ (fcSem rcEnv fcEnv l) (fcSem rcEnv fcEnv r) else none
    else
      if denote rcEnv l = .F ∨ l.isHintLeaf = true then combine .and_ (fcSem rcEnv fcEnv r) (fcSem rcEnv fcEnv l) else none

theorem evalF_grp (fcEnv : List Char → Bool) (f : FExpr) : evalF fcEnv f.grp = evalF fcEnv f := by
  cases f <;> rfl

theorem evalF_bin (fcEnv : List Char → Bool) (o : BOp) (l r : FExpr) :
    evalF fcEnv (.bin o l r) = bop o (evalF fcEnv l) (evalF fcEnv r) := by
  cases o <;> rfl

theorem fcOther_val (fcEnv : List Char → Bool) (n : Node) : (fcOther n).map (evalF fcEnv) = (fcInit n).map (evalF fcEnv) := by
  cases n with
  | rc k st => rfl
  | hint k t => rfl
  | fc k => rfl
  | comp st h x => cases x <;> simp [fcOther, fcInit, evalF_grp]

/-- `_connect` means: combine the two contributions -/
theorem fcConnect_val (fcEnv : List Char → Bool) (o : BOp) (a b : Node) :
    (fcConnect o (fcInit a) b).map (evalF fcEnv) = combine o ((fcInit a).map (evalF fcEnv)) ((fcInit b).map (evalF fcEnv)) := by
  rw [← fcOther_val fcEnv b]
  unfold fcConnect
  cases fcInit a <;> cases fcOther b <;> simp [combine, evalF_bin, evalF_grp]

variable {rcEnv : List Char → Option CFV} {hintEnv : List Char → Option String}

/-- **C07 (meaning).** -/
theorem C07_meaning (fcEnv : List Char → Bool) (t : Expr) (hwf : WF t = true) (ha : Assigns rcEnv hintEnv t)
    (hv : invalidAt t = false) {n : Node} (hn : evalRc (mkEnv rcEnv hintEnv) t = .ok n) :
    (fcInit n).map (evalF fcEnv) = fcSem rcEnv fcEnv t := by
  induction t generalizing n with
  | leaf a =>
    cases a with
    | pkg k r => simp [WF] at hwf
    | time k => simp [WF] at hwf
    | cond k =>
      obtain ⟨m, hm, g⟩ := good_leaf hwf ha
      rw [hm] at hn; cases hn
      simp only [WF] at hwf
      cases hc : catOf k with
      | none => simp [hc] at hwf
      | some c =>
        have hev := hm
        simp only [evalRc, mkEnv, hc] at hev
        cases c with
        | rc =>
          cases hr : rcEnv k with
          | none => simp [hr] at hev
          | some st => simp [hr] at hev; cases hev; simp [fcInit, fcSem, hc]
        | hint =>
          cases hr : hintEnv k with
          | none => simp [hr] at hev
          | some st => simp [hr] at hev; cases hev; simp [fcInit, fcSem, hc]
        | fc => simp at hev; cases hev; simp [fcInit, fcSem, hc, evalF]
  | bin o l r ihl ihr =>
    obtain ⟨wl, wr⟩ := WF_bin hwf
    have hil : invalidAt l = false := by
      cases h : invalidAt l with
      | false => rfl
      | true => simp [invalidAt, h] at hv
    have hir : invalidAt r = false := by
      cases h : invalidAt r with
      | false => rfl
      | true => simp [invalidAt, h] at hv
    obtain ⟨a, ha', ga⟩ := (eval_char l wl ha.left).2 hil
    obtain ⟨b, hb', gb⟩ := (eval_char r wr ha.right).2 hir
    have iha := ihl wl ha.left hil ha'
    have ihb := ihr wr ha.right hir hb'
    rw [evalRc_bin _ o l r ha' hb'] at hn
    cases o with
    | and_ =>
      simp only [pure, Except.pure] at hn; cases hn
      simp only [andComp, fcInit_comp, fcSem]
      rw [fcConnect_val, iha, ihb]
    | or_ =>
      obtain ⟨_, c2⟩ := orXor_char .or_ (Or.inl rfl) ga gb
      have hbad : ((neutralOnly l != neutralOnly r) || (l.isHintLeaf && r.isFcLeaf) || (l.isFcLeaf && r.isHintLeaf)) = false := by
        simpa [invalidAt, hil, hir] using hv
      obtain ⟨m, hm, _, _, _, hf⟩ := c2 hbad
      simp only at hn
      rw [hm] at hn; cases hn
      rw [hf, fcConnect_val, iha, ihb]; rfl
    | xor_ =>
      obtain ⟨_, c2⟩ := orXor_char .xor_ (Or.inr rfl) ga gb
      have hbad : ((neutralOnly l != neutralOnly r) || (l.isHintLeaf && r.isFcLeaf) || (l.isFcLeaf && r.isHintLeaf)) = false := by
        simpa [invalidAt, hil, hir] using hv
      obtain ⟨m, hm, _, _, _, hf⟩ := c2 hbad
      simp only at hn
      rw [hm] at hn; cases hn
      rw [hf, fcConnect_val, iha, ihb]; rfl
    | then_ =>
      simp only [WF, wl, wr, Bool.true_and, Bool.and_self] at hwf
      simp only [thenAlso] at hn
      rw [ga.isFc] at hn
      cases hfl : l.isFcLeaf with
      | true =>
        obtain ⟨lh, ln⟩ := fcLeaf_not_hint hfl
        have hr' : r.isHintLeaf = true ∨ neutralOnly r = false := by
          simp [hfl, lh, ln] at hwf
          rcases hwf with h | h
          · exact Or.inl h
          · exact Or.inr h
        obtain ⟨m, hm, _, _, _, hf⟩ := thenAlso'_char (fcn := a) gb hr'
        simp only [hfl, ↓reduceIte] at hn
        rw [hm] at hn; cases hn
        rw [hf]
        simp only [fcSem, hfl, ↓reduceIte, gb.state, gb.isHint]
        split
        · rw [fcConnect_val, iha, ihb]
        · rfl
      | false =>
        have hrf : r.isFcLeaf = true ∧ (l.isHintLeaf = true ∨ neutralOnly l = false) := by
          simp [hfl] at hwf
          exact ⟨hwf.1, by rcases hwf.2 with h | h; exact Or.inl h; exact Or.inr h⟩
        obtain ⟨m, hm, _, _, _, hf⟩ := thenAlso'_char (fcn := b) ga hrf.2
        simp only [hfl, Bool.false_eq_true, ↓reduceIte] at hn
        rw [hm] at hn; cases hn
        rw [hf]
        simp only [fcSem, hfl, Bool.false_eq_true, ↓reduceIte, ga.state, ga.isHint]
        split
        · rw [fcConnect_val, ihb, iha]
        · rfl

/-- **C07 (absent).** The expression is absent exactly if, by the direct reading, nothing contributes. -/
theorem C07_absent (fcEnv : List Char → Bool) (t : Expr) (hwf : WF t = true) (ha : Assigns rcEnv hintEnv t)
    (hv : invalidAt t = false) {n : Node} (hn : evalRc (mkEnv rcEnv hintEnv) t = .ok n) :
    fcInit n = none ↔ fcSem rcEnv fcEnv t = none := by
  rw [← C07_meaning fcEnv t hwf ha hv hn]
  cases fcInit n <;> simp

/-- what is reported as `format_constraints_expression` is the rendering of that AST -/
theorem C07_reported (n : Node) : (report n).fce = (fcInit n).map FExpr.render := by
  cases n with
  | rc k st => rfl
  | hint k t => rfl
  | fc k => rfl
  | comp st h x => cases x <;> rfl

/-- keys of a collected expression -/
def fkeys : FExpr → List (List Char)
  | .key k => [k]
  | .paren x => fkeys x
  | .bin _ l r => fkeys l ++ fkeys r

theorem keys_grp (f : FExpr) : fkeys f.grp = fkeys f := by cases f <;> rfl

/-- **C07 (keys).** Only format-constraint keys of the source occur in the collected expression. -/
theorem C07_keys (env : Env) (henv : ∀ k n, env k = some n → (n = .fc k ∧ catOf k = some .fc) ∨ fcInit n = none) :
    ∀ (t : Expr) (n : Node), evalRc env t = .ok n → ∀ f, fcInit n = some f → ∀ k ∈ fkeys f, k ∈ condKeys t ∧ catOf k = some .fc := by
  have conn : ∀ (o : BOp) (a b : Node) (S : List (List Char)),
      (∀ f, fcInit a = some f → ∀ k ∈ fkeys f, k ∈ S ∧ catOf k = some .fc) →
      (∀ f, fcInit b = some f → ∀ k ∈ fkeys f, k ∈ S ∧ catOf k = some .fc) →
      ∀ f, fcConnect o (fcInit a) b = some f → ∀ k ∈ fkeys f, k ∈ S ∧ catOf k = some .fc := by
    intro o a b S ha hb f hf k hk
    have hob : ∀ g, fcOther b = some g → ∀ k ∈ fkeys g, k ∈ S ∧ catOf k = some .fc := by
      intro g hg
      cases b with
      | rc _ _ => simp [fcOther] at hg
      | hint _ _ => simp [fcOther] at hg
      | fc kk => simp [fcOther] at hg; subst hg; exact hb _ rfl
      | comp st h x =>
        cases x with
        | none => simp [fcOther] at hg
        | some y => simp [fcOther] at hg; subst hg; rw [keys_grp]; exact hb y (by simp)
    unfold fcConnect at hf
    cases hia : fcInit a with
    | none =>
      cases hio : fcOther b with
      | none => simp [hia, hio] at hf
      | some p => simp [hia, hio] at hf; subst hf; exact hob p hio k hk
    | some e =>
      cases hio : fcOther b with
      | none => simp [hia, hio] at hf; subst hf; exact ha e hia k hk
      | some p =>
        simp [hia, hio] at hf; subst hf
        simp only [fkeys, keys_grp, List.mem_append] at hk
        rcases hk with hk | hk
        · exact ha e hia k hk
        · exact hob p hio k hk
  intro t
  induction t with
  | leaf a =>
    intro n hn f hf k hk
    cases a with
    | cond kk =>
      cases he : env kk with
      | none => simp [evalRc, he] at hn
      | some m =>
        simp [evalRc, he] at hn; subst hn
        rcases henv kk m he with ⟨rfl, hc⟩ | h
        · simp [fcInit] at hf; subst hf; simp [fkeys] at hk; subst hk
          exact ⟨by simp [condKeys, Expr.atoms, Atom.condKey?], hc⟩
        · rw [h] at hf; cases hf
    | pkg kk r => simp [evalRc] at hn
    | time kk => simp [evalRc] at hn
  | bin o l r ihl ihr =>
    intro n hn
    cases hl : evalRc env l with
    | error e => rw [evalRc_bin_errL _ _ _ _ hl] at hn; cases hn
    | ok a =>
      cases hr : evalRc env r with
      | error e => rw [evalRc_bin_errR _ _ _ _ hl hr] at hn; cases hn
      | ok b =>
        rw [evalRc_bin _ o l r hl hr] at hn
        have ka : ∀ f, fcInit a = some f → ∀ k ∈ fkeys f, k ∈ condKeys (.bin o l r) ∧ catOf k = some .fc := by
          intro f hf k hk; obtain ⟨h1, h2⟩ := ihl a hl f hf k hk
          exact ⟨by rw [condKeys_bin]; exact List.mem_append_left _ h1, h2⟩
        have kb : ∀ f, fcInit b = some f → ∀ k ∈ fkeys f, k ∈ condKeys (.bin o l r) ∧ catOf k = some .fc := by
          intro f hf k hk; obtain ⟨h1, h2⟩ := ihr b hr f hf k hk
          exact ⟨by rw [condKeys_bin]; exact List.mem_append_right _ h1, h2⟩
        cases o with
        | and_ =>
          simp only [pure, Except.pure] at hn; cases hn
          intro f hf; simp only [andComp, fcInit_comp] at hf
          exact conn .and_ a b _ ka kb f hf
        | or_ =>
          simp only [orXorComp] at hn
          split at hn
          · cases hn
          · split at hn
            · cases hn
            · cases hn; intro f hf; simp only [fcInit_comp] at hf; exact conn .or_ a b _ ka kb f hf
        | xor_ =>
          simp only [orXorComp] at hn
          split at hn
          · cases hn
          · split at hn
            · cases hn
            · cases hn; intro f hf; simp only [fcInit_comp] at hf; exact conn .xor_ a b _ ka kb f hf
        | then_ =>
          have key : ∀ (x y : Node), (∀ f, fcInit x = some f → ∀ k ∈ fkeys f, k ∈ condKeys (.bin .then_ l r) ∧ catOf k = some .fc) →
              (∀ f, fcInit y = some f → ∀ k ∈ fkeys f, k ∈ condKeys (.bin .then_ l r) ∧ catOf k = some .fc) →
              ∀ m, thenAlso' x y = .ok m → ∀ f, fcInit m = some f → ∀ k ∈ fkeys f, k ∈ condKeys (.bin .then_ l r) ∧ catOf k = some .fc := by
            intro x y hx hy m hm f hf
            unfold thenAlso' at hm
            split at hm
            · cases hm
              simp only [fcInit_comp] at hf
              split at hf
              · exact conn .and_ x y _ hx hy f hf
              · cases hf
            · split at hm
              · cases hm; simp only [fcInit_comp] at hf; exact conn .and_ x _ _ hx hy f hf
              · cases hm
          simp only [thenAlso] at hn
          split at hn
          · exact key a b ka kb n hn
          · exact key b a kb ka n hn

/-! non-vacuity: `([1] U [901]) [902]` with 1 ↦ FULFILLED collects `[902] U [901]` -/
example : (rcEvaluation (fun k => if k = ['1'] then some .F else none) (fun _ => none)
    (.bin .then_ (.bin .and_ (.leaf (.cond ['1'])) (.leaf (.cond ['9','0','1']))) (.leaf (.cond ['9','0','2'])))).toOption.map (·.fce) =
    some (some "[902] U [901]") := by decide

end Ahbicht.Properties.C07
