import Ahbicht.Lemmas.Ctx
/-!
# C12 — results do not depend on the completion order of asynchronous evaluators
-/
namespace Ahbicht.Properties.C12
open Ahbicht

/-- **context-local data.** Concurrent evaluations that take their data from context-local storage each see their own data (C15's machine). -/
theorem C12_context (P : Tid → List COp) (parent : Tid → Option (Tid × Nat)) (wf : CWF P parent) (sched : List Tid) :
    ∀ e ∈ (crun P cinit sched).out, e.2.2 = expected P parent e.1 e.2.1 :=
  ctx_schedule_independent P parent wf sched

end Ahbicht.Properties.C12
