import Ahbicht.Lemmas.Ctx
/-!
# C12 — results do not depend on the completion order of asynchronous evaluators
-/
namespace Ahbicht.Properties.C12
open Ahbicht

theorem foldl_slots {α : Type} (vals : List α) (step : List (Option α) → Nat → List (Option α))
    (hs : ∀ slots i v, vals[i]? = some v → step slots i = slots.set i (some v))
    (hn : ∀ slots i, vals[i]? = none → step slots i = slots) :
    ∀ (order : List Nat) (slots : List (Option α)), slots.length = vals.length →
      (order.foldl step slots).length = vals.length ∧
      ∀ j, j < vals.length →
        (order.foldl step slots)[j]? = if j ∈ order then some vals[j]? else slots[j]? := by
  intro order
  induction order with
  | nil => intro slots h; simp [h]
  | cons i rest ih =>
    intro slots h
    simp only [List.foldl_cons]
    have hlen : (step slots i).length = vals.length := by
      cases hv : vals[i]? with
      | none => rw [hn _ _ hv]; exact h
      | some v => rw [hs _ _ _ hv]; simp [h]
    obtain ⟨h1, h2⟩ := ih _ hlen
    refine ⟨h1, ?_⟩
    intro j hj
    rw [h2 j hj]
    by_cases hjr : j ∈ rest
    · simp [hjr]
    · simp only [hjr, if_false, List.mem_cons, or_false]
      by_cases hji : j = i
      · subst hji
        have : vals[j]? = some vals[j] := List.getElem?_eq_getElem hj
        rw [hs _ _ _ this]
        simp [h, hj]
      · simp only [hji, if_false]
        cases hv : vals[i]? with
        | none => rw [hn _ _ hv]
        | some v => rw [hs _ _ _ hv, List.getElem?_set]; simp [Ne.symm hji]

/-- **gather.** Whatever the order in which the awaitables complete (every index at least once), slot `i` holds the value of awaitable `i`. -/
theorem C12_gather_slots {α : Type} (vals : List α) (order : List Nat) (hall : ∀ i, i < vals.length → i ∈ order) :
    runGather vals order = vals.map some := by
  have ⟨step, hs, hn, heq⟩ : ∃ step : List (Option α) → Nat → List (Option α),
      (∀ slots i v, vals[i]? = some v → step slots i = slots.set i (some v)) ∧
      (∀ slots i, vals[i]? = none → step slots i = slots) ∧
      runGather vals order = order.foldl step (List.replicate vals.length none) := by
    refine ⟨_, ?_, ?_, rfl⟩
    · intro slots i v h; simp only [h]
    · intro slots i h; simp only [h]
  rw [heq]
  obtain ⟨h1, h2⟩ := foldl_slots vals step hs hn order (List.replicate vals.length none) (by simp)
  apply List.ext_getElem?
  intro j
  by_cases hj : j < vals.length
  · rw [h2 j hj]; simp [hall j hj, List.getElem?_eq_getElem hj]
  · have hj' : vals.length ≤ j := Nat.le_of_not_lt hj
    rw [List.getElem?_eq_none (by omega), List.getElem?_eq_none (by simpa using hj')]

theorem contains_awaitableIndexesOf {α : Type} (pre : List (MaybeAwaitable α)) (x : MaybeAwaitable α) (rest : List (MaybeAwaitable α)) :
    (awaitableIndexesOf (pre ++ x :: rest)).contains pre.length = x.isAwaitable := by
  unfold awaitableIndexesOf
  rw [Bool.eq_iff_iff]
  simp [List.mem_filter, List.mem_range]

theorem awaitedOf_append {α : Type} (a b : List (MaybeAwaitable α)) : awaitedOf (a ++ b) = awaitedOf a ++ awaitedOf b := by
  unfold awaitedOf; simp

theorem merge_fold {α : Type} (items : List (MaybeAwaitable α)) (step : List α × Nat × Nat → MaybeAwaitable α → List α × Nat × Nat)
    (hA : ∀ res index ai obj r, (awaitableIndexesOf items).contains index = true → (awaitedOf items)[ai]? = some r →
      step (res, index, ai) obj = (res ++ [r], index + 1, ai + 1))
    (hR : ∀ res index ai obj, (awaitableIndexesOf items).contains index = false →
      step (res, index, ai) obj = (res ++ [obj.value], index + 1, ai)) :
    ∀ (suf pre : List (MaybeAwaitable α)), items = pre ++ suf →
      suf.foldl step (pre.map MaybeAwaitable.value, pre.length, (awaitedOf pre).length) =
        (items.map MaybeAwaitable.value, items.length, (awaitedOf items).length) := by
  intro suf
  induction suf with
  | nil => intro pre h; simp [h]
  | cons x rest ih =>
    intro pre h
    have h' : items = (pre ++ [x]) ++ rest := by simp [h]
    rw [List.foldl_cons]
    have hc := contains_awaitableIndexesOf pre x rest
    rw [← h] at hc
    have hstep : step (pre.map MaybeAwaitable.value, pre.length, (awaitedOf pre).length) x =
        ((pre ++ [x]).map MaybeAwaitable.value, (pre ++ [x]).length, (awaitedOf (pre ++ [x])).length) := by
      cases x with
      | result v =>
        rw [hR _ _ _ _ (by simpa [MaybeAwaitable.isAwaitable] using hc)]
        simp [awaitedOf, MaybeAwaitable.value]
      | awaitable v =>
        have hget : (awaitedOf items)[(awaitedOf pre).length]? = some v := by
          rw [h, awaitedOf_append]
          simp [awaitedOf]
        rw [hA _ _ _ _ v (by simpa [MaybeAwaitable.isAwaitable] using hc) hget]
        simp [awaitedOf, MaybeAwaitable.value]
    rw [hstep]
    exact ih (pre ++ [x]) h'

/-- **gather_if_necessary.** The index bookkeeping returns, position by position, the plain result or the awaited result of that position. -/
theorem C12_gather_if_necessary {α : Type} (items : List (MaybeAwaitable α)) :
    gatherIfNecessary items = items.map MaybeAwaitable.value := by
  have ⟨step, hA, hR, heq⟩ : ∃ step : List α × Nat × Nat → MaybeAwaitable α → List α × Nat × Nat,
      (∀ res index ai obj r, (awaitableIndexesOf items).contains index = true → (awaitedOf items)[ai]? = some r →
        step (res, index, ai) obj = (res ++ [r], index + 1, ai + 1)) ∧
      (∀ res index ai obj, (awaitableIndexesOf items).contains index = false →
        step (res, index, ai) obj = (res ++ [obj.value], index + 1, ai)) ∧
      gatherIfNecessary items = (items.foldl step ([], 0, 0)).1 := by
    refine ⟨_, ?_, ?_, rfl⟩
    · intro res index ai obj r h1 h2
      simp only [h1, h2, if_true]
    · intro res index ai obj h1
      cases obj <;> simp only [h1, MaybeAwaitable.value] <;> rfl
  rw [heq]
  have := merge_fold items step hA hR items [] (by simp)
  simp only [List.map_nil, List.length_nil, awaitedOf, List.filterMap_nil] at this
  rw [this]

/-- **dict(zip(keys, results)).** Every key is paired with the value produced for it — also with repeated keys. -/
theorem C12_zip_dict {κ α : Type} [DecidableEq κ] (keys : List κ) (f : κ → α) (k : κ) (hk : k ∈ keys) :
    dictLookup (keys.zip (keys.map f)) k = some (f k) := by
  have hz : keys.zip (keys.map f) = keys.map (fun k => (k, f k)) := by
    induction keys with
    | nil => rfl
    | cons a l ih =>
      simp only [List.map_cons, List.zip_cons_cons, List.cons.injEq, true_and]
      by_cases h : k ∈ l
      · exact ih h
      · clear ih hk h
        induction l with
        | nil => rfl
        | cons b l ih => simp [ih]
  rw [hz]
  unfold dictLookup
  rw [← List.map_reverse, List.find?_map]
  have hk' : k ∈ keys.reverse := by simpa using hk
  cases hf : List.find? ((fun x => decide (x.1 = k)) ∘ fun k => (k, f k)) keys.reverse with
  | none =>
    rw [List.find?_eq_none] at hf
    have := hf k hk'
    simp at this
  | some a =>
    have := List.find?_some hf
    simp at this
    simp [this]

/-- per key, for every completion order: gather, then zip -/
theorem C12_keys {κ α : Type} [DecidableEq κ] (keys : List κ) (f : κ → α) (order : List Nat)
    (hall : ∀ i, i < keys.length → i ∈ order) (k : κ) (hk : k ∈ keys) :
    dictLookup (keys.zip ((runGather (keys.map f) order).filterMap id)) k = some (f k) := by
  rw [C12_gather_slots (keys.map f) order (by simpa using hall)]
  have : List.filterMap id (List.map some (List.map f keys)) = List.map f keys := by
    rw [List.filterMap_map]
    exact List.filterMap_some
  rw [this]
  exact C12_zip_dict keys f k hk

mutual
/-- like `substHoles`, but only the holes whose id is in `ids` are replaced -/
def substSome (ids : List Nat) (res : Nat → PTree) : PTree → PTree
  | .tok v => .tok v
  | .hole i => .hole i
  | .node d cs => .node d (substSomeF ids res cs)
def substSomeF (ids : List Nat) (res : Nat → PTree) : PForest → PForest
  | .nil => .nil
  | .cons (.hole i) rest => .cons (if i ∈ ids then res i else .hole i) (substSomeF ids res rest)
  | .cons (.tok v) rest => .cons (.tok v) (substSomeF ids res rest)
  | .cons (.node d cs) rest => .cons (.node d (substSomeF ids res cs)) (substSomeF ids res rest)
end

mutual
theorem replaceOne_holeFree (id : Nat) (r : PTree) : ∀ t : PTree, holeFree t = true → replaceOne id r t = t
  | .tok v, _ => by simp [replaceOne]
  | .hole i, h => by simp [holeFree] at h
  | .node d cs, h => by
    simp only [holeFree] at h
    simp only [replaceOne, replaceOneF_holeFree id r cs h]
theorem replaceOneF_holeFree (id : Nat) (r : PTree) : ∀ f : PForest, holeFreeF f = true → replaceOneF id r f = f
  | .nil, _ => by simp [replaceOneF]
  | .cons (.hole i) rest, h => by simp [holeFreeF, holeFree] at h
  | .cons (.tok v) rest, h => by
    simp only [holeFreeF, Bool.and_eq_true] at h
    simp only [replaceOneF, replaceOne, replaceOneF_holeFree id r rest h.2]
  | .cons (.node d cs) rest, h => by
    simp only [holeFreeF, holeFree, Bool.and_eq_true] at h
    simp only [replaceOneF, replaceOne, replaceOneF_holeFree id r rest h.2, replaceOneF_holeFree id r cs h.1]
end

/-- `replaceOneF` on a forest whose head is hole-free -/
theorem replaceOneF_cons_holeFree (id : Nat) (r t : PTree) (rest : PForest) (h : holeFree t = true) :
    replaceOneF id r (.cons t rest) = .cons t (replaceOneF id r rest) := by
  cases t with
  | tok v => simp [replaceOneF, replaceOne]
  | hole i => simp [holeFree] at h
  | node d cs =>
    have := replaceOne_holeFree id r (.node d cs) h
    simp only [replaceOneF, this]

mutual
theorem replaceOne_substSome (res : Nat → PTree) (hres : ∀ i, holeFree (res i) = true) (id : Nat) (ids : List Nat) :
    ∀ t : PTree, replaceOne id (res id) (substSome ids res t) = substSome (id :: ids) res t
  | .tok v => by simp [substSome, replaceOne]
  | .hole i => by simp [substSome, replaceOne]
  | .node d cs => by
    simp only [substSome, replaceOne, replaceOneF_substSomeF res hres id ids cs]
theorem replaceOneF_substSomeF (res : Nat → PTree) (hres : ∀ i, holeFree (res i) = true) (id : Nat) (ids : List Nat) :
    ∀ f : PForest, replaceOneF id (res id) (substSomeF ids res f) = substSomeF (id :: ids) res f
  | .nil => by simp [substSomeF, replaceOneF]
  | .cons (.hole i) rest => by
    simp only [substSomeF]
    by_cases hi : i ∈ ids
    · simp only [hi, if_true, List.mem_cons, or_true]
      rw [replaceOneF_cons_holeFree _ _ _ _ (hres i), replaceOneF_substSomeF res hres id ids rest]
    · simp only [hi, if_false, List.mem_cons, or_false]
      simp only [replaceOneF, replaceOneF_substSomeF res hres id ids rest]
      by_cases hid : i = id
      · subst hid; simp
      · simp [hid]
  | .cons (.tok v) rest => by
    simp only [substSomeF, replaceOneF, replaceOne, replaceOneF_substSomeF res hres id ids rest]
  | .cons (.node d cs) rest => by
    simp only [substSomeF, replaceOneF, replaceOne, replaceOneF_substSomeF res hres id ids rest,
      replaceOneF_substSomeF res hres id ids cs]
end

mutual
theorem substSome_nil (res : Nat → PTree) : ∀ t : PTree, substSome [] res t = t
  | .tok v => by simp [substSome]
  | .hole i => by simp [substSome]
  | .node d cs => by simp only [substSome, substSomeF_nil res cs]
theorem substSomeF_nil (res : Nat → PTree) : ∀ f : PForest, substSomeF [] res f = f
  | .nil => by simp [substSomeF]
  | .cons (.hole i) rest => by simp [substSomeF, substSomeF_nil res rest]
  | .cons (.tok v) rest => by simp only [substSomeF, substSomeF_nil res rest]
  | .cons (.node d cs) rest => by simp only [substSomeF, substSomeF_nil res rest, substSomeF_nil res cs]
end

mutual
theorem substSome_all (res : Nat → PTree) (ids : List Nat) :
    ∀ t : PTree, (∀ i ∈ scanHoles t, i ∈ ids) → substSome ids res t = substHoles res t
  | .tok v, _ => by simp [substSome, substHoles]
  | .hole i, _ => by simp [substSome, substHoles]
  | .node d cs, h => by
    simp only [scanHoles] at h
    simp only [substSome, substHoles, substSomeF_all res ids cs h]
theorem substSomeF_all (res : Nat → PTree) (ids : List Nat) :
    ∀ f : PForest, (∀ i ∈ scanHolesF f, i ∈ ids) → substSomeF ids res f = substHolesF res f
  | .nil, _ => by simp [substSomeF, substHolesF]
  | .cons (.hole i) rest, h => by
    simp only [scanHolesF, scanHoles, List.mem_append] at h
    have hi : i ∈ ids := h i (Or.inl (by simp))
    simp only [substSomeF, substHolesF, hi, if_true, substSomeF_all res ids rest (fun j hj => h j (Or.inr hj))]
  | .cons (.tok v) rest, h => by
    simp only [scanHolesF, scanHoles, List.mem_append] at h
    simp only [substSomeF, substHolesF, substHoles, substSomeF_all res ids rest (fun j hj => h j (Or.inr hj))]
  | .cons (.node d cs) rest, h => by
    simp only [scanHolesF, scanHoles, List.mem_append] at h
    simp only [substSomeF, substHolesF, substHoles, substSomeF_all res ids rest (fun j hj => h j (Or.inr hj)),
      substSomeF_all res ids cs (fun j hj => h j (Or.inl hj))]
end

theorem replaceAll_substSome (res : Nat → PTree) (hres : ∀ i, holeFree (res i) = true) (t : PTree) :
    ∀ (ids acc : List Nat), replaceAll (ids.zip (ids.map res)) (substSome acc res t) = substSome (ids.reverse ++ acc) res t := by
  intro ids
  induction ids with
  | nil => intro acc; simp [replaceAll]
  | cons i rest ih =>
    intro acc
    have := ih (i :: acc)
    simp only [replaceAll] at this ⊢
    simp only [List.map_cons, List.zip_cons_cons, List.foldl_cons, replaceOne_substSome res hres i acc t, this]
    simp

/-- **placeholders.** With pairwise different coroutine objects and hole-free results, replacing "by equality, everywhere" with the
results zipped in scan order gives every package occurrence the expression resolved for it. -/
theorem C12_placeholders (t : PTree) (res : Nat → PTree) (hnd : (scanHoles t).Nodup) (hres : ∀ i, holeFree (res i) = true) :
    replaceAll ((scanHoles t).zip ((scanHoles t).map res)) t = substHoles res t := by
  have _ := hnd  -- not needed: replacement is by id, so repeated ids are replaced by the same result
  have h := replaceAll_substSome res hres t (scanHoles t) []
  rw [substSome_nil] at h
  rw [h]
  exact substSome_all res _ t (by intro i hi; simp [hi])

/-- **context-local data.** Concurrent evaluations that take their data from context-local storage each see their own data (C15's machine). -/
theorem C12_context (P : Tid → List COp) (parent : Tid → Option (Tid × Nat)) (wf : CWF P parent) (sched : List Tid) :
    ∀ e ∈ (crun P cinit sched).out, e.2.2 = expected P parent e.1 e.2.1 :=
  ctx_schedule_independent P parent wf sched

end Ahbicht.Properties.C12

