import Ahbicht.Properties.C13
import Ahbicht.Lemmas.Full
/-!
# C13 end to end — the theorems of C13 for the model that starts from the expression texts

`validateAhbFull` (Model/Full.lean) scans, parses, resolves and evaluates every node expression with the models of C02–C10 and
walks the tree as `validation.py` does.  Whenever those evaluations succeed it *is* the table walk of Model/Val.lean on the
evaluated tree (`C13_full_bridge`), so order, completeness and dominance carry over; where nothing is evaluated
(below a forbidden parent, one-entry pools) a failing expression cannot disturb the run.
-/
namespace Ahbicht.Properties.C13Full
open Ahbicht Ahbicht.Properties.C13

def discDET : DataElementT → String
  | .free d _ _ _ => d
  | .pool d _ _ => d

def discsSegT (s : SegmentT) : List String := s.disc :: s.des.map discDET

mutual
/-- discriminators of a text-carrying tree in document order -/
def discsGroupT : GroupT → List String
  | .mk d _ gs ss => d :: (discsGroupsT gs ++ ss.flatMap discsSegT)
def discsGroupsT : GroupsT → List String
  | .nil => []
  | .cons g gs => discsGroupT g ++ discsGroupsT gs
end

theorem discDE_eval (f : EvT) (de : DataElementT) : discDE (de.eval f) = discDET de := by
  cases de <;> rfl

theorem discsSeg_eval (f : EvT) (s : SegmentT) : discsSeg (s.eval f) = discsSegT s := by
  simp [discsSeg, discsSegT, SegmentT.eval, List.map_map, Function.comp_def, discDE_eval]

mutual
theorem discsGroup_eval (f : EvT) : ∀ g : GroupT, discsGroup (g.eval f) = discsGroupT g
  | .mk d e gs ss => by
    simp [GroupT.eval, discsGroup, discsGroupT, discsGroups_eval f gs, List.flatMap_map, discsSeg_eval]
theorem discsGroups_eval (f : EvT) : ∀ gs : GroupsT, discsGroups (gs.eval f) = discsGroupsT gs
  | .nil => by simp [GroupsT.eval, discsGroups, discsGroupsT]
  | .cons g gs => by simp [GroupsT.eval, discsGroups, discsGroupsT, discsGroup_eval f g, discsGroups_eval f gs]
end

/-- **C13 (bridge).** If the evaluator built from the models of C02–C10 succeeds on every expression of the AHB, the end-to-end
model is the table walk on the evaluated tree. -/
theorem C13_full_bridge (cer : Cer) (lines : GroupsT) (soll : Bool) (f : EvT)
    (h : ∀ t ∈ lines.texts, ∀ i, nodeRes cer t = .ok (f t i)) :
    validateAhbFull cer lines soll = validateAhb (lines.eval f) soll :=
  validateAhbFull_eq cer lines soll f h

/-- **C13 end to end (order, at most once).** -/
theorem C13_full_order (cer : Cer) (lines : GroupsT) (soll : Bool) (f : EvT) (outs : List Out)
    (hev : ∀ t ∈ lines.texts, ∀ i, nodeRes cer t = .ok (f t i))
    (h : validateAhbFull cer lines soll = .ok outs) : (outs.map (·.disc)).Sublist (discsGroupsT lines) := by
  rw [validateAhbFull_eq cer lines soll f hev] at h
  rw [← discsGroups_eval f lines]
  exact C13_order _ none soll outs h

/-- **C13 end to end (nothing missing).** -/
theorem C13_full_complete (cer : Cer) (lines : GroupsT) (soll : Bool) (f : EvT) (outs : List Out)
    (hev : ∀ t ∈ lines.texts, ∀ i, nodeRes cer t = .ok (f t i))
    (h : validateAhbFull cer lines soll = .ok outs)
    (hnf : ∀ o ∈ outs, o.isDataElement = false → o.status ≠ .IS_FORBIDDEN) : outs.map (·.disc) = discsGroupsT lines := by
  rw [validateAhbFull_eq cer lines soll f hev] at h
  rw [← discsGroups_eval f lines]
  exact C13_complete _ none soll outs h hnf

/-- **C13 end to end (laziness).** Below a forbidden parent the expression is not evaluated at all: whatever the evaluator would
answer (even a failure), the node is reported forbidden. -/
theorem C13_full_forbidden_not_evaluated (ev : Ev) (expr : List Char) (soll : Bool) :
    segLevelT ev expr (some .IS_FORBIDDEN) soll = .ok (.IS_FORBIDDEN, none) :=
  segLevelT_forbidden_parent ev expr soll

/-- non-vacuity: a two-node AHB whose expressions the evaluator handles -/
def exCer : Cer := ⟨fun k => if k = "1".toList then some .F else none, fun _ => none, fun _ => none, fun _ => none⟩

example :
    (validateAhbFull exCer (.cons (.mk "SG1" "Muss [1]".toList .nil [⟨"S", "Kann".toList, []⟩]) .nil) true).toOption.map (·.map (fun o => (o.disc, o.status)))
      = some [("SG1", .IS_REQUIRED), ("S", .IS_OPTIONAL)] := by
  decide +kernel

end Ahbicht.Properties.C13Full
