import Ahbicht.Model.Fc
/-!
# C08 — format-constraint evaluation is Boolean and explains every failure
-/
namespace Ahbicht.Properties.C08
open Ahbicht

/-- expressions over format keys with U/O/X only (what C07 produces, what C08 quantifies over) -/
def FcExpr : Expr → Bool
  | .leaf (.cond _) => true
  | .leaf _ => false
  | .bin .then_ _ _ => false
  | .bin _ l r => FcExpr l && FcExpr r

/-- **C08 (value and totality).** With every key evaluated, the evaluation succeeds and yields the Boolean value of the
expression; `P` is any invariant of single results preserved by the three message builders. -/
theorem eval_ok {env : FcEnv} {t : Expr} (hf : FcExpr t = true) (hk : ∀ k ∈ condKeys t, (env k).isSome) :
    ∃ r, evalFc env t = .ok r ∧ r.ok = boolSem (fun k => ((env k).map (·.ok)).getD false) t := by
  induction t with
  | leaf a =>
    cases a with
    | cond k =>
      have := hk k (by simp [condKeys, Expr.atoms, Atom.condKey?])
      cases he : env k with
      | none => simp [he] at this
      | some r => exact ⟨r, by simp [evalFc, he], by simp [boolSem, he]⟩
    | pkg k r => simp [FcExpr] at hf
    | time k => simp [FcExpr] at hf
  | bin o l r ihl ihr =>
    have hkl : ∀ k ∈ condKeys l, (env k).isSome := fun k h => hk k (by simp [condKeys, Expr.atoms, List.filterMap_append, Atom.condKey?] at h ⊢; exact Or.inl h)
    have hkr : ∀ k ∈ condKeys r, (env k).isSome := fun k h => hk k (by simp [condKeys, Expr.atoms, List.filterMap_append, Atom.condKey?] at h ⊢; exact Or.inr h)
    cases o with
    | then_ => simp [FcExpr] at hf
    | and_ =>
      simp only [FcExpr, Bool.and_eq_true] at hf
      obtain ⟨a, ha, va⟩ := ihl hf.1 hkl
      obtain ⟨b, hb, vb⟩ := ihr hf.2 hkr
      exact ⟨fcAnd a b, by simp [evalFc, ha, hb, bind, Except.bind, pure, Except.pure], by simp [fcAnd, boolSem, va, vb]⟩
    | or_ =>
      simp only [FcExpr, Bool.and_eq_true] at hf
      obtain ⟨a, ha, va⟩ := ihl hf.1 hkl
      obtain ⟨b, hb, vb⟩ := ihr hf.2 hkr
      exact ⟨fcOr a b, by simp [evalFc, ha, hb, bind, Except.bind, pure, Except.pure], by simp [fcOr, boolSem, va, vb]⟩
    | xor_ =>
      simp only [FcExpr, Bool.and_eq_true] at hf
      obtain ⟨a, ha, va⟩ := ihl hf.1 hkl
      obtain ⟨b, hb, vb⟩ := ihr hf.2 hkr
      exact ⟨fcXor a b, by simp [evalFc, ha, hb, bind, Except.bind, pure, Except.pure], by simp [fcXor, boolSem, va, vb]⟩

theorem C08_value {env : FcEnv} {t : Expr} {r : Efc} (hf : FcExpr t = true) (hk : ∀ k ∈ condKeys t, (env k).isSome)
    (h : evalFc env t = .ok r) : r.ok = boolSem (fun k => ((env k).map (·.ok)).getD false) t := by
  obtain ⟨r', hr', v⟩ := eval_ok hf hk
  rw [h] at hr'; cases hr'; exact v

/-- **C08 (absent / empty).** -/
theorem C08_empty (env : FcEnv) : fcEvaluation env none = .ok ⟨true, none⟩ := rfl

/-- a property of single results that the three combinators preserve is a property of every result -/
theorem eval_induct (P : Efc → Prop) (hand : ∀ a b, P a → P b → P (fcAnd a b)) (hor : ∀ a b, P a → P b → P (fcOr a b))
    (hxor : ∀ a b, P a → P b → P (fcXor a b)) {env : FcEnv} (hleaf : ∀ k r, env k = some r → P r) :
    ∀ {t : Expr} {r : Efc}, evalFc env t = .ok r → P r := by
  intro t
  induction t with
  | leaf a =>
    intro r h
    cases a with
    | cond k =>
      cases he : env k with
      | none => simp [evalFc, he] at h
      | some x => simp [evalFc, he] at h; subst h; exact hleaf k x he
    | pkg k rep =>
      cases he : env k with
      | none => simp [evalFc, he] at h
      | some x => simp [evalFc, he] at h; subst h; exact hleaf k x he
    | time k => simp [evalFc] at h
  | bin o l r ihl ihr =>
    intro res h
    cases hl : evalFc env l with
    | error e => simp [evalFc, hl, bind, Except.bind] at h
    | ok a =>
      cases hr : evalFc env r with
      | error e => simp [evalFc, hl, hr, bind, Except.bind] at h
      | ok b =>
        cases o <;> simp [evalFc, hl, hr, bind, Except.bind, pure, Except.pure] at h <;> subst h
        · exact hor a b (ihl hl) (ihr hr)
        · exact hxor a b (ihl hl) (ihr hr)
        · exact hand a b (ihl hl) (ihr hr)

/-- **C08 (message if unfulfilled).** Provided every unfulfilled single constraint carries a message, so does every unfulfilled result. -/
theorem C08_msg_if {env : FcEnv} (hleaf : ∀ k r, env k = some r → r.ok = false → r.msg.isSome) {t : Expr} {r : Efc}
    (h : evalFc env t = .ok r) : r.ok = false → r.msg.isSome := by
  refine eval_induct (fun r => r.ok = false → r.msg.isSome) ?_ ?_ ?_ hleaf h
  · intro a b pa pb
    cases ha : a.ok <;> cases hb : b.ok <;> simp [fcAnd, ha, hb] <;>
      first
      | (cases hm : a.msg <;> simp_all)
      | simp_all
  · intro a b _ _; cases ha : a.ok <;> cases hb : b.ok <;> simp [fcOr, ha, hb]
  · intro a b _ _; cases ha : a.ok <;> cases hb : b.ok <;> simp [fcXor, ha, hb]

/-- **C08 (message iff unfulfilled).** If moreover fulfilled single constraints carry no message, the result carries a message
if and only if it is unfulfilled. -/
theorem C08_msg_iff {env : FcEnv} (hleaf : ∀ k r, env k = some r → (r.ok = false ↔ r.msg.isSome)) {t : Expr} {r : Efc}
    (h : evalFc env t = .ok r) : r.ok = false ↔ r.msg.isSome := by
  refine eval_induct (fun r => r.ok = false ↔ r.msg.isSome) ?_ ?_ ?_ hleaf h
  · intro a b pa pb
    cases ha : a.ok <;> cases hb : b.ok <;> cases hma : a.msg <;> cases hmb : b.msg <;> simp_all [fcAnd]
  · intro a b _ _; cases ha : a.ok <;> cases hb : b.ok <;> simp [fcOr, ha, hb]
  · intro a b _ _; cases ha : a.ok <;> cases hb : b.ok <;> simp [fcXor, ha, hb]

/-- without the second premise the "only if" half fails already for one key (see DESIGN §3.3) -/
theorem C08_note_counterexample :
    evalFc (fun k => if k = ['9','0','1'] then some ⟨true, some "note"⟩ else none) (.leaf (.cond ['9','0','1'])) = .ok ⟨true, some "note"⟩ := by
  simp [evalFc]

/-- the base `FcEvaluator` supplies the premise of `C08_msg_if` by its default message -/
theorem C08_default_message (k : List Char) (r : Efc) : (withDefaultMessage k r).ok = false → (withDefaultMessage k r).msg.isSome := by
  unfold withDefaultMessage
  cases ho : r.ok <;> cases hm : r.msg <;> simp [ho, hm]

/-- grouping inside a run is irrelevant for the value: Boolean and/or/xor are associative -/
theorem C08_assoc (env : List Char → Bool) (o : Op) (a b c : Expr) (ho : o ≠ .then_) :
    boolSem env (.bin o (.bin o a b) c) = boolSem env (.bin o a (.bin o b c)) := by
  cases o <;> simp only [boolSem, ne_eq, not_true_eq_false, reduceCtorEq, not_false_eq_true] at ho ⊢ <;>
    cases boolSem env a <;> cases boolSem env b <;> cases boolSem env c <;> rfl

/-! non-vacuity: a fulfilled OR inside an unfulfilled AND -/
example : (evalFc (fun k => if k = ['1'] then some ⟨true, none⟩ else if k = ['2'] then some ⟨false, some "m2"⟩ else some ⟨false, some "m3"⟩)
    (.bin .and_ (.bin .or_ (.leaf (.cond ['1'])) (.leaf (.cond ['2']))) (.leaf (.cond ['3'])))).toOption = some ⟨false, some "m3"⟩ := by decide

end Ahbicht.Properties.C08
