import Ahbicht.Lemmas.Rc
/-!
# C06 — expression validity is structural; validity check and evaluation agree

`invalidAt` is the structural criterion of the property text.  `C06_structural`: on the documented domain,
for **every** assignment, evaluation raises the invalid-expression error iff `invalidAt` — condition states
never matter.
-/
namespace Ahbicht.Properties.C06
open Ahbicht

variable {rcEnv rcEnv' : List Char → Option CFV} {hintEnv hintEnv' : List Char → Option String}

/-- **C06 (structural).** -/
theorem C06_structural {t : Expr} (hwf : WF t = true) (ha : Assigns rcEnv hintEnv t) :
    evalRc (mkEnv rcEnv hintEnv) t = .error .invalidExpr ↔ invalidAt t = true := by
  obtain ⟨h1, h2⟩ := eval_char t hwf ha
  constructor
  · intro he
    cases hi : invalidAt t with
    | true => rfl
    | false =>
      obtain ⟨n, hn, _⟩ := h2 hi
      rw [hn] at he
      cases he
  · exact h1

/-- a valid expression raises no error at all under any assignment -/
theorem C06_valid_never_raises {t : Expr} (hwf : WF t = true) (ha : Assigns rcEnv hintEnv t) (hv : invalidAt t = false) :
    ∃ n, evalRc (mkEnv rcEnv hintEnv) t = .ok n :=
  let ⟨n, hn, _⟩ := (eval_char t hwf ha).2 hv
  ⟨n, hn⟩

/-- **C06 (all or none).** Raising under one assignment means raising under every assignment. -/
theorem C06_all_or_none {t : Expr} (hwf : WF t = true) (ha : Assigns rcEnv hintEnv t) (ha' : Assigns rcEnv' hintEnv' t) :
    evalRc (mkEnv rcEnv hintEnv) t = .error .invalidExpr ↔ evalRc (mkEnv rcEnv' hintEnv') t = .error .invalidExpr := by
  rw [C06_structural hwf ha, C06_structural hwf ha']

/-- the lemma behind both: for a valid expression the state is NEUTRAL iff it is built from hints and format constraints alone -/
theorem C06_neutral_iff {t : Expr} (hwf : WF t = true) (ha : Assigns rcEnv hintEnv t) (hv : invalidAt t = false) :
    denote rcEnv t = .N ↔ neutralOnly t = true := by
  obtain ⟨n, _, g⟩ := (eval_char t hwf ha).2 hv
  rw [← g.state]; exact g.neutral

/-- the whole evaluation (`requirement_constraint_evaluation`) raises the invalid-expression error iff `invalidAt` -/
theorem C06_evaluation {t : Expr} (hwf : WF t = true) (ha : Assigns rcEnv hintEnv t) :
    rcEvaluation rcEnv hintEnv t = .error .invalidExpr ↔ invalidAt t = true := by
  have key := rcEvaluation_eq hwf ha
  rw [key, ← C06_structural hwf ha]
  cases evalRc (mkEnv rcEnv hintEnv) t <;> simp [Except.map]

/-- an expression without requirement and format keys is never invalid (why the empty enumeration of K2 is harmless here) -/
theorem C06_no_keys {t : Expr} (h : ∀ k ∈ condKeys t, catOf k = some .hint) (hleaf : ∀ a ∈ t.atoms, ∃ k, a = .cond k) :
    invalidAt t = false := by
  have hn : ∀ s : Expr, (∀ k ∈ condKeys s, catOf k = some .hint) → (∀ a ∈ s.atoms, ∃ k, a = .cond k) →
      neutralOnly s = true ∧ s.isFcLeaf = false := by
    intro s
    induction s with
    | leaf a =>
      intro hs hl
      obtain ⟨k, rfl⟩ := hl a (by simp [Expr.atoms])
      have := hs k (by simp [condKeys, Expr.atoms, Atom.condKey?])
      simp [neutralOnly, Expr.isFcLeaf, this]
    | bin o l r ihl ihr =>
      intro hs hl
      have hsl : ∀ k ∈ condKeys l, catOf k = some .hint := fun k hk => hs k (by rw [condKeys_bin]; exact List.mem_append_left _ hk)
      have hsr : ∀ k ∈ condKeys r, catOf k = some .hint := fun k hk => hs k (by rw [condKeys_bin]; exact List.mem_append_right _ hk)
      have hll : ∀ a ∈ l.atoms, ∃ k, a = .cond k := fun a ha => hl a (by simp [Expr.atoms, ha])
      have hlr : ∀ a ∈ r.atoms, ∃ k, a = .cond k := fun a ha => hl a (by simp [Expr.atoms, ha])
      simp [neutralOnly, Expr.isFcLeaf, (ihl hsl hll).1, (ihr hsr hlr).1]
  induction t with
  | leaf a => rfl
  | bin o l r ihl ihr =>
    have hsl : ∀ k ∈ condKeys l, catOf k = some .hint := fun k hk => h k (by rw [condKeys_bin]; exact List.mem_append_left _ hk)
    have hsr : ∀ k ∈ condKeys r, catOf k = some .hint := fun k hk => h k (by rw [condKeys_bin]; exact List.mem_append_right _ hk)
    have hll : ∀ a ∈ l.atoms, ∃ k, a = .cond k := fun a ha => hleaf a (by simp [Expr.atoms, ha])
    have hlr : ∀ a ∈ r.atoms, ∃ k, a = .cond k := fun a ha => hleaf a (by simp [Expr.atoms, ha])
    obtain ⟨nl, fl⟩ := hn l hsl hll
    obtain ⟨nr, fr⟩ := hn r hsr hlr
    simp [invalidAt, ihl hsl hll, ihr hsr hlr, nl, nr, fl, fr]

/-! non-vacuity: both directions are inhabited -/
example : WF (.bin .or_ (.leaf (.cond ['1'])) (.leaf (.cond ['5','0','1']))) = true ∧
    invalidAt (.bin .or_ (.leaf (.cond ['1'])) (.leaf (.cond ['5','0','1']))) = true := by decide
example : invalidAt (.bin .xor_ (.bin .then_ (.leaf (.cond ['9','8','3'])) (.leaf (.cond ['1'])))
    (.bin .then_ (.leaf (.cond ['9','8','4'])) (.leaf (.cond ['2'])))) = false := by decide

end Ahbicht.Properties.C06
