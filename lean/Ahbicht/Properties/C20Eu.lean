import Ahbicht.Model.Time
import Ahbicht.Properties.C20
/-!
# C20 — German local time is CET/CEST by the EU rule at *every* instant from 1996 to 2037

`C20_pytz_is_eu_rule` compares the rows of the extracted pytz table with the EU-rule rows.  Here the statement the property makes
is proved for every second: between the last Sunday of March 01:00 UTC and the last Sunday of October 01:00 UTC of a year the offset
the code uses is +2 h, otherwise +1 h.  Hence the verdicts of 932 … 935 are those of the EU rule for every instant, not only at the rows.
-/
namespace Ahbicht.Properties.C20
open Ahbicht Generated

/-- start of summer time of year `y` (UTC second): last Sunday of March, 01:00 UTC -/
def summerStart (y : Int) : Int := lastSunday31 y 3 * 86400 + 3600
/-- end of summer time of year `y` (UTC second): last Sunday of October, 01:00 UTC -/
def summerEnd (y : Int) : Int := lastSunday31 y 10 * 86400 + 3600

/-- the EU rule as a predicate on the instant: inside the summer-time interval of some year -/
def inSummerTime (y : Int) (t : Int) : Prop := summerStart y ≤ t ∧ t < summerEnd y


/-! ## helpers: reading `offsetAt` off a split of the table -/

/-- if the table splits as `pre ++ a :: post`, `a` is not after `t` and every later row is after `t`, the offset in force is `a`'s -/
theorem offsetAt_split (pre post : List (Int × Int)) (a : Int × Int) (t : Int)
    (ha : a.1 ≤ t) (hpost : ∀ e ∈ post, t < e.1) : offsetAt (pre ++ a :: post) t = a.2 := by
  have hp : post.filter (fun e => decide (e.1 ≤ t)) = [] := by
    rw [List.filter_eq_nil_iff]
    intro e he
    have := hpost e he
    simp only [decide_eq_true_eq]
    omega
  unfold offsetAt
  rw [List.filter_append, List.filter_cons_of_pos (by simpa using ha), hp, List.getLast?_append]
  simp

/-- decidable certificate: some row `a` with `a.1 ≤ lo`, `a.2 = off`, and every later row at or after `hi` -/
def segCheck : List (Int × Int) → Int → Int → Int → Bool
  | [], _, _, _ => false
  | a :: rest, lo, hi, off =>
    (decide (a.1 ≤ lo) && decide (a.2 = off) && rest.all (fun e => decide (hi ≤ e.1))) || segCheck rest lo hi off

theorem segCheck_split : ∀ (table : List (Int × Int)) (lo hi off : Int), segCheck table lo hi off = true →
    ∃ pre post a, table = pre ++ a :: post ∧ a.1 ≤ lo ∧ a.2 = off ∧ ∀ e ∈ post, hi ≤ e.1
  | [], _, _, _, h => by simp [segCheck] at h
  | a :: rest, lo, hi, off, h => by
    simp only [segCheck, Bool.or_eq_true, Bool.and_eq_true, decide_eq_true_eq, List.all_eq_true] at h
    rcases h with ⟨⟨h1, h2⟩, h3⟩ | h
    · exact ⟨[], rest, a, rfl, h1, h2, h3⟩
    · obtain ⟨pre, post, b, hb, r⟩ := segCheck_split rest lo hi off h
      exact ⟨a :: pre, post, b, by rw [hb]; rfl, r⟩

theorem offsetAt_of_segCheck (table : List (Int × Int)) (lo hi off t : Int) (hc : segCheck table lo hi off = true)
    (h1 : lo ≤ t) (h2 : t < hi) : offsetAt table t = off := by
  obtain ⟨pre, post, a, rfl, ha, hoff, hpost⟩ := segCheck_split table lo hi off hc
  rw [offsetAt_split pre post a t (by omega) (fun e he => by have := hpost e he; omega), hoff]

/-- certificate for the last row: it is `(lo, off)` -/
theorem offsetAt_of_last (table : List (Int × Int)) (a : Int × Int) (t : Int)
    (hl : table = table.dropLast ++ [a]) (h1 : a.1 ≤ t) : offsetAt table t = a.2 := by
  rw [hl]
  exact offsetAt_split _ [] a t h1 (by simp)

theorem summer_cert : ∀ i, i < 42 →
    segCheck berlinTransitions (summerStart (1996 + (i : Nat))) (summerEnd (1996 + (i : Nat))) 7200 = true := by
  decide +kernel

theorem winter_cert : ∀ i, i < 41 →
    segCheck berlinTransitions (summerEnd (1996 + (i : Nat))) (summerStart (1996 + (i : Nat) + 1)) 3600 = true := by
  decide +kernel

theorem first_cert : segCheck berlinTransitions (daysFromCivil 1996 1 1 * 86400) (summerStart 1996) 3600 = true := by
  decide +kernel

theorem last_cert : berlinTransitions = berlinTransitions.dropLast ++ [(summerEnd 2037, 3600)] := by
  decide +kernel

/-- **C20 (summer).** Every instant inside the EU summer-time interval of a year 1996 … 2037 is judged with +2 h. -/
theorem C20_eu_summer (y : Int) (hy : 1996 ≤ y ∧ y ≤ 2037) (t : Int) (h : inSummerTime y t) : berlinOffset t = 7200 := by
  have hi : (y - 1996).toNat < 42 := by omega
  have hyy : y = 1996 + ((y - 1996).toNat : Nat) := by omega
  have hc := summer_cert _ hi
  rw [← hyy] at hc
  exact offsetAt_of_segCheck _ _ _ _ t hc h.1 h.2

/-- **C20 (winter, between two summers).** From the end of summer time of year `y` to the start of summer time of `y + 1`: +1 h. -/
theorem C20_eu_winter (y : Int) (hy : 1996 ≤ y ∧ y ≤ 2036) (t : Int) (h : summerEnd y ≤ t ∧ t < summerStart (y + 1)) :
    berlinOffset t = 3600 := by
  have hi : (y - 1996).toNat < 41 := by omega
  have hyy : y = 1996 + ((y - 1996).toNat : Nat) := by omega
  have hc := winter_cert _ hi
  rw [← hyy] at hc
  exact offsetAt_of_segCheck _ _ _ _ t hc h.1 h.2

/-- **C20 (the two ends of the range).** From 1996-01-01 to the first switch of 1996, and after the last switch of 2037 (for ever:
the pytz table ends there): +1 h. -/
theorem C20_eu_before_first (t : Int) (h : daysFromCivil 1996 1 1 * 86400 ≤ t ∧ t < summerStart 1996) : berlinOffset t = 3600 :=
  offsetAt_of_segCheck _ _ _ _ t first_cert h.1 h.2
theorem C20_eu_after_last (t : Int) (h : summerEnd 2037 ≤ t) : berlinOffset t = 3600 :=
  offsetAt_of_last berlinTransitions (summerEnd 2037, 3600) t last_cert h

/-- **C20 (closed form of the verdicts).** Inside summer time 932/933 hold exactly at 22:00:00 UTC and 934/935 exactly at 04:00:00 UTC;
in winter at 23:00:00 and 05:00:00 UTC. -/
theorem C20_eu_verdict_summer (y : Int) (hy : 1996 ≤ y ∧ y ≤ 2037) (w : Written) (h : inSummerTime y (instant w)) :
    (isStromtagLimit w = true ↔ instant w % 86400 = 22 * 3600) ∧ (isGastagLimit w = true ↔ instant w % 86400 = 4 * 3600) := by
  have ho := C20_eu_summer y hy (instant w) h
  simp only [isStromtagLimit, isGastagLimit, localTod, ho, beq_iff_eq]
  omega
theorem C20_eu_verdict_winter (y : Int) (hy : 1996 ≤ y ∧ y ≤ 2036) (w : Written)
    (h : summerEnd y ≤ instant w ∧ instant w < summerStart (y + 1)) :
    (isStromtagLimit w = true ↔ instant w % 86400 = 23 * 3600) ∧ (isGastagLimit w = true ↔ instant w % 86400 = 5 * 3600) := by
  have ho := C20_eu_winter y hy (instant w) h
  simp only [isStromtagLimit, isGastagLimit, localTod, ho, beq_iff_eq]
  omega

/-! non-vacuity: 2022-06-01T00:00:00+02:00 lies in the summer time of 2022; 2022-12-24T00:00:00+01:00 in the winter 2022/23 -/
example : inSummerTime 2022 (instant ⟨2022, 6, 1, 0, 0, 0, 7200⟩) := by unfold inSummerTime; decide +kernel
example : summerEnd 2022 ≤ instant ⟨2022, 12, 24, 0, 0, 0, 3600⟩ ∧ instant ⟨2022, 12, 24, 0, 0, 0, 3600⟩ < summerStart 2023 := by
  decide +kernel

end Ahbicht.Properties.C20
