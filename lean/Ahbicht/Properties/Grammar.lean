import Ahbicht.Generated.Grammar
/-!
# T2 — the grammars the models were written for

`expected…` is a hand-kept copy of the declarative content of the two Lark parsers at the time the models
`M-LEX`, `M-CHAIN`, `M-AHB` were written (rules with order, aliases and filter flags; terminals with
pattern, flags, priority; parser options).  `Generated.…` is extracted from the live `Lark` objects on
every run.  The theorems below say the code still is the grammar that was modelled; if they break, the
correspondence streams decide whether behaviour changed.
-/
namespace Ahbicht.Properties.Grammar


def expectedCondTerminals : List (String × String × String × String × Int) := [
  ("WS", "PatternRE", "(?:[ \t\x0c\x0d\n])+", "", 0),
  ("TIME_CONDITION_KEY", "PatternRE", "UB(1|2|3)", "", 0),
  ("CONDITION_KEY", "PatternRE", "(?:[0-9])+", "", 0),
  ("REPEATABILITY", "PatternRE", "\\d+\\.{2}[1-9]\\d*", "", 0),
  ("PACKAGE_KEY", "PatternRE", "(?:[0-9])+P", "", 0),
  ("O", "PatternStr", "O", "i", 0),
  ("__ANON_0", "PatternStr", "∨", "", 0),
  ("X", "PatternStr", "X", "i", 0),
  ("__ANON_1", "PatternStr", "⊻", "", 0),
  ("U", "PatternStr", "U", "i", 0),
  ("__ANON_2", "PatternStr", "∧", "", 0),
  ("LPAR", "PatternStr", "(", "", 0),
  ("RPAR", "PatternStr", ")", "", 0),
  ("LSQB", "PatternStr", "[", "", 0),
  ("RSQB", "PatternStr", "]", "", 0)
]
def expectedCondRules : List (String × List (String × Bool) × String × Nat × Bool × Bool × Int) := [
  ("expression", [("expression", false), ("O", true), ("expression", false)], "or_composition", 0, true, false, 0),
  ("expression", [("expression", false), ("__ANON_0", true), ("expression", false)], "or_composition", 1, true, false, 0),
  ("expression", [("expression", false), ("X", true), ("expression", false)], "xor_composition", 2, true, false, 0),
  ("expression", [("expression", false), ("__ANON_1", true), ("expression", false)], "xor_composition", 3, true, false, 0),
  ("expression", [("expression", false), ("U", true), ("expression", false)], "and_composition", 4, true, false, 0),
  ("expression", [("expression", false), ("__ANON_2", true), ("expression", false)], "and_composition", 5, true, false, 0),
  ("expression", [("expression", false), ("expression", false)], "then_also_composition", 6, true, false, 0),
  ("expression", [("brackets", false)], "", 7, true, false, 0),
  ("expression", [("package", false)], "", 8, true, false, 0),
  ("expression", [("condition", false)], "", 9, true, false, 0),
  ("expression", [("time_condition", false)], "", 10, true, false, 0),
  ("brackets", [("LPAR", true), ("expression", false), ("RPAR", true)], "", 0, true, false, 0),
  ("time_condition", [("LSQB", true), ("TIME_CONDITION_KEY", false), ("RSQB", true)], "", 0, false, false, 0),
  ("package", [("LSQB", true), ("PACKAGE_KEY", false), ("REPEATABILITY", false), ("RSQB", true)], "", 0, false, false, 0),
  ("package", [("LSQB", true), ("PACKAGE_KEY", false), ("RSQB", true)], "", 1, false, false, 0),
  ("condition", [("LSQB", true), ("CONDITION_KEY", false), ("RSQB", true)], "", 0, false, false, 0)
]
def expectedCondOptions : String × String × String × List String × List String := ("earley", "dynamic", "resolve", ["expression"], ["WS"])
def expectedAhbTerminals : List (String × String × String × String × Int) := [
  ("PREFIX_OPERATOR", "PatternRE", "(?:(?i:X)|(?i:O)|(?i:U))", "", 0),
  ("MODAL_MARK", "PatternRE", "M(uss)?|S(oll)?|K(ann)?", "i", 0),
  ("CONDITION_EXPRESSION", "PatternRE", "(?!\\BU\\B)[\\[\\]\\(\\)U∧O∨X⊻\\d\\sP\\.UB]+", "i", 0)
]
def expectedAhbRules : List (String × List (String × Bool) × String × Nat × Bool × Bool × Int) := [
  ("ahb_expression", [("__ahb_expression_plus_0", false)], "", 0, false, false, 0),
  ("ahb_expression", [("prefix_operator_expression", false)], "", 1, false, false, 0),
  ("ahb_expression", [("requirement_indicator", false)], "", 2, false, false, 0),
  ("ahb_expression", [("__ahb_expression_plus_0", false), ("requirement_indicator", false)], "", 3, false, false, 0),
  ("modal_mark_expression", [("MODAL_MARK", false), ("CONDITION_EXPRESSION", false)], "single_requirement_indicator_expression", 0, false, false, 0),
  ("prefix_operator_expression", [("PREFIX_OPERATOR", false), ("CONDITION_EXPRESSION", false)], "single_requirement_indicator_expression", 0, false, false, 0),
  ("requirement_indicator", [("PREFIX_OPERATOR", false)], "", 0, false, false, 0),
  ("requirement_indicator", [("MODAL_MARK", false)], "", 1, false, false, 0),
  ("__ahb_expression_plus_0", [("modal_mark_expression", false)], "", 0, false, false, 0),
  ("__ahb_expression_plus_0", [("__ahb_expression_plus_0", false), ("modal_mark_expression", false)], "", 1, false, false, 0)
]
def expectedAhbOptions : String × String × String × List String × List String := ("earley", "dynamic", "resolve", ["ahb_expression"], [])


theorem cond_terminals_as_modelled : Generated.condTerminals = expectedCondTerminals := by decide
theorem cond_rules_as_modelled : Generated.condRules = expectedCondRules := by rfl
theorem cond_options_as_modelled : Generated.condOptions = expectedCondOptions := by decide
theorem ahb_terminals_as_modelled : Generated.ahbTerminals = expectedAhbTerminals := by decide
theorem ahb_rules_as_modelled : Generated.ahbRules = expectedAhbRules := by rfl
theorem ahb_options_as_modelled : Generated.ahbOptions = expectedAhbOptions := by decide

end Ahbicht.Properties.Grammar
