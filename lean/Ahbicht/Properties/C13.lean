import Ahbicht.Model.Val
namespace Ahbicht.Properties.C13
theorem placeholder : True := trivial
end Ahbicht.Properties.C13
