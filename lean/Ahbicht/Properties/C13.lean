import Ahbicht.Lemmas.ValTables
/-!
# C13 — validation covers the AHB tree once, in order; parents dominate children
-/
namespace Ahbicht.Properties.C13
open Ahbicht


/-! ## helpers -/
theorem bind_ok {α β : Type} {x : Except VErr α} {f : α → Except VErr β} {b : β}
    (h : (x >>= f) = .ok b) : ∃ a, x = .ok a ∧ f a = .ok b := by
  cases x with
  | error e => simp [bind, Except.bind] at h
  | ok a => exact ⟨a, rfl, h⟩

theorem bind_err {α β : Type} {x : Except VErr α} {f : α → Except VErr β} {e : VErr}
    (h : (x >>= f) = .error e) : x = .error e ∨ ∃ a, x = .ok a ∧ f a = .error e := by
  cases x with
  | error e' => left; simpa [bind, Except.bind] using h
  | ok a => exact .inr ⟨a, rfl, h⟩

theorem liftT_ok {t : TRes} {v : RVV} (h : liftT t = .ok v) : t = .val v := by
  cases t <;> simp [liftT] at h
  subst h; rfl

theorem pure_ok {α : Type} {a b : α} (h : (pure a : Except VErr α) = .ok b) : a = b := by
  simpa [pure, Except.pure] using h

theorem segLevel_forbidden (res : NodeRes) (soll : Bool) :
    segLevel res (some .IS_FORBIDDEN) soll = .ok (.IS_FORBIDDEN, none) := by
  simp [segLevel]

theorem segLevel_invalid (msg : String) (p : Option RVV) (soll : Bool) (hp : p ≠ some .IS_FORBIDDEN) :
    segLevel (.invalid msg) p soll = .ok (.IS_OPTIONAL, some msg) := by
  simp [segLevel, hp]

theorem segLevel_ok_inv (r : EvalRes) (p : Option RVV) (soll : Bool) (hp : p ≠ some .IS_FORBIDDEN) (st : RVV)
    (hh : Option String) (h : segLevel (.ok r) p soll = .ok (st, hh)) :
    ∃ own, mapOwn r.fulfilled r.ind soll = .val own ∧ combine p own = .val st ∧ hh = r.hints := by
  unfold segLevel at h
  rw [if_neg hp] at h
  obtain ⟨own, h1, h2⟩ := bind_ok h
  obtain ⟨st', h3, h4⟩ := bind_ok h2
  have h5 := pure_ok h4
  injection h5 with h6 h7
  subst h6; subst h7
  exact ⟨own, liftT_ok h1, liftT_ok h3, rfl⟩

/-! ## document order -/
def discDE : DataElement → String
  | .free d _ _ _ => d
  | .pool d _ _ => d

def discsSeg (s : Segment) : List String := s.disc :: s.des.map discDE

mutual
/-- a group, then its sub-groups, then its segments each followed by its data elements -/
def discsGroup : Group → List String
  | .mk d _ gs ss => d :: (discsGroups gs ++ ss.flatMap discsSeg)
def discsGroups : Groups → List String
  | .nil => []
  | .cons g gs => discsGroup g ++ discsGroups gs
end


/-! ## inversion lemmas -/
theorem mapM_cons_ok {α β : Type} {f : α → Except VErr β} {a : α} {l : List α} {outs : List β}
    (h : (a :: l).mapM f = .ok outs) : ∃ b bs, f a = .ok b ∧ l.mapM f = .ok bs ∧ outs = b :: bs := by
  rw [List.mapM_cons] at h
  obtain ⟨b, h1, h2⟩ := bind_ok h
  obtain ⟨bs, h3, h4⟩ := bind_ok h2
  exact ⟨b, bs, h1, h3, (pure_ok h4).symm⟩

theorem mapM_nil_ok {α β : Type} {f : α → Except VErr β} {outs : List β}
    (h : ([] : List α).mapM f = .ok outs) : outs = [] := by
  rw [List.mapM_nil] at h
  exact (pure_ok h).symm

theorem mapM_err {α β : Type} {f : α → Except VErr β} {e : VErr} :
    ∀ (l : List α), l.mapM f = .error e → ∃ a, a ∈ l ∧ f a = .error e
  | [], h => by rw [List.mapM_nil] at h; simp [pure, Except.pure] at h
  | a :: l, h => by
    rw [List.mapM_cons] at h
    rcases bind_err h with h1 | ⟨b, _, h2⟩
    · exact ⟨a, List.mem_cons_self, h1⟩
    · rcases bind_err h2 with h3 | ⟨bs, _, h4⟩
      · obtain ⟨x, hx, hfx⟩ := mapM_err l h3
        exact ⟨x, List.mem_cons_of_mem _ hx, hfx⟩
      · simp [pure, Except.pure] at h4

theorem validateSegment_inv (s : Segment) (p : Option RVV) (soll : Bool) (outs : List Out)
    (h : validateSegment s p soll = .ok outs) :
    ∃ st hh, segLevel s.res p soll = .ok (st, hh) ∧
      ((st = .IS_FORBIDDEN ∧ outs = [segOut s.disc st hh]) ∨
       (st ≠ .IS_FORBIDDEN ∧ ∃ des, s.des.mapM (fun de => validateDataElement de st soll) = .ok des ∧
          outs = segOut s.disc st hh :: des)) := by
  unfold validateSegment at h
  obtain ⟨⟨st, hh⟩, h1, h2⟩ := bind_ok h
  refine ⟨st, hh, h1, ?_⟩
  dsimp only at h2
  by_cases hf : st = .IS_FORBIDDEN
  · left
    rw [if_pos hf] at h2
    obtain ⟨des, h3, h4⟩ := bind_ok h2
    have := pure_ok h3
    subst this
    exact ⟨hf, (pure_ok h4).symm⟩
  · right
    rw [if_neg hf] at h2
    obtain ⟨des, h3, h4⟩ := bind_ok h2
    exact ⟨hf, des, h3, (pure_ok h4).symm⟩

theorem validateGroup_inv (d : String) (res : NodeRes) (gs : Groups) (ss : List Segment) (p : Option RVV) (soll : Bool)
    (outs : List Out) (h : validateGroup (.mk d res gs ss) p soll = .ok outs) :
    ∃ st hh, segLevel res p soll = .ok (st, hh) ∧
      ((st = .IS_FORBIDDEN ∧ outs = [segOut d st hh]) ∨
       (st ≠ .IS_FORBIDDEN ∧ ∃ a b, validateGroups gs (some st) soll = .ok a ∧
          ss.mapM (fun s => validateSegment s (some st) soll) = .ok b ∧ outs = segOut d st hh :: (a ++ b.flatten))) := by
  rw [validateGroup] at h
  obtain ⟨⟨st, hh⟩, h1, h2⟩ := bind_ok h
  refine ⟨st, hh, h1, ?_⟩
  dsimp only at h2
  by_cases hf : st = .IS_FORBIDDEN
  · left
    rw [if_pos hf] at h2
    exact ⟨hf, (pure_ok h2).symm⟩
  · right
    rw [if_neg hf] at h2
    obtain ⟨a, h3, h4⟩ := bind_ok h2
    obtain ⟨b, h5, h6⟩ := bind_ok h4
    exact ⟨hf, a, b, h3, h5, (pure_ok h6).symm⟩

theorem validateGroups_cons_inv (g : Group) (rest : Groups) (p : Option RVV) (soll : Bool) (outs : List Out)
    (h : validateGroups (.cons g rest) p soll = .ok outs) :
    ∃ a b, validateGroup g p soll = .ok a ∧ validateGroups rest p soll = .ok b ∧ outs = a ++ b := by
  rw [validateGroups] at h
  obtain ⟨a, h1, h2⟩ := bind_ok h
  obtain ⟨b, h3, h4⟩ := bind_ok h2
  exact ⟨a, b, h1, h3, (pure_ok h4).symm⟩

theorem validateGroups_nil_inv (p : Option RVV) (soll : Bool) (outs : List Out)
    (h : validateGroups .nil p soll = .ok outs) : outs = [] := by
  rw [validateGroups] at h
  exact (pure_ok h).symm

theorem validatePool_inv (d : String) (entries : List PoolEntry) (input : Option String) (st : RVV) (soll : Bool) (o : Out)
    (h : validateDataElement (.pool d entries input) st soll = .ok o) : o.disc = d ∧ o.dtype = some "VALUE_POOL" := by
  unfold validateDataElement at h
  dsimp only at h
  repeat' (split at h)
  all_goals (injection h with h; subst h; exact ⟨rfl, rfl⟩)

theorem validateDE_disc (de : DataElement) (st : RVV) (soll : Bool) (o : Out)
    (h : validateDataElement de st soll = .ok o) : o.disc = discDE de := by
  cases de with
  | pool d entries input => exact (validatePool_inv d entries input st soll o h).1
  | free d res input vtype =>
    cases res with
    | invalid msg =>
      unfold validateDataElement at h
      injection h with h; subst h; rfl
    | ok r =>
      unfold validateDataElement at h
      dsimp only at h
      obtain ⟨own, _, h2⟩ := bind_ok h
      obtain ⟨base, _, h4⟩ := bind_ok h2
      obtain ⟨st', _, h6⟩ := bind_ok h4
      have h7 := pure_ok h6
      subst h7; rfl

theorem mapM_DE_disc (st : RVV) (soll : Bool) : ∀ (des : List DataElement) (outs : List Out),
    des.mapM (fun de => validateDataElement de st soll) = .ok outs → outs.map (·.disc) = des.map discDE
  | [], outs, h => by rw [mapM_nil_ok h]; rfl
  | de :: des, outs, h => by
    obtain ⟨b, bs, h1, h2, h3⟩ := mapM_cons_ok h
    subst h3
    simp only [List.map_cons]
    rw [validateDE_disc de st soll b h1, mapM_DE_disc st soll des bs h2]

/-! ## coverage -/
/-- reported discriminators are a sub-sequence of the document order, and all of it when no segment-level node is forbidden -/
def Cov (outs : List Out) (doc : List String) : Prop :=
  (outs.map (·.disc)).Sublist doc ∧
    ((∀ o ∈ outs, o.isDataElement = false → o.status ≠ .IS_FORBIDDEN) → outs.map (·.disc) = doc)

theorem Cov_nil : Cov [] [] := ⟨List.Sublist.refl _, fun _ => rfl⟩

theorem Cov_append {a b : List Out} {da db : List String} (ha : Cov a da) (hb : Cov b db) : Cov (a ++ b) (da ++ db) := by
  refine ⟨?_, ?_⟩
  · rw [List.map_append]; exact List.Sublist.append ha.1 hb.1
  · intro h
    rw [List.map_append, ha.2 (fun o ho => h o (List.mem_append_left _ ho)),
      hb.2 (fun o ho => h o (List.mem_append_right _ ho))]

theorem Cov_cons {a : List Out} {da : List String} (o : Out) (ha : Cov a da) : Cov (o :: a) (o.disc :: da) := by
  refine ⟨?_, ?_⟩
  · rw [List.map_cons]; exact List.Sublist.cons_cons _ ha.1
  · intro h
    rw [List.map_cons, ha.2 (fun x hx => h x (List.mem_cons_of_mem _ hx))]

theorem Cov_forbidden (d : String) (hh : Option String) (doc : List String) :
    Cov [segOut d .IS_FORBIDDEN hh] (d :: doc) := by
  refine ⟨?_, ?_⟩
  · exact List.Sublist.cons_cons _ (List.nil_sublist _)
  · intro h
    exact absurd rfl (h _ List.mem_cons_self rfl)

theorem Cov_of_eq {outs : List Out} {doc : List String} (h : outs.map (·.disc) = doc) : Cov outs doc :=
  ⟨h ▸ List.Sublist.refl _, fun _ => h⟩

theorem Cov_segment (s : Segment) (p : Option RVV) (soll : Bool) (outs : List Out)
    (h : validateSegment s p soll = .ok outs) : Cov outs (discsSeg s) := by
  obtain ⟨st, hh, _, h2⟩ := validateSegment_inv s p soll outs h
  rcases h2 with ⟨hf, ho⟩ | ⟨_, des, hd, ho⟩
  · subst hf; subst ho; exact Cov_forbidden _ _ _
  · subst ho
    exact Cov_cons (segOut s.disc st hh) (Cov_of_eq (mapM_DE_disc st soll s.des des hd))

theorem Cov_segments (p : Option RVV) (soll : Bool) : ∀ (ss : List Segment) (b : List (List Out)),
    ss.mapM (fun s => validateSegment s p soll) = .ok b → Cov b.flatten (ss.flatMap discsSeg)
  | [], b, h => by rw [mapM_nil_ok h]; exact Cov_nil
  | s :: ss, b, h => by
    obtain ⟨x, xs, h1, h2, h3⟩ := mapM_cons_ok h
    subst h3
    rw [List.flatten_cons, List.flatMap_cons]
    exact Cov_append (Cov_segment s p soll x h1) (Cov_segments p soll ss xs h2)

mutual
theorem Cov_group : ∀ (g : Group) (p : Option RVV) (soll : Bool) (outs : List Out),
    validateGroup g p soll = .ok outs → Cov outs (discsGroup g)
  | .mk d res gs ss, p, soll, outs, h => by
    obtain ⟨st, hh, _, h2⟩ := validateGroup_inv d res gs ss p soll outs h
    rw [discsGroup]
    rcases h2 with ⟨hf, ho⟩ | ⟨_, a, b, ha, hb, ho⟩
    · subst hf; subst ho; exact Cov_forbidden _ _ _
    · subst ho
      exact Cov_cons (segOut d st hh) (Cov_append (Cov_groups gs (some st) soll a ha) (Cov_segments (some st) soll ss b hb))
theorem Cov_groups : ∀ (gs : Groups) (p : Option RVV) (soll : Bool) (outs : List Out),
    validateGroups gs p soll = .ok outs → Cov outs (discsGroups gs)
  | .nil, p, soll, outs, h => by
    rw [validateGroups_nil_inv p soll outs h, discsGroups]; exact Cov_nil
  | .cons g rest, p, soll, outs, h => by
    obtain ⟨a, b, ha, hb, ho⟩ := validateGroups_cons_inv g rest p soll outs h
    subst ho
    rw [discsGroups]
    exact Cov_append (Cov_group g p soll a ha) (Cov_groups rest p soll b hb)
end

/-- **C13 (order, at most once).** What is reported is a sub-sequence of the document order. (With pairwise different
discriminators this is "every reported node exactly once, in document order".) -/
theorem C13_order (gs : Groups) (p : Option RVV) (soll : Bool) (outs : List Out)
    (h : validateGroups gs p soll = .ok outs) : (outs.map (·.disc)).Sublist (discsGroups gs) := by
  exact (Cov_groups gs p soll outs h).1

/-- **C13 (nothing missing).** If no segment-level node is reported forbidden, every node of the tree is reported. -/
theorem C13_complete (gs : Groups) (p : Option RVV) (soll : Bool) (outs : List Out)
    (h : validateGroups gs p soll = .ok outs)
    (hnf : ∀ o ∈ outs, o.isDataElement = false → o.status ≠ .IS_FORBIDDEN) : outs.map (·.disc) = discsGroups gs := by
  exact (Cov_groups gs p soll outs h).2 hnf

/-- **C13 (pruning).** Nothing below a forbidden group or segment is reported. -/
theorem C13_pruned_group (d : String) (res : NodeRes) (gs : Groups) (ss : List Segment) (p : Option RVV) (soll : Bool)
    (outs : List Out) (h : validateGroup (.mk d res gs ss) p soll = .ok outs) :
    ∃ st hh, outs.head? = some (segOut d st hh) ∧ (st = .IS_FORBIDDEN → outs = [segOut d st hh]) := by
  obtain ⟨st, hh, _, h2⟩ := validateGroup_inv d res gs ss p soll outs h
  refine ⟨st, hh, ?_, ?_⟩
  · rcases h2 with ⟨_, ho⟩ | ⟨_, a, b, _, _, ho⟩ <;> subst ho <;> rfl
  · intro hf
    rcases h2 with ⟨_, ho⟩ | ⟨hnf, _⟩
    · exact ho
    · exact absurd hf hnf

theorem C13_pruned_segment (s : Segment) (p : Option RVV) (soll : Bool) (outs : List Out)
    (h : validateSegment s p soll = .ok outs) :
    ∃ st hh, outs.head? = some (segOut s.disc st hh) ∧ (st = .IS_FORBIDDEN → outs = [segOut s.disc st hh]) ∧
      (st ≠ .IS_FORBIDDEN → outs.length = s.des.length + 1) := by
  obtain ⟨st, hh, _, h2⟩ := validateSegment_inv s p soll outs h
  refine ⟨st, hh, ?_, ?_, ?_⟩
  · rcases h2 with ⟨_, ho⟩ | ⟨_, des, _, ho⟩ <;> subst ho <;> rfl
  · intro hf
    rcases h2 with ⟨_, ho⟩ | ⟨hnf, _⟩
    · exact ho
    · exact absurd hf hnf
  · intro hnf
    rcases h2 with ⟨hf, _⟩ | ⟨_, des, hd, ho⟩
    · exact absurd hf hnf
    · subst ho
      have := congrArg List.length (mapM_DE_disc st soll s.des des hd)
      simp only [List.length_map] at this
      simp only [List.length_cons, this]

/-! ## status = own status (indicator × outcome) combined with the parent's status -/
/-- **C13 (status of groups and segments).** -/
theorem C13_status (r : EvalRes) (p : Option RVV) (soll : Bool) (hp : p ≠ some .IS_FORBIDDEN) (st : RVV) (hh : Option String)
    (h : segLevel (.ok r) p soll = .ok (st, hh)) :
    ∃ own, mapSpec r.fulfilled r.ind soll = .val own ∧ combineSpec p own = .val st ∧ hh = r.hints := by
  obtain ⟨own, h1, h2, h3⟩ := segLevel_ok_inv r p soll hp st hh h
  exact ⟨own, by rw [← mapOwn_eq_spec]; exact h1, by rw [← combine_eq_spec]; exact h2, h3⟩

/-- **C13 (status of free text).** own status combined with the segment's, plus the FILLED / EMPTY suffix matching the entered input -/
theorem C13_status_freetext (d : String) (r : EvalRes) (input vtype : Option String) (segSt : RVV) (soll : Bool) (o : Out)
    (h : validateDataElement (.free d (.ok r) input vtype) segSt soll = .ok o) :
    ∃ own base, mapSpec r.fulfilled r.ind soll = .val own ∧ combineSpec (some segSt) own = .val base ∧
      withSuffix base (truthyStr input) = .val o.status ∧ o.hints = r.hints ∧ o.fcOk = some r.fcOk ∧ o.fcMsg = r.fcMsg := by
  unfold validateDataElement at h
  simp only at h
  obtain ⟨own, h1, h2⟩ := bind_ok h
  obtain ⟨base, h3, h4⟩ := bind_ok h2
  obtain ⟨st', h5, h6⟩ := bind_ok h4
  have h7 := pure_ok h6
  subst h7
  exact ⟨own, base, by rw [← mapOwn_eq_spec]; exact liftT_ok h1, by rw [← combine_eq_spec]; exact liftT_ok h3,
    liftT_ok h5, rfl, rfl, rfl⟩

/-- the suffix table is what its name says -/
theorem C13_suffix :
    withSuffix .IS_REQUIRED true = .val .IS_REQUIRED_AND_FILLED ∧ withSuffix .IS_REQUIRED false = .val .IS_REQUIRED_AND_EMPTY ∧
    withSuffix .IS_OPTIONAL true = .val .IS_OPTIONAL_AND_FILLED ∧ withSuffix .IS_OPTIONAL false = .val .IS_OPTIONAL_AND_EMPTY ∧
    withSuffix .IS_FORBIDDEN true = .val .IS_FORBIDDEN_AND_FILLED ∧ withSuffix .IS_FORBIDDEN false = .val .IS_FORBIDDEN_AND_EMPTY := by
  decide

/-! ## dominance -/
def RVV.isRequiredFamily : RVV → Bool
  | .IS_REQUIRED | .IS_REQUIRED_AND_EMPTY | .IS_REQUIRED_AND_FILLED => true
  | _ => false


/-- nothing (apart from value pools) is reported required -/
def NoReq (outs : List Out) : Prop :=
  ∀ o ∈ outs, o.dtype ≠ some "VALUE_POOL" → RVV.isRequiredFamily o.status = false

theorem NoReq_nil : NoReq [] := fun _ ho => nomatch ho

theorem NoReq_append {a b : List Out} (ha : NoReq a) (hb : NoReq b) : NoReq (a ++ b) := by
  intro o ho
  rcases List.mem_append.1 ho with h | h
  · exact ha o h
  · exact hb o h

theorem NoReq_cons {o : Out} {a : List Out} (ho : RVV.isRequiredFamily o.status = false) (ha : NoReq a) : NoReq (o :: a) := by
  intro x hx
  rcases List.mem_cons.1 hx with h | h
  · subst h; exact fun _ => ho
  · exact ha x h

theorem combine_optional : ∀ (own st : RVV), own.isBase = true → combine (some .IS_OPTIONAL) own = .val st →
    st = .IS_OPTIONAL ∨ st = .IS_FORBIDDEN := by decide

theorem suffix_optional : ∀ (b st : RVV) (f : Bool), (b = .IS_OPTIONAL ∨ b = .IS_FORBIDDEN) → withSuffix b f = .val st →
    RVV.isRequiredFamily st = false := by decide

theorem segLevel_optional (res : NodeRes) (soll : Bool) (st : RVV) (hh : Option String)
    (h : segLevel res (some .IS_OPTIONAL) soll = .ok (st, hh)) : st = .IS_OPTIONAL ∨ st = .IS_FORBIDDEN := by
  cases res with
  | invalid msg =>
    rw [segLevel_invalid msg _ soll (by decide)] at h
    injection h with h; injection h with h1 h2
    exact .inl h1.symm
  | ok r =>
    obtain ⟨own, h1, h2, _⟩ := segLevel_ok_inv r _ soll (by decide) st hh h
    exact combine_optional own st (mapOwn_base _ _ _ _ h1) h2

theorem validateDE_optional (de : DataElement) (soll : Bool) (o : Out)
    (h : validateDataElement de .IS_OPTIONAL soll = .ok o) (hd : o.dtype ≠ some "VALUE_POOL") :
    RVV.isRequiredFamily o.status = false := by
  cases de with
  | pool d entries input => exact absurd (validatePool_inv d entries input _ soll o h).2 hd
  | free d res input vtype =>
    cases res with
    | invalid msg =>
      unfold validateDataElement at h
      injection h with h; subst h; rfl
    | ok r =>
      unfold validateDataElement at h
      dsimp only at h
      obtain ⟨own, h1, h2⟩ := bind_ok h
      obtain ⟨base, h3, h4⟩ := bind_ok h2
      obtain ⟨st', h5, h6⟩ := bind_ok h4
      have h7 := pure_ok h6
      subst h7
      exact suffix_optional base st' _ (combine_optional own base (mapOwn_base _ _ _ _ (liftT_ok h1)) (liftT_ok h3)) (liftT_ok h5)

theorem NoReq_DEs (soll : Bool) : ∀ (des : List DataElement) (outs : List Out),
    des.mapM (fun de => validateDataElement de .IS_OPTIONAL soll) = .ok outs → NoReq outs
  | [], outs, h => by rw [mapM_nil_ok h]; exact NoReq_nil
  | de :: des, outs, h => by
    obtain ⟨b, bs, h1, h2, h3⟩ := mapM_cons_ok h
    subst h3
    intro x hx
    rcases List.mem_cons.1 hx with hx | hx
    · subst hx; exact validateDE_optional de soll x h1
    · exact NoReq_DEs soll des bs h2 x hx

theorem segOut_noReq (d : String) (st : RVV) (hh : Option String) (h : st = .IS_OPTIONAL ∨ st = .IS_FORBIDDEN) :
    RVV.isRequiredFamily (segOut d st hh).status = false := by
  rcases h with h | h <;> subst h <;> rfl

theorem NoReq_segment (s : Segment) (soll : Bool) (outs : List Out)
    (h : validateSegment s (some .IS_OPTIONAL) soll = .ok outs) : NoReq outs := by
  obtain ⟨st, hh, h1, h2⟩ := validateSegment_inv s _ soll outs h
  have hst := segLevel_optional s.res soll st hh h1
  rcases h2 with ⟨_, ho⟩ | ⟨hnf, des, hd, ho⟩
  · subst ho; exact NoReq_cons (segOut_noReq _ _ _ hst) NoReq_nil
  · subst ho
    have : st = .IS_OPTIONAL := hst.resolve_right hnf
    subst this
    exact NoReq_cons (segOut_noReq _ _ _ hst) (NoReq_DEs soll s.des des hd)

theorem NoReq_segments (soll : Bool) : ∀ (ss : List Segment) (b : List (List Out)),
    ss.mapM (fun s => validateSegment s (some .IS_OPTIONAL) soll) = .ok b → NoReq b.flatten
  | [], b, h => by rw [mapM_nil_ok h]; exact NoReq_nil
  | s :: ss, b, h => by
    obtain ⟨x, xs, h1, h2, h3⟩ := mapM_cons_ok h
    subst h3
    rw [List.flatten_cons]
    exact NoReq_append (NoReq_segment s soll x h1) (NoReq_segments soll ss xs h2)

mutual
theorem NoReq_group : ∀ (g : Group) (soll : Bool) (outs : List Out),
    validateGroup g (some .IS_OPTIONAL) soll = .ok outs → NoReq outs
  | .mk d res gs ss, soll, outs, h => by
    obtain ⟨st, hh, h1, h2⟩ := validateGroup_inv d res gs ss _ soll outs h
    have hst := segLevel_optional res soll st hh h1
    rcases h2 with ⟨_, ho⟩ | ⟨hnf, a, b, ha, hb, ho⟩
    · subst ho; exact NoReq_cons (segOut_noReq _ _ _ hst) NoReq_nil
    · subst ho
      have : st = .IS_OPTIONAL := hst.resolve_right hnf
      subst this
      exact NoReq_cons (segOut_noReq _ _ _ hst) (NoReq_append (NoReq_groups gs soll a ha) (NoReq_segments soll ss b hb))
theorem NoReq_groups : ∀ (gs : Groups) (soll : Bool) (outs : List Out),
    validateGroups gs (some .IS_OPTIONAL) soll = .ok outs → NoReq outs
  | .nil, soll, outs, h => by
    rw [validateGroups_nil_inv _ soll outs h]; exact NoReq_nil
  | .cons g rest, soll, outs, h => by
    obtain ⟨a, b, ha, hb, ho⟩ := validateGroups_cons_inv g rest _ soll outs h
    subst ho
    exact NoReq_append (NoReq_group g soll a ha) (NoReq_groups rest soll b hb)
end

/-- **C13 (below an optional node nothing is reported required)** — at any depth; value-pool elements are excluded (they are
always reported `IS_REQUIRED_AND_…` once something is offered). -/
theorem C13_dominate_optional (gs : Groups) (soll : Bool) (outs : List Out)
    (h : validateGroups gs (some .IS_OPTIONAL) soll = .ok outs) :
    ∀ o ∈ outs, o.dtype ≠ some "VALUE_POOL" → RVV.isRequiredFamily o.status = false := by
  exact NoReq_groups gs soll outs h

/-- **C13 (below a required node the own status is kept).** -/
theorem C13_dominate_required (r : EvalRes) (soll : Bool) (st : RVV) (hh : Option String)
    (h : segLevel (.ok r) (some .IS_REQUIRED) soll = .ok (st, hh)) : mapSpec r.fulfilled r.ind soll = .val st := by
  obtain ⟨own, h1, h2, _⟩ := segLevel_ok_inv r (some .IS_REQUIRED) soll (by decide) st hh h
  rw [combine_eq_spec] at h2
  simp only [combineSpec] at h2
  injection h2 with h2
  subst h2
  rw [← mapOwn_eq_spec]; exact h1

/-! ## the documented abort -/

theorem liftT_mapOwn_err (f : Option Bool) (i : Ind) (s : Bool) (e : VErr)
    (h : liftT (mapOwn f i s) = .error e) : e = .notImplemented := by
  have hm := mapOwn_err f i s
  cases hv : mapOwn f i s with
  | val v => rw [hv] at h; simp [liftT] at h
  | notImplemented => rw [hv] at h; simp [liftT] at h; exact h.symm
  | valueError => exact absurd hv hm.1
  | other => exact absurd hv hm.2

theorem liftT_val (v : RVV) : liftT (.val v) = .ok v := rfl

theorem segLevel_err (res : NodeRes) (p : Option RVV) (soll : Bool) (e : VErr) (hp : okParent p = true)
    (h : segLevel res p soll = .error e) : e = .notImplemented := by
  by_cases hf : p = some .IS_FORBIDDEN
  · subst hf; rw [segLevel_forbidden] at h; cases h
  · cases res with
    | invalid msg => rw [segLevel_invalid msg p soll hf] at h; cases h
    | ok r =>
      unfold segLevel at h
      rw [if_neg hf] at h
      dsimp only at h
      rcases bind_err h with h1 | ⟨own, h1, h2⟩
      · exact liftT_mapOwn_err _ _ _ _ h1
      · obtain ⟨v, hv, _⟩ := combine_base p own hp hf (mapOwn_base _ _ _ _ (liftT_ok h1))
        rw [hv, liftT_val] at h2
        cases h2

theorem segLevel_base (res : NodeRes) (p : Option RVV) (soll : Bool) (st : RVV) (hh : Option String)
    (hp : okParent p = true) (h : segLevel res p soll = .ok (st, hh)) : st.isBase = true := by
  by_cases hf : p = some .IS_FORBIDDEN
  · subst hf; rw [segLevel_forbidden] at h
    injection h with h; injection h with h1 h2; subst h1; rfl
  · cases res with
    | invalid msg =>
      rw [segLevel_invalid msg p soll hf] at h
      injection h with h; injection h with h1 h2; subst h1; rfl
    | ok r =>
      obtain ⟨own, h1, h2, _⟩ := segLevel_ok_inv r p soll hf st hh h
      obtain ⟨v, hv, hb⟩ := combine_base p own hp hf (mapOwn_base _ _ _ _ h1)
      rw [hv] at h2
      injection h2 with h2; subst h2; exact hb

theorem validateDE_err (de : DataElement) (st : RVV) (soll : Bool) (e : VErr) (hb : st.isBase = true)
    (hf : st ≠ .IS_FORBIDDEN) (h : validateDataElement de st soll = .error e) : e = .notImplemented := by
  cases de with
  | pool d entries input =>
    unfold validateDataElement at h
    dsimp only at h
    repeat' (split at h)
    all_goals cases h
  | free d res input vtype =>
    cases res with
    | invalid msg => unfold validateDataElement at h; cases h
    | ok r =>
      unfold validateDataElement at h
      dsimp only at h
      rcases bind_err h with h1 | ⟨own, h1, h2⟩
      · exact liftT_mapOwn_err _ _ _ _ h1
      · have hne : some st ≠ some RVV.IS_FORBIDDEN := fun hc => hf (Option.some.inj hc)
        obtain ⟨v, hv, hvb⟩ := combine_base (some st) own hb hne (mapOwn_base _ _ _ _ (liftT_ok h1))
        rw [hv, liftT_val] at h2
        obtain ⟨w, hw⟩ := suffix_base v (truthyStr input) hvb
        rcases bind_err h2 with h3 | ⟨v', h3, h4⟩
        · cases h3
        · injection h3 with h3; subst h3
          rw [hw, liftT_val] at h4
          cases h4

theorem validateSegment_err (s : Segment) (p : Option RVV) (soll : Bool) (e : VErr) (hp : okParent p = true)
    (h : validateSegment s p soll = .error e) : e = .notImplemented := by
  unfold validateSegment at h
  rcases bind_err h with h1 | ⟨⟨st, hh⟩, h1, h2⟩
  · exact segLevel_err _ _ _ _ hp h1
  · dsimp only at h2
    have hb := segLevel_base _ _ _ _ _ hp h1
    by_cases hf : st = .IS_FORBIDDEN
    · rw [if_pos hf] at h2; cases h2
    · rw [if_neg hf] at h2
      rcases bind_err h2 with h3 | ⟨des, _, h4⟩
      · obtain ⟨de, _, hde⟩ := mapM_err _ h3
        exact validateDE_err de st soll e hb hf hde
      · cases h4

mutual
theorem validateGroup_err : ∀ (g : Group) (p : Option RVV) (soll : Bool) (e : VErr), okParent p = true →
    validateGroup g p soll = .error e → e = .notImplemented
  | .mk d res gs ss, p, soll, e, hp, h => by
    rw [validateGroup] at h
    rcases bind_err h with h1 | ⟨⟨st, hh⟩, h1, h2⟩
    · exact segLevel_err _ _ _ _ hp h1
    · dsimp only at h2
      have hb : okParent (some st) = true := segLevel_base _ _ _ _ _ hp h1
      by_cases hf : st = .IS_FORBIDDEN
      · rw [if_pos hf] at h2; cases h2
      · rw [if_neg hf] at h2
        rcases bind_err h2 with h3 | ⟨a, _, h4⟩
        · exact validateGroups_err gs (some st) soll e hb h3
        · rcases bind_err h4 with h5 | ⟨b, _, h6⟩
          · obtain ⟨s, _, hs⟩ := mapM_err _ h5
            exact validateSegment_err s (some st) soll e hb hs
          · cases h6
theorem validateGroups_err : ∀ (gs : Groups) (p : Option RVV) (soll : Bool) (e : VErr), okParent p = true →
    validateGroups gs p soll = .error e → e = .notImplemented
  | .nil, p, soll, e, hp, h => by rw [validateGroups] at h; cases h
  | .cons g rest, p, soll, e, hp, h => by
    rw [validateGroups] at h
    rcases bind_err h with h1 | ⟨a, _, h2⟩
    · exact validateGroup_err g p soll e hp h1
    · rcases bind_err h2 with h3 | ⟨b, _, h4⟩
      · exact validateGroups_err rest p soll e hp h3
      · cases h4
end

/-- the only way validation of a whole AHB fails is the documented `NotImplementedError` (undetermined outcome under MUSS / prefix operator) -/
theorem C13_only_not_implemented (lines : Groups) (soll : Bool) (e : VErr) (h : validateAhb lines soll = .error e) :
    e = .notImplemented := by
  exact validateGroups_err lines none soll e rfl h

end Ahbicht.Properties.C13
