import Ahbicht.Model.CFV
import Ahbicht.Generated.Cfv
/-!
# C03 — four-valued condition logic obeys its algebraic laws and is sound for UNKNOWN

Every theorem below is stated about the tables **extracted from the running code**
(`Generated.andTable` …: the complete graph of `__and__`, `__or__`, `__xor__` on the four members),
so `lake build` re-proves the laws for what the code does now.  The domain is finite; the proofs
are exhaustive case analyses carried out by the kernel (`decide`), no sampling.
-/
namespace Ahbicht.Properties.C03
open Ahbicht CFV Generated

/-- the extracted operator: `none` if the code raised or the entry is missing -/
def look (t : List (CFV × CFV × CFV)) (a b : CFV) : Option CFV :=
  (t.find? (fun e => e.1 == a && e.2.1 == b)).map (·.2.2)

abbrev implAnd := look andTable
abbrev implOr  := look orTable
abbrev implXor := look xorTable

/-- composition of partial operators -/
def comp (t : List (CFV × CFV × CFV)) (x : Option CFV) (y : Option CFV) : Option CFV :=
  x.bind fun a => y.bind fun b => look t a b

/-! ## totality, and agreement with the README-worded specification -/
theorem and_total : ∀ a b, (implAnd a b).isSome := by decide
theorem or_total  : ∀ a b, (implOr a b).isSome := by decide
theorem xor_total : ∀ a b, (implXor a b).isSome := by decide

theorem and_eq_spec : ∀ a b, implAnd a b = some (CFV.and a b) := by decide
theorem or_eq_spec  : ∀ a b, implOr a b = some (CFV.or a b) := by decide
theorem xor_eq_spec : ∀ a b, implXor a b = some (CFV.xor a b) := by decide

/-- no duplicate / contradictory entries were extracted -/
theorem tables_functional :
    (andTable.map fun e => (e.1, e.2.1)).Nodup ∧ (orTable.map fun e => (e.1, e.2.1)).Nodup ∧
    (xorTable.map fun e => (e.1, e.2.1)).Nodup := by decide

/-! ## commutativity -/
theorem and_comm : ∀ a b, implAnd a b = implAnd b a := by decide
theorem or_comm  : ∀ a b, implOr a b = implOr b a := by decide
theorem xor_comm : ∀ a b, implXor a b = implXor b a := by decide

/-! ## associativity (all 64 triples per operator) -/
theorem and_assoc : ∀ a b c, comp andTable (implAnd a b) (some c) = comp andTable (some a) (implAnd b c) := by decide
theorem or_assoc  : ∀ a b c, comp orTable (implOr a b) (some c) = comp orTable (some a) (implOr b c) := by decide
theorem xor_assoc : ∀ a b c, comp xorTable (implXor a b) (some c) = comp xorTable (some a) (implXor b c) := by decide

/-! ## NEUTRAL is the identity -/
theorem and_neutral : ∀ a, implAnd a N = some a ∧ implAnd N a = some a := by decide
theorem or_neutral  : ∀ a, implOr a N = some a ∧ implOr N a = some a := by decide
theorem xor_neutral : ∀ a, implXor a N = some a ∧ implXor N a = some a := by decide

/-! ## Boolean logic on {FULFILLED, UNFULFILLED} -/
theorem and_boolean : ∀ x y : Bool, implAnd (ofBool x) (ofBool y) = some (ofBool (x && y)) := by decide
theorem or_boolean  : ∀ x y : Bool, implOr (ofBool x) (ofBool y) = some (ofBool (x || y)) := by decide
theorem xor_boolean : ∀ x y : Bool, implXor (ofBool x) (ofBool y) = some (ofBool (x != y)) := by decide

/-! ## every README row that gives a value (rows "does not make sense" are the business of C06) -/
def rowsAgree (t : List (CFV × CFV × CFV)) (rows : List (CFV × CFV × Option CFV)) : Bool :=
  rows.all fun r => match r.2.2 with
    | some v => look t r.1 r.2.1 == some v && look t r.2.1 r.1 == some v
    | none => true

theorem readme_and : rowsAgree andTable readmeAnd = true := by decide
theorem readme_or  : rowsAgree orTable readmeOr = true := by decide
theorem readme_xor : rowsAgree xorTable readmeXor = true := by decide
/-- the README tables were found and have the documented seven rows each (guards against a silently empty extraction) -/
theorem readme_rows_present : readmeAnd.length = 7 ∧ readmeOr.length = 7 ∧ readmeXor.length = 7 := by decide

/-! ## UNKNOWN is sound: a definite result survives every resolution of UNKNOWN operands -/
def Sound (t : List (CFV × CFV × CFV)) : Prop :=
  ∀ a b, look t a b ≠ some K → ∀ a' b', Refines a' a → Refines b' b → look t a' b' = look t a b

theorem and_unknown_sound : Sound andTable := by unfold Sound; decide
theorem or_unknown_sound  : Sound orTable := by unfold Sound; decide
theorem xor_unknown_sound : Sound xorTable := by unfold Sound; decide

/-! ## UNKNOWN is tight: the result is UNKNOWN only if two resolutions disagree -/
def Tight (t : List (CFV × CFV × CFV)) : Prop :=
  ∀ a b, look t a b = some K →
    ∃ a₁ b₁ a₂ b₂, Refines a₁ a ∧ Refines b₁ b ∧ Refines a₂ a ∧ Refines b₂ b ∧ look t a₁ b₁ ≠ look t a₂ b₂

theorem and_unknown_tight : Tight andTable := by unfold Tight; decide
theorem or_unknown_tight  : Tight orTable := by unfold Tight; decide
theorem xor_unknown_tight : Tight xorTable := by unfold Tight; decide

/-! ## non-vacuity: the premises of soundness/tightness are met by concrete cells -/
example : look orTable K F ≠ some K ∧ Refines U K ∧ Refines F F := by decide
example : look andTable K F = some K := by decide

end Ahbicht.Properties.C03
