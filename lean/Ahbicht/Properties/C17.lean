import Ahbicht.Lemmas.ValTables
import Ahbicht.Model.Extract
/-!
# C17 — value pools offer exactly the admissible qualifiers and judge input by them
-/
namespace Ahbicht.Properties.C17
open Ahbicht

/-! ## helper lemmas -/

theorem mem_dedupKeys' {α : Type} [DecidableEq α] (l : List α) (x : α) : x ∈ dedupKeys l ↔ x ∈ l := by
  induction l with
  | nil => simp [dedupKeys]
  | cons y ys ih =>
    simp only [dedupKeys, List.mem_cons, List.mem_filter, ih]
    by_cases h : x = y <;> simp [h]

/-- the keys of a dict after insertion -/
def keysInsert (ks : List String) (k : String) : List String := if k ∈ ks then ks else ks ++ [k]

theorem dictInsert_keys (d : List (String × String)) (k v : String) :
    (dictInsert d k v).map (·.1) = keysInsert (d.map (·.1)) k := by
  unfold dictInsert keysInsert
  by_cases h : k ∈ d.map (·.1)
  · have h' : d.any (·.1 == k) = true := by
      rw [List.any_eq_true]
      obtain ⟨a, ha, hk⟩ := List.mem_map.1 h
      exact ⟨a, ha, by simp [hk]⟩
    rw [if_pos h', if_pos h, List.map_map]
    apply List.map_congr_left
    intro a _
    by_cases hak : a.1 = k
    · simp [hak]
    · simp [hak]
  · have h' : ¬ (d.any (·.1 == k) = true) := by
      rw [List.any_eq_true]
      rintro ⟨a, ha, hk⟩
      exact h (List.mem_map.2 ⟨a, ha, by simpa using hk⟩)
    rw [if_neg h', if_neg h]
    simp

theorem foldl_dictInsert_keys (l : List PoolEntry) (d : List (String × String)) :
    (l.foldl (fun d e => dictInsert d e.qualifier e.meaning) d).map (·.1)
      = (l.map (·.qualifier)).foldl keysInsert (d.map (·.1)) := by
  induction l generalizing d with
  | nil => rfl
  | cons e es ih =>
    simp only [List.foldl_cons, List.map_cons]
    rw [ih, dictInsert_keys]

theorem foldl_keysInsert (l ks : List String) :
    l.foldl keysInsert ks = ks ++ (dedupKeys l).filter (fun x => decide (x ∉ ks)) := by
  induction l generalizing ks with
  | nil => simp [dedupKeys]
  | cons x xs ih =>
    simp only [List.foldl_cons, dedupKeys]
    by_cases hx : x ∈ ks
    · have : keysInsert ks x = ks := by simp [keysInsert, hx]
      rw [this, ih]
      congr 1
      rw [List.filter_cons]
      simp only [hx, not_true_eq_false, decide_false, Bool.false_eq_true, if_false, List.filter_filter]
      apply List.filter_congr
      intro a _
      by_cases hak : a ∈ ks
      · simp [hak]
      · have : a ≠ x := by rintro rfl; exact hak hx
        simp [hak, this]
    · have : keysInsert ks x = ks ++ [x] := by simp [keysInsert, hx]
      rw [this, ih]
      rw [List.filter_cons]
      simp only [hx, not_false_eq_true, decide_true, if_true, List.filter_filter, List.append_assoc,
        List.singleton_append]
      congr 2
      apply List.filter_congr
      intro a _
      by_cases hax : a = x
      · simp [hax]
      · by_cases hak : a ∈ ks <;> simp [hax, hak]

theorem offered_general (es : List PoolEntry) (st : RVV) (hst : st ≠ .IS_FORBIDDEN) (hlen : es.length ≠ 1) :
    offered es st = (es.filter entryOffered).foldl (fun d e => dictInsert d e.qualifier e.meaning) [] := by
  unfold offered
  rw [if_neg hst]
  match es, hlen with
  | [], _ => rfl
  | [e], h => exact absurd rfl h
  | _ :: _ :: _, _ => rfl

theorem any_fst_iff (poss : List (String × String)) (i : String) :
    poss.any (·.1 == i) = true ↔ i ∈ poss.map (·.1) := by
  rw [List.any_eq_true, List.mem_map]
  constructor
  · rintro ⟨a, ha, h⟩; exact ⟨a, ha, by simpa using h⟩
  · rintro ⟨a, ha, h⟩; exact ⟨a, ha, by simp [h]⟩

/-! ## the theorems -/

/-- an entry is offered iff its own expression is fulfilled (an invalid expression counts as selectable, see C16) -/
theorem C17_entry_offered (e : PoolEntry) :
    entryOffered e = true ↔ (∃ msg, e.res = .invalid msg) ∨ (∃ r, e.res = .ok r ∧ r.fulfilled = some true) := by
  unfold entryOffered
  cases h : e.res with
  | invalid msg => simp
  | ok r => simp

/-- a single-entry pool always offers its entry -/
theorem C17_single (e : PoolEntry) (st : RVV) (hst : st ≠ .IS_FORBIDDEN) : offered [e] st = [(e.qualifier, e.meaning)] := by
  unfold offered
  rw [if_neg hst]

/-- below a forbidden segment nothing is offered -/
theorem C17_forbidden_segment (es : List PoolEntry) : offered es .IS_FORBIDDEN = [] := by
  unfold offered
  rw [if_pos rfl]

/-- **C17 (offered values).** For a pool that does not consist of exactly one entry, below a segment that is not forbidden, the offered
qualifiers are exactly the qualifiers of the entries whose own expression is fulfilled, in pool order (a repeated qualifier
keeps its first position). -/
theorem C17_offered (es : List PoolEntry) (st : RVV) (hst : st ≠ .IS_FORBIDDEN) (hlen : es.length ≠ 1) :
    (offered es st).map (·.1) = dedupKeys ((es.filter entryOffered).map (·.qualifier)) := by
  rw [offered_general es st hst hlen, foldl_dictInsert_keys, foldl_keysInsert]
  simp

/-- membership form of the same -/
theorem C17_offered_mem (es : List PoolEntry) (st : RVV) (hst : st ≠ .IS_FORBIDDEN) (hlen : es.length ≠ 1) (q : String) :
    q ∈ (offered es st).map (·.1) ↔ ∃ e ∈ es, e.qualifier = q ∧ entryOffered e = true := by
  rw [C17_offered es st hst hlen, mem_dedupKeys', List.mem_map]
  constructor
  · rintro ⟨e, he, hq⟩
    rw [List.mem_filter] at he
    exact ⟨e, he.1, hq, he.2⟩
  · rintro ⟨e, he, hq, ho⟩
    exact ⟨e, List.mem_filter.2 ⟨he, ho⟩, hq⟩

/-- the input is one of the offered qualifiers -/
def inputOffered (input : Option String) (poss : List (String × String)) : Prop :=
  ∃ i, input = some i ∧ i ∈ poss.map (·.1)

/-- **C17 (judging the input).** Value-pool validation never fails; it reports the offered values; nothing offered ⇒ forbidden
(in particular below a forbidden segment); otherwise an entered value is accepted iff it is offered, an unexpected value is flagged
(format flag false) and reported empty, no input is reported required-and-empty. -/
theorem C17_result (disc : String) (es : List PoolEntry) (input : Option String) (st : RVV) (soll : Bool) :
    ∃ o, validateDataElement (.pool disc es input) st soll = .ok o ∧ o.possible = some (offered es st) ∧ o.disc = disc ∧
      (offered es st = [] → o.status = .IS_FORBIDDEN) ∧
      (offered es st ≠ [] →
        (inputOffered input (offered es st) → o.status = .IS_REQUIRED_AND_FILLED ∧ o.fcOk = some true) ∧
        (¬ inputOffered input (offered es st) → truthyStr input = true → o.status = .IS_REQUIRED_AND_EMPTY ∧ o.fcOk = some false) ∧
        (¬ inputOffered input (offered es st) → truthyStr input = false → o.status = .IS_REQUIRED_AND_EMPTY ∧ o.fcOk = some true)) := by
  simp only [validateDataElement]
  by_cases hE : offered es st = []
  · rw [if_pos (by simp [hE])]
    exact ⟨_, rfl, by simp [hE], rfl, fun _ => rfl, fun h => absurd hE h⟩
  · rw [if_neg (by simpa using hE)]
    cases input with
    | none =>
      have hI : ¬ inputOffered none (offered es st) := by rintro ⟨i, hi, _⟩; cases hi
      have hT : truthyStr none = false := rfl
      simp only []
      rw [if_neg Bool.false_ne_true, if_neg (by rw [hT]; exact Bool.false_ne_true)]
      exact ⟨_, rfl, rfl, rfl, fun h => absurd h hE,
        fun _ => ⟨fun h => absurd h hI, fun _ h => (by rw [hT] at h; cases h), fun _ _ => ⟨rfl, rfl⟩⟩⟩
    | some i =>
      simp only []
      by_cases hc : ((offered es st).any fun x => x.fst == i) = true
      · have hI : inputOffered (some i) (offered es st) := ⟨i, rfl, (any_fst_iff _ _).1 hc⟩
        rw [if_pos hc]
        exact ⟨_, rfl, rfl, rfl, fun h => absurd h hE,
          fun _ => ⟨fun _ => ⟨rfl, rfl⟩, fun h => absurd hI h, fun h => absurd hI h⟩⟩
      · have hI : ¬ inputOffered (some i) (offered es st) := by
          rintro ⟨j, hj, hi⟩
          cases hj
          exact hc ((any_fst_iff _ _).2 hi)
        rw [if_neg hc]
        by_cases hT : truthyStr (some i) = true
        · rw [if_pos hT]
          exact ⟨_, rfl, rfl, rfl, fun h => absurd h hE,
            fun _ => ⟨fun h => absurd h hI, fun _ _ => ⟨rfl, rfl⟩, fun _ h => by rw [hT] at h; cases h⟩⟩
        · rw [if_neg hT]
          exact ⟨_, rfl, rfl, rfl, fun h => absurd h hE,
            fun _ => ⟨fun h => absurd h hI, fun _ h => absurd h hT, fun _ _ => ⟨rfl, rfl⟩⟩⟩

/-- accepted iff offered -/
theorem C17_accept_iff (disc : String) (es : List PoolEntry) (input : Option String) (st : RVV) (soll : Bool) (o : Out)
    (h : validateDataElement (.pool disc es input) st soll = .ok o) :
    o.status = .IS_REQUIRED_AND_FILLED ↔ inputOffered input (offered es st) := by
  obtain ⟨o', ho', _, _, hF, hN⟩ := C17_result disc es input st soll
  rw [h] at ho'
  cases ho'
  by_cases hE : offered es st = []
  · have h1 := hF hE
    constructor
    · intro h2; rw [h1] at h2; cases h2
    · rintro ⟨i, _, hi⟩; rw [hE] at hi; cases hi
  · obtain ⟨hA, hB, hC⟩ := hN hE
    constructor
    · intro h2
      apply Classical.byContradiction
      intro hI
      cases hT : truthyStr input with
      | true => rw [(hB hI hT).1] at h2; cases h2
      | false => rw [(hC hI hT).1] at h2; cases h2
    · intro hI; exact (hA hI).1

end Ahbicht.Properties.C17

