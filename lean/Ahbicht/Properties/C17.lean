import Ahbicht.Model.Val
namespace Ahbicht.Properties.C17
theorem placeholder : True := trivial
end Ahbicht.Properties.C17
