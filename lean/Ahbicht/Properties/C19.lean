import Ahbicht.Model.Json
/-!
# C19 — JSON serialisation round-trips trees, evaluation inputs and evaluation results

Each theorem: `load (dump x) = some x` for every value of the class, with the nullability of every field taken from the
descriptors extracted from the live marshmallow schemas.
-/
namespace Ahbicht.Properties.C19
open Ahbicht Generated

/-! ## what the declarations must provide (decided on the extracted descriptors) -/
theorem rc_fields_nullable :
    allowNone rcS "requirement_constraints_fulfilled" = true ∧ allowNone rcS "requirement_is_conditional" = true ∧
    allowNone rcS "format_constraints_expression" = true ∧ allowNone rcS "hints" = true := by decide

theorem fc_fields_nullable : allowNone fcS "error_message" = true ∧ allowNone efcS "error_message" = true := by decide

theorem cer_fields_nullable : allowNone cerS "packages" = true ∧ allowNone cerS "id" = true := by decide

theorem tree_fields_nullable : allowNone "_TokenOrTreeSchema" "tree" = true ∧ allowNone "_TokenOrTreeSchema" "token" = true := by decide

/-- hint texts inside a content evaluation result may be null: `values=fields.String(allow_none=True)` -/
theorem cer_hint_values_nullable :
    ((schemas.find? (·.1 == cerS)).bind fun s => (s.2.1.find? (·.1 == "hints")).map (·.2.2.2.2.2.2.2)) = some "String->String?" := by decide

/-- keys are dumped in declaration order; the models above use exactly these orders -/
theorem dump_orders :
    (schemas.map fun s => (s.1, s.2.1.map (·.2.2.2.2.1))) =
      [("TreeSchema", ["type", "children"]), ("TokenSchema", ["value", "type"]), ("_TokenOrTreeSchema", ["token", "tree"]),
       ("EvaluatedFormatConstraintSchema", ["format_constraint_fulfilled", "error_message"]),
       ("ContentEvaluationResultSchema", ["hints", "format_constraints", "requirement_constraints", "packages", "id"]),
       ("CategorizedKeyExtractSchema", ["hint_keys", "format_constraint_keys", "requirement_constraint_keys", "package_keys", "time_condition_keys"]),
       ("RequirementConstraintEvaluationResultSchema", ["requirement_constraints_fulfilled", "requirement_is_conditional", "format_constraints_expression", "hints"]),
       ("FormatConstraintEvaluationResultSchema", ["format_constraints_fulfilled", "error_message"]),
       ("AhbExpressionEvaluationResultSchema", ["requirement_indicator", "requirement_constraint_evaluation_result", "format_constraint_evaluation_result"]),
       ("RequirementIndicatorSchema", ["value"])] := by decide

/-! ## round trips -/
theorem optBool_rt (o : Option Bool) : loadOptBool true (dumpOptBool o) = some o := by
  cases o with
  | none => rfl
  | some b => rfl

theorem optStr_rt (o : Option String) : loadOptStr true (dumpOptStr o) = some o := by
  cases o <;> rfl

/-- **C19 (requirement evaluation result)** — including the undetermined (null) outcome -/
theorem C19_rcResult (r : RcResult) : loadRc (dumpRc r) = some r := by
  obtain ⟨h1, h2, h3, h4⟩ := rc_fields_nullable
  simp [loadRc, dumpRc, h1, h2, h3, h4, optBool_rt, optStr_rt]

theorem C19_fcResult (r : Efc) : loadFcResult (dumpFcResult r) = some r := by
  simp [loadFcResult, dumpFcResult, fc_fields_nullable.1, optStr_rt, loadBool]

theorem C19_efc (r : Efc) : loadEfc (dumpEfc r) = some r := by
  simp [loadEfc, dumpEfc, fc_fields_nullable.2, optStr_rt, loadBool]

/-- **C19 (AHB expression evaluation result)** for every normalised indicator -/
theorem C19_ahbResult (r : AhbResultJ) (hi : r.indicator ∈ indicators) : loadAhb (dumpAhb r) = some r := by
  simp [loadAhb, dumpAhb, C19_rcResult, C19_fcResult, loadInd, dumpInd, hi]

theorem strList_rt (l : List String) : loadStrList (dumpStrList l) = some l := by
  induction l with
  | nil => rfl
  | cons s ss ih => simp [dumpStrList, loadStrList, loadStr, ih]

theorem dict_rt {α : Type} (f : α → J) (g : J → Option α) (h : ∀ a, g (f a) = some a) (d : List (String × α)) :
    loadDict g (dumpDict f d) = some d := by
  induction d with
  | nil => rfl
  | cons kv rest ih => obtain ⟨k, v⟩ := kv; simp [dumpDict, loadDict, h, ih]

/-- **C19 (categorized key extract)** -/
theorem C19_extract (x : KeyExtractJ) : loadExtract (dumpExtract x) = some x := by
  simp [loadExtract, dumpExtract, strList_rt]

theorem cfv_rt (c : CFV) : loadCfv (dumpCfv c) = some c := by cases c <;> rfl

/-- **C19 (content evaluation result)** — `None` hints, empty dictionaries, with and without packages and id -/
theorem C19_cer (x : CerJ) : loadCer (dumpCer x) = some x := by
  obtain ⟨hp, hid⟩ := cer_fields_nullable
  obtain ⟨hints, fcs, rcs, packages, id⟩ := x
  cases packages with
  | none => simp [loadCer, dumpCer, dict_rt _ _ optStr_rt, dict_rt _ _ C19_efc, dict_rt _ _ cfv_rt, hp, hid, optStr_rt]
  | some p =>
    have hs : ∀ a : String, loadStr (J.str a) = some a := fun _ => rfl
    simp [loadCer, dumpCer, dict_rt _ _ optStr_rt, dict_rt _ _ C19_efc, dict_rt _ _ cfv_rt, dict_rt _ _ hs, hid, optStr_rt]

mutual
/-- **C19 (parse trees).** Any tree of rule nodes and (type, value) tokens, of any depth and width. -/
theorem C19_tree : ∀ t : LTree, loadTree (dumpTree t) = some t
  | .node d cs => by simp [dumpTree, loadTree, C19_forest cs]
theorem C19_forest : ∀ f : LForest, loadForest (dumpForest f) = some f
  | .nil => rfl
  | .consTok ty v rest => by simp [dumpForest, loadForest, tree_fields_nullable.1, C19_forest rest]
  | .consTree t rest => by simp [dumpForest, loadForest, tree_fields_nullable.2, C19_tree t, C19_forest rest]
end

/-- **C19 (evaluating a round-tripped tree).** Since the loaded tree *is* the original tree, every function of the tree — in particular
its evaluation — gives the same result. -/
theorem C19_eval {α : Type} (eval : LTree → α) (t : LTree) : (loadTree (dumpTree t)).map eval = some (eval t) := by
  rw [C19_tree]; rfl

/-! non-vacuity: the undetermined outcome -/
example : loadRc (dumpRc ⟨none, none, some "[901]", none⟩) = some ⟨none, none, some "[901]", none⟩ := C19_rcResult _

end Ahbicht.Properties.C19
