import Ahbicht.Lemmas.Ctx
/-!
# C15 — each data element's format constraints see only that element's own input

The task/context machine: a *program* assigns every task its list of operations `set v | spawn child | get`; `spawn` copies the
spawner's context at creation (PEP 567, `asyncio` tasks); a schedule is any list of task ids.  `C15_schedule_free`: under every
schedule every `get` observes the statically `expected` value, a function of ancestry and program order only.  The program of a
validation run is recorded from the implementation (trace validation, see vf/props/c15.py) and `wellScoped` — decided by the
driver on the recorded program — says every `get` of an element is expected to see that element's own input.
-/
namespace Ahbicht.Properties.C15
open Ahbicht

/-- **C15 (schedule freedom).** -/
theorem C15_schedule_free (P : Tid → List COp) (parent : Tid → Option (Tid × Nat)) (wf : CWF P parent) (sched : List Tid) :
    ∀ e ∈ (crun P cinit sched).out, e.2.2 = expected P parent e.1 e.2.1 :=
  ctx_schedule_independent P parent wf sched

/-- every `get` of task `t` at position `i` is expected to return the input of the element that task works for -/
def WellScoped (P : Tid → List COp) (parent : Tid → Option (Tid × Nat)) (inputOf : Tid → Option Nat) : Prop :=
  ∀ t i, (P t)[i]? = some .get → expected P parent t i = inputOf t

/-- **C15 (isolation).** For a well-scoped program, whatever the interleaving, every read of the context variable by a task working
for a data element returns that element's own input. -/
theorem C15_isolation (P : Tid → List COp) (parent : Tid → Option (Tid × Nat)) (inputOf : Tid → Option Nat)
    (wf : CWF P parent) (ws : WellScoped P parent inputOf) (sched : List Tid) :
    ∀ e ∈ (crun P cinit sched).out, (P e.1)[e.2.1]? = some .get → e.2.2 = inputOf e.1 := by
  intro e he hg
  rw [C15_schedule_free P parent wf sched e he]
  exact ws e.1 e.2.1 hg

/-- everything in `out` was produced by a `get` -/
theorem out_is_get (P : Tid → List COp) (s : CSt) (hs : ∀ e ∈ s.out, (P e.1)[e.2.1]? = some .get) (sched : List Tid) :
    ∀ e ∈ (crun P s sched).out, (P e.1)[e.2.1]? = some .get := by
  induction sched generalizing s with
  | nil => exact hs
  | cons t ts ih =>
    apply ih
    intro e he
    unfold cstep at he
    split at he
    · split at he
      · exact hs e he
      · exact hs e he
      · split at he <;> exact hs e he
      · rename_i hop
        simp only [List.mem_cons] at he
        rcases he with rfl | he
        · exact hop
        · exact hs e he
    · exact hs e he

/-- **C15, combined.** Under every schedule, every observed value is the own input. -/
theorem C15 (P : Tid → List COp) (parent : Tid → Option (Tid × Nat)) (inputOf : Tid → Option Nat)
    (wf : CWF P parent) (ws : WellScoped P parent inputOf) (sched : List Tid) :
    ∀ e ∈ (crun P cinit sched).out, e.2.2 = inputOf e.1 := by
  intro e he
  exact C15_isolation P parent inputOf wf ws sched e he (out_is_get P cinit (by intro e he; simp [cinit] at he) sched e he)

/-! non-vacuity: the shape of `validate_segment`: task 0 spawns one task per data element; each sets its own input and spawns an
evaluator task that reads it -/
section
private def P : Tid → List COp
  | 0 => [.spawn 1, .spawn 2]
  | 1 => [.set 11, .spawn 3]
  | 2 => [.set 22, .spawn 4]
  | 3 => [.get]
  | 4 => [.get]
  | _ => []
example : (crun P cinit [0, 0, 2, 1, 2, 4, 1, 3]).out = [(3, 0, some 11), (4, 0, some 22)] := by decide
example : (crun P cinit [0, 1, 1, 3, 0, 2, 2, 4]).out = [(4, 0, some 22), (3, 0, some 11)] := by decide
end

end Ahbicht.Properties.C15
