import Ahbicht.Properties.C01
import Ahbicht.Properties.C07
import Ahbicht.Model.Fc
/-!
# C07 (string level) — the collected format-constraint expression, as the string that is handed on, is a well-formed condition
expression whose parse is the collected AST (modulo the grouping inside runs of one operator)
-/
namespace Ahbicht.Properties.C07Str
open Ahbicht

/-- the condition-expression tree a collected expression stands for (brackets are not part of the tree) -/
def toExpr : FExpr → Expr
  | .key k => .leaf (.cond k)
  | .paren x => toExpr x
  | .bin o l r => .bin o.toOp (toExpr l) (toExpr r)

/-- shape produced by `FormatConstraintExpressionBuilder`: the operands of every operator are single keys or bracketed -/
inductive Grouped : FExpr → Prop
  | key (k : List Char) : Grouped (.key k)
  | paren {x : FExpr} : Grouped x → Grouped (.paren x)
  | bin (o : BOp) {l r : FExpr} : Grouped l → Grouped r → (∀ o' a b, l ≠ .bin o' a b) → (∀ o' a b, r ≠ .bin o' a b) → Grouped (.bin o l r)

/-- keys are non-empty strings of ASCII digits (as delivered by the parser) -/
def KeysOk : FExpr → Prop
  | .key k => k ≠ [] ∧ ∀ c ∈ k, isIntDigit c = true
  | .paren x => KeysOk x
  | .bin _ l r => KeysOk l ∧ KeysOk r


/-! ## rendering, as characters -/
def letterC : BOp → Char | .and_ => 'U' | .or_ => 'O' | .xor_ => 'X'
def toOp3 : BOp → Op3 | .and_ => .and_ | .or_ => .or_ | .xor_ => .xor_

def renderL : FExpr → List Char
  | .key k => '[' :: (k ++ [']'])
  | .paren x => '(' :: (renderL x ++ [')'])
  | .bin o l r => renderL l ++ ' ' :: letterC o :: ' ' :: renderL r

def toks : FExpr → List Tok
  | .key k => [.atom (.cond k)]
  | .paren x => .lp :: (toks x ++ [.rp])
  | .bin o l r => toks l ++ .op (toOp3 o) :: toks r

theorem letter_toList (o : BOp) : o.letter.toList = [letterC o] := by
  cases o <;> decide

theorem render_toList (f : FExpr) : f.render.toList = renderL f := by
  induction f with
  | key k =>
    have h1 : "[".toList = ['['] := by decide
    have h2 : "]".toList = [']'] := by decide
    simp only [FExpr.render, renderL, String.toList_append, String.toList_ofList, h1, h2]
    simp
  | paren x ih =>
    have h1 : "(".toList = ['('] := by decide
    have h2 : ")".toList = [')'] := by decide
    simp only [FExpr.render, renderL, String.toList_append, ih, h1, h2]
    simp
  | bin o l r ihl ihr =>
    have h1 : " ".toList = [' '] := by decide
    simp only [FExpr.render, renderL, String.toList_append, ihl, ihr, h1, letter_toList]
    simp

theorem allWs_nil : AllWs [] := fun _ h => by simp at h
theorem allWs_blank : AllWs [' '] := by
  intro c hc
  simp at hc
  subst hc
  decide

theorem allWs_append {a b : List Char} (ha : AllWs a) (hb : AllWs b) : AllWs (a ++ b) := by
  intro c hc
  rcases List.mem_append.1 hc with h | h
  · exact ha c h
  · exact hb c h

theorem spelt_ws {w : List Char} (hw : AllWs w) {ts : List Tok} {cs : List Char} (h : Spelt ts cs) :
    Spelt ts (w ++ cs) := by
  cases h with
  | nil w' hw' => exact .nil _ (allWs_append hw hw')
  | cons w' s rest t ts hw' ht hr =>
    have := Spelt.cons (w ++ w') s rest t ts (allWs_append hw hw') ht hr
    simpa [List.append_assoc] using this

theorem spelt_tok {t : Tok} {s : List Char} (ht : SpellTok t s) {ts : List Tok} {rest : List Char} (h : Spelt ts rest) :
    Spelt (t :: ts) (s ++ rest) := by
  have := Spelt.cons [] s rest t ts allWs_nil ht h
  simpa using this

theorem spellOp (o : BOp) : SpellTok (.op (toOp3 o)) [letterC o] := by
  cases o
  · exact .and_ 'U' (by decide)
  · exact .or_ 'O' (by decide)
  · exact .xor_ 'X' (by decide)

theorem spelt_render (f : FExpr) (hk : KeysOk f) : ∀ (ts : List Tok) (rest : List Char), Spelt ts rest →
    Spelt (toks f ++ ts) (renderL f ++ rest) := by
  induction f with
  | key k =>
    intro ts rest h
    obtain ⟨hne, hd⟩ := hk
    have hb : SpellAtom (.cond k) ([] ++ k ++ []) := .cond k [] [] hne hd allWs_nil allWs_nil
    have ht : SpellTok (.atom (.cond k)) ('[' :: (([] ++ k ++ []) ++ [']'])) :=
      .atom '[' ']' _ _ (by decide) (by decide) hb
    have := spelt_tok ht h
    simpa [toks, renderL] using this
  | paren x ih =>
    intro ts rest h
    have hr : Spelt (.rp :: ts) ([')'] ++ rest) := spelt_tok (.rp ')' (by decide)) h
    have hx := ih hk _ _ hr
    have := spelt_tok (.lp '(' (by decide)) hx
    simpa [toks, renderL, List.append_assoc] using this
  | bin o l r ihl ihr =>
    intro ts rest h
    have hr := spelt_ws allWs_blank (ihr hk.2 _ _ h)
    have ho := spelt_ws allWs_blank (spelt_tok (spellOp o) hr)
    have := ihl hk.1 _ _ ho
    simpa [toks, renderL, List.append_assoc] using this

theorem sepToks_toOp (o : BOp) : C01.sepToks o.toOp = [.op (toOp3 o)] := by cases o <;> rfl

theorem written_grouped {f : FExpr} (hg : Grouped f) :
    (∃ p, C01.Written p (toExpr f) (toks f)) ∧ ((∀ o a b, f ≠ .bin o a b) → C01.Written 4 (toExpr f) (toks f)) := by
  induction hg with
  | key k => exact ⟨⟨4, .atom _⟩, fun _ => .atom _⟩
  | @paren x _ ih =>
    obtain ⟨⟨p, hp⟩, _⟩ := ih
    have : C01.Written 4 (toExpr x) (.lp :: toks x ++ [.rp]) := .paren (.weaken (Nat.zero_le _) hp)
    exact ⟨⟨4, by simpa [toks, toExpr] using this⟩, fun _ => by simpa [toks, toExpr] using this⟩
  | @bin o l r _ _ hl hr ihl ihr =>
    have wl := ihl.2 hl
    have wr := ihr.2 hr
    have hle : o.toOp.prec ≤ 4 := by cases o <;> decide
    have := C01.Written.bin o.toOp (.weaken hle wl) (.weaken hle wr)
    rw [sepToks_toOp] at this
    refine ⟨⟨o.toOp.prec, by simpa [toks, toExpr] using this⟩, fun h => absurd rfl (h o l r)⟩

/-! ## values of the n-ary normal form -/
def aval (env : List Char → Bool) : Atom → Bool
  | .cond k => env k | .pkg k _ => env k | .time k => env k

def opf : Op → Bool → Bool → Bool
  | .and_, a, b => a && b | .then_, a, b => a && b | .or_, a, b => a || b | .xor_, a, b => a != b

def unit : Op → Bool | .and_ => true | .then_ => true | .or_ => false | .xor_ => false

def foldOp (op : Op) : List Bool → Bool
  | [] => unit op
  | x :: xs => opf op x (foldOp op xs)

mutual
def nval (env : List Char → Bool) : NExpr → Bool
  | .leaf a => aval env a
  | .node op as => foldOp op (nvals env as)
def nvals (env : List Char → Bool) : List NExpr → List Bool
  | [] => []
  | a :: as => nval env a :: nvals env as
end

theorem nvals_append (env : List Char → Bool) (xs ys : List NExpr) :
    nvals env (xs ++ ys) = nvals env xs ++ nvals env ys := by
  induction xs with
  | nil => simp [nvals]
  | cons x xs ih => simp [nvals, ih]

theorem foldOp_append (op : Op) (xs ys : List Bool) :
    foldOp op (xs ++ ys) = opf op (foldOp op xs) (foldOp op ys) := by
  induction xs with
  | nil => cases op <;> simp [foldOp, unit, opf]
  | cons x xs ih =>
    simp only [List.cons_append, foldOp, ih]
    cases op <;> cases x <;> cases foldOp _ xs <;> cases foldOp _ ys <;> rfl

theorem foldOp_single (op : Op) (x : Bool) : foldOp op [x] = x := by
  cases op <;> cases x <;> rfl

theorem foldOp_argsFor (env : List Char → Bool) (op : Op) (n : NExpr) :
    foldOp op (nvals env (n.argsFor op)) = nval env n := by
  cases n with
  | leaf a => simp [NExpr.argsFor, nvals, foldOp_single]
  | node op' as =>
    simp only [NExpr.argsFor]
    split
    · next h => subst h; simp [nval]
    · simp [nvals, foldOp_single]

theorem boolSem_opf (env : List Char → Bool) (op : Op) (l r : Expr) :
    boolSem env (.bin op l r) = opf op (boolSem env l) (boolSem env r) := by
  cases op <;> rfl

theorem boolSem_flat (env : List Char → Bool) (e : Expr) : boolSem env e = nval env e.flat := by
  induction e with
  | leaf a => cases a <;> simp [boolSem, Expr.flat, nval, aval]
  | bin op l r ihl ihr =>
    rw [boolSem_opf, Expr.flat, nval, nvals_append, foldOp_append, foldOp_argsFor, foldOp_argsFor, ihl, ihr]

theorem boolSem_toExpr (env : List Char → Bool) (f : FExpr) : boolSem env (toExpr f) = C07.evalF env f := by
  induction f with
  | key k => rfl
  | paren x ih => simpa [toExpr, C07.evalF] using ih
  | bin o l r ihl ihr => cases o <;> simp [toExpr, C07.evalF, boolSem, BOp.toOp, ihl, ihr]

/-! ## shape of what `_connect` builds -/
theorem grouped_grp {f : FExpr} (h : Grouped f) : Grouped f.grp ∧ ∀ o a b, f.grp ≠ .bin o a b := by
  cases f with
  | key k => exact ⟨h, fun _ _ _ h => by cases h⟩
  | paren x => exact ⟨.paren h, fun _ _ _ h => by cases h⟩
  | bin o l r => exact ⟨.paren h, fun _ _ _ h => by cases h⟩

theorem grouped_other {b : Node} (hb : ∀ f, fcInit b = some f → Grouped f) :
    ∀ p, fcOther b = some p → Grouped p ∧ ∀ o x y, p ≠ .bin o x y := by
  intro p hp
  cases b with
  | rc _ _ => simp [fcOther] at hp
  | hint _ _ => simp [fcOther] at hp
  | fc k => simp [fcOther] at hp; subst hp; exact ⟨.key k, fun _ _ _ h => by cases h⟩
  | comp st h x =>
    cases x with
    | none => simp [fcOther] at hp
    | some y => simp [fcOther] at hp; subst hp; exact grouped_grp (hb y (by simp))

theorem grouped_connect (o : BOp) (a b : Node) (ha : ∀ f, fcInit a = some f → Grouped f)
    (hb : ∀ f, fcInit b = some f → Grouped f) : ∀ f, fcConnect o (fcInit a) b = some f → Grouped f := by
  intro f hf
  have hob := grouped_other hb
  unfold fcConnect at hf
  cases hia : fcInit a with
  | none =>
    cases hio : fcOther b with
    | none => simp [hia, hio] at hf
    | some p => simp [hia, hio] at hf; subst hf; exact (hob p hio).1
  | some e =>
    cases hio : fcOther b with
    | none => simp [hia, hio] at hf; subst hf; exact ha e hia
    | some p =>
      simp [hia, hio] at hf; subst hf
      obtain ⟨g1, n1⟩ := grouped_grp (ha e hia)
      obtain ⟨g2, n2⟩ := hob p hio
      exact .bin o g1 g2 n1 n2

/-- **C07 (well-formed, and it means what was collected).** The rendered string is accepted by the condition parser and parses to the
collected tree up to same-operator grouping. -/
theorem C07_render_parses (f : FExpr) (hg : Grouped f) (hk : KeysOk f) :
    ∃ e, parseCond f.render.toList = some e ∧ e.flat = (toExpr f).flat := by
  obtain ⟨⟨p, hw⟩, _⟩ := written_grouped hg
  have hs := spelt_render f hk [] [] (.nil [] allWs_nil)
  rw [List.append_nil, List.append_nil] at hs
  rw [render_toList]
  exact C01.C01_string hs hw

/-- everything requirement evaluation collects has that shape -/
theorem C07_collected_grouped (env : Env) (henv : ∀ k n, env k = some n → ∀ f, fcInit n = some f → f = .key k)
    (t : Expr) (n : Node) (h : evalRc env t = .ok n) : ∀ f, fcInit n = some f → Grouped f := by
  induction t generalizing n with
  | leaf a =>
    intro f hf
    cases a with
    | cond kk =>
      cases he : env kk with
      | none => simp [evalRc, he] at h
      | some m =>
        simp [evalRc, he] at h; subst h
        rw [henv kk m he f hf]; exact .key kk
    | pkg kk r => simp [evalRc] at h
    | time kk => simp [evalRc] at h
  | bin o l r ihl ihr =>
    cases hl : evalRc env l with
    | error e => rw [evalRc_bin_errL _ _ _ _ hl] at h; cases h
    | ok a =>
      cases hr : evalRc env r with
      | error e => rw [evalRc_bin_errR _ _ _ _ hl hr] at h; cases h
      | ok b =>
        rw [evalRc_bin _ o l r hl hr] at h
        have ka := ihl a hl
        have kb := ihr b hr
        cases o with
        | and_ =>
          simp only [pure, Except.pure] at h; cases h
          intro f hf; simp only [andComp, fcInit_comp] at hf
          exact grouped_connect .and_ a b ka kb f hf
        | or_ =>
          simp only [orXorComp] at h
          split at h
          · cases h
          · split at h
            · cases h
            · cases h; intro f hf; simp only [fcInit_comp] at hf; exact grouped_connect .or_ a b ka kb f hf
        | xor_ =>
          simp only [orXorComp] at h
          split at h
          · cases h
          · split at h
            · cases h
            · cases h; intro f hf; simp only [fcInit_comp] at hf; exact grouped_connect .xor_ a b ka kb f hf
        | then_ =>
          have key : ∀ (x y : Node), (∀ f, fcInit x = some f → Grouped f) → (∀ f, fcInit y = some f → Grouped f) →
              ∀ m, thenAlso' x y = .ok m → ∀ f, fcInit m = some f → Grouped f := by
            intro x y hx hy m hm f hf
            unfold thenAlso' at hm
            split at hm
            · cases hm
              simp only [fcInit_comp] at hf
              split at hf
              · exact grouped_connect .and_ x y hx hy f hf
              · cases hf
            · split at hm
              · cases hm; simp only [fcInit_comp] at hf; exact grouped_connect .and_ x _ hx hy f hf
              · cases hm
          simp only [thenAlso] at h
          split at h
          · exact key a b ka kb n h
          · exact key b a kb ka n h

/-- the value of the parsed string under a truth assignment is the value of the collected AST (hence, by `C07_meaning`, the direct
reading of the source expression) -/
theorem C07_string_value (fcEnv : List Char → Bool) (f : FExpr) (hg : Grouped f) (hk : KeysOk f) :
    ∃ e, parseCond f.render.toList = some e ∧ boolSem fcEnv e = Ahbicht.Properties.C07.evalF fcEnv f := by
  obtain ⟨e, he, hf⟩ := C07_render_parses f hg hk
  exact ⟨e, he, by rw [boolSem_flat, hf, ← boolSem_flat, boolSem_toExpr]⟩

end Ahbicht.Properties.C07Str

