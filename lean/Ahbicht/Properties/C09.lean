import Ahbicht.Model.AhbEval
/-!
# C09 — AHB expressions split into their parts; the first fulfilled part decides
-/
namespace Ahbicht.Properties.C09
open Ahbicht Generated

/-- **C09 (normalised indicator).** Every spelling in every letter case is mapped to its indicator
(stated over the table extracted from the transformer callbacks: 54 modal-mark and 6 prefix-operator spellings). -/
def upperAscii (c : Char) : Char := if 'a'.toNat ≤ c.toNat ∧ c.toNat ≤ 'z'.toNat then Char.ofNat (c.toNat - 32) else c

def expectedIndicator (written : String) : Option String :=
  let w := written.toList.map upperAscii
  if w = ['M'] ∨ w = ['M','U','S','S'] then some "MUSS"
  else if w = ['S'] ∨ w = ['S','O','L','L'] then some "SOLL"
  else if w = ['K'] ∨ w = ['K','A','N','N'] then some "KANN"
  else if w = ['X'] then some "X" else if w = ['O'] then some "O" else if w = ['U'] then some "U"
  else none

theorem C09_normalise : indicatorTable.all (fun e => e.2.2 == expectedIndicator e.2.1 && e.2.2.isSome) = true := by decide
theorem C09_normalise_complete : indicatorTable.length = 60 := by decide

/-! ## selection -/
variable {rs : List AhbResult}

/-- the selected result is (up to the documented `conditional` override) one of the part results -/
theorem C09_select_mem {r : AhbResult} (h : selectResult rs = some r) :
    ∃ r₀ ∈ rs, r.indicator = r₀.indicator ∧ r.rc.fulfilled = r₀.rc.fulfilled ∧ r.rc.hints = r₀.rc.hints ∧
      r.rc.fce = r₀.rc.fce ∧ r.fc = r₀.fc := by
  unfold selectResult at h
  cases hf : rs.find? (fun r => r.rc.fulfilled == some true) with
  | some x =>
    simp only [hf, Option.some.injEq] at h
    refine ⟨x, List.mem_of_find?_eq_some hf, ?_⟩
    subst h
    split <;> simp
  | none =>
    simp only [hf] at h
    exact ⟨r, List.mem_of_getLast? h, rfl, rfl, rfl, rfl, rfl⟩

/-- if some part is fulfilled, the first such part is returned -/
theorem C09_first_fulfilled (pre : List AhbResult) (x : AhbResult) (post : List AhbResult)
    (hpre : ∀ p ∈ pre, p.rc.fulfilled ≠ some true) (hx : x.rc.fulfilled = some true) :
    ∃ r, selectResult (pre ++ x :: post) = some r ∧ r.indicator = x.indicator ∧ r.rc.fulfilled = some true ∧
      r.rc.hints = x.rc.hints ∧ r.rc.fce = x.rc.fce ∧ r.fc = x.fc := by
  have hf : (pre ++ x :: post).find? (fun r => r.rc.fulfilled == some true) = some x := by
    rw [List.find?_append]
    have : pre.find? (fun r => r.rc.fulfilled == some true) = none := by
      rw [List.find?_eq_none]; intro p hp; simpa using hpre p hp
    simp [this, hx]
  unfold selectResult
  rw [hf]
  refine ⟨_, rfl, ?_⟩
  split <;> simp [hx]

/-- if no part is fulfilled, the last part is returned unchanged -/
theorem C09_last_otherwise (h : ∀ p ∈ rs, p.rc.fulfilled ≠ some true) : selectResult rs = rs.getLast? := by
  have : rs.find? (fun r => r.rc.fulfilled == some true) = none := by
    rw [List.find?_eq_none]; intro p hp; simpa using h p hp
  simp [selectResult, this]

/-- a single part is returned unchanged (no override) -/
theorem C09_single (r : AhbResult) : selectResult [r] = some r := by
  unfold selectResult
  by_cases h : r.rc.fulfilled = some true <;> simp [h]

/-- **C09 (bare indicator).** fulfilled, unconditional, no hints, format result fulfilled -/
theorem C09_bare (ind : String) :
    (bareResult ind).rc.fulfilled = some true ∧ (bareResult ind).rc.conditional = some false ∧
      (bareResult ind).rc.hints = none ∧ (bareResult ind).fc = ⟨true, none⟩ := ⟨rfl, rfl, rfl, rfl⟩

/-! non-vacuity -/
example : normalise .modal "mUsS".toList = some "MUSS" ∧ normalise .prefix_ "x".toList = some "X" := by decide
example : selectResult [⟨"MUSS", ⟨some false, some true, none, none⟩, ⟨true, none⟩⟩, bareResult "KANN"] =
    some ⟨"KANN", ⟨some true, some true, none, none⟩, ⟨true, none⟩⟩ := by decide

end Ahbicht.Properties.C09
