import Ahbicht.Lemmas.Spell
/-!
# C02 (atoms) — the scanner accepts nothing but the documented written forms

`Spelt ts cs` (Lemmas/Spell.lean) describes the documented ways of writing the token sequence `ts`: keys `[n]`, packages `[nP]` /
`[nPa..b]`, time conditions `[UB1..3]`, brackets, operators as letters in either case or as symbols, whitespace between the tokens and
inside `[ ]`.  `C01_spelling_ws` is the direction `Spelt ts cs → lex cs = some ts`; here is the converse.
-/
namespace Ahbicht.Properties.C02Lex
open Ahbicht

/-! ## helpers -/

def AllInt (ds : List Char) : Prop := ∀ c ∈ ds, isIntDigit c = true
def AllUni (ds : List Char) : Prop := ∀ c ∈ ds, isUniDigit c = true

theorem allWs_nil : AllWs [] := fun _ hc => by cases hc

theorem allWs_snoc {w : List Char} {c : Char} (hw : AllWs w) (hc : isWs c = true) : AllWs (w ++ [c]) := by
  intro d hd
  simp only [List.mem_append, List.mem_singleton] at hd
  rcases hd with hd | hd
  · exact hw d hd
  · subst hd; exact hc

theorem allWs_cons {w : List Char} {c : Char} (hc : isWs c = true) (hw : AllWs w) : AllWs (c :: w) := by
  intro d hd
  simp only [List.mem_cons] at hd
  rcases hd with hd | hd
  · subst hd; exact hc
  · exact hw d hd

theorem allUni_nil : AllUni [] := fun _ hc => by cases hc

theorem allUni_snoc {w : List Char} {c : Char} (hw : AllUni w) (hc : isUniDigit c = true) : AllUni (w ++ [c]) := by
  intro d hd
  simp only [List.mem_append, List.mem_singleton] at hd
  rcases hd with hd | hd
  · exact hw d hd
  · subst hd; exact hc

theorem allInt_cons {w : List Char} {c : Char} (hc : isIntDigit c = true) (hw : AllInt w) : AllInt (c :: w) := by
  intro d hd
  simp only [List.mem_cons] at hd
  rcases hd with hd | hd
  · subst hd; exact hc
  · exact hw d hd

theorem allInt_reverse {w : List Char} (hw : AllInt w) : AllInt w.reverse := by
  intro d hd
  exact hw d (List.mem_reverse.mp hd)

/-- trailing whitespace inside the brackets -/
theorem spellAtom_snoc {a : Atom} {body : List Char} {c : Char} (h : SpellAtom a body) (hc : isWs c = true) :
    SpellAtom a (body ++ [c]) := by
  cases h with
  | cond ds w1 w2 hne hds hw1 hw2 =>
    have := SpellAtom.cond ds w1 (w2 ++ [c]) hne hds hw1 (allWs_snoc hw2 hc)
    simpa [List.append_assoc] using this
  | pkg ds w1 w2 hne hds hw1 hw2 =>
    have := SpellAtom.pkg ds w1 (w2 ++ [c]) hne hds hw1 (allWs_snoc hw2 hc)
    simpa [List.append_assoc] using this
  | pkgRep ds w1 w2 w3 a b b0 hne hds hw1 hw2 hw3 hane ha hb0 hb =>
    have := SpellAtom.pkgRep ds w1 w2 (w3 ++ [c]) a b b0 hne hds hw1 hw2 (allWs_snoc hw3 hc) hane ha hb0 hb
    simpa [List.append_assoc] using this
  | time n w1 w2 hn hw1 hw2 =>
    have := SpellAtom.time n w1 (w2 ++ [c]) hn hw1 (allWs_snoc hw2 hc)
    simpa [List.append_assoc] using this

/-- leading whitespace before a written token sequence -/
theorem spelt_ws_cons {ts : List Tok} {cs : List Char} {c : Char} (hc : isWs c = true) (h : Spelt ts cs) :
    Spelt ts (c :: cs) := by
  cases h with
  | nil _ hw => exact Spelt.nil _ (allWs_cons hc hw)
  | cons w s rest t ts hw ht hrest =>
    have := Spelt.cons (c :: w) s rest t ts (allWs_cons hc hw) ht hrest
    simpa [List.append_assoc] using this

/-! ## what has been read since `[` in each scanner state -/

/-- `[`-less beginning `w1 ds P w2` of a package atom with key `ds P` -/
def PkgHead (key p0 : List Char) : Prop :=
  ∃ w1 ds w2, AllWs w1 ∧ ds ≠ [] ∧ AllInt ds ∧ AllWs w2 ∧ key = ds ++ ['P'] ∧ p0 = w1 ++ ds ++ 'P' :: w2

/-- `Pre s p`: in state `s`, the characters `p` read since the opening bracket are a correct beginning of an atom -/
def Pre : LState → List Char → Prop
  | .out, _ => False
  | .open_, p => AllWs p
  | .digits ds, p => ∃ w1, AllWs w1 ∧ ds ≠ [] ∧ AllInt ds ∧ p = w1 ++ ds.reverse
  | .ub1, p => ∃ w1, AllWs w1 ∧ p = w1 ++ ['U']
  | .ub2, p => ∃ w1, AllWs w1 ∧ p = w1 ++ ['U', 'B']
  | .afterPkg key, p => PkgHead key p
  | .repMin key acc, p => ∃ p0, PkgHead key p0 ∧ p = p0 ++ acc.reverse ∧ acc.reverse ≠ [] ∧ AllUni acc.reverse
  | .repDot key acc, p => ∃ p0 m, PkgHead key p0 ∧ p = p0 ++ acc.reverse ∧ m ≠ [] ∧ AllUni m ∧
      acc.reverse = m ++ ['.']
  | .repDots key acc, p => ∃ p0 m, PkgHead key p0 ∧ p = p0 ++ acc.reverse ∧ m ≠ [] ∧ AllUni m ∧
      acc.reverse = m ++ ['.', '.']
  | .repMax key acc, p => ∃ p0 m b0 b, PkgHead key p0 ∧ p = p0 ++ acc.reverse ∧ m ≠ [] ∧ AllUni m ∧
      isRepFirstMax b0 = true ∧ AllUni b ∧ acc.reverse = m ++ '.' :: '.' :: b0 :: b
  | .close a, p => SpellAtom a p

theorem pkgRep_of_head {key p0 m b w3 : List Char} {b0 : Char} (hh : PkgHead key p0) (hm : m ≠ []) (hmu : AllUni m)
    (hb0 : isRepFirstMax b0 = true) (hb : AllUni b) (hw3 : AllWs w3) :
    SpellAtom (.pkg key (some (m ++ '.' :: '.' :: b0 :: b))) (p0 ++ (m ++ '.' :: '.' :: b0 :: b) ++ w3) := by
  obtain ⟨w1, ds, w2, hw1, hne, hds, hw2, rfl, rfl⟩ := hh
  have := SpellAtom.pkgRep ds w1 w2 w3 m b b0 hne hds hw1 hw2 hw3 hm hmu hb0 hb
  simpa [List.append_assoc] using this

/-- one scanner step inside the brackets: either the beginning is extended, or the atom is closed by `]` -/
theorem step_pre {s s' : LState} {c : Char} {t : Option Tok} {p : List Char} (hp : Pre s p)
    (h : lexStep s c = some (s', t)) :
    (t = none ∧ Pre s' (p ++ [c])) ∨
    (s' = .out ∧ isRsqb c = true ∧ ∃ a, t = some (.atom a) ∧ SpellAtom a p) := by
  cases s with
  | out => exact False.elim hp
  | open_ =>
    have hp' : AllWs p := hp
    simp only [lexStep] at h
    split at h
    · rename_i hw
      cases h
      exact Or.inl ⟨rfl, allWs_snoc hp' hw⟩
    · split at h
      · rename_i hd
        cases h
        refine Or.inl ⟨rfl, p, hp', by simp, ?_, by simp⟩
        exact allInt_cons hd (fun _ hx => by cases hx)
      · split at h
        · rename_i hu
          cases h
          subst hu
          exact Or.inl ⟨rfl, p, hp', rfl⟩
        · cases h
  | digits ds =>
    obtain ⟨w1, hw1, hne, hds, rfl⟩ := hp
    simp only [lexStep] at h
    split at h
    · rename_i hd
      cases h
      refine Or.inl ⟨rfl, w1, hw1, by simp, allInt_cons hd hds, by simp⟩
    · split at h
      · rename_i hP
        cases h
        subst hP
        refine Or.inl ⟨rfl, w1, ds.reverse, [], hw1, by simpa using hne, allInt_reverse hds, allWs_nil, by simp, by simp⟩
      · split at h
        · rename_i hw
          cases h
          refine Or.inl ⟨rfl, ?_⟩
          exact SpellAtom.cond ds.reverse w1 [c] (by simpa using hne) (allInt_reverse hds) hw1
            (allWs_cons hw allWs_nil)
        · split at h
          · rename_i hr
            cases h
            refine Or.inr ⟨rfl, hr, _, rfl, ?_⟩
            have := SpellAtom.cond ds.reverse w1 [] (by simpa using hne) (allInt_reverse hds) hw1 allWs_nil
            simpa using this
          · cases h
  | ub1 =>
    obtain ⟨w1, hw1, rfl⟩ := hp
    simp only [lexStep] at h
    split at h
    · rename_i hB
      cases h
      subst hB
      exact Or.inl ⟨rfl, w1, hw1, by simp⟩
    · cases h
  | ub2 =>
    obtain ⟨w1, hw1, rfl⟩ := hp
    simp only [lexStep] at h
    split at h
    · rename_i hn
      cases h
      refine Or.inl ⟨rfl, ?_⟩
      have := SpellAtom.time c w1 [] hn hw1 allWs_nil
      simpa [Pre] using this
    · cases h
  | afterPkg key =>
    have hp' : PkgHead key p := hp
    simp only [lexStep] at h
    split at h
    · rename_i hw
      cases h
      obtain ⟨w1, ds, w2, hw1, hne, hds, hw2, rfl, rfl⟩ := hp'
      exact Or.inl ⟨rfl, w1, ds, w2 ++ [c], hw1, hne, hds, allWs_snoc hw2 hw, rfl, by simp⟩
    · split at h
      · rename_i hu
        cases h
        refine Or.inl ⟨rfl, p, hp', by simp, by simp, ?_⟩
        intro d hd
        simp at hd
        subst hd
        exact hu
      · split at h
        · rename_i hr
          cases h
          obtain ⟨w1, ds, w2, hw1, hne, hds, hw2, rfl, rfl⟩ := hp'
          exact Or.inr ⟨rfl, hr, _, rfl, SpellAtom.pkg ds w1 w2 hne hds hw1 hw2⟩
        · cases h
  | repMin key acc =>
    obtain ⟨p0, hh, rfl, hne, hu⟩ := hp
    simp only [lexStep] at h
    split at h
    · rename_i hc
      cases h
      refine Or.inl ⟨rfl, p0, hh, by simp, by simp, ?_⟩
      rw [List.reverse_cons]
      exact allUni_snoc hu hc
    · split at h
      · rename_i hdot
        cases h
        subst hdot
        exact Or.inl ⟨rfl, p0, acc.reverse, hh, by simp, hne, hu, by simp⟩
      · cases h
  | repDot key acc =>
    obtain ⟨p0, m, hh, rfl, hne, hu, hacc⟩ := hp
    simp only [lexStep] at h
    split at h
    · rename_i hdot
      cases h
      subst hdot
      exact Or.inl ⟨rfl, p0, m, hh, by simp, hne, hu, by simp [hacc]⟩
    · cases h
  | repDots key acc =>
    obtain ⟨p0, m, hh, rfl, hne, hu, hacc⟩ := hp
    simp only [lexStep] at h
    split at h
    · rename_i hb0
      cases h
      exact Or.inl ⟨rfl, p0, m, c, [], hh, by simp, hne, hu, hb0, allUni_nil, by simp [hacc]⟩
    · cases h
  | repMax key acc =>
    obtain ⟨p0, m, b0, b, hh, rfl, hne, hu, hb0, hb, hacc⟩ := hp
    simp only [lexStep] at h
    split at h
    · rename_i hc
      cases h
      exact Or.inl ⟨rfl, p0, m, b0, b ++ [c], hh, by simp, hne, hu, hb0, allUni_snoc hb hc, by simp [hacc]⟩
    · split at h
      · rename_i hw
        cases h
        refine Or.inl ⟨rfl, ?_⟩
        have := pkgRep_of_head hh hne hu hb0 hb (allWs_cons hw allWs_nil)
        rw [← hacc] at this
        exact this
      · split at h
        · rename_i hr
          cases h
          refine Or.inr ⟨rfl, hr, _, rfl, ?_⟩
          have := pkgRep_of_head hh hne hu hb0 hb allWs_nil
          rw [← hacc] at this
          simpa using this
        · cases h
  | close a =>
    have hp' : SpellAtom a p := hp
    simp only [lexStep] at h
    split at h
    · rename_i hw
      cases h
      exact Or.inl ⟨rfl, spellAtom_snoc hp' hw⟩
    · split at h
      · rename_i hr
        cases h
        exact Or.inr ⟨rfl, hr, _, rfl, hp'⟩
      · cases h

/-- one scanner step between tokens -/
theorem step_out {s' : LState} {c : Char} {t : Option Tok} (h : lexStep .out c = some (s', t)) :
    (isWs c = true ∧ s' = .out ∧ t = none) ∨ (isLsqb c = true ∧ s' = .open_ ∧ t = none) ∨
    (s' = .out ∧ ∃ tok, t = some tok ∧ SpellTok tok [c]) := by
  simp only [lexStep] at h
  split at h
  · rename_i hw; cases h; exact Or.inl ⟨hw, rfl, rfl⟩
  · split at h
    · rename_i hl; cases h; exact Or.inr (Or.inl ⟨hl, rfl, rfl⟩)
    · split at h
      · rename_i hx; cases h; exact Or.inr (Or.inr ⟨rfl, _, rfl, SpellTok.lp c hx⟩)
      · split at h
        · rename_i hx; cases h; exact Or.inr (Or.inr ⟨rfl, _, rfl, SpellTok.rp c hx⟩)
        · split at h
          · rename_i hx; cases h; exact Or.inr (Or.inr ⟨rfl, _, rfl, SpellTok.or_ c hx⟩)
          · split at h
            · rename_i hx; cases h; exact Or.inr (Or.inr ⟨rfl, _, rfl, SpellTok.xor_ c hx⟩)
            · split at h
              · rename_i hx; cases h; exact Or.inr (Or.inr ⟨rfl, _, rfl, SpellTok.and_ c hx⟩)
              · cases h

/-- the rest of the input completes the atom begun by `p` and goes on with a written token sequence -/
def Comp (p : List Char) (ts : List Tok) (cs : List Char) : Prop :=
  ∃ body c rest a ts', cs = body ++ c :: rest ∧ isRsqb c = true ∧ ts = .atom a :: ts' ∧ Spelt ts' rest ∧
    SpellAtom a (p ++ body)

theorem lexFrom_complete : ∀ (cs : List Char) (s : LState) (ts : List Tok), lexFrom s cs = some (.out, ts) →
    (s = .out → Spelt ts cs) ∧ (∀ p, Pre s p → Comp p ts cs) := by
  intro cs
  induction cs with
  | nil =>
    intro s ts h
    simp only [lexFrom] at h
    cases h
    exact ⟨fun _ => Spelt.nil [] allWs_nil, fun p hp => False.elim hp⟩
  | cons c cs ih =>
    intro s ts h
    simp only [lexFrom] at h
    cases hstep : lexStep s c with
    | none => rw [hstep] at h; cases h
    | some q =>
      obtain ⟨s', t⟩ := q
      rw [hstep] at h
      simp only at h
      cases hrec : lexFrom s' cs with
      | none => rw [hrec] at h; cases h
      | some r =>
        obtain ⟨s'', ts0⟩ := r
        rw [hrec] at h
        simp only [Option.some.injEq, Prod.mk.injEq] at h
        obtain ⟨hs'', hts⟩ := h
        subst hs''
        have IH := ih s' ts0 hrec
        constructor
        · intro hs
          subst hs
          rcases step_out hstep with ⟨hw, rfl, rfl⟩ | ⟨hl, rfl, rfl⟩ | ⟨rfl, tok, rfl, htok⟩
          · subst hts
            exact spelt_ws_cons hw (IH.1 rfl)
          · subst hts
            obtain ⟨body, c', rest, a, ts', rfl, hc', rfl, hsp, hat⟩ := IH.2 [] allWs_nil
            have := Spelt.cons [] (c :: (body ++ [c'])) rest (.atom a) ts' allWs_nil
              (SpellTok.atom c c' a body hl hc' (by simpa using hat)) hsp
            simpa [List.append_assoc] using this
          · subst hts
            have := Spelt.cons [] [c] cs tok ts0 allWs_nil htok (IH.1 rfl)
            simpa using this
        · intro p hp
          rcases step_pre hp hstep with ⟨rfl, hp'⟩ | ⟨rfl, hr, a, rfl, hat⟩
          · subst hts
            obtain ⟨body, c', rest, a, ts', rfl, hc', rfl, hsp, hat⟩ := IH.2 _ hp'
            exact ⟨c :: body, c', rest, a, ts', by simp, hc', rfl, hsp, by simpa [List.append_assoc] using hat⟩
          · subst hts
            exact ⟨[], c, cs, a, ts0, by simp, hr, rfl, IH.1 rfl, by simpa using hat⟩

/-- **C02 (nothing else is accepted at the lexical level).** -/
theorem C02_lex_complete (cs : List Char) (ts : List Tok) (h : lex cs = some ts) : Spelt ts cs := by
  unfold lex at h
  split at h
  · rename_i ts' heq
    cases h
    exact (lexFrom_complete cs .out ts heq).1 rfl
  · cases h

/-- the scanner accepts exactly the documented written forms -/
theorem C02_lex_iff (cs : List Char) (ts : List Tok) : lex cs = some ts ↔ Spelt ts cs := by
  constructor
  · exact C02_lex_complete cs ts
  · intro h
    unfold lex
    rw [lex_spelt classFacts h]

end Ahbicht.Properties.C02Lex

