import Ahbicht.Lemmas.Parse
import Ahbicht.Lemmas.Spell
/-!
# C01 — condition expressions are grouped by the documented operator precedence

`Written p e ts` is the textbook stratified grammar of the documentation: `ts` is a way of writing the
tree `e` in which brackets bind tightest (level 4), then juxtaposition (3), AND (2), XOR (1), OR (0);
operands of an operator of level `p` are written at level `p` themselves, i.e. *both* groupings of a run
of one operator are admitted — exactly the freedom C01 leaves.  Redundant brackets may be added anywhere
(`paren` re-enters level 0).

`C01_precedence`: every such writing is parsed to `e` up to the grouping inside runs of one operator
(`flat`).  No bound on length or nesting.
-/
namespace Ahbicht.Properties.C01
open Ahbicht

def sepToks : Op → List Tok
  | .or_ => [.op .or_] | .xor_ => [.op .xor_] | .and_ => [.op .and_] | .then_ => []

inductive Written : Nat → Expr → List Tok → Prop
  | atom (a : Atom) : Written 4 (.leaf a) [.atom a]
  | paren {e ts} : Written 0 e ts → Written 4 e (.lp :: ts ++ [.rp])
  | bin {l r tl tr} (o : Op) : Written o.prec l tl → Written o.prec r tr →
      Written o.prec (.bin o l r) (tl ++ sepToks o ++ tr)
  | weaken {p q e ts} : q ≤ p → Written p e ts → Written q e ts

theorem extend_pend_or_then (f : Frame) (cl : Chain) :
    ∃ X, f.extend cl = .item X ∧ ∀ o cr, join X o cr = (match f with
      | .empty => join cl o cr
      | .item c0 => join c0 .then_ (join cl o cr)
      | .pend c0 o0 => join c0 o0 (join cl o cr)) := by
  cases f with
  | empty => exact ⟨cl, rfl, fun _ _ => rfl⟩
  | item c0 => exact ⟨join c0 .then_ cl, rfl, fun o cr => join_assoc _ _ _ _ _⟩
  | pend c0 o0 => exact ⟨join c0 o0 cl, rfl, fun o cr => join_assoc _ _ _ _ _⟩

theorem extend_op (f : Frame) (cl cr : Chain) (o : Op) (X : Chain) (hX : f.extend cl = .item X) :
    (Frame.pend X o).extend cr = f.extend (join cl o cr) := by
  cases f with
  | empty => simp [Frame.extend] at hX ⊢; subst hX; rfl
  | item c0 => simp [Frame.extend] at hX ⊢; subst hX; exact join_assoc _ _ _ _ _
  | pend c0 o0 => simp [Frame.extend] at hX ⊢; subst hX; exact join_assoc _ _ _ _ _

theorem tightP_join {p : Nat} {cl cr : Chain} {o : Op} (hl : tightP p cl) (hr : tightP p cr) (ho : p ≤ o.prec) :
    tightP p (join cl o cr) := by
  intro s hs
  simp only [join, List.mem_append, List.mem_cons] at hs
  rcases hs with hs | hs | hs
  · exact hl s hs
  · subst hs; exact ho
  · exact hr s hs

/-- running the machine over a written expression appends, to whatever frame is on top, a chain that renders it -/
theorem run_written {p : Nat} {e : Expr} {ts : List Tok} (h : Written p e ts) :
    ∀ (f : Frame) (st : List Frame), ∃ c e', runToks (f :: st) ts = some (f.extend c :: st) ∧
      Renders e' c ∧ e'.flat = e.flat ∧ tightP p c := by
  induction h with
  | atom a =>
    intro f st
    refine ⟨(.leaf a, []), .leaf a, ?_, .item _, rfl, ?_⟩
    · simp [runToks, stepTok, Frame.push_eq_extend]
    · intro s hs; simp at hs
  | @paren e ts _ ih =>
    intro f st
    obtain ⟨c, e', hrun, hren, hflat, _⟩ := ih .empty (f :: st)
    refine ⟨(build c, []), build c, ?_, .item _, ?_, ?_⟩
    · have h1 : runToks (f :: st) (.lp :: ts ++ [.rp]) = runToks (.empty :: f :: st) (ts ++ [.rp]) := by
        simp [runToks, stepTok]
      rw [h1, runToks_append, hrun]
      simp [runToks, stepTok, Frame.extend, Frame.push_eq_extend]
    · rw [asm_renders hren, hflat]
    · intro s hs; simp at hs
  | @bin l r tl tr o _ _ ihl ihr =>
    intro f st
    obtain ⟨cl, l', hrunl, hrenl, hfl, htl⟩ := ihl f st
    obtain ⟨X, hX, _⟩ := extend_pend_or_then f cl
    cases o with
    | then_ =>
      obtain ⟨cr, r', hrunr, hrenr, hfr, htr⟩ := ihr (f.extend cl) st
      refine ⟨join cl .then_ cr, .bin .then_ l' r', ?_, .bin _ hrenl hrenr htl htr, ?_, tightP_join htl htr (Nat.le_refl _)⟩
      · simp only [sepToks, List.append_nil]
        rw [runToks_append, hrunl]
        simp [hrunr, Frame.extend_extend_then]
      · simp [Expr.flat, hfl, hfr]
    | or_ =>
      obtain ⟨cr, r', hrunr, hrenr, hfr, htr⟩ := ihr (.pend X .or_) st
      refine ⟨join cl .or_ cr, .bin .or_ l' r', ?_, .bin _ hrenl hrenr htl htr, ?_, tightP_join htl htr (Nat.le_refl _)⟩
      · simp only [sepToks, List.append_assoc, List.singleton_append]
        rw [runToks_append, hrunl]
        simp [runToks, stepTok, hX, Op3.toOp, hrunr, extend_op f cl cr .or_ X hX]
      · simp [Expr.flat, hfl, hfr]
    | xor_ =>
      obtain ⟨cr, r', hrunr, hrenr, hfr, htr⟩ := ihr (.pend X .xor_) st
      refine ⟨join cl .xor_ cr, .bin .xor_ l' r', ?_, .bin _ hrenl hrenr htl htr, ?_, tightP_join htl htr (Nat.le_refl _)⟩
      · simp only [sepToks, List.append_assoc, List.singleton_append]
        rw [runToks_append, hrunl]
        simp [runToks, stepTok, hX, Op3.toOp, hrunr, extend_op f cl cr .xor_ X hX]
      · simp [Expr.flat, hfl, hfr]
    | and_ =>
      obtain ⟨cr, r', hrunr, hrenr, hfr, htr⟩ := ihr (.pend X .and_) st
      refine ⟨join cl .and_ cr, .bin .and_ l' r', ?_, .bin _ hrenl hrenr htl htr, ?_, tightP_join htl htr (Nat.le_refl _)⟩
      · simp only [sepToks, List.append_assoc, List.singleton_append]
        rw [runToks_append, hrunl]
        simp [runToks, stepTok, hX, Op3.toOp, hrunr, extend_op f cl cr .and_ X hX]
      · simp [Expr.flat, hfl, hfr]
  | @weaken p q e ts hqp _ ih =>
    intro f st
    obtain ⟨c, e', hrun, hren, hflat, ht⟩ := ih f st
    exact ⟨c, e', hrun, hren, hflat, fun s hs => Nat.le_trans hqp (ht s hs)⟩

/-- **C01 (grouping).** Every way of writing `e` with the documented precedence parses to `e`,
up to the grouping inside runs of one operator. -/
theorem C01_precedence {p : Nat} {e : Expr} {ts : List Tok} (h : Written p e ts) :
    ∃ e', parseToks ts = some e' ∧ e'.flat = e.flat := by
  obtain ⟨c, e', hrun, hren, hflat, _⟩ := run_written h .empty []
  refine ⟨build c, ?_, ?_⟩
  · simp [parseToks, hrun, Frame.extend]
  · rw [asm_renders hren, hflat]

/-- **C01 (redundant brackets).** Wrapping a written (sub-)expression in any number of brackets never
changes the grouping: both writings parse, to flat-equal trees. -/
theorem C01_redundant_brackets {p : Nat} {e : Expr} {ts : List Tok} (h : Written p e ts) :
    ∃ e₁ e₂, parseToks ts = some e₁ ∧ parseToks (.lp :: ts ++ [.rp]) = some e₂ ∧ e₁.flat = e₂.flat := by
  obtain ⟨e₁, h₁, f₁⟩ := C01_precedence h
  obtain ⟨e₂, h₂, f₂⟩ := C01_precedence (Written.paren (Written.weaken (Nat.zero_le _) h))
  exact ⟨e₁, e₂, h₁, h₂, by rw [f₁, f₂]⟩

/-- **C01 (uniqueness).** Two trees written by the same tokens differ at most in the grouping of runs:
the written form determines the tree. -/
theorem C01_unambiguous {p q : Nat} {e₁ e₂ : Expr} {ts : List Tok}
    (h₁ : Written p e₁ ts) (h₂ : Written q e₂ ts) : e₁.flat = e₂.flat := by
  obtain ⟨a, ha, fa⟩ := C01_precedence h₁
  obtain ⟨b, hb, fb⟩ := C01_precedence h₂
  rw [ha] at hb
  cases hb
  rw [← fa, ← fb]


/-- **C01 (spelling and whitespace).** However the tokens are written — operator as letter in either case or
as MaKo2022 symbol (any character of the extracted class of the terminal), any amount of whitespace before,
between, after the tokens and inside `[ ]` — the scanner delivers the same tokens. -/
theorem C01_spelling_ws {ts : List Tok} {cs : List Char} (h : Spelt ts cs) : lex cs = some ts := by
  simp [lex, lex_spelt classFacts h]

/-- **C01, string level.** Any spelling of any writing of `e` parses to `e` up to same-operator grouping. -/
theorem C01_string {p : Nat} {e : Expr} {ts : List Tok} {cs : List Char}
    (hs : Spelt ts cs) (hw : Written p e ts) : ∃ e', parseCond cs = some e' ∧ e'.flat = e.flat := by
  obtain ⟨e', he', hf⟩ := C01_precedence hw
  exact ⟨e', by simp [parseCond, C01_spelling_ws hs, he'], hf⟩

/-- two spellings of the same tokens give the very same tree -/
theorem C01_spelling_irrelevant {ts : List Tok} {cs₁ cs₂ : List Char} (h₁ : Spelt ts cs₁) (h₂ : Spelt ts cs₂) :
    parseCond cs₁ = parseCond cs₂ := by
  simp [parseCond, C01_spelling_ws h₁, C01_spelling_ws h₂]

/-- the operator classes really contain the six documented spellings -/
theorem C01_six_spellings :
    isOpAnd 'U' = true ∧ isOpAnd 'u' = true ∧ isOpAnd '∧' = true ∧
    isOpOr 'O' = true ∧ isOpOr 'o' = true ∧ isOpOr '∨' = true ∧
    isOpXor 'X' = true ∧ isOpXor 'x' = true ∧ isOpXor '⊻' = true ∧
    isLpar '(' = true ∧ isRpar ')' = true ∧ isLsqb '[' = true ∧ isRsqb ']' = true ∧
    isWs ' ' = true ∧ isWs '\t' = true ∧ isWs '\n' = true := by decide

/-- **C01 (alphabet).** "Whitespace" and "operator spelling" in the theorems above mean the classes extracted from the running regex engine;
they are exactly the documented ones: the five characters of Lark's `WS` (tab, line feed, form feed, carriage return, blank),
`U u ∧`, `O o ∨`, `X x ⊻` and the four bracket characters. -/
theorem C01_alphabet_as_documented :
    Generated.cc_ws = [(9, 10), (12, 13), (32, 32)] ∧
    Generated.cc_opOr = [(79, 79), (111, 111), (8744, 8744)] ∧ Generated.cc_opXor = [(88, 88), (120, 120), (8891, 8891)] ∧
    Generated.cc_opAnd = [(85, 85), (117, 117), (8743, 8743)] ∧
    Generated.cc_lpar = [(40, 40)] ∧ Generated.cc_rpar = [(41, 41)] ∧ Generated.cc_lsqb = [(91, 91)] ∧ Generated.cc_rsqb = [(93, 93)] := by decide

/-! non-vacuity of the spelling theorem: `" [ 12 ]u(  [3P 0..1]\t)"` -/
example : parseCond " [ 12 ]u(  [3P 0..1]\t)".toList =
    some (.bin .and_ (.leaf (.cond "12".toList)) (.leaf (.pkg "3P".toList (some "0..1".toList)))) := by decide

/-! non-vacuity: `[1] O [2] U [3] [901]` is a writing of `1 O (2 U (3 then 901))` -/
section
private def k (n : String) : Atom := .cond n.toList
example : Written 0
    (.bin .or_ (.leaf (k "1")) (.bin .and_ (.leaf (k "2")) (.bin .then_ (.leaf (k "3")) (.leaf (k "901")))))
    [.atom (k "1"), .op .or_, .atom (k "2"), .op .and_, .atom (k "3"), .atom (k "901")] := by
  have a1 := Written.atom (k "1")
  have a2 := Written.atom (k "2")
  have a3 := Written.atom (k "3")
  have a4 := Written.atom (k "901")
  have t := Written.bin .then_ (Written.weaken (by decide : 3 ≤ 4) a3) (Written.weaken (by decide : 3 ≤ 4) a4)
  have u := Written.bin .and_ (Written.weaken (by decide : 2 ≤ 4) a2) (Written.weaken (by decide : 2 ≤ 3) t)
  have o := Written.bin .or_ (Written.weaken (by decide : 0 ≤ 4) a1) (Written.weaken (by decide : 0 ≤ 2) u)
  simpa [sepToks, Op.prec] using o
end

end Ahbicht.Properties.C01
