import Ahbicht.Properties.C06
import Ahbicht.Properties.C18
/-!
# C06 (validity check) — `is_valid_expression` and evaluation agree

The model of `is_valid_expression` on an already parsed AHB expression (its parts' condition trees): the keys of all parts are extracted
and sanitised, every generated content evaluation result (`genResults`, C18) is tried, and the expression is reported invalid iff some
evaluation raises the invalid-expression error.
-/
namespace Ahbicht.Properties.C06Check
open Ahbicht

/-- all condition keys of all parts -/
def allKeys (parts : List Expr) : List (List Char) := parts.flatMap condKeys

def rcKeysOf (parts : List Expr) : List (List Char) :=
  sortBy digitsToNat (dedupKeys ((allKeys parts).filter fun k => catOf k == some .rc))

def fcKeysOf (parts : List Expr) : List (List Char) :=
  sortBy digitsToNat (dedupKeys ((allKeys parts).filter fun k => catOf k == some .fc))

/-- the requirement evaluator backed by one generated result -/
def rcEnvOfAssoc (ra : List (List Char × CFV)) : List Char → Option CFV := fun k => (ra.find? (·.1 == k)).map (·.2)

/-- `generate_possible_content_evaluation_results` gives every hint key the text "Hinweis <key>" -/
def hintEnvGen : List Char → Option String := fun k => some ("Hinweis " ++ String.ofList k)

/-- did the evaluation raise the invalid-expression error? -/
def raisesInvalid : Except EvalErr RcResult → Bool
  | .error .invalidExpr => true
  | _ => false

/-- `is_valid_expression`: `true` = `(True, None)`, `false` = `(False, reason)` -/
def isValidModel (parts : List Expr) : Bool :=
  (genResults (fcKeysOf parts) (rcKeysOf parts)).all fun fr =>
    parts.all fun t => !raisesInvalid (rcEvaluation (rcEnvOfAssoc fr.2) hintEnvGen t)

theorem raisesInvalid_iff (x : Except EvalErr RcResult) : raisesInvalid x = true ↔ x = .error .invalidExpr := by
  cases x with
  | error e => cases e <;> simp [raisesInvalid]
  | ok r => simp [raisesInvalid]

/-- the leaves of an expression in the documented domain are condition keys with a category -/
theorem WF_leaves {t : Expr} (h : WF t = true) :
    (∀ a ∈ t.atoms, ∃ k, a = .cond k) ∧ ∀ k ∈ condKeys t, (catOf k).isSome = true := by
  induction t with
  | leaf a =>
    cases a with
    | cond k =>
      simp only [WF] at h
      constructor
      · intro a ha
        simp only [Expr.atoms, List.mem_singleton] at ha
        exact ⟨k, ha⟩
      · intro k' hk'
        rw [condKeys_leaf_cond, List.mem_singleton] at hk'
        rw [hk']; exact h
    | pkg k r => simp [WF] at h
    | time k => simp [WF] at h
  | bin o l r ihl ihr =>
    obtain ⟨hl, hr⟩ := WF_bin h
    obtain ⟨l1, l2⟩ := ihl hl
    obtain ⟨r1, r2⟩ := ihr hr
    constructor
    · intro a ha
      simp only [Expr.atoms, List.mem_append] at ha
      rcases ha with ha | ha
      · exact l1 a ha
      · exact r1 a ha
    · intro k hk
      rw [condKeys_bin, List.mem_append] at hk
      rcases hk with hk | hk
      · exact l2 k hk
      · exact r2 k hk

theorem mem_sortedKeys (l : List (List Char)) (k : List Char) : k ∈ sortBy digitsToNat (dedupKeys l) ↔ k ∈ l := by
  rw [(C18.sortBy_perm _ _).mem_iff, C18.mem_dedupKeys]

theorem nodup_sortedKeys (l : List (List Char)) : (sortBy digitsToNat (dedupKeys l)).Nodup :=
  (C18.sortBy_perm _ _).nodup_iff.2 (C18.nodup_dedupKeys l)

theorem mem_rcKeysOf (parts : List Expr) (k : List Char) : k ∈ rcKeysOf parts ↔ k ∈ allKeys parts ∧ catOf k = some .rc := by
  unfold rcKeysOf
  rw [mem_sortedKeys, List.mem_filter]
  simp

theorem mem_fcKeysOf (parts : List Expr) (k : List Char) : k ∈ fcKeysOf parts ↔ k ∈ allKeys parts ∧ catOf k = some .fc := by
  unfold fcKeysOf
  rw [mem_sortedKeys, List.mem_filter]
  simp

theorem find_of_mem_map_fst {β : Type} (l : List (List Char × β)) (k : List Char) (h : k ∈ l.map (·.1)) :
    ∃ p, l.find? (·.1 == k) = some p ∧ p ∈ l := by
  cases hf : l.find? (·.1 == k) with
  | some p => exact ⟨p, rfl, List.mem_of_find?_eq_some hf⟩
  | none =>
    exfalso
    rw [List.find?_eq_none] at hf
    obtain ⟨q, hq, hqk⟩ := List.mem_map.1 h
    exact hf q hq (by simp [hqk])

theorem all_congr' {α : Type} (l : List α) (p q : α → Bool) (h : ∀ a ∈ l, p a = q a) : l.all p = l.all q := by
  induction l with
  | nil => rfl
  | cons x xs ih =>
    simp only [List.all_cons]
    rw [h x (by simp), ih (fun a ha => h a (by simp [ha]))]

theorem all_const_of_ne_nil {α : Type} (l : List α) (p : α → Bool) (b : Bool) (hex : ∃ a, a ∈ l) (h : ∀ a ∈ l, p a = b) :
    l.all p = b := by
  obtain ⟨a, ha⟩ := hex
  cases b with
  | true => rw [List.all_eq_true]; exact h
  | false =>
    rw [List.all_eq_false]
    exact ⟨a, ha, by simp [h a ha]⟩

/-- **C06 (validity check).** For an AHB expression all of whose parts are in the documented domain, the validity check answers
`(True, None)` exactly if no part is structurally invalid — i.e. exactly if evaluation raises the invalid-expression error under no
assignment (C06_structural). -/
theorem C06_check (parts : List Expr) (hwf : ∀ t ∈ parts, WF t = true) :
    isValidModel parts = parts.all (fun t => !invalidAt t) := by
  have hkeys : ∀ t ∈ parts, ∀ k ∈ condKeys t, k ∈ allKeys parts := fun t ht k hk =>
    List.mem_flatMap.2 ⟨t, ht, hk⟩
  by_cases hne : fcKeysOf parts = [] ∧ rcKeysOf parts = []
  · -- no requirement and no format key: nothing is tried, and nothing can be invalid
    have hL : isValidModel parts = true := by
      unfold isValidModel
      rw [hne.1, hne.2]
      rfl
    rw [hL]
    symm
    rw [List.all_eq_true]
    intro t ht
    obtain ⟨hleaf, hcat⟩ := WF_leaves (hwf t ht)
    have hh : ∀ k ∈ condKeys t, catOf k = some .hint := by
      intro k hk
      have hsome := hcat k hk
      have hall := hkeys t ht k hk
      cases hc : catOf k with
      | none => simp [hc] at hsome
      | some c =>
        cases c with
        | hint => rfl
        | rc =>
          have : k ∈ rcKeysOf parts := (mem_rcKeysOf parts k).2 ⟨hall, hc⟩
          rw [hne.2] at this; cases this
        | fc =>
          have : k ∈ fcKeysOf parts := (mem_fcKeysOf parts k).2 ⟨hall, hc⟩
          rw [hne.1] at this; cases this
    simp [C06.C06_no_keys hh hleaf]
  · obtain ⟨hmem, _⟩ := C18.C18_product_partial (fcKeysOf parts) (rcKeysOf parts) (nodup_sortedKeys _) (nodup_sortedKeys _) hne
    -- every generated result gives the same answer
    have hconst : ∀ fr ∈ genResults (fcKeysOf parts) (rcKeysOf parts),
        (parts.all fun t => !raisesInvalid (rcEvaluation (rcEnvOfAssoc fr.2) hintEnvGen t)) = parts.all (fun t => !invalidAt t) := by
      intro fr hfr
      have hres := (hmem fr).1 hfr
      apply all_congr'
      intro t ht
      have ha : Assigns (rcEnvOfAssoc fr.2) hintEnvGen t := by
        refine ⟨fun k hk hc => ?_, fun k _ _ => ⟨_, rfl⟩⟩
        have hkr : k ∈ rcKeysOf parts := (mem_rcKeysOf parts k).2 ⟨hkeys t ht k hk, hc⟩
        rw [← hres.2.1] at hkr
        obtain ⟨p, hp, hpm⟩ := find_of_mem_map_fst fr.2 k hkr
        refine ⟨p.2, by simp [rcEnvOfAssoc, hp], ?_⟩
        rcases hres.2.2 p hpm with h | h | h <;> simp [h]
      have hiff := C06.C06_evaluation (hwf t ht) ha
      rw [← raisesInvalid_iff] at hiff
      cases h1 : raisesInvalid (rcEvaluation (rcEnvOfAssoc fr.2) hintEnvGen t) <;> cases h2 : invalidAt t <;> simp_all
    -- the generated list is not empty
    have hex : ∃ fr, fr ∈ genResults (fcKeysOf parts) (rcKeysOf parts) := by
      refine ⟨((fcKeysOf parts).map fun k => (k, true), (rcKeysOf parts).map fun k => (k, CFV.F)), (hmem _).2 ⟨?_, ?_, ?_⟩⟩
      · simp [List.map_map, Function.comp_def]
      · simp [List.map_map, Function.comp_def]
      · intro p hp
        simp only [List.mem_map] at hp
        obtain ⟨k, _, rfl⟩ := hp
        exact Or.inl rfl
    unfold isValidModel
    exact all_const_of_ne_nil _ _ _ hex hconst

end Ahbicht.Properties.C06Check

