import Ahbicht.Model.Heap
import Ahbicht.Generated.CopyMode
import Ahbicht.Lemmas.Heap
/-!
# C11 — parsing is a pure function of the string, whatever happened before
-/
namespace Ahbicht.Properties.C11
open Ahbicht

/-- what a history of calls would return if parsing were a pure function -/
def pureAnswers (pp : String → Option LTree) : List HOp → List (Option LTree)
  | [] => []
  | .parse s :: rest => pp s :: pureAnswers pp rest
  | .edit _ _ _ :: rest => pureAnswers pp rest

/-- **C11 with enough fuel.** The statement of `C11_pure`, for the copy `runOpsF` of `runOps` in which the two reads (the deep copy in
`handOut` and the observation in `runOps`) use fuel `fuel h` instead of `h.trees.length + 1`; it holds for every `fuel` with
`2 * h.trees.length ≤ fuel h + 1` (e.g. `2 * h.trees.length + 1`).  `runOpsF modelFuel = runOps` is `runOpsF_model`. -/
theorem C11_pure_of_fuel (fuel : Heap → Nat) (hf : ∀ h, 2 * h.trees.length ≤ fuel h + 1)
    (pp : String → Option LTree) (cap : Nat) (ops : List HOp) :
    runOpsF fuel pp .deep cap State.init ops = pureAnswers pp ops :=
  runOpsF_pure hf pp cap (pureAnswers pp) rfl (fun _ _ => rfl) (fun _ _ _ _ => rfl) ops State.init (Inv.init pp)

/-- the token type of the first child of a returned tree, if that child is a token; the data of the root otherwise
(`LTree` has no `DecidableEq`, so differences are exhibited through this observation) -/
def probe : Option LTree → Option String
  | some (.node _ (.consTok ty _ _)) => some ty
  | some (.node d _) => some d
  | none => none

/-- **C11.** With a copy discipline that shares nothing with the cache (`deep`), for every pure parser, every cache capacity and
every finite history of parse calls (hits, misses, evictions) interleaved with arbitrary in-place edits of previously returned trees
(replace / remove / append children, rebind the children list, rename the node, at any depth, inserting tokens, fresh trees or nodes
of other returned trees), every parse call returns exactly the pure parse of its argument. -/
theorem C11_pure (pp : String → Option LTree) (cap : Nat) (ops : List HOp) :
    runOps pp .deep cap State.init ops = pureAnswers pp ops := by
  rw [← runOpsF_model]
  exact C11_pure_of_fuel modelFuel (fun h => by simp only [modelFuel]; omega) pp cap ops

/-- the discipline observed in the code (alias analysis of returned trees against the cache entry, see vf/extract.py) is `deep` -/
theorem C11_code_copies_deeply : Generated.copyMode = "deep" := by decide

/-- with lark's `Tree.copy()` (a new `Tree` around the same children list) the property fails: three operations suffice -/
theorem C11_share_counterexample :
    let t : LTree := .node "and_composition" (.consTree (.node "condition" (.consTok "CONDITION_KEY" "1" .nil))
      (.consTree (.node "condition" (.consTok "CONDITION_KEY" "2" .nil)) .nil))
    let pp : String → Option LTree := fun s => if s = "[1] U [2]" then some t else none
    let ops : List HOp := [.parse "[1] U [2]", .edit 0 [] (.replace 0 (.tok "X" "x")), .parse "[1] U [2]"]
    runOps pp .shareChildren 1024 State.init ops ≠ pureAnswers pp ops := by
  intro t pp ops h
  have h2 := congrArg (List.map probe) h
  simp [ops, pp, t, runOps, parseOp, pureAnswers, State.init, Heap.empty, handOut, allocTree, allocForest, editOp, navigate,
    resolveChild, setList, readTree, readItems, probe] at h2

end Ahbicht.Properties.C11

