import Ahbicht.Model.Time
/-!
# C20 — the shipped date-time format constraints judge the instant, not its notation
-/
namespace Ahbicht.Properties.C20
open Ahbicht Generated

/-- **T1 ⇒ EU rule.** The transitions pytz uses from 1996 to 2037 are exactly the EU rule (84 rows), the zone is Europe/Berlin,
and the table ends there (so the last rule entry stays in force until the end of 2037). -/
theorem C20_pytz_is_eu_rule :
    berlinZone = "Europe/Berlin" ∧
    berlinTransitions.filter (fun e => decide (daysFromCivil 1996 1 1 * 86400 ≤ e.1)) = euTable 1996 2037 := by
  constructor
  · decide
  · decide +kernel

/-- before the first transition of 1996 the offset in force is +1 h (CET since the switch of October 1995) -/
theorem C20_offset_at_start : berlinOffset (daysFromCivil 1996 1 1 * 86400) = 3600 := by decide +kernel

/-- every offset in the table from 1996 on is a whole number of hours: +1 h or +2 h -/
theorem C20_offsets_whole_hours : ∀ e ∈ euTable 1996 2037, e.2 = 3600 ∨ e.2 = 7200 := by decide +kernel

/-- **C20 (the verdict is a function of the instant).** Two ways of writing the same instant get the same verdict for 932 … 935. -/
theorem C20_notation (w₁ w₂ : Written) (h : instant w₁ = instant w₂) :
    isStromtagLimit w₁ = isStromtagLimit w₂ ∧ isGastagLimit w₁ = isGastagLimit w₂ := by
  simp [isStromtagLimit, isGastagLimit, h]

/-- **C20 (Strom / Gas).** fulfilled exactly if the instant is 00:00:00 resp. 06:00:00 German local time -/
theorem C20_strom (w : Written) : isStromtagLimit w = true ↔ localTod (instant w) = 0 := by
  simp [isStromtagLimit]
theorem C20_gas (w : Written) : isGastagLimit w = true ↔ localTod (instant w) = 6 * 3600 := by
  simp [isGastagLimit]

/-- **C20 (931).** fulfilled exactly if written with a zero UTC offset — whatever the time of day -/
theorem C20_931 (w : Written) : hasNoUtcOffset w = true ↔ w.off = 0 := by
  simp [hasNoUtcOffset]

/-- changing the offset together with the written clock time does not change the instant -/
theorem C20_shift (w : Written) (δ : Int) :
    instant { w with ss := w.ss + δ, off := w.off + δ } = instant w := by
  simp only [instant]; omega

/-- **C20 (hour grid).** Whenever the offset in force is a whole number of hours (proved above for 1996 … 2037), a fulfilled
932 … 935 lies on a whole hour of UTC: the exhaustive sweep over all whole hours of 1996 … 2037 therefore meets every fulfilled instant. -/
theorem C20_hour_grid (t : Int) (h : berlinOffset t % 3600 = 0) (hv : localTod t = 0 ∨ localTod t = 21600) : t % 3600 = 0 := by
  unfold localTod at hv
  omega

/-! non-vacuity: 2022-03-27 (switch day) — midnight local is 23:00 UTC the day before, 06:00 local is 04:00 UTC (already CEST) -/
example : isStromtagLimit ⟨2022, 3, 26, 23, 0, 0, 0⟩ = true ∧ isGastagLimit ⟨2022, 3, 27, 4, 0, 0, 0⟩ = true ∧
    isGastagLimit ⟨2022, 3, 27, 5, 0, 0, 0⟩ = false ∧ isStromtagLimit ⟨2022, 6, 1, 0, 0, 0, 7200⟩ = true := by decide +kernel

end Ahbicht.Properties.C20
