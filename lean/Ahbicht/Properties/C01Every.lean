import Ahbicht.Properties.C01
/-!
# C01 (every input) — nothing parses "by accident"

Every token sequence the parser accepts is a writing, in the sense of the documented stratified grammar (`Written`), of a tree that
equals the parser's result up to the grouping inside runs of one operator.  Together with `C01_precedence` / `C01_unambiguous`:
the result of parsing is *the* tree the documented precedence rules prescribe for that input.
-/
namespace Ahbicht.Properties.C01Every
open Ahbicht Ahbicht.Properties.C01


/-! ## helper notions -/

/-- what a chain spells: the first item, then for every `(separator, item)` the separator's tokens and the item's tokens -/
inductive CT : Expr → List (Op × Expr) → List Tok → Prop
  | one {e w} : Written 4 e w → CT e [] w
  | cons {e w s x t ws} : Written 4 e w → CT x t ws → CT e ((s, x) :: t) (w ++ sepToks s ++ ws)

theorem CT.snoc {e t w} (h : CT e t w) (o : Op) {x wx} (hx : Written 4 x wx) :
    CT e (t ++ [(o, x)]) (w ++ sepToks o ++ wx) := by
  induction h with
  | one hw => exact CT.cons hw (CT.one hx)
  | @cons e w s y t ws hw _ ih =>
    have := CT.cons (s := s) hw ih
    simpa [List.append_assoc] using this

/-- a non-empty list of things, written one after the other with `sep` in between -/
inductive SepBy {α : Type} (sep : List Tok) (P : α → List Tok → Prop) : List α → List Tok → Prop
  | one {c w} : P c w → SepBy sep P [c] w
  | cons {c w cs ws} : P c w → SepBy sep P cs ws → SepBy sep P (c :: cs) (w ++ sep ++ ws)

theorem SepBy.map {α β : Type} {sep : List Tok} {P : α → List Tok → Prop} {Q : β → List Tok → Prop} (f : α → β)
    (hf : ∀ c w, P c w → Q (f c) w) {cs w} (h : SepBy sep P cs w) : SepBy sep Q (cs.map f) w := by
  induction h with
  | one hp => exact SepBy.one (hf _ _ hp)
  | cons hp _ ih => exact SepBy.cons (hf _ _ hp) ih

/-- `splitTail o` cuts the tokens of the chain exactly at the `sepToks o` positions -/
theorem splitTail_sepBy (o : Op) (os : List Op) {h t w} (hc : CT h t w) (hin : ∀ s ∈ t, s.1 ∈ o :: os) :
    SepBy (sepToks o) (fun (c : Chain) w => CT c.1 c.2 w ∧ ∀ s ∈ c.2, s.1 ∈ os) (splitTail o h t) w := by
  induction hc with
  | @one e w hw => exact SepBy.one (c := (e, [])) ⟨CT.one hw, by intro s hs; simp at hs⟩
  | @cons e w s x t ws hw hct ih =>
    have ih' := ih (fun s hs => hin s (List.mem_cons_of_mem _ hs))
    have hs : s ∈ o :: os := hin (s, x) (by simp)
    simp only [splitTail]
    split
    · rename_i heq
      subst heq
      exact SepBy.cons (c := (e, [])) ⟨CT.one hw, by intro s hs; simp at hs⟩ ih'
    · rename_i hne
      have hs' : s ∈ os := by
        rcases List.mem_cons.1 hs with h | h
        · exact absurd h hne
        · exact h
      generalize splitTail o x t = L at ih'
      cases ih' with
      | one hp =>
        obtain ⟨hp1, hp2⟩ := hp
        refine SepBy.one ⟨CT.cons hw hp1, ?_⟩
        intro s hs
        rcases List.mem_cons.1 hs with h | h
        · subst h; exact hs'
        · exact hp2 s h
      | @cons c w1 cs ws2 hp hrest =>
        obtain ⟨hp1, hp2⟩ := hp
        have : SepBy (sepToks o) (fun (c : Chain) w => CT c.1 c.2 w ∧ ∀ s ∈ c.2, s.1 ∈ os)
            ((e, (s, c.1) :: c.2) :: cs) ((w ++ sepToks s ++ w1) ++ sepToks o ++ ws2) := by
          refine SepBy.cons ⟨CT.cons hw hp1, ?_⟩ hrest
          intro s hs
          rcases List.mem_cons.1 hs with h | h
          · subst h; exact hs'
          · exact hp2 s h
        obtain ⟨c1, c2⟩ := c
        simpa [List.append_assoc] using this

theorem foldBin_written (o : Op) : ∀ (es : List Expr) (e : Expr) (w : List Tok),
    SepBy (sepToks o) (fun e w => Written o.prec e w) (e :: es) w → Written o.prec (foldBin o e es) w := by
  intro es
  induction es with
  | nil =>
    intro e w h
    cases h with
    | one hp => exact hp
    | cons _ hr => cases hr
  | cons x xs ih =>
    intro e w h
    cases h with
    | @cons _ w1 _ ws hp hr =>
      cases hr with
      | one hx => exact Written.bin o hp hx
      | @cons _ w2 _ ws2 hx hrest =>
        have hb := Written.bin o hp hx
        have := ih (.bin o e x) _ (SepBy.cons hb hrest)
        simp only [foldBin]
        simpa [List.append_assoc] using this

/-- precedence level at which the result of `asm os` is written -/
def lvl : List Op → Nat
  | [] => 4
  | o :: _ => o.prec

def okLevels : List Op → Prop
  | [] => True
  | o :: os => o.prec ≤ lvl os ∧ okLevels os

theorem asm_written : ∀ (os : List Op), okLevels os → ∀ {h t w}, CT h t w → (∀ s ∈ t, s.1 ∈ os) →
    Written (lvl os) (asm os (h, t)) w := by
  intro os
  induction os with
  | nil =>
    intro _ h t w hc hin
    cases hc with
    | one hw => exact hw
    | cons _ _ => exact absurd (hin _ (List.mem_cons_self ..)) (by simp)
  | cons o os ih =>
    intro hok h t w hc hin
    obtain ⟨hle, hok'⟩ := hok
    have h1 := splitTail_sepBy o os hc hin
    have h2 : SepBy (sepToks o) (fun e w => Written o.prec e w) ((splitTail o h t).map (asm os)) w :=
      SepBy.map (asm os) (fun c w hp => Written.weaken hle (ih hok' hp.1 hp.2)) h1
    simp only [asm, split, lvl]
    generalize (splitTail o h t).map (asm os) = L at h2
    cases L with
    | nil => cases h2
    | cons e es => exact foldBin_written o es e w h2

theorem build_written {c : Chain} {w} (hc : CT c.1 c.2 w) : Written 0 (build c) w := by
  have hok : okLevels levels := by
    simp [okLevels, levels, lvl, Op.prec]
  have := asm_written levels hok hc (fun s _ => by cases s.1 <;> simp [levels])
  simpa [build, lvl, levels, Op.prec] using this

/-! ## the machine invariant -/

def FrameToks : Frame → List Tok → Prop
  | .empty, w => w = []
  | .item c, w => CT c.1 c.2 w
  | .pend c o, w => ∃ w' o3, w = w' ++ [Tok.op o3] ∧ o3.toOp = o ∧ CT c.1 c.2 w'

inductive RestToks : List Frame → List Tok → Prop
  | nil : RestToks [] []
  | cons {g wg st ws} : FrameToks g wg → RestToks st ws → RestToks (g :: st) (ws ++ wg ++ [.lp])

def StackToks : List Frame → List Tok → Prop
  | [], _ => False
  | f :: st, w => ∃ pre wf, w = pre ++ wf ∧ RestToks st pre ∧ FrameToks f wf

theorem sepToks_toOp (o : Op3) : sepToks o.toOp = [.op o] := by cases o <;> rfl

theorem FrameToks.push {f wf} (hf : FrameToks f wf) {e we} (he : Written 4 e we) :
    FrameToks (f.push e) (wf ++ we) := by
  cases f with
  | empty =>
    simp only [FrameToks] at hf
    subst hf
    exact CT.one he
  | item c =>
    have := CT.snoc hf .then_ he
    simpa [FrameToks, Frame.push, Chain.snoc, sepToks] using this
  | pend c o =>
    obtain ⟨w', o3, rfl, rfl, hc⟩ := hf
    have := CT.snoc hc o3.toOp he
    simpa [FrameToks, Frame.push, Chain.snoc, sepToks_toOp, List.append_assoc] using this

theorem step_inv {fs fs' : List Frame} {t : Tok} {w : List Tok} (hs : StackToks fs w)
    (h : stepTok fs t = some fs') : StackToks fs' (w ++ [t]) := by
  cases fs with
  | nil => exact hs.elim
  | cons f st =>
    obtain ⟨pre, wf, rfl, hrest, hf⟩ := hs
    cases t with
    | atom a =>
      simp only [stepTok, Option.some.injEq] at h
      subst h
      exact ⟨pre, wf ++ [.atom a], by simp, hrest, hf.push (Written.atom a)⟩
    | op o =>
      cases f with
      | item c =>
        simp only [stepTok, Option.some.injEq] at h
        subst h
        exact ⟨pre, wf ++ [.op o], by simp, hrest, wf, o, rfl, rfl, hf⟩
      | empty => simp [stepTok] at h
      | pend c o' => simp [stepTok] at h
    | lp =>
      simp only [stepTok, Option.some.injEq] at h
      subst h
      exact ⟨pre ++ wf ++ [.lp], [], by simp, RestToks.cons hf hrest, rfl⟩
    | rp =>
      cases f with
      | item c =>
        cases st with
        | nil => simp [stepTok] at h
        | cons g st =>
          simp only [stepTok, Option.some.injEq] at h
          subst h
          cases hrest with
          | @cons _ wg _ ws hg hr =>
            have hb : Written 4 (build c) (.lp :: wf ++ [.rp]) := Written.paren (build_written hf)
            exact ⟨ws, wg ++ (.lp :: wf ++ [.rp]), by simp [List.append_assoc], hr, hg.push hb⟩
      | empty => simp [stepTok] at h
      | pend c o' => simp [stepTok] at h

theorem run_inv : ∀ (ts : List Tok) {fs fs' : List Frame} {w : List Tok}, StackToks fs w →
    runToks fs ts = some fs' → StackToks fs' (w ++ ts) := by
  intro ts
  induction ts with
  | nil =>
    intro fs fs' w hs h
    simp only [runToks, Option.some.injEq] at h
    subst h
    simpa using hs
  | cons t ts ih =>
    intro fs fs' w hs h
    simp only [runToks] at h
    cases hst : stepTok fs t with
    | none => simp [hst] at h
    | some fs1 =>
      simp only [hst, Option.bind_some] at h
      have := ih (step_inv hs hst) h
      simpa [List.append_assoc] using this

theorem parse_written {ts : List Tok} {e : Expr} (h : parseToks ts = some e) : Written 0 e ts := by
  unfold parseToks at h
  split at h
  · rename_i c hrun
    simp only [Option.some.injEq] at h
    subst h
    have h0 : StackToks [Frame.empty] [] := ⟨[], [], rfl, RestToks.nil, rfl⟩
    have := run_inv ts h0 hrun
    obtain ⟨pre, wf, heq, hrest, hf⟩ := this
    cases hrest
    simp only [List.nil_append] at heq
    subst heq
    exact build_written hf
  · cases h

/-- **C01 (every accepted input).** -/
theorem C01_every_input (ts : List Tok) (e : Expr) (h : parseToks ts = some e) :
    ∃ e', Written 0 e' ts ∧ e'.flat = e.flat := by
  exact ⟨e, parse_written h, rfl⟩

/-- the parse result is determined, up to same-operator grouping, by any documented reading of the input -/
theorem C01_result_is_documented_reading (ts : List Tok) (e e' : Expr) (p : Nat) (h : parseToks ts = some e) (hw : Written p e' ts) :
    e.flat = e'.flat := by
  obtain ⟨e'', h', hf⟩ := C01_precedence hw
  rw [h] at h'
  cases h'
  exact hf

end Ahbicht.Properties.C01Every

