import Ahbicht.Model.Ahb
import Ahbicht.Lemmas.Lex
/-!
# C09 (splitting) — an AHB expression written as parts is split into exactly these parts, in written order
-/
namespace Ahbicht.Properties.C09Split
open Ahbicht Generated

/-- a modal mark as written: `M`/`Muss`, `S`/`Soll`, `K`/`Kann`, every letter in any case the regex engine folds to it -/
inductive SpellMark : List Char → Prop
  | m (c : Char) : inRanges cc_mm_up_M c = true → SpellMark [c]
  | muss (c u s₁ s₂ : Char) : inRanges cc_mm_up_M c = true → inRanges cc_mm_lo_u u = true → inRanges cc_mm_lo_s s₁ = true →
      inRanges cc_mm_lo_s s₂ = true → SpellMark [c, u, s₁, s₂]
  | s (c : Char) : inRanges cc_mm_up_S c = true → SpellMark [c]
  | soll (c o l₁ l₂ : Char) : inRanges cc_mm_up_S c = true → inRanges cc_mm_lo_o o = true → inRanges cc_mm_lo_l l₁ = true →
      inRanges cc_mm_lo_l l₂ = true → SpellMark [c, o, l₁, l₂]
  | k (c : Char) : inRanges cc_mm_up_K c = true → SpellMark [c]
  | kann (c a n₁ n₂ : Char) : inRanges cc_mm_up_K c = true → inRanges cc_mm_lo_a a = true → inRanges cc_mm_lo_n n₁ = true →
      inRanges cc_mm_lo_n n₂ = true → SpellMark [c, a, n₁, n₂]

/-- a condition text as it stands between indicators: non-empty, made of characters of the `CONDITION_EXPRESSION` class, starting
with whitespace, `[` or `(` (every well-formed condition expression with arbitrary whitespace around it is of this kind) -/
structure CondText (c : List Char) : Prop where
  nonempty : c ≠ []
  chars : ∀ ch ∈ c, isAhbCondChar ch = true
  start : ∀ ch, c.head? = some ch → (isWs ch = true ∨ isLsqb ch = true ∨ isLpar ch = true)

/-- the written string of a list of (mark, condition text) parts followed by an optional bare mark -/
def written (parts : List (List Char × List Char)) (last : Option (List Char)) : List Char :=
  parts.flatMap (fun p => p.1 ++ p.2) ++ last.getD []

def expectedParts (parts : List (List Char × List Char)) (last : Option (List Char)) : List Part :=
  parts.map (fun p => (⟨.modal, p.1, some p.2⟩ : Part)) ++ (match last with | some l => [(⟨.modal, l, none⟩ : Part)] | none => [])


/-! ## helper facts -/

structure Facts : Prop where
  M_S : disj cc_mm_up_M cc_mm_up_S = true
  M_K : disj cc_mm_up_M cc_mm_up_K = true
  S_M : disj cc_mm_up_S cc_mm_up_M = true
  S_K : disj cc_mm_up_S cc_mm_up_K = true
  K_M : disj cc_mm_up_K cc_mm_up_M = true
  K_S : disj cc_mm_up_K cc_mm_up_S = true
  M_pre : disj cc_mm_up_M cc_prefixOp = true
  S_pre : disj cc_mm_up_S cc_prefixOp = true
  K_pre : disj cc_mm_up_K cc_prefixOp = true
  M_cond : disj cc_mm_up_M cc_ahbCondChar = true
  S_cond : disj cc_mm_up_S cc_ahbCondChar = true
  K_cond : disj cc_mm_up_K cc_ahbCondChar = true
  ws_u : disj cc_ws cc_mm_lo_u = true
  ws_o : disj cc_ws cc_mm_lo_o = true
  ws_a : disj cc_ws cc_mm_lo_a = true
  ws_U : disj cc_ws cc_foldU = true
  lsqb_u : disj cc_lsqb cc_mm_lo_u = true
  lsqb_o : disj cc_lsqb cc_mm_lo_o = true
  lsqb_a : disj cc_lsqb cc_mm_lo_a = true
  lsqb_U : disj cc_lsqb cc_foldU = true
  lpar_u : disj cc_lpar cc_mm_lo_u = true
  lpar_o : disj cc_lpar cc_mm_lo_o = true
  lpar_a : disj cc_lpar cc_mm_lo_a = true
  lpar_U : disj cc_lpar cc_foldU = true

theorem facts : Facts := by
  constructor <;> decide

/-- first letter of a modal mark -/
def MarkStart (ch : Char) : Prop :=
  inRanges cc_mm_up_M ch = true ∨ inRanges cc_mm_up_S ch = true ∨ inRanges cc_mm_up_K ch = true

theorem markStart_not_prefix {ch : Char} (h : MarkStart ch) : isPrefixOp ch = false := by
  rcases h with h | h | h
  · exact disj_sound facts.M_pre h
  · exact disj_sound facts.S_pre h
  · exact disj_sound facts.K_pre h

theorem markStart_not_cond {ch : Char} (h : MarkStart ch) : isAhbCondChar ch = false := by
  rcases h with h | h | h
  · exact disj_sound facts.M_cond h
  · exact disj_sound facts.S_cond h
  · exact disj_sound facts.K_cond h

theorem spellMark_start {m : List Char} (hm : SpellMark m) : ∃ ch tl, m = ch :: tl ∧ MarkStart ch := by
  cases hm with
  | m c hc => exact ⟨c, _, rfl, Or.inl hc⟩
  | muss c u s1 s2 hc _ _ _ => exact ⟨c, _, rfl, Or.inl hc⟩
  | s c hc => exact ⟨c, _, rfl, Or.inr (Or.inl hc)⟩
  | soll c u s1 s2 hc _ _ _ => exact ⟨c, _, rfl, Or.inr (Or.inl hc)⟩
  | k c hc => exact ⟨c, _, rfl, Or.inr (Or.inr hc)⟩
  | kann c u s1 s2 hc _ _ _ => exact ⟨c, _, rfl, Or.inr (Or.inr hc)⟩

theorem condStart_facts {ch : Char} (h : isWs ch = true ∨ isLsqb ch = true ∨ isLpar ch = true) :
    inRanges cc_mm_lo_u ch = false ∧ inRanges cc_mm_lo_o ch = false ∧ inRanges cc_mm_lo_a ch = false ∧
      isFoldU ch = false := by
  rcases h with h | h | h
  · exact ⟨disj_sound facts.ws_u h, disj_sound facts.ws_o h, disj_sound facts.ws_a h, disj_sound facts.ws_U h⟩
  · exact ⟨disj_sound facts.lsqb_u h, disj_sound facts.lsqb_o h, disj_sound facts.lsqb_a h, disj_sound facts.lsqb_U h⟩
  · exact ⟨disj_sound facts.lpar_u h, disj_sound facts.lpar_o h, disj_sound facts.lpar_a h, disj_sound facts.lpar_U h⟩

theorem matches3_false {a b c : List (Nat × Nat)} {rest : List Char}
    (h : ∀ ch, rest.head? = some ch → inRanges a ch = false) : matches3 a b c rest = false := by
  match rest, h with
  | [], _ => rfl
  | [_], _ => rfl
  | [_, _], _ => rfl
  | x :: y :: z :: t, h =>
    have := h x rfl
    simp [matches3, this]

theorem modalMark_spell {m : List Char} (hm : SpellMark m) (rest : List Char)
    (hr : ∀ ch, rest.head? = some ch →
      inRanges cc_mm_lo_u ch = false ∧ inRanges cc_mm_lo_o ch = false ∧ inRanges cc_mm_lo_a ch = false) :
    modalMark (m ++ rest) = some (m, rest) := by
  cases hm with
  | m c hc =>
    have h3 := matches3_false (a := cc_mm_lo_u) (b := cc_mm_lo_s) (c := cc_mm_lo_s) (rest := rest)
      (fun ch h => (hr ch h).1)
    simp [modalMark, hc, h3]
  | muss c u s1 s2 hc hu h1 h2 =>
    simp [modalMark, matches3, hc, hu, h1, h2]
  | s c hc =>
    have hM := disj_sound facts.S_M hc
    have h3 := matches3_false (a := cc_mm_lo_o) (b := cc_mm_lo_l) (c := cc_mm_lo_l) (rest := rest)
      (fun ch h => (hr ch h).2.1)
    simp [modalMark, hc, hM, h3]
  | soll c u s1 s2 hc hu h1 h2 =>
    have hM := disj_sound facts.S_M hc
    simp [modalMark, matches3, hc, hM, hu, h1, h2]
  | k c hc =>
    have hM := disj_sound facts.K_M hc
    have hS := disj_sound facts.K_S hc
    have h3 := matches3_false (a := cc_mm_lo_a) (b := cc_mm_lo_n) (c := cc_mm_lo_n) (rest := rest)
      (fun ch h => (hr ch h).2.2)
    simp [modalMark, hc, hM, hS, h3]
  | kann c u s1 s2 hc hu h1 h2 =>
    have hM := disj_sound facts.K_M hc
    have hS := disj_sound facts.K_S hc
    simp [modalMark, matches3, hc, hM, hS, hu, h1, h2]

theorem takeWhile_app (p : Char → Bool) (cond rest : List Char) (hc : ∀ ch ∈ cond, p ch = true)
    (hr : ∀ ch, rest.head? = some ch → p ch = false) :
    (cond ++ rest).takeWhile p = cond ∧ (cond ++ rest).dropWhile p = rest := by
  induction cond with
  | nil =>
    cases rest with
    | nil => simp
    | cons x t => have := hr x rfl; simp [this]
  | cons x t ih =>
    have hx := hc x (by simp)
    have := ih (fun ch h => hc ch (by simp [h]))
    simp [hx, this]

theorem condExpr_app (cond rest : List Char) (hne : cond ≠ []) (hc : ∀ ch ∈ cond, isAhbCondChar ch = true)
    (hs : ∀ ch, cond.head? = some ch → isFoldU ch = false)
    (hr : ∀ ch, rest.head? = some ch → isAhbCondChar ch = false) :
    condExpr (cond ++ rest) = some (cond, rest) := by
  obtain ⟨h1, h2⟩ := takeWhile_app isAhbCondChar cond rest hc hr
  cases cond with
  | nil => exact absurd rfl hne
  | cons x t =>
    have hx := hs x rfl
    unfold condExpr
    rw [h1, h2]
    simp only [List.cons_append]
    generalize t ++ rest = w
    cases w <;> simp [hx]

theorem condExpr_condText {cond : List Char} (hcond : CondText cond) (rest : List Char)
    (hr : ∀ ch, rest.head? = some ch → isAhbCondChar ch = false) :
    condExpr (cond ++ rest) = some (cond, rest) :=
  condExpr_app cond rest hcond.nonempty hcond.chars (fun ch h => (condStart_facts (hcond.start ch h)).2.2.2) hr

theorem written_cons (p : List Char × List Char) (ps : List (List Char × List Char)) (last : Option (List Char)) :
    written (p :: ps) last = p.1 ++ (p.2 ++ written ps last) := by
  simp [written, List.append_assoc]

/-- what follows a part: nothing, or something that starts with the first letter of a mark -/
theorem written_cases (parts : List (List Char × List Char)) (last : Option (List Char))
    (hparts : ∀ p ∈ parts, SpellMark p.1 ∧ CondText p.2) (hlast : ∀ l, last = some l → SpellMark l) :
    (written parts last = [] ∧ parts = [] ∧ last = none) ∨
    ((parts ≠ [] ∨ last.isSome = true) ∧ ∃ ch tl, written parts last = ch :: tl ∧ MarkStart ch) := by
  cases parts with
  | nil =>
    cases last with
    | none => left; simp [written]
    | some l =>
      right
      obtain ⟨ch, tl, rfl, hch⟩ := spellMark_start (hlast l rfl)
      exact ⟨Or.inr rfl, ch, tl, by simp [written], hch⟩
  | cons p ps =>
    right
    obtain ⟨ch, tl, hm, hch⟩ := spellMark_start (hparts p (by simp)).1
    refine ⟨Or.inl (by simp), ch, tl ++ (p.2 ++ written ps last), ?_, hch⟩
    rw [written_cons, hm]; rfl

theorem scanModal_written (parts : List (List Char × List Char)) (last : Option (List Char)) (fuel : Nat)
    (hfuel : parts.length + 1 ≤ fuel)
    (hne : parts ≠ [] ∨ last.isSome = true)
    (hparts : ∀ p ∈ parts, SpellMark p.1 ∧ CondText p.2) (hlast : ∀ l, last = some l → SpellMark l) :
    scanModal fuel (written parts last) = some (expectedParts parts last) := by
  induction parts generalizing fuel with
  | nil =>
    cases last with
    | none => simp at hne
    | some l =>
      cases fuel with
      | zero => omega
      | succ f =>
        have hm := modalMark_spell (hlast l rfl) [] (by simp)
        simp only [List.append_nil] at hm
        simp [written, expectedParts, scanModal, hm]
  | cons p ps ih =>
    cases fuel with
    | zero => omega
    | succ f =>
      obtain ⟨hm, hc⟩ := hparts p (by simp)
      have hps : ∀ q ∈ ps, SpellMark q.1 ∧ CondText q.2 := fun q hq => hparts q (by simp [hq])
      have hpne : p.2 ++ written ps last ≠ [] := by
        intro h
        exact hc.nonempty (List.append_eq_nil_iff.mp h).1
      have hmm : modalMark (p.1 ++ (p.2 ++ written ps last)) = some (p.1, p.2 ++ written ps last) := by
        apply modalMark_spell hm
        intro ch hch
        have hne2 := hc.nonempty
        cases hp2 : p.2 with
        | nil => exact absurd hp2 hne2
        | cons x t =>
          rw [hp2] at hch
          simp at hch
          subst hch
          have := condStart_facts (hc.start x (by rw [hp2]; rfl))
          exact ⟨this.1, this.2.1, this.2.2.1⟩
      rw [written_cons]
      unfold scanModal
      rw [hmm]
      simp only
      rcases written_cases ps last hps hlast with ⟨hw, hps0, hl0⟩ | ⟨hne', ch, tl, hw, hch⟩
      · have hce := condExpr_condText hc [] (by simp)
        subst hps0; subst hl0
        simp only [hw, List.append_nil] at hce ⊢
        have hpe : p.2.isEmpty = false := by
          simpa using hc.nonempty
        simp [hpe, hce, expectedParts]
      · have hce := condExpr_condText hc (ch :: tl) (by
          intro c h; simp at h; subst h; exact markStart_not_cond hch)
        have h1 : (p.2 ++ written ps last).isEmpty = false := by
          simpa using fun h => absurd h hc.nonempty
        have hih := ih f (by simp at hfuel; omega) hne' hps
        rw [h1]
        simp only [hw] at hce hih ⊢
        simp [hce, hih, expectedParts]

theorem expected_dropLast_all (parts : List (List Char × List Char)) (last : Option (List Char)) :
    ((expectedParts parts last).dropLast.all fun p => p.cond.isSome) = true := by
  cases last with
  | none =>
    simp only [expectedParts, List.append_nil, List.all_eq_true]
    intro q hq
    have := List.dropLast_subset _ hq
    simp at this
    obtain ⟨a, b, _, rfl⟩ := this
    rfl
  | some l =>
    simp only [expectedParts, List.all_eq_true]
    intro q hq
    rw [List.dropLast_append_of_ne_nil (by simp)] at hq
    simp at hq
    obtain ⟨a, b, _, rfl⟩ := hq
    rfl

theorem written_len_ge (parts : List (List Char × List Char)) (last : Option (List Char))
    (hparts : ∀ p ∈ parts, SpellMark p.1 ∧ CondText p.2) :
    parts.length ≤ (written parts last).length := by
  induction parts with
  | nil => simp
  | cons p ps ih =>
    have := ih (fun q hq => hparts q (by simp [hq]))
    obtain ⟨ch, tl, hm, _⟩ := spellMark_start (hparts p (by simp)).1
    rw [written_cons, hm]
    simp only [List.length_append, List.length_cons]
    omega

/-- **C09 (split, modal marks).** One or more modal-mark parts, optionally ending in a bare modal mark (or a bare mark alone), in any
spelling and letter case, with arbitrary condition texts, are split into exactly these parts in written order. -/
theorem C09_split_modal (parts : List (List Char × List Char)) (last : Option (List Char))
    (hne : parts ≠ [] ∨ last.isSome = true)
    (hparts : ∀ p ∈ parts, SpellMark p.1 ∧ CondText p.2) (hlast : ∀ l, last = some l → SpellMark l) :
    scanAhb (written parts last) = some (expectedParts parts last) := by
  have hsm := scanModal_written parts last ((written parts last).length + 1)
    (by have := written_len_ge parts last hparts; omega) hne hparts hlast
  rcases written_cases parts last hparts hlast with ⟨_, h1, h2⟩ | ⟨_, ch, tl, hw, hch⟩
  · subst h1; subst h2; simp at hne
  · have hp := markStart_not_prefix hch
    rw [hw] at hsm ⊢
    simp only [List.length_cons] at hsm
    have hall := expected_dropLast_all parts last
    simp only [scanAhb, hp, List.length_cons, hsm, hall]
    simp

/-- **C09 (split, prefix operator).** `X`/`O`/`U` in either case followed by a condition text, or alone. -/
theorem C09_split_prefix (c : Char) (hc : isPrefixOp c = true) (cond : List Char) (hcond : CondText cond) :
    scanAhb (c :: cond) = some [⟨.prefix_, [c], some cond⟩] ∧ scanAhb [c] = some [⟨.prefix_, [c], none⟩] := by
  have hce := condExpr_condText hcond [] (by simp)
  simp only [List.append_nil] at hce
  have hpe : cond.isEmpty = false := by
    simpa using hcond.nonempty
  constructor
  · simp [scanAhb, hc, hpe, hce]
  · simp [scanAhb, hc]

/-- the six documented spellings in both cases are spellings in the above sense -/
theorem C09_spellings :
    SpellMark "Muss".toList ∧ SpellMark "muss".toList ∧ SpellMark "MUSS".toList ∧ SpellMark "M".toList ∧ SpellMark "m".toList ∧
    SpellMark "Soll".toList ∧ SpellMark "sOLL".toList ∧ SpellMark "S".toList ∧ SpellMark "s".toList ∧
    SpellMark "Kann".toList ∧ SpellMark "kaNN".toList ∧ SpellMark "K".toList ∧ SpellMark "k".toList := by
  have e1 : "Muss".toList = ['M', 'u', 's', 's'] := by decide
  have e2 : "muss".toList = ['m', 'u', 's', 's'] := by decide
  have e3 : "MUSS".toList = ['M', 'U', 'S', 'S'] := by decide
  have e4 : "M".toList = ['M'] := by decide
  have e5 : "m".toList = ['m'] := by decide
  have e6 : "Soll".toList = ['S', 'o', 'l', 'l'] := by decide
  have e7 : "sOLL".toList = ['s', 'O', 'L', 'L'] := by decide
  have e8 : "S".toList = ['S'] := by decide
  have e9 : "s".toList = ['s'] := by decide
  have e10 : "Kann".toList = ['K', 'a', 'n', 'n'] := by decide
  have e11 : "kaNN".toList = ['k', 'a', 'N', 'N'] := by decide
  have e12 : "K".toList = ['K'] := by decide
  have e13 : "k".toList = ['k'] := by decide
  rw [e1, e2, e3, e4, e5, e6, e7, e8, e9, e10, e11, e12, e13]
  exact ⟨.muss _ _ _ _ (by decide) (by decide) (by decide) (by decide),
    .muss _ _ _ _ (by decide) (by decide) (by decide) (by decide),
    .muss _ _ _ _ (by decide) (by decide) (by decide) (by decide),
    .m _ (by decide), .m _ (by decide),
    .soll _ _ _ _ (by decide) (by decide) (by decide) (by decide),
    .soll _ _ _ _ (by decide) (by decide) (by decide) (by decide),
    .s _ (by decide), .s _ (by decide),
    .kann _ _ _ _ (by decide) (by decide) (by decide) (by decide),
    .kann _ _ _ _ (by decide) (by decide) (by decide) (by decide),
    .k _ (by decide), .k _ (by decide)⟩

end Ahbicht.Properties.C09Split

