import Ahbicht.Properties.C06
import Ahbicht.Properties.C07Str
import Ahbicht.Properties.C08
import Ahbicht.Properties.C09
import Ahbicht.Lemmas.Full
import Ahbicht.Properties.C02Lex
/-!
# C16 / C09 end to end — the evaluator of AHB expressions is total on the documented domain, and fails exactly on invalid parts

Composition of C06 (validity is structural), C07 (what is collected is a well-formed format-constraint expression over the format
keys of the source), C08 (format-constraint evaluation succeeds on such expressions) and C09 (parts, selection) into statements
about `evalPart`, `evalAhb` and the node evaluator `nodeRes` of the end-to-end validation model (Model/Full.lean):

on the documented domain (every part well-formed, every requirement / hint / format key known to the content evaluation result,
every indicator one of the documented spellings) the evaluation of an AHB expression raises the invalid-expression error iff some
part is structurally invalid — and otherwise returns a result.  Hence a node is reported "optional, invalid expression" (C16)
exactly for structurally invalid expressions and never aborts the run for another reason.
-/
namespace Ahbicht.Properties.C16Full
open Ahbicht

/-! ## the environment of requirement evaluation -/

theorem mkEnv_fc (rcEnv : List Char → Option CFV) (hintEnv : List Char → Option String) (k : List Char) (n : Node)
    (h : mkEnv rcEnv hintEnv k = some n) : (n = .fc k ∧ catOf k = some .fc) ∨ fcInit n = none := by
  unfold mkEnv at h
  cases hc : catOf k with
  | none => rw [hc] at h; cases h
  | some c =>
    rw [hc] at h
    cases c with
    | rc =>
      cases hr : rcEnv k with
      | none => simp [hr] at h
      | some st => simp [hr] at h; subst h; exact Or.inr rfl
    | hint =>
      cases hr : hintEnv k with
      | none => simp [hr] at h
      | some st => simp [hr] at h; subst h; exact Or.inr rfl
    | fc => simp at h; subst h; exact Or.inl ⟨rfl, rfl⟩

theorem mkEnv_key (rcEnv : List Char → Option CFV) (hintEnv : List Char → Option String) (k : List Char) (n : Node)
    (h : mkEnv rcEnv hintEnv k = some n) : ∀ f, fcInit n = some f → f = .key k := by
  intro f hf
  rcases mkEnv_fc rcEnv hintEnv k n h with ⟨rfl, _⟩ | h0
  · simp [fcInit] at hf; exact hf.symm
  · rw [h0] at hf; cases hf

/-! ## flattening preserves "format-constraint expression" and the keys -/

mutual
def nFc : NExpr → Bool
  | .leaf (.cond _) => true
  | .leaf _ => false
  | .node op as => op != .then_ && nFcs as
def nFcs : List NExpr → Bool
  | [] => true
  | a :: as => nFc a && nFcs as
end

mutual
def nKeys : NExpr → List (List Char)
  | .leaf (.cond k) => [k]
  | .leaf _ => []
  | .node _ as => nKeysL as
def nKeysL : List NExpr → List (List Char)
  | [] => []
  | a :: as => nKeys a ++ nKeysL as
end

theorem nFcs_append (xs ys : List NExpr) : nFcs (xs ++ ys) = (nFcs xs && nFcs ys) := by
  induction xs with
  | nil => simp [nFcs]
  | cons x xs ih => simp [nFcs, ih, Bool.and_assoc]

theorem nKeysL_append (xs ys : List NExpr) : nKeysL (xs ++ ys) = nKeysL xs ++ nKeysL ys := by
  induction xs with
  | nil => simp [nKeysL]
  | cons x xs ih => simp [nKeysL, ih]

theorem nFcs_argsFor (op : Op) (hop : op ≠ .then_) (n : NExpr) : nFcs (n.argsFor op) = nFc n := by
  cases n with
  | leaf a => simp [NExpr.argsFor, nFcs]
  | node op' as =>
    simp only [NExpr.argsFor]
    split
    · next h => subst h; simp [nFc, hop]
    · simp [nFcs]

theorem nKeysL_argsFor (op : Op) (n : NExpr) : nKeysL (n.argsFor op) = nKeys n := by
  cases n with
  | leaf a => simp [NExpr.argsFor, nKeysL]
  | node op' as =>
    simp only [NExpr.argsFor]
    split
    · simp [nKeys]
    · simp [nKeysL]

theorem fcExpr_flat (e : Expr) : C08.FcExpr e = nFc e.flat := by
  induction e with
  | leaf a => cases a <;> simp [C08.FcExpr, Expr.flat, nFc]
  | bin op l r ihl ihr =>
    cases op
    · simp [C08.FcExpr, Expr.flat, nFc, nFcs_append, nFcs_argsFor, ihl, ihr]
    · simp [C08.FcExpr, Expr.flat, nFc, nFcs_append, nFcs_argsFor, ihl, ihr]
    · simp [C08.FcExpr, Expr.flat, nFc, nFcs_append, nFcs_argsFor, ihl, ihr]
    · simp [C08.FcExpr, Expr.flat, nFc]

theorem condKeys_flat (e : Expr) : condKeys e = nKeys e.flat := by
  induction e with
  | leaf a => cases a <;> simp [condKeys, Expr.atoms, Atom.condKey?, Expr.flat, nKeys]
  | bin op l r ihl ihr =>
    rw [condKeys_bin, Expr.flat, nKeys, nKeysL_append, nKeysL_argsFor, nKeysL_argsFor, ihl, ihr]

theorem fcExpr_toExpr (f : FExpr) : C08.FcExpr (C07Str.toExpr f) = true := by
  induction f with
  | key k => rfl
  | paren x ih => simpa [C07Str.toExpr] using ih
  | bin o l r ihl ihr => cases o <;> simp [C07Str.toExpr, BOp.toOp, C08.FcExpr, ihl, ihr]

theorem condKeys_toExpr (f : FExpr) : condKeys (C07Str.toExpr f) = C07.fkeys f := by
  induction f with
  | key k => rfl
  | paren x ih => simpa [C07Str.toExpr, C07.fkeys] using ih
  | bin o l r ihl ihr => simp [C07Str.toExpr, C07.fkeys, condKeys_bin, ihl, ihr]

theorem keysOk_of_fkeys (f : FExpr) (h : ∀ k ∈ C07.fkeys f, k ≠ [] ∧ ∀ c ∈ k, isIntDigit c = true) : C07Str.KeysOk f := by
  induction f with
  | key k => exact h k (by simp [C07.fkeys])
  | paren x ih => exact ih h
  | bin o l r ihl ihr =>
    exact ⟨ihl (fun k hk => h k (by simp [C07.fkeys, hk])), ihr (fun k hk => h k (by simp [C07.fkeys, hk]))⟩


/-- the documented domain for one part -/
structure PartOk (rcEnv : List Char → Option CFV) (hintEnv : List Char → Option String) (fcEnv : FcEnv) (e : Expr) : Prop where
  wf : WF e = true
  assigns : Assigns rcEnv hintEnv e
  fcKnown : ∀ k ∈ condKeys e, catOf k = some .fc → (fcEnv k).isSome

/-- format-constraint keys are written as the parser delivers them: non-empty strings of ASCII digits -/
def FcDigits (e : Expr) : Prop :=
  ∀ k ∈ condKeys e, catOf k = some .fc → k ≠ [] ∧ ∀ c ∈ k, isIntDigit c = true

/-- the format-constraint stage of `evalPart` -/
def fcStage (fcEnv : FcEnv) (fce : Option String) : Except EvalErr Efc :=
  match fce with
  | none => pure ⟨true, none⟩
  | some s =>
    if s.isEmpty then pure ⟨true, none⟩
    else match parseCond s.toList with
      | none => throw .other
      | some t => evalFc fcEnv t

theorem evalPart_eq (rcEnv : List Char → Option CFV) (hintEnv : List Char → Option String) (fcEnv : FcEnv)
    (ind : String) (e : Expr) :
    evalPart rcEnv hintEnv fcEnv ind e =
      (rcEvaluation rcEnv hintEnv e).bind fun rc => (fcStage fcEnv rc.fce).bind fun fc => .ok ⟨ind, rc, fc⟩ := by
  unfold evalPart fcStage
  cases rcEvaluation rcEnv hintEnv e with
  | error err => rfl
  | ok rc =>
    simp only [bind, Except.bind, pure, Except.pure]
    cases rc.fce with
    | none => rfl
    | some s =>
      by_cases hs : s.isEmpty = true
      · simp only [hs, if_true]
      · simp only [hs]
        cases parseCond s.toList <;> rfl

/-- the collected expression of a valid part of the documented domain is evaluated successfully -/
theorem fcStage_ok {rcEnv : List Char → Option CFV} {hintEnv : List Char → Option String} {fcEnv : FcEnv} {e : Expr}
    (h : PartOk rcEnv hintEnv fcEnv e) (hd : FcDigits e) {n : Node} (hn : evalRc (mkEnv rcEnv hintEnv) e = .ok n) :
    ∃ fc, fcStage fcEnv (report n).fce = .ok fc := by
  rw [C07.C07_reported]
  cases hf : fcInit n with
  | none => exact ⟨_, rfl⟩
  | some f =>
    have hkeys := C07.C07_keys (mkEnv rcEnv hintEnv) (mkEnv_fc rcEnv hintEnv) e n hn f hf
    have hg : C07Str.Grouped f :=
      C07Str.C07_collected_grouped (mkEnv rcEnv hintEnv) (mkEnv_key rcEnv hintEnv) e n hn f hf
    have hk : C07Str.KeysOk f := keysOk_of_fkeys f (fun k hk => hd k (hkeys k hk).1 (hkeys k hk).2)
    obtain ⟨t, ht, hflat⟩ := C07Str.C07_render_parses f hg hk
    have hfc : C08.FcExpr t = true := by rw [fcExpr_flat, hflat, ← fcExpr_flat]; exact fcExpr_toExpr f
    have hkt : condKeys t = C07.fkeys f := by rw [condKeys_flat, hflat, ← condKeys_flat]; exact condKeys_toExpr f
    obtain ⟨r, hr, _⟩ := C08.eval_ok (env := fcEnv) hfc
      (fun k hk => by rw [hkt] at hk; exact h.fcKnown k (hkeys k hk).1 (hkeys k hk).2)
    simp only [Option.map_some, fcStage]
    split
    · exact ⟨_, rfl⟩
    · rw [ht]; exact ⟨r, hr⟩

/-- **one part**, with the hypothesis on the spelling of the keys that `PartOk` lacks -/
theorem evalPart_total {rcEnv : List Char → Option CFV} {hintEnv : List Char → Option String} {fcEnv : FcEnv}
    (ind : String) (e : Expr) (h : PartOk rcEnv hintEnv fcEnv e) (hd : FcDigits e) :
    (invalidAt e = true → evalPart rcEnv hintEnv fcEnv ind e = .error .invalidExpr) ∧
    (invalidAt e = false → ∃ r, evalPart rcEnv hintEnv fcEnv ind e = .ok r ∧ r.indicator = ind) := by
  constructor
  · intro hi
    rw [evalPart_eq, (C06.C06_evaluation h.wf h.assigns).2 hi]
    rfl
  · intro hv
    obtain ⟨n, hn⟩ := C06.C06_valid_never_raises h.wf h.assigns hv
    obtain ⟨fc, hfc⟩ := fcStage_ok h hd hn
    refine ⟨⟨ind, report n, fc⟩, ?_, rfl⟩
    rw [evalPart_eq, rcEvaluation_eq h.wf h.assigns, hn]
    simp only [Except.map, Except.bind, hfc]


/- NOTE. `evalPart_total` is FALSE as stated (machine-checked counterexample: `evalPart_needs_digit_keys` below): `PartOk` does not
say that format-constraint keys are written as digit strings, and `catOf` accepts e.g. `8:1` as the format constraint 901 while the
collected string `[8:1]` does not parse.  `evalPart_total` above is the statement with the missing hypothesis `FcDigits e`;
it is what `C16_full_invalid_iff` uses (the parser delivers digit keys only: `resolved_good`). -/

/-! ## the parts -/

/-- `mapM` in `Except` over elements each of which succeeds (with a result satisfying `R`) or fails with the invalid-expression error -/
theorem mapM_invalid_or_ok {α β : Type} (g : α → Except EvalErr β) (bad : α → Bool) (R : β → Prop) (l : List α)
    (h1 : ∀ a ∈ l, bad a = true → g a = .error .invalidExpr)
    (h2 : ∀ a ∈ l, bad a = false → ∃ b, g a = .ok b ∧ R b) :
    (l.any bad = true → l.mapM g = .error .invalidExpr) ∧
    (l.any bad = false → ∃ bs, l.mapM g = .ok bs ∧ bs.length = l.length ∧ ∀ b ∈ bs, R b) := by
  induction l with
  | nil => exact ⟨fun h => by simp at h, fun _ => ⟨[], rfl, rfl, fun _ hb => by cases hb⟩⟩
  | cons a l ih =>
    obtain ⟨ih1, ih2⟩ := ih (fun x hx => h1 x (by simp [hx])) (fun x hx => h2 x (by simp [hx]))
    cases ha : bad a with
    | true =>
      have hg := h1 a (by simp) ha
      refine ⟨fun _ => ?_, fun h => by simp [ha] at h⟩
      simp [List.mapM_cons, hg, bind, Except.bind]
    | false =>
      obtain ⟨b, hg, hb⟩ := h2 a (by simp) ha
      constructor
      · intro h
        have hl : l.any bad = true := by simpa [ha] using h
        simp [List.mapM_cons, hg, ih1 hl, bind, Except.bind]
      · intro h
        have hl : l.any bad = false := by simpa [ha] using h
        obtain ⟨bs, hbs, hlen, hR⟩ := ih2 hl
        refine ⟨b :: bs, by simp [List.mapM_cons, hg, hbs, bind, Except.bind, pure, Except.pure], by simp [hlen], ?_⟩
        intro x hx
        rcases List.mem_cons.1 hx with rfl | hx
        · exact hb
        · exact hR x hx

/-- every normalised indicator is one of the six requirement indicators -/
theorem indicatorTable_ind :
    Generated.indicatorTable.all (fun e => match e.2.2 with | some s => (Ind.ofString? s).isSome | none => true) = true := by
  decide

theorem normalise_ind {kind : IndKind} {w : List Char} {ind : String} (h : normalise kind w = some ind) :
    (Ind.ofString? ind).isSome = true := by
  unfold normalise at h
  simp only at h
  split at h
  · next e he =>
    have hm := List.mem_of_find?_eq_some he
    have := List.all_eq_true.1 indicatorTable_ind e hm
    rw [h] at this
    exact this
  · cases h

theorem selectResult_some {rs : List AhbResult} (h : rs ≠ []) : ∃ r, selectResult rs = some r := by
  unfold selectResult
  split
  · exact ⟨_, rfl⟩
  · cases hl : rs.getLast? with
    | some r => exact ⟨r, rfl⟩
    | none => exact absurd (List.getLast?_eq_none_iff.1 hl) h

/-- the documented domain for a parsed and resolved AHB expression -/
structure PartsOk (rcEnv : List Char → Option CFV) (hintEnv : List Char → Option String) (fcEnv : FcEnv)
    (parts : List (Part × Option Expr)) : Prop where
  nonempty : parts ≠ []
  indicators : ∀ pe ∈ parts, (normalise pe.1.kind pe.1.ind).isSome
  parts : ∀ pe ∈ parts, ∀ e, pe.2 = some e → PartOk rcEnv hintEnv fcEnv e

def somePartInvalid (parts : List (Part × Option Expr)) : Bool :=
  parts.any fun pe => match pe.2 with | some e => invalidAt e | none => false

/-- what `evalAhb` does with one part -/
def partEval (rcEnv : List Char → Option CFV) (hintEnv : List Char → Option String) (fcEnv : FcEnv)
    (pe : Part × Option Expr) : Except EvalErr AhbResult :=
  match normalise pe.1.kind pe.1.ind with
  | none => throw .other
  | some ind =>
    match pe.2 with
    | none => pure (bareResult ind)
    | some e => evalPart rcEnv hintEnv fcEnv ind e

theorem evalAhb_eq (rcEnv : List Char → Option CFV) (hintEnv : List Char → Option String) (fcEnv : FcEnv)
    (parts : List (Part × Option Expr)) :
    evalAhb rcEnv hintEnv fcEnv parts =
      (parts.mapM (partEval rcEnv hintEnv fcEnv)).bind fun rs =>
        match selectResult rs with
        | some r => .ok r
        | none => .error .other := rfl

/-- **whole AHB expression**, with the hypothesis on the spelling of the keys; the indicator of the result is a requirement indicator -/
theorem evalAhb_total {rcEnv : List Char → Option CFV} {hintEnv : List Char → Option String} {fcEnv : FcEnv}
    (parts : List (Part × Option Expr)) (h : PartsOk rcEnv hintEnv fcEnv parts)
    (hd : ∀ pe ∈ parts, ∀ e, pe.2 = some e → FcDigits e) :
    (somePartInvalid parts = true → evalAhb rcEnv hintEnv fcEnv parts = .error .invalidExpr) ∧
    (somePartInvalid parts = false →
      ∃ r, evalAhb rcEnv hintEnv fcEnv parts = .ok r ∧ (Ind.ofString? r.indicator).isSome = true) := by
  obtain ⟨m1, m2⟩ := mapM_invalid_or_ok
    (partEval rcEnv hintEnv fcEnv)
    (fun pe => match pe.2 with | some e => invalidAt e | none => false)
    (fun r => (Ind.ofString? r.indicator).isSome = true) parts
    (by
      intro pe hpe hbad
      obtain ⟨p, oe⟩ := pe
      cases oe with
      | none => simp at hbad
      | some e =>
        have hi := h.indicators _ hpe
        cases hn : normalise p.kind p.ind with
        | none => simp [hn] at hi
        | some ind =>
          simp only [partEval, hn] at hbad ⊢
          exact (evalPart_total ind e (h.parts _ hpe e rfl) (hd _ hpe e rfl)).1 hbad)
    (by
      intro pe hpe hgood
      obtain ⟨p, oe⟩ := pe
      have hi := h.indicators _ hpe
      cases hn : normalise p.kind p.ind with
      | none => simp [hn] at hi
      | some ind =>
        simp only [partEval, hn] at hgood ⊢
        cases oe with
        | none => exact ⟨bareResult ind, rfl, normalise_ind hn⟩
        | some e =>
          obtain ⟨r, hr, hri⟩ := (evalPart_total ind e (h.parts _ hpe e rfl) (hd _ hpe e rfl)).2 hgood
          exact ⟨r, hr, by rw [hri]; exact normalise_ind hn⟩)
  constructor
  · intro hbad
    rw [evalAhb_eq, m1 hbad]
    rfl
  · intro hgood
    obtain ⟨rs, hrs, hlen, hR⟩ := m2 hgood
    have hne : rs ≠ [] := by
      intro h0; rw [h0] at hlen
      exact h.nonempty (List.length_eq_zero_iff.1 hlen.symm)
    obtain ⟨r, hr⟩ := selectResult_some hne
    obtain ⟨r₀, hr₀, hind, _⟩ := C09.C09_select_mem hr
    refine ⟨r, ?_, by rw [hind]; exact hR r₀ hr₀⟩
    rw [evalAhb_eq, hrs]
    simp only [Except.bind, hr]


/- NOTE. `evalAhb_total` is FALSE as stated for the same reason (`evalAhb_needs_digit_keys` below); `evalAhb_total` above is the
statement with the missing hypothesis. -/

/-! ## what the scanner and the parser deliver: condition keys are non-empty strings of ASCII digits -/

/-- a condition key as the scanner delivers it -/
def GoodAtom : Atom → Prop
  | .cond k => k ≠ [] ∧ ∀ c ∈ k, isIntDigit c = true
  | _ => True

def GoodExpr (e : Expr) : Prop := ∀ a ∈ e.atoms, GoodAtom a

theorem goodExpr_bin {o : Op} {l r : Expr} (hl : GoodExpr l) (hr : GoodExpr r) : GoodExpr (.bin o l r) := by
  intro a ha
  simp only [Expr.atoms, List.mem_append] at ha
  rcases ha with ha | ha
  · exact hl a ha
  · exact hr a ha

theorem goodExpr_leaf {a : Atom} (h : GoodAtom a) : GoodExpr (.leaf a) := by
  intro b hb
  simp only [Expr.atoms, List.mem_singleton] at hb
  subst hb; exact h

theorem goodExpr_fcDigits {e : Expr} (h : GoodExpr e) : FcDigits e :=
  fun k hk _ => h (.cond k) (mem_condKeys.1 hk)

theorem spelt_good {ts : List Tok} {cs : List Char} (h : Spelt ts cs) : ∀ a, Tok.atom a ∈ ts → GoodAtom a := by
  induction h with
  | nil w hw => intro a ha; cases ha
  | cons w s rest t ts hw ht _ ih =>
    intro a ha
    rcases List.mem_cons.1 ha with rfl | ha
    · cases ht with
      | atom o c a body ho hc hb =>
        cases hb with
        | cond ds w1 w2 hne hds _ _ => exact ⟨hne, hds⟩
        | pkg => trivial
        | pkgRep => trivial
        | time => trivial
    · exact ih a ha

def ChainGood (c : Chain) : Prop := GoodExpr c.1 ∧ ∀ p ∈ c.2, GoodExpr p.2

theorem splitTail_good (o : Op) : ∀ (t : List (Op × Expr)) (h : Expr), GoodExpr h → (∀ p ∈ t, GoodExpr p.2) →
    ∀ c ∈ splitTail o h t, ChainGood c := by
  intro t
  induction t with
  | nil =>
    intro h hh _ c hc
    simp only [splitTail, List.mem_singleton] at hc
    subst hc
    exact ⟨hh, fun _ hp => by cases hp⟩
  | cons sx rest ih =>
    obtain ⟨s, x⟩ := sx
    intro h hh ht c hc
    have hx : GoodExpr x := ht (s, x) (by simp)
    have hrest : ∀ p ∈ rest, GoodExpr p.2 := fun p hp => ht p (by simp [hp])
    have ihx := ih x hx hrest
    simp only [splitTail] at hc
    split at hc
    · rcases List.mem_cons.1 hc with rfl | hc
      · exact ⟨hh, fun _ hp => by cases hp⟩
      · exact ihx c hc
    · split at hc
      · simp only [List.mem_singleton] at hc
        subst hc
        refine ⟨hh, fun p hp => ?_⟩
        simp only [List.mem_singleton] at hp
        subst hp; exact hx
      · next h' t' more heq =>
        have hh' : ChainGood (h', t') := ihx _ (by rw [heq]; simp)
        rcases List.mem_cons.1 hc with rfl | hc
        · refine ⟨hh, fun p hp => ?_⟩
          rcases List.mem_cons.1 hp with rfl | hp
          · exact hh'.1
          · exact hh'.2 p hp
        · exact ihx c (by rw [heq]; simp [hc])

theorem foldBin_good (o : Op) : ∀ (xs : List Expr) (acc : Expr), GoodExpr acc → (∀ x ∈ xs, GoodExpr x) →
    GoodExpr (foldBin o acc xs) := by
  intro xs
  induction xs with
  | nil => intro acc ha _; exact ha
  | cons x xs ih =>
    intro acc ha hx
    exact ih _ (goodExpr_bin ha (hx x (by simp))) (fun y hy => hx y (by simp [hy]))

theorem asm_good : ∀ (os : List Op) (c : Chain), ChainGood c → GoodExpr (asm os c) := by
  intro os
  induction os with
  | nil => intro c hc; exact hc.1
  | cons o os ih =>
    intro c hc
    have hall : ∀ e ∈ (split o c).map (asm os), GoodExpr e := by
      intro e he
      obtain ⟨c', hc', rfl⟩ := List.mem_map.1 he
      exact ih c' (splitTail_good o c.2 c.1 hc.1 hc.2 c' hc')
    simp only [asm]
    split
    · exact hc.1
    · next e es heq =>
      rw [heq] at hall
      exact foldBin_good o es e (hall e (by simp)) (fun x hx => hall x (by simp [hx]))

theorem build_good {c : Chain} (h : ChainGood c) : GoodExpr (build c) := asm_good _ _ h

def FrameGood : Frame → Prop
  | .empty => True
  | .item c => ChainGood c
  | .pend c _ => ChainGood c

theorem snoc_good {c : Chain} {o : Op} {e : Expr} (hc : ChainGood c) (he : GoodExpr e) : ChainGood (c.snoc o e) := by
  refine ⟨hc.1, fun p hp => ?_⟩
  simp only [Chain.snoc, List.mem_append, List.mem_singleton] at hp
  rcases hp with hp | rfl
  · exact hc.2 p hp
  · exact he

theorem push_good {f : Frame} {e : Expr} (hf : FrameGood f) (he : GoodExpr e) : FrameGood (f.push e) := by
  cases f with
  | empty => exact ⟨he, fun _ hp => by cases hp⟩
  | item c => exact snoc_good hf he
  | pend c o => exact snoc_good hf he

theorem stepTok_good {fs fs' : List Frame} {t : Tok} (hfs : ∀ f ∈ fs, FrameGood f) (ht : ∀ a, t = .atom a → GoodAtom a)
    (h : stepTok fs t = some fs') : ∀ f ∈ fs', FrameGood f := by
  cases t with
  | atom a =>
    cases fs with
    | nil => simp [stepTok] at h
    | cons f st =>
      simp only [stepTok, Option.some.injEq] at h
      subst h
      intro g hg
      rcases List.mem_cons.1 hg with rfl | hg
      · exact push_good (hfs _ (by simp)) (goodExpr_leaf (ht a rfl))
      · exact hfs g (by simp [hg])
  | op o =>
    cases fs with
    | nil => simp [stepTok] at h
    | cons f st =>
      cases f with
      | empty => simp [stepTok] at h
      | pend c o' => simp [stepTok] at h
      | item c =>
        simp only [stepTok, Option.some.injEq] at h
        subst h
        intro g hg
        rcases List.mem_cons.1 hg with rfl | hg
        · exact hfs (.item c) (by simp)
        · exact hfs g (by simp [hg])
  | lp =>
    cases fs with
    | nil => simp [stepTok] at h
    | cons f st =>
      simp only [stepTok, Option.some.injEq] at h
      subst h
      intro g hg
      rcases List.mem_cons.1 hg with rfl | hg
      · trivial
      · exact hfs g hg
  | rp =>
    cases fs with
    | nil => simp [stepTok] at h
    | cons f st =>
      cases f with
      | empty => simp [stepTok] at h
      | pend c o' => simp [stepTok] at h
      | item c =>
        cases st with
        | nil => simp [stepTok] at h
        | cons g st =>
          simp only [stepTok, Option.some.injEq] at h
          subst h
          intro g' hg'
          rcases List.mem_cons.1 hg' with rfl | hg'
          · exact push_good (hfs g (by simp)) (build_good (hfs (.item c) (by simp)))
          · exact hfs g' (by simp [hg'])

theorem runToks_good : ∀ (ts : List Tok) (fs fs' : List Frame), (∀ f ∈ fs, FrameGood f) →
    (∀ a, Tok.atom a ∈ ts → GoodAtom a) → runToks fs ts = some fs' → ∀ f ∈ fs', FrameGood f := by
  intro ts
  induction ts with
  | nil => intro fs fs' hfs _ h; simp only [runToks, Option.some.injEq] at h; subst h; exact hfs
  | cons t ts ih =>
    intro fs fs' hfs hts h
    simp only [runToks] at h
    cases hs : stepTok fs t with
    | none => rw [hs] at h; cases h
    | some fs1 =>
      rw [hs] at h
      exact ih fs1 fs' (stepTok_good hfs (fun a ha => hts a (by simp [ha])) hs)
        (fun a ha => hts a (by simp [ha])) h

theorem parseToks_good {ts : List Tok} {e : Expr} (hts : ∀ a, Tok.atom a ∈ ts → GoodAtom a)
    (h : parseToks ts = some e) : GoodExpr e := by
  unfold parseToks at h
  cases hr : runToks [.empty] ts with
  | none => rw [hr] at h; cases h
  | some fs =>
    have hg := runToks_good ts [.empty] fs (fun f hf => by simp at hf; subst hf; trivial) hts hr
    rw [hr] at h
    split at h
    · next c heq =>
      cases heq
      cases h
      exact build_good (hg (.item c) (by simp))
    · cases h

/-- every condition key of a parsed condition expression is a non-empty string of ASCII digits -/
theorem parseCond_good {cs : List Char} {e : Expr} (h : parseCond cs = some e) : GoodExpr e := by
  unfold parseCond at h
  cases hl : lex cs with
  | none => rw [hl] at h; cases h
  | some ts =>
    rw [hl] at h
    exact parseToks_good (spelt_good (C02Lex.C02_lex_complete cs ts hl)) h

theorem bind_good {σ : Atom → Expr} (hσ : ∀ a, GoodAtom a → GoodExpr (σ a)) : ∀ e : Expr, GoodExpr e → GoodExpr (e.bind σ) := by
  intro e
  induction e with
  | leaf a => intro h; exact hσ a (h a (by simp [Expr.atoms]))
  | bin o l r ihl ihr =>
    intro h
    exact goodExpr_bin (ihl (fun a ha => h a (by simp [Expr.atoms, ha]))) (ihr (fun a ha => h a (by simp [Expr.atoms, ha])))

theorem pkgSubst_good (P : List Char → Option (List Char)) (a : Atom) (ha : GoodAtom a) : GoodExpr (pkgSubst P a) := by
  cases a with
  | cond k => exact goodExpr_leaf ha
  | time k => exact goodExpr_leaf ha
  | pkg k r =>
    simp only [pkgSubst]
    split
    · next body hb =>
      cases hP : P k with
      | none => rw [hP] at hb; cases hb
      | some b => rw [hP] at hb; exact parseCond_good hb
    · exact goodExpr_leaf ha

theorem ub3Tree_good : GoodExpr ub3Tree := by
  intro a ha
  simp only [ub3Tree, Expr.atoms, List.mem_append, List.mem_singleton] at ha
  rcases ha with (rfl | rfl) | (rfl | rfl) <;> exact ⟨by simp, by decide⟩

theorem timeSubst_good (a : Atom) (ha : GoodAtom a) : GoodExpr (timeSubst a) := by
  unfold timeSubst
  split
  · exact goodExpr_leaf ⟨by simp, by decide⟩
  · exact goodExpr_leaf ⟨by simp, by decide⟩
  · exact ub3Tree_good
  · exact goodExpr_leaf ha

/-- the parts of a scanned, parsed and resolved AHB expression carry digit keys only -/
theorem resolved_good {P : List Char → Option (List Char)} {text : List Char} {parts parts' : List (Part × Option Expr)}
    (hp : resolveParse text = .ahb parts) (hr : resolveParts P parts = .ok parts') :
    ∀ pe ∈ parts', ∀ e, pe.2 = some e → GoodExpr e := by
  have h1 : ∀ pe ∈ parts, ∀ e, pe.2 = some e → GoodExpr e := by
    unfold resolveParse at hp
    split at hp
    · next ps _ =>
      simp only at hp
      split at hp
      · cases hp
        intro pe hpe e he
        obtain ⟨p, _, rfl⟩ := List.mem_map.1 hpe
        simp only at he
        cases hc : p.cond with
        | none => rw [hc] at he; cases he
        | some ce => rw [hc] at he; exact parseCond_good he
      · split at hp <;> cases hp
    · split at hp <;> cases hp
  unfold resolveParts at hr
  simp only at hr
  split at hr
  · cases hr
  · split at hr
    · cases hr
    · split at hr
      · cases hr
      · cases hr
        intro pe hpe e he
        obtain ⟨pe0, hpe0, rfl⟩ := List.mem_map.1 hpe
        simp only [Option.map_eq_some_iff] at he
        obtain ⟨e0, he0, rfl⟩ := he
        exact bind_good timeSubst_good _ (bind_good (pkgSubst_good P) _ (h1 pe0 hpe0 e0 he0))


/-- **C16 end to end.** A node whose expression scans, parses and resolves to parts of the documented domain is reported as an invalid
expression iff one of its parts is structurally invalid; otherwise its evaluation yields a result (it never aborts the run). -/
theorem C16_full_invalid_iff (cer : Cer) (text : List Char) (parts parts' : List (Part × Option Expr))
    (hp : resolveParse text = .ahb parts) (hr : resolveParts cer.pkg parts = .ok parts')
    (h : PartsOk cer.rc cer.hints cer.fc parts') :
    (somePartInvalid parts' = true → nodeRes cer text = .ok (.invalid "")) ∧
    (somePartInvalid parts' = false → ∃ r, nodeRes cer text = .ok (.ok r)) := by
  have hd : ∀ pe ∈ parts', ∀ e, pe.2 = some e → FcDigits e :=
    fun pe hpe e he => goodExpr_fcDigits (resolved_good hp hr pe hpe e he)
  obtain ⟨t1, t2⟩ := evalAhb_total parts' h hd
  constructor
  · intro hbad
    simp only [nodeRes, hp, hr, t1 hbad]
  · intro hgood
    obtain ⟨r, hr', hind⟩ := t2 hgood
    cases hi : Ind.ofString? r.indicator with
    | none => rw [hi] at hind; cases hind
    | some ind =>
      refine ⟨⟨ind, r.rc.fulfilled, r.rc.hints, r.fc.ok, r.fc.msg⟩, ?_⟩
      simp only [nodeRes, hp, hr, hr', evalResOf, hi]

/-! ## why `evalPart_total` / `evalAhb_total` need the spelling hypothesis -/

/-- `[8:1]`: the key `8:1` is categorised as the format constraint 901 (`':'` counts as the "digit" 10), the part is in the
documented domain as `PartOk` states it and is structurally valid — but the collected expression `[8:1]` is not a condition expression -/
theorem evalPart_needs_digit_keys :
    PartOk (fun _ => none) (fun _ => none) (fun _ => some ⟨true, none⟩) (.leaf (.cond ['8', ':', '1'])) ∧
    invalidAt (.leaf (.cond ['8', ':', '1'])) = false ∧
    evalPart (fun _ => none) (fun _ => none) (fun _ => some ⟨true, none⟩) "MUSS" (.leaf (.cond ['8', ':', '1'])) = .error .other := by
  have key : ∀ x : Except EvalErr AhbResult,
      (match x with | .error e => e == EvalErr.other | .ok _ => false) = true → x = .error .other := by
    intro x hx
    cases x with
    | ok _ => cases hx
    | error e => cases e <;> first | rfl | cases hx
  refine ⟨⟨by decide, ⟨?_, ?_⟩, fun _ _ _ => rfl⟩, rfl, key _ (by decide)⟩
  · intro k hk hc
    simp only [condKeys_leaf_cond, List.mem_singleton] at hk
    subst hk
    exact absurd hc (by decide)
  · intro k hk hc
    simp only [condKeys_leaf_cond, List.mem_singleton] at hk
    subst hk
    exact absurd hc (by decide)

/-- the same key as the only part `M[8:1]` of an AHB expression -/
theorem evalAhb_needs_digit_keys :
    PartsOk (fun _ => none) (fun _ => none) (fun _ => some ⟨true, none⟩)
      [(⟨.modal, ['M'], some ['[', '8', ':', '1', ']']⟩, some (.leaf (.cond ['8', ':', '1'])))] ∧
    somePartInvalid [(⟨.modal, ['M'], some ['[', '8', ':', '1', ']']⟩, some (.leaf (.cond ['8', ':', '1'])))] = false ∧
    evalAhb (fun _ => none) (fun _ => none) (fun _ => some ⟨true, none⟩)
      [(⟨.modal, ['M'], some ['[', '8', ':', '1', ']']⟩, some (.leaf (.cond ['8', ':', '1'])))] = .error .other := by
  have key : ∀ x : Except EvalErr AhbResult,
      (match x with | .error e => e == EvalErr.other | .ok _ => false) = true → x = .error .other := by
    intro x hx
    cases x with
    | ok _ => cases hx
    | error e => cases e <;> first | rfl | cases hx
  refine ⟨⟨by simp, ?_, ?_⟩, rfl, key _ (by decide)⟩
  · intro pe hpe
    simp only [List.mem_singleton] at hpe
    subst hpe
    decide
  · intro pe hpe e he
    simp only [List.mem_singleton] at hpe
    subst hpe
    cases he
    exact evalPart_needs_digit_keys.1

end Ahbicht.Properties.C16Full
