import Ahbicht.Model.Iso
import Ahbicht.Properties.C20
import Ahbicht.Properties.C20Iso
/-!
# C20 for every instant × every offset × every writing

`writeInstant t off` is the datetime that denotes UTC second `t` under UTC offset `off`.  For every second of 1996 … 2037 and every
offset strictly inside ±24 h it is a valid datetime denoting `t`; so — with `C20_iso_roundtrip` — every string that writes `t` in the
extended ISO-8601 family, with whatever offset, separator and offset style, gets the verdict of the instant for 932 … 935 and the verdict
"offset is zero" for 931.  This is the statement of C20 with its own quantifiers (instants × offsets × notations).
-/
namespace Ahbicht.Properties.C20
open Ahbicht Generated

/-- first second of 1996 and first second of 2038 (UTC) -/
def rangeStart : Int := daysFromCivil 1996 1 1 * 86400
def rangeEnd : Int := daysFromCivil 2038 1 1 * 86400

/-- day numbers that a second of 1996 … 2037 can fall on when written with an offset inside ±24 h: 1995-12-31 … 2038-01-01 -/
def dayLo : Int := daysFromCivil 1995 12 31
def dayCount : Nat := 15343

/-! ## the calendar on the range, checked day by day

The kernel evaluates `Int` arithmetic slowly (every operation is unfolded through its instances), so the 15343 days are checked on a
mirror of the two calendar functions in raw `Nat` arithmetic (`natOkRaw`, which the kernel evaluates with its built-in natural-number
operations); `civil_of_nat` and `days_of_nat` show that the mirror computes what `civilFromDays` / `daysFromCivil` compute. -/

/-- `f` on the `2^k` numbers from `lo` on (binary splitting keeps the recursion shallow) -/
def chk (f : Nat → Bool) : Nat → Nat → Bool
  | 0, lo => f lo
  | k+1, lo => chk f k lo && chk f k (lo + 2^k)

theorem chk_sound (f : Nat → Bool) : ∀ k lo, chk f k lo = true → ∀ i, lo ≤ i → i < lo + 2^k → f i = true := by
  intro k
  induction k with
  | zero =>
    intro lo h i h1 h2
    have : i = lo := by omega
    subst this
    exact h
  | succ k ih =>
    intro lo h i h1 h2
    simp only [chk, Bool.and_eq_true] at h
    have hp : 2 ^ (k + 1) = 2 ^ k + 2 ^ k := by rw [Nat.pow_succ]; omega
    by_cases hi : i < lo + 2 ^ k
    · exact ih lo h.1 i h1 hi
    · exact ih (lo + 2 ^ k) h.2 i (by omega) (by omega)

def leapRaw (y : Nat) : Bool :=
  Nat.beq (Nat.mod y 4) 0 && (!(Nat.beq (Nat.mod y 100) 0) || Nat.beq (Nat.mod y 400) 0)

def dimRaw (y m : Nat) : Nat :=
  bif Nat.beq m 2 then (bif leapRaw y then 29 else 28)
  else bif (Nat.beq m 4 || Nat.beq m 6 || Nat.beq m 9 || Nat.beq m 11) then 30 else 31

theorem nat_div_raw (a b : Nat) : Nat.div a b = a / b := rfl
theorem nat_mod_raw (a b : Nat) : Nat.mod a b = a % b := rfl
theorem nat_beq_raw (a b : Nat) : Nat.beq a b = (a == b) := by
  rw [Bool.eq_iff_iff]; simp only [Nat.beq_eq, beq_iff_eq]

theorem dimRaw_eq (y m : Nat) : dimRaw y m = daysInMonth y m := by
  simp [dimRaw, leapRaw, daysInMonth, isLeapYear, nat_beq_raw, nat_mod_raw, cond_eq_ite]

/-- `let` as a function, so that the stages of `natOkRaw` can be taken apart one by one (`bindNat_elim`) -/
def bindNat (v : Nat) (k : Nat → Bool) : Bool := k v

theorem bindNat_elim (v : Nat) (k : Nat → Bool) (h : bindNat v k = true) : ∃ x, v = x ∧ k x = true := ⟨v, rfl, h⟩

/-- one day of the range: Hinnant's two algorithms in raw `Nat` arithmetic, with the checks that no subtraction truncates -/
def natOkRaw (i : Nat) : Bool :=
  bindNat (Nat.add i 728963) fun n =>
  bindNat (Nat.div n 146097) fun era =>
  bindNat (Nat.mod n 146097) fun doe =>
  bindNat (Nat.add doe (Nat.div doe 36524)) fun a =>
  bindNat (Nat.add (Nat.div doe 1460) (Nat.div doe 146096)) fun b =>
  bindNat (Nat.div (Nat.sub a b) 365) fun yoe =>
  bindNat (Nat.add (Nat.mul 365 yoe) (Nat.div yoe 4)) fun t1 =>
  bindNat (Nat.sub t1 (Nat.div yoe 100)) fun t =>
  bindNat (Nat.sub doe t) fun doy =>
  bindNat (Nat.div (Nat.add (Nat.mul 5 doy) 2) 153) fun mp =>
  bindNat (Nat.div (Nat.add (Nat.mul 153 mp) 2) 5) fun u =>
  bindNat (Nat.add (Nat.sub doy u) 1) fun d =>
  bindNat (bif Nat.ble mp 9 then Nat.add mp 3 else Nat.sub mp 9) fun m =>
  bindNat (Nat.add yoe (Nat.mul era 400)) fun y0 =>
  bindNat (bif Nat.ble m 2 then Nat.add y0 1 else y0) fun y =>
  bindNat (Nat.div y0 400) fun era' =>
  bindNat (Nat.mod y0 400) fun yoe' =>
  bindNat (Nat.mod (Nat.add m 9) 12) fun mp' =>
  bindNat (Nat.sub (Nat.add (Nat.div (Nat.add (Nat.mul 153 mp') 2) 5) d) 1) fun doy' =>
  bindNat (Nat.add (Nat.sub (Nat.add (Nat.mul yoe' 365) (Nat.div yoe' 4)) (Nat.div yoe' 100)) doy') fun doe' =>
  Nat.ble b a && Nat.ble (Nat.div yoe 100) t1 && Nat.ble t doe && Nat.ble u doy
  && Nat.beq (Nat.add (Nat.mul era' 146097) doe') n && Nat.ble 1995 y && Nat.ble y 2038 && Nat.ble m 12 && Nat.ble d (dimRaw y m)

/-- outside the range nothing is asked -/
def rangeOk (i : Nat) : Bool := Nat.ble 15343 i || natOkRaw i

theorem natOk_range : chk rangeOk 14 0 = true := by
  decide +kernel

theorem civil_of_nat (i n era doe a b yoe t1 t doy mp u d m y0 y : Nat)
    (hn : i + 728963 = n) (hera : n / 146097 = era) (hdoe : n % 146097 = doe)
    (ha : doe + doe / 36524 = a) (hb : doe / 1460 + doe / 146096 = b) (hba : b ≤ a)
    (hyoe : (a - b) / 365 = yoe) (ht1 : 365 * yoe + yoe / 4 = t1) (hc2 : yoe / 100 ≤ t1) (ht : t1 - yoe / 100 = t)
    (htd : t ≤ doe) (hdoy : doe - t = doy) (hmp : (5 * doy + 2) / 153 = mp) (hu : (153 * mp + 2) / 5 = u)
    (hud : u ≤ doy) (hd : doy - u + 1 = d)
    (hm : (mp ≤ 9 ∧ mp + 3 = m) ∨ (10 ≤ mp ∧ mp - 9 = m)) (hy0 : yoe + era * 400 = y0)
    (hy : (m ≤ 2 ∧ y0 + 1 = y) ∨ (3 ≤ m ∧ y0 = y)) :
    civilFromDays (9495 + (i : Int)) = ((y : Int), (m : Int), (d : Int)) := by
  unfold civilFromDays
  have e1 : (9495 + (i : Int) + 719468) = (n : Int) := by omega
  simp only [e1]
  have e2 : (if (n : Int) ≥ 0 then (n : Int) else (n : Int) - 146096) / 146097 = (era : Int) := by
    rw [if_pos (by omega)]; omega
  simp only [e2]
  have e3 : (n : Int) - (era : Int) * 146097 = (doe : Int) := by omega
  simp only [e3]
  have e4 : ((doe : Int) - (doe : Int) / 1460 + (doe : Int) / 36524 - (doe : Int) / 146096) / 365 = (yoe : Int) := by omega
  simp only [e4]
  have e5 : (doe : Int) - (365 * (yoe : Int) + (yoe : Int) / 4 - (yoe : Int) / 100) = (doy : Int) := by omega
  simp only [e5]
  have e6 : (5 * (doy : Int) + 2) / 153 = (mp : Int) := by omega
  simp only [e6]
  have e7 : (doy : Int) - (153 * (mp : Int) + 2) / 5 + 1 = (d : Int) := by omega
  simp only [e7]
  have e8 : (if (mp : Int) < 10 then (mp : Int) + 3 else (mp : Int) - 9) = (m : Int) := by
    split <;> omega
  simp only [e8]
  have e9 : (if (m : Int) ≤ 2 then (yoe : Int) + (era : Int) * 400 + 1 else (yoe : Int) + (era : Int) * 400) = (y : Int) := by
    split <;> omega
  simp only [e9]

theorem days_of_nat (m d y0 y era' yoe' mp' doy' doe' : Nat) (hm1 : 1 ≤ m) (hm12 : m ≤ 12) (hd : 1 ≤ d)
    (hy : (m ≤ 2 ∧ y0 + 1 = y) ∨ (3 ≤ m ∧ y0 = y)) (hera : y0 / 400 = era') (hyoe : y0 % 400 = yoe')
    (hmp : (m + 9) % 12 = mp') (hdoy : (153 * mp' + 2) / 5 + d - 1 = doy')
    (hdoe : yoe' * 365 + yoe' / 4 - yoe' / 100 + doy' = doe') :
    daysFromCivil (y : Int) (m : Int) (d : Int) = ((era' * 146097 + doe' : Nat) : Int) - 719468 := by
  unfold daysFromCivil
  have e1 : (if (m : Int) ≤ 2 then (y : Int) - 1 else (y : Int)) = (y0 : Int) := by split <;> omega
  simp only [e1]
  have e2 : (if (y0 : Int) ≥ 0 then (y0 : Int) else (y0 : Int) - 399) / 400 = (era' : Int) := by
    rw [if_pos (by omega)]; omega
  simp only [e2]
  have e3 : (y0 : Int) - (era' : Int) * 400 = (yoe' : Int) := by omega
  simp only [e3]
  have e4 : ((m : Int) + 9) % 12 = (mp' : Int) := by omega
  simp only [e4]
  omega

theorem dayLo_eq : dayLo = 9495 := by decide +kernel

theorem ite_cases (p : Prop) [Decidable p] (x y r : Nat) (h : (if p then x else y) = r) : (p ∧ x = r) ∨ (¬ p ∧ y = r) := by
  split at h
  · exact Or.inl ⟨‹_›, h⟩
  · exact Or.inr ⟨‹_›, h⟩

/-- **calendar (range).** On every day of the range `civilFromDays` yields a valid date (month 1 … 12, day within the month, year
1995 … 2038) and `daysFromCivil` maps it back. -/
theorem C20_civil_range : ∀ i, i < dayCount →
    let c := civilFromDays (dayLo + Int.ofNat i)
    daysFromCivil c.1 c.2.1 c.2.2 = dayLo + Int.ofNat i ∧ 1995 ≤ c.1 ∧ c.1 ≤ 2038 ∧ 1 ≤ c.2.1 ∧ c.2.1 ≤ 12 ∧ 1 ≤ c.2.2 ∧
      c.2.2.toNat ≤ daysInMonth c.1.toNat c.2.1.toNat := by
  intro i hi
  unfold dayCount at hi
  have h := chk_sound rangeOk 14 0 natOk_range i (Nat.zero_le _) (by omega)
  simp only [rangeOk, Bool.or_eq_true, Nat.ble_eq] at h
  have h := h.resolve_left (by omega)
  unfold natOkRaw at h
  obtain ⟨n, hn, h⟩ := bindNat_elim _ _ h
  obtain ⟨era, hera, h⟩ := bindNat_elim _ _ h
  obtain ⟨doe, hdoe, h⟩ := bindNat_elim _ _ h
  obtain ⟨a, ha, h⟩ := bindNat_elim _ _ h
  obtain ⟨b, hb, h⟩ := bindNat_elim _ _ h
  obtain ⟨yoe, hyoe, h⟩ := bindNat_elim _ _ h
  obtain ⟨t1, ht1, h⟩ := bindNat_elim _ _ h
  obtain ⟨t, ht, h⟩ := bindNat_elim _ _ h
  obtain ⟨doy, hdoy, h⟩ := bindNat_elim _ _ h
  obtain ⟨mp, hmp, h⟩ := bindNat_elim _ _ h
  obtain ⟨u, hu, h⟩ := bindNat_elim _ _ h
  obtain ⟨d, hd, h⟩ := bindNat_elim _ _ h
  obtain ⟨m, hm, h⟩ := bindNat_elim _ _ h
  obtain ⟨y0, hy0, h⟩ := bindNat_elim _ _ h
  obtain ⟨y, hy, h⟩ := bindNat_elim _ _ h
  obtain ⟨era', hera', h⟩ := bindNat_elim _ _ h
  obtain ⟨yoe', hyoe', h⟩ := bindNat_elim _ _ h
  obtain ⟨mp', hmp', h⟩ := bindNat_elim _ _ h
  obtain ⟨doy', hdoy', h⟩ := bindNat_elim _ _ h
  obtain ⟨doe', hdoe', h⟩ := bindNat_elim _ _ h
  simp only [Nat.add_eq, Nat.sub_eq, Nat.mul_eq, nat_div_raw, nat_mod_raw] at hn hera hdoe ha hb hyoe ht1 ht hdoy hmp hu hd
  simp only [Nat.add_eq, Nat.sub_eq, Nat.mul_eq, nat_div_raw, nat_mod_raw] at hy0 hera' hyoe' hmp' hdoy' hdoe'
  simp only [Nat.add_eq, Nat.sub_eq, cond_eq_ite, Nat.ble_eq] at hm hy
  simp only [dimRaw_eq, Nat.add_eq, Nat.mul_eq, nat_div_raw, Nat.ble_eq, Nat.beq_eq, Bool.and_eq_true] at h
  obtain ⟨⟨⟨⟨⟨⟨⟨⟨hba, hc2⟩, htd⟩, hud⟩, hback⟩, hylo⟩, hyhi⟩, hm12⟩, hdim⟩ := h
  have hm' : (mp ≤ 9 ∧ mp + 3 = m) ∨ (10 ≤ mp ∧ mp - 9 = m) := by
    rcases ite_cases _ _ _ _ hm with h | h
    · exact Or.inl h
    · exact Or.inr ⟨by omega, h.2⟩
  have hy' : (m ≤ 2 ∧ y0 + 1 = y) ∨ (3 ≤ m ∧ y0 = y) := by
    rcases ite_cases _ _ _ _ hy with h | h
    · exact Or.inl h
    · exact Or.inr ⟨by omega, h.2⟩
  have hciv := civil_of_nat i n era doe a b yoe t1 t doy mp u d m y0 y hn hera hdoe ha hb hba hyoe ht1 hc2 ht htd hdoy hmp hu hud hd
    hm' hy0 hy'
  have hdays := days_of_nat m d y0 y era' yoe' mp' doy' doe' (by omega) hm12 (by omega) hy' hera' hyoe' hmp' hdoy' hdoe'
  simp only [dayLo_eq, Int.ofNat_eq_natCast, hciv, hdays, Int.toNat_natCast]
  refine ⟨by omega, by omega, by omega, by omega, by omega, by omega, hdim⟩

theorem C20_range_days : dayLo + Int.ofNat dayCount = daysFromCivil 2038 1 1 + 1 ∧ dayLo + 1 = daysFromCivil 1996 1 1 := by
  decide +kernel

theorem rangeStart_eq : rangeStart = 820454400 := by decide +kernel
theorem rangeEnd_eq : rangeEnd = 2145916800 := by decide +kernel

/-- the local day of a second of the range, written with an offset inside ±24 h, is one of the days of `C20_civil_range` -/
theorem day_in_range (t off : Int) (ht : rangeStart ≤ t ∧ t < rangeEnd) (ho : -86400 < off ∧ off < 86400) :
    ∃ i : Nat, i < dayCount ∧ (t + off) / 86400 = dayLo + Int.ofNat i := by
  rw [rangeStart_eq, rangeEnd_eq] at ht
  refine ⟨((t + off) / 86400 - 9495).toNat, ?_, ?_⟩
  · unfold dayCount; omega
  · rw [dayLo_eq, Int.ofNat_eq_natCast]; omega

/-- **C20 (the writing denotes the instant).** -/
theorem C20_write_instant (t off : Int) (ht : rangeStart ≤ t ∧ t < rangeEnd) (ho : -86400 < off ∧ off < 86400) :
    instant (writeInstant t off) = t := by
  obtain ⟨i, hi, hz⟩ := day_in_range t off ht ho
  have hc := C20_civil_range i hi
  simp only [← hz] at hc
  simp only [instant, writeInstant, hc.1]
  omega

theorem valid_mk (y m d hh mm ss off : Int) (hy1 : 1995 ≤ y) (hy2 : y ≤ 2038) (hm1 : 1 ≤ m) (hm2 : m ≤ 12) (hd1 : 1 ≤ d)
    (hd2 : d.toNat ≤ daysInMonth y.toNat m.toNat) (hh1 : 0 ≤ hh) (hh2 : hh < 24) (hmm1 : 0 ≤ mm) (hmm2 : mm < 60)
    (hss1 : 0 ≤ ss) (hss2 : ss < 60) (ho : -86400 < off ∧ off < 86400) :
    Written.valid ⟨y, m, d, hh, mm, ss, off⟩ = true := by
  simp only [Written.valid, fieldsValid, Bool.and_eq_true, decide_eq_true_eq]
  omega

/-- **C20 (the writing is a valid datetime).** -/
theorem C20_write_valid (t off : Int) (ht : rangeStart ≤ t ∧ t < rangeEnd) (ho : -86400 < off ∧ off < 86400) :
    (writeInstant t off).valid = true := by
  obtain ⟨i, hi, hz⟩ := day_in_range t off ht ho
  have hc := C20_civil_range i hi
  simp only [← hz] at hc
  obtain ⟨_, hy1, hy2, hm1, hm2, hd1, hd2⟩ := hc
  simp only [writeInstant]
  exact valid_mk _ _ _ _ _ _ _ hy1 hy2 hm1 hm2 hd1 hd2 (by omega) (by omega) (by omega) (by omega) (by omega) (by omega) ho

/-- **C20 (instants × offsets × notations).** Every second of 1996 … 2037, written with any UTC offset inside ±24 h, any separator and any
fitting offset style: 932/933 fulfilled exactly if it is 00:00:00 German local time, 934/935 exactly if it is 06:00:00 German local time
(German local time by the table that `C20Eu` proves to be the EU rule at every second), 931 exactly if the offset is zero; a message
accompanies exactly the unfulfilled verdicts. -/
theorem C20_every_instant_every_offset (t off : Int) (ht : rangeStart ≤ t ∧ t < rangeEnd) (ho : -86400 < off ∧ off < 86400)
    (sep : Char) (st : OffStyle) (hst : styleFits st off = true) (hsep : sep ≠ 'Z') :
    judgeStrom (renderIso sep st (writeInstant t off)) = some ⟨decide (localTod t = 0), !decide (localTod t = 0)⟩ ∧
    judgeGas (renderIso sep st (writeInstant t off)) = some ⟨decide (localTod t = 21600), !decide (localTod t = 21600)⟩ ∧
    judge931 (renderIso sep st (writeInstant t off)) = some ⟨decide (off = 0), !decide (off = 0)⟩ := by
  have hv := C20_write_valid t off ht ho
  have hi := C20_write_instant t off ht ho
  have hp := C20_iso_roundtrip (writeInstant t off) sep st hv hst hsep
  refine ⟨?_, ?_, ?_⟩
  · simp only [judgeStrom, judgeWith, hp, isStromtagLimit, int_beq_decide, hi]
  · simp only [judgeGas, judgeWith, hp, isGastagLimit, int_beq_decide, hi]
  · exact C20_iso_931 _ _ hp

/-- **C20 (the verdict never depends on the offset used).** -/
theorem C20_offset_irrelevant (t off₁ off₂ : Int) (ht : rangeStart ≤ t ∧ t < rangeEnd)
    (ho₁ : -86400 < off₁ ∧ off₁ < 86400) (ho₂ : -86400 < off₂ ∧ off₂ < 86400)
    (sep₁ sep₂ : Char) (st₁ st₂ : OffStyle) (hst₁ : styleFits st₁ off₁ = true) (hst₂ : styleFits st₂ off₂ = true)
    (hsep₁ : sep₁ ≠ 'Z') (hsep₂ : sep₂ ≠ 'Z') :
    judgeStrom (renderIso sep₁ st₁ (writeInstant t off₁)) = judgeStrom (renderIso sep₂ st₂ (writeInstant t off₂)) ∧
    judgeGas (renderIso sep₁ st₁ (writeInstant t off₁)) = judgeGas (renderIso sep₂ st₂ (writeInstant t off₂)) := by
  have h₁ := C20_every_instant_every_offset t off₁ ht ho₁ sep₁ st₁ hst₁ hsep₁
  have h₂ := C20_every_instant_every_offset t off₂ ht ho₂ sep₂ st₂ hst₂ hsep₂
  exact ⟨h₁.1.trans h₂.1.symm, h₁.2.1.trans h₂.2.1.symm⟩

/-! non-vacuity: 2037-12-31T23:00:00Z is in range and is German midnight; written with +01:00 it reads 2038-01-01T00:00:00+01:00 -/
example : rangeStart ≤ (daysFromCivil 2037 12 31 * 86400 + 23 * 3600) ∧ (daysFromCivil 2037 12 31 * 86400 + 23 * 3600) < rangeEnd := by
  decide +kernel
example : String.ofList (renderIso 'T' .short (writeInstant (daysFromCivil 2037 12 31 * 86400 + 23 * 3600) 3600)) = "2038-01-01T00:00:00+01:00" := by
  decide +kernel
example : judgeStrom (renderIso 'T' .short (writeInstant (daysFromCivil 2037 12 31 * 86400 + 23 * 3600) 3600)) = some ⟨true, false⟩ := by
  decide +kernel

end Ahbicht.Properties.C20
