import Ahbicht.Generated.CharClasses
/-!
# Character classes, as lookups in the tables extracted from the regex engine (T1)
-/
namespace Ahbicht
open Generated

def inRanges (rs : List (Nat × Nat)) (c : Char) : Bool :=
  rs.any fun r => r.1 ≤ c.toNat && c.toNat ≤ r.2

def isWs (c : Char) : Bool := inRanges cc_ws c
def isIntDigit (c : Char) : Bool := inRanges cc_intDigit c
def isUniDigit (c : Char) : Bool := inRanges cc_uniDigit c
def isRepFirstMax (c : Char) : Bool := inRanges cc_repFirstMax c
def isOpOr (c : Char) : Bool := inRanges cc_opOr c
def isOpXor (c : Char) : Bool := inRanges cc_opXor c
def isOpAnd (c : Char) : Bool := inRanges cc_opAnd c
def isLpar (c : Char) : Bool := inRanges cc_lpar c
def isRpar (c : Char) : Bool := inRanges cc_rpar c
def isLsqb (c : Char) : Bool := inRanges cc_lsqb c
def isRsqb (c : Char) : Bool := inRanges cc_rsqb c
def isAhbCondChar (c : Char) : Bool := inRanges cc_ahbCondChar c
def isWordChar (c : Char) : Bool := inRanges cc_wordChar c
def isPrefixOp (c : Char) : Bool := inRanges cc_prefixOp c
def isFoldU (c : Char) : Bool := inRanges cc_foldU c

end Ahbicht
