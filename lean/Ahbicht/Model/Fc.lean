import Ahbicht.Model.Rc
/-!
# M-FC — `FormatConstraintTransformer` with `FormatErrorMessageExpressionBuilder`, and `format_constraint_evaluation`
-/
namespace Ahbicht

/-- `EvaluatedFormatConstraint` -/
structure Efc where
  ok : Bool
  msg : Option String
  deriving DecidableEq, Repr, Inhabited

/-- how Python's f-string prints an optional message -/
def pyStr : Option String → String | some s => s | none => "None"

def fcAnd (l r : Efc) : Efc :=
  ⟨l.ok && r.ok,
   if r.ok then l.msg
   else match l.msg with
     | none => r.msg
     | some m => some ("'" ++ m ++ "' und '" ++ pyStr r.msg ++ "'")⟩

def fcOr (l r : Efc) : Efc :=
  ⟨l.ok || r.ok,
   if !l.ok && !r.ok then some ("'" ++ pyStr l.msg ++ "' oder '" ++ pyStr r.msg ++ "'") else none⟩

def fcXor (l r : Efc) : Efc :=
  ⟨l.ok != r.ok,
   if !l.ok && !r.ok then some ("Entweder '" ++ pyStr l.msg ++ "' oder '" ++ pyStr r.msg ++ "'")
   else if l.ok && r.ok then some "Zwei exklusive Formatdefinitionen dürfen nicht gleichzeitig erfüllt sein"
   else none⟩

abbrev FcEnv := List Char → Option Efc

def evalFc (env : FcEnv) : Expr → Except EvalErr Efc
  | .leaf (.cond k) => match env k with | some n => .ok n | none => .error .valueError
  | .leaf (.pkg k _) => match env k with | some n => .ok n | none => .error .valueError
  | .leaf (.time _) => .error .other
  | .bin o l r => do
    let a ← evalFc env l
    let b ← evalFc env r
    match o with
    | .and_ => pure (fcAnd a b)
    | .or_ => pure (fcOr a b)
    | .xor_ => pure (fcXor a b)
    | .then_ => throw .other     -- no `then_also_composition` callback: the subtree stays a `Tree`

/-- the plain Boolean reading of a format-constraint expression -/
def boolSem (env : List Char → Bool) : Expr → Bool
  | .leaf (.cond k) => env k
  | .leaf (.pkg k _) => env k
  | .leaf (.time k) => env k
  | .bin .and_ l r => boolSem env l && boolSem env r
  | .bin .or_ l r => boolSem env l || boolSem env r
  | .bin .xor_ l r => boolSem env l != boolSem env r
  | .bin .then_ l r => boolSem env l && boolSem env r

/-- `FormatConstraintEvaluationResult` for an already parsed expression (`none` = absent or empty string) -/
def fcEvaluation (env : FcEnv) (e : Option Expr) : Except EvalErr Efc :=
  match e with
  | none => .ok ⟨true, none⟩
  | some t => evalFc env t

/-- the default message of the base `FcEvaluator` -/
def withDefaultMessage (key : List Char) (r : Efc) : Efc :=
  if !r.ok && r.msg.isNone then ⟨false, some ("Condition [" ++ String.ofList key ++ "] has to be fulfilled.")⟩ else r

end Ahbicht
