import Ahbicht.Model.Json
/-!
# M-HEAP — parse cache, copies and in-place edits as a heap of `Tree` cells and list cells

Python's object graph: a `Tree` object holds a rule name and a reference to a `list` object; the list holds tokens and
references to further `Tree` objects.  The bug class C11 is about is two `Tree` objects sharing one list object.
Every cell carries a region tag: `cache` (allocated when a parse result is memoised) or `user` (allocated for what is handed out,
or by the caller).
-/
namespace Ahbicht

inductive Region | cache | user
  deriving DecidableEq, Repr, Inhabited

/-- an element of a children list -/
inductive Child
  | tok (ty val : String)
  | tree (ref : Nat)
  deriving DecidableEq, Repr, Inhabited

structure TreeCell where
  region : Region
  data : String
  list : Nat
  deriving DecidableEq, Repr, Inhabited

structure ListCell where
  region : Region
  items : List Child
  deriving DecidableEq, Repr, Inhabited

structure Heap where
  trees : List TreeCell
  lists : List ListCell
  deriving Repr, Inhabited

def Heap.empty : Heap := ⟨[], []⟩

inductive CopyMode | deep | shareChildren
  deriving DecidableEq, Repr, Inhabited

/-! ## allocation of a value tree -/
mutual
/-- allocate the cells of a value tree in region `reg`; returns the heap and the reference of the root `Tree` cell -/
def allocTree (reg : Region) : LTree → Heap → Heap × Nat
  | .node d cs, h =>
    let (h₁, items) := allocForest reg cs h
    let l := h₁.lists.length
    let h₂ : Heap := { h₁ with lists := h₁.lists ++ [⟨reg, items⟩] }
    let r := h₂.trees.length
    ({ h₂ with trees := h₂.trees ++ [⟨reg, d, l⟩] }, r)
def allocForest (reg : Region) : LForest → Heap → Heap × List Child
  | .nil, h => (h, [])
  | .consTok ty v rest, h =>
    let (h₁, items) := allocForest reg rest h
    (h₁, .tok ty v :: items)
  | .consTree t rest, h =>
    let (h₁, r) := allocTree reg t h
    let (h₂, items) := allocForest reg rest h₁
    (h₂, .tree r :: items)
end

/-! ## reading a value back (what a caller, or a deep copy, sees); `fuel` bounds the depth (two units per nesting level) -/
mutual
def readTree (h : Heap) : Nat → Nat → Option LTree
  | 0, _ => none
  | fuel + 1, r =>
    match h.trees[r]? with
    | none => none
    | some c =>
      match h.lists[c.list]? with
      | none => none
      | some l => (readItems h fuel l.items).map (LTree.node c.data)
def readItems (h : Heap) : Nat → List Child → Option LForest
  | _, [] => some .nil
  | fuel, .tok ty v :: rest => (readItems h fuel rest).map (LForest.consTok ty v)
  | fuel, .tree r :: rest =>
    match fuel with
    | 0 => none
    | f + 1 =>
      match readTree h f r, readItems h (f + 1) rest with
      | some t, some rs => some (.consTree t rs)
      | _, _ => none
end

/-- the cached object is handed out through `tree_copy` -/
def handOut (mode : CopyMode) (h : Heap) (r : Nat) : Option (Heap × Nat) :=
  match mode with
  | .deep =>
    match readTree h (2 * h.trees.length + 1) r with
    | some v => some (allocTree .user v h)
    | none => none
  | .shareChildren =>
    match h.trees[r]? with
    | some c => some ({ h with trees := h.trees ++ [⟨.user, c.data, c.list⟩] }, h.trees.length)
    | none => none

/-! ## the memo (functools.lru_cache): most recently used first -/
structure State where
  heap : Heap
  memo : List (String × Nat)     -- expression ↦ root cell of the cached tree
  held : List Nat                -- roots of the trees handed out so far (the caller's variables), oldest first
  deriving Repr, Inhabited

def State.init : State := ⟨Heap.empty, [], []⟩

/-- one `parse(s)` call: `pp` is the pure parser (`none` = SyntaxError, which `lru_cache` does not memoise) -/
def parseOp (pp : String → Option LTree) (mode : CopyMode) (cap : Nat) (st : State) (s : String) : State × Option Nat :=
  match st.memo.find? (·.1 == s) with
  | some (_, r) =>
    let memo' := (s, r) :: st.memo.filter (·.1 != s)
    match handOut mode st.heap r with
    | some (h', u) => ({ heap := h', memo := memo', held := st.held ++ [u] }, some u)
    | none => ({ st with memo := memo' }, none)
  | none =>
    match pp s with
    | none => (st, none)
    | some v =>
      let (h₁, r) := allocTree .cache v st.heap
      let memo' := ((s, r) :: st.memo).take cap
      match handOut mode h₁ r with
      | some (h', u) => ({ heap := h', memo := memo', held := st.held ++ [u] }, some u)
      | none => ({ st with heap := h₁, memo := memo' }, none)

/-- follow a path of child indices from a `Tree` cell -/
def navigate (h : Heap) : Nat → List Nat → Option Nat
  | r, [] => some r
  | r, i :: rest =>
    match h.trees[r]? with
    | none => none
    | some c =>
      match h.lists[c.list]? with
      | none => none
      | some l =>
        match l.items[i]? with
        | some (.tree r') => navigate h r' rest
        | _ => none

/-- what a caller may put into a children list -/
inductive NewChild
  | tok (ty val : String)
  | fresh (t : LTree)                       -- a newly built `Tree`
  | existing (root : Nat) (path : List Nat) -- a node of some tree the caller holds (aliasing on the caller's side is allowed)
  deriving Inhabited

inductive Edit
  | replace (i : Nat) (c : NewChild)        -- `t.children[i] = c`
  | remove (i : Nat)                        -- `del t.children[i]`
  | append (c : NewChild)                   -- `t.children.append(c)`
  | rebind (cs : List NewChild)             -- `t.children = [...]` (a new list object)
  | setData (d : String)                    -- `t.data = d`
  deriving Inhabited

def resolveChild (st : State) (h : Heap) : NewChild → Option (Heap × Child)
  | .tok ty v => some (h, .tok ty v)
  | .fresh t => let (h', r) := allocTree .user t h; some (h', .tree r)
  | .existing root path =>
    match st.held[root]? with
    | none => none
    | some r => (navigate h r path).map fun r' => (h, .tree r')

def setList (h : Heap) (l : Nat) (items : List Child) : Heap :=
  { h with lists := h.lists.set l { (h.lists[l]?.getD ⟨.user, []⟩) with items := items } }

/-- an in-place edit of the node reached from the `root`-th handed-out tree along `path`; ill-formed edits are no-ops -/
def editOp (st : State) (root : Nat) (path : List Nat) (e : Edit) : State :=
  match st.held[root]? with
  | none => st
  | some r0 =>
    match navigate st.heap r0 path with
    | none => st
    | some r =>
      match st.heap.trees[r]? with
      | none => st
      | some c =>
        match st.heap.lists[c.list]? with
        | none => st
        | some l =>
          match e with
          | .setData d => { st with heap := { st.heap with trees := st.heap.trees.set r { c with data := d } } }
          | .remove i => { st with heap := setList st.heap c.list (l.items.eraseIdx i) }
          | .replace i nc =>
            match resolveChild st st.heap nc with
            | some (h', ch) => if i < l.items.length then { st with heap := setList h' c.list (l.items.set i ch) } else st
            | none => st
          | .append nc =>
            match resolveChild st st.heap nc with
            | some (h', ch) => { st with heap := setList h' c.list (l.items ++ [ch]) }
            | none => st
          | .rebind ncs =>
            let step := fun (acc : Option (Heap × List Child)) nc =>
              match acc with
              | none => none
              | some (h, cs) => (resolveChild st h nc).map fun (h', ch) => (h', cs ++ [ch])
            match ncs.foldl step (some (st.heap, [])) with
            | none => st
            | some (h', cs) =>
              let lnew := h'.lists.length
              { st with heap := { trees := h'.trees.set r { c with list := lnew }, lists := h'.lists ++ [⟨.user, cs⟩] } }

inductive HOp
  | parse (s : String)
  | edit (root : Nat) (path : List Nat) (e : Edit)
  deriving Inhabited

/-- run a history; the observable is, for every parse call, the value of the tree it returned (read at return time) -/
def runOps (pp : String → Option LTree) (mode : CopyMode) (cap : Nat) : State → List HOp → List (Option LTree)
  | _, [] => []
  | st, .parse s :: rest =>
    let (st', r) := parseOp pp mode cap st s
    (r.bind fun u => readTree st'.heap (2 * st'.heap.trees.length + 1) u) :: runOps pp mode cap st' rest
  | st, .edit root path e :: rest => runOps pp mode cap (editOp st root path e) rest

end Ahbicht
