import Ahbicht.Model.Ahb
import Ahbicht.Model.Fc
import Ahbicht.Generated.Indicators
/-!
# M-AHBEVAL — `AhbExpressionTransformer`: every part is evaluated, the first fulfilled part wins
-/
namespace Ahbicht
open Generated

/-- the normalised indicator of a written token (lookup in the extracted table; `none` = the callback raises) -/
def normalise (kind : IndKind) (written : List Char) : Option String :=
  let ty := match kind with | .modal => "MODAL_MARK" | .prefix_ => "PREFIX_OPERATOR"
  match indicatorTable.find? (fun e => e.1 == ty && e.2.1 == String.ofList written) with
  | some e => e.2.2
  | none => none

structure AhbResult where
  indicator : String
  rc : RcResult
  fc : Efc
  deriving DecidableEq, Repr, Inhabited

/-- result of a bare indicator: fulfilled, unconditional, nothing else -/
def bareResult (ind : String) : AhbResult :=
  ⟨ind, ⟨some true, some false, none, none⟩, ⟨true, none⟩⟩

/-- one `single_requirement_indicator_expression`: requirement evaluation, then format-constraint evaluation of
what it collected (the collected string is parsed again, as the code does) -/
def evalPart (rcEnv : List Char → Option CFV) (hintEnv : List Char → Option String) (fcEnv : FcEnv)
    (ind : String) (e : Expr) : Except EvalErr AhbResult := do
  let rc ← rcEvaluation rcEnv hintEnv e
  let fc ← match rc.fce with
    | none => pure ⟨true, none⟩
    | some s =>
      if s.isEmpty then pure ⟨true, none⟩
      else match parseCond s.toList with
        | none => throw .other           -- would be a SyntaxError (excluded by C07)
        | some t => evalFc fcEnv t
  pure ⟨ind, rc, fc⟩

/-- `_ahb_expression_async` on the list of part results -/
def selectResult (rs : List AhbResult) : Option AhbResult :=
  match rs.find? (fun r => r.rc.fulfilled == some true) with
  | some r => some (if rs.length > 1 then { r with rc := { r.rc with conditional := some true } } else r)
  | none => rs.getLast?

/-- the whole evaluation of a resolved AHB tree; parts carry their parsed condition expression -/
def evalAhb (rcEnv : List Char → Option CFV) (hintEnv : List Char → Option String) (fcEnv : FcEnv)
    (parts : List (Part × Option Expr)) : Except EvalErr AhbResult := do
  let rs ← parts.mapM fun pe =>
    match normalise pe.1.kind pe.1.ind with
    | none => throw .other
    | some ind =>
      match pe.2 with
      | none => pure (bareResult ind)
      | some e => evalPart rcEnv hintEnv fcEnv ind e
  match selectResult rs with
  | some r => pure r
  | none => throw .other

end Ahbicht
