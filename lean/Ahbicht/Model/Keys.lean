import Ahbicht.Model.Expr
/-!
# M-KEYS (part 1) — condition key → kind of node (`condition_node_distinction.py`)
-/
namespace Ahbicht

inductive Kind | rc | hint | fc | package | repeatability
  deriving DecidableEq, Repr, Inhabited

/-- decimal value of an ASCII digit string -/
def digitsToNat (ds : List Char) : Nat := ds.foldl (fun n c => 10 * n + (c.toNat - '0'.toNat)) 0

/-- `derive_condition_node_type` on the number (requirement and repeatability constraints are both
treated as requirement constraints by every caller); `none` = `ValueError` -/
def nodeTypeNat (n : Nat) : Option Kind :=
  if 1 ≤ n ∧ n ≤ 499 then some .rc
  else if 500 ≤ n ∧ n ≤ 900 then some .hint
  else if 901 ≤ n ∧ n ≤ 999 then some .fc
  else if 2000 ≤ n ∧ n ≤ 2499 then some .repeatability
  else none

def nodeType (key : List Char) : Option Kind :=
  if key.getLast? = some 'P' then some .package else nodeTypeNat (digitsToNat key)

/-- the three-way categorisation used by evaluation -/
inductive Cat | rc | hint | fc deriving DecidableEq, Repr, Inhabited

def catOf (key : List Char) : Option Cat :=
  match nodeType key with
  | some .rc | some .repeatability => some .rc
  | some .hint => some .hint
  | some .fc => some .fc
  | _ => none

end Ahbicht
