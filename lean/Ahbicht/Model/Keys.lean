import Ahbicht.Model.Expr
import Ahbicht.Model.CFV
/-!
# M-KEYS (part 1) — condition key → kind of node (`condition_node_distinction.py`)
-/
namespace Ahbicht

inductive Kind | rc | hint | fc | package | repeatability
  deriving DecidableEq, Repr, Inhabited

/-- decimal value of an ASCII digit string -/
def digitsToNat (ds : List Char) : Nat := ds.foldl (fun n c => 10 * n + (c.toNat - '0'.toNat)) 0

/-- `derive_condition_node_type` on the number (requirement and repeatability constraints are both
treated as requirement constraints by every caller); `none` = `ValueError` -/
def nodeTypeNat (n : Nat) : Option Kind :=
  if 1 ≤ n ∧ n ≤ 499 then some .rc
  else if 500 ≤ n ∧ n ≤ 900 then some .hint
  else if 901 ≤ n ∧ n ≤ 999 then some .fc
  else if 2000 ≤ n ∧ n ≤ 2499 then some .repeatability
  else none

def nodeType (key : List Char) : Option Kind :=
  if key.getLast? = some 'P' then some .package else nodeTypeNat (digitsToNat key)

/-- the three-way categorisation used by evaluation -/
inductive Cat | rc | hint | fc deriving DecidableEq, Repr, Inhabited

def catOf (key : List Char) : Option Cat :=
  match nodeType key with
  | some .rc | some .repeatability => some .rc
  | some .hint => some .hint
  | some .fc => some .fc
  | _ => none

def Atom.condKey? : Atom → Option (List Char) | .cond k => some k | _ => none
def Atom.pkgKey? : Atom → Option (List Char) | .pkg k _ => some k | _ => none
def Atom.timeKey? : Atom → Option (List Char) | .time k => some k | _ => none

/-- condition keys of the tree in document order (with repetitions) -/
def condKeys (e : Expr) : List (List Char) := e.atoms.filterMap Atom.condKey?
def pkgKeys (e : Expr) : List (List Char) := e.atoms.filterMap Atom.pkgKey?
def timeKeys (e : Expr) : List (List Char) := e.atoms.filterMap Atom.timeKey?

theorem condKeys_leaf_cond (k : List Char) : condKeys (.leaf (.cond k)) = [k] := rfl
theorem condKeys_bin' (o : Op) (l r : Expr) : condKeys (.bin o l r) = condKeys l ++ condKeys r := by
  simp [condKeys, Expr.atoms, List.filterMap_append]
theorem mem_condKeys {e : Expr} {k : List Char} : k ∈ condKeys e ↔ Atom.cond k ∈ e.atoms := by
  simp only [condKeys, List.mem_filterMap]
  constructor
  · rintro ⟨a, ha, hk⟩; cases a <;> simp [Atom.condKey?] at hk; subst hk; exact ha
  · intro h; exact ⟨_, h, rfl⟩

end Ahbicht
