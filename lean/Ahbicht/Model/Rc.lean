import Ahbicht.Model.CFV
import Ahbicht.Model.Keys
/-!
# M-RC — `RequirementConstraintTransformer` and `requirement_constraint_evaluation`

Nodes mirror the Python classes; the collected format-constraint expression is kept as the small AST
`FExpr` whose `render` is, character by character, the string the f-strings of
`FormatConstraintExpressionBuilder._connect` produce after `strip` and the bracket-stripping substitution.
-/
namespace Ahbicht

inductive BOp | and_ | or_ | xor_ deriving DecidableEq, Repr, Inhabited

def BOp.letter : BOp → String | .and_ => "U" | .or_ => "O" | .xor_ => "X"
def BOp.toOp : BOp → Op | .and_ => .and_ | .or_ => .or_ | .xor_ => .xor_

/-- collected format-constraint expression -/
inductive FExpr
  | key (k : List Char)
  | paren (x : FExpr)
  | bin (o : BOp) (l r : FExpr)
  deriving DecidableEq, Repr, Inhabited

def FExpr.render : FExpr → String
  | .key k => "[" ++ String.ofList k ++ "]"
  | .paren x => "(" ++ x.render ++ ")"
  | .bin o l r => l.render ++ " " ++ o.letter ++ " " ++ r.render

/-- `(` … `)` unless the body is a single key (the regex `\((\[\d+\])\)` → `\1`) -/
def FExpr.grp : FExpr → FExpr
  | .key k => .key k
  | x => .paren x

inductive Node
  | rc (key : List Char) (st : CFV)                       -- RequirementConstraint
  | hint (key : List Char) (text : String)                -- Hint (NEUTRAL)
  | fc (key : List Char)                                  -- UnevaluatedFormatConstraint (NEUTRAL)
  | comp (st : CFV) (hint : Option String) (fce : Option FExpr)   -- EvaluatedComposition
  deriving Repr, Inhabited

def Node.state : Node → CFV
  | .rc _ st => st | .hint _ _ => .N | .fc _ => .N | .comp st _ _ => st

/-- `getattr(node, "hint", None)` -/
def Node.hintAttr : Node → Option String
  | .hint _ t => some t | .comp _ h _ => h | _ => none

def Node.isHint : Node → Bool | .hint _ _ => true | _ => false
def Node.isFc : Node → Bool | .fc _ => true | _ => false

inductive EvalErr
  | invalidExpr          -- InvalidExpressionError
  | notImplemented       -- NotImplementedError
  | valueError           -- ValueError (key missing / out of range)
  | keyError             -- KeyError (hint unknown to the provider)
  | other                -- anything else (AttributeError on an untransformed subtree …)
  deriving DecidableEq, Repr, Inhabited

/-! ## HintExpressionBuilder -/
def truthy : Option String → Bool | some s => s != "" | none => false

def hintLand (self other : Option String) : Option String :=
  match other with
  | none => self
  | some o => if truthy self then some (self.getD "" ++ " und " ++ o) else some o

def hintLor (self other : Option String) : Option String :=
  match other with
  | none => self
  | some o => if truthy self then some (self.getD "" ++ " oder " ++ o) else some o

def hintXor (self other : Option String) : Option String :=
  match other with
  | none => self
  | some o => if truthy self then some ("Entweder (" ++ self.getD "" ++ ") oder (" ++ o ++ ")") else some o

/-! ## FormatConstraintExpressionBuilder -/
/-- the builder's initial expression -/
def fcInit : Node → Option FExpr
  | .fc k => some (.key k)
  | .comp _ _ (some f) => some f
  | _ => none

/-- what `other` contributes in `_connect` -/
def fcOther : Node → Option FExpr
  | .fc k => some (.key k)
  | .comp _ _ (some f) => some f.grp
  | _ => none

def fcConnect (o : BOp) (self : Option FExpr) (other : Node) : Option FExpr :=
  match self, fcOther other with
  | some e, some p => some (.bin o e.grp p)
  | some e, none => some e
  | none, some p => some p
  | none, none => none

/-! ## the transformer -/
def andComp (l r : Node) : Node :=
  let st := CFV.and l.state r.state
  let h := if st ≠ .U then hintLand l.hintAttr r.hintAttr else none
  .comp st h (fcConnect .and_ (fcInit l) r)

def orXorComp (o : BOp) (l r : Node) : Except EvalErr Node :=
  if (l.isHint && r.isFc) || (r.isHint && l.isFc) then .error .invalidExpr
  else if (l.state = .N ∧ r.state ≠ .N) ∨ (r.state = .N ∧ l.state ≠ .N) then .error .invalidExpr
  else
    let st := match o with | .or_ => CFV.or l.state r.state | _ => CFV.xor l.state r.state
    let h := match o with
      | .or_ => hintLor l.hintAttr r.hintAttr
      | _ => hintXor l.hintAttr r.hintAttr
    .ok (.comp st h (fcConnect o (fcInit l) r))

def thenAlso' (fcn other : Node) : Except EvalErr Node :=
  if other.state ≠ .N then
    .ok (.comp other.state none (if other.state = .F then fcConnect .and_ (fcInit fcn) other else none))
  else match other with
    | .hint _ t => .ok (.comp .N (some t) (fcConnect .and_ (fcInit fcn) other))
    | _ => .error .notImplemented

def thenAlso (l r : Node) : Except EvalErr Node :=
  if l.isFc then thenAlso' l r else thenAlso' r l

/-- leaf lookup: `input_values[token.value]`, `ValueError` when missing -/
abbrev Env := List Char → Option Node

def evalRc (env : Env) : Expr → Except EvalErr Node
  | .leaf (.cond k) => match env k with | some n => .ok n | none => .error .valueError
  | .leaf _ => .error .other
  | .bin o l r => do
    let a ← evalRc env l
    let b ← evalRc env r
    match o with
    | .and_ => pure (andComp a b)
    | .or_ => orXorComp .or_ a b
    | .xor_ => orXorComp .xor_ a b
    | .then_ => thenAlso a b

/-- `RequirementConstraintEvaluationResult` -/
structure RcResult where
  fulfilled : Option Bool
  conditional : Option Bool
  fce : Option String
  hints : Option String
  deriving DecidableEq, Repr, Inhabited

def report (n : Node) : RcResult :=
  let (f, c) := match n.state with
    | .F => (some true, some true)
    | .U => (some false, some true)
    | .N => (some true, some false)
    | .K => (none, none)
  let fce := match n with
    | .fc k => some (FExpr.key k).render
    | .comp _ _ (some e) => some e.render
    | _ => none
  ⟨f, c, fce, n.hintAttr⟩

end Ahbicht

namespace Ahbicht

/-- all token values of the tree in document order (`scan_values(isinstance Token)`) with their categorisation error, if any -/
def Atom.tokenErr : Atom → Option EvalErr
  | .cond k => match catOf k with | some _ => none | none => some .valueError
  | .pkg _ _ => some .notImplemented     -- PACKAGE_KEY comes first and is reported as "not implemented"
  | .time _ => some .valueError          -- int("UB1")

/-- the environment `requirement_constraint_evaluation` builds from the evaluator's and the hints provider's answers -/
def mkEnv (rcEnv : List Char → Option CFV) (hintEnv : List Char → Option String) : Env := fun k =>
  match catOf k with
  | some .rc => (rcEnv k).map (Node.rc k)
  | some .hint => (hintEnv k).map (Node.hint k)
  | some .fc => some (.fc k)
  | none => none

/-- `requirement_constraint_evaluation` on a parsed tree; `rcEnv` = the RC evaluator's answers,
`hintEnv` = the hints provider's answers.  Order of the failure modes as in the code: categorisation of
every token, requirement constraints, hints, then the transformer. -/
def rcEvaluation (rcEnv : List Char → Option CFV) (hintEnv : List Char → Option String) (e : Expr) :
    Except EvalErr RcResult :=
  match e.atoms.findSome? Atom.tokenErr with
  | some err => .error err
  | none =>
    if (condKeys e).any (fun k => catOf k == some .rc && (rcEnv k).isNone) then .error .notImplemented
    else if (condKeys e).any (fun k => catOf k == some .hint && (hintEnv k).isNone) then .error .keyError
    else (evalRc (mkEnv rcEnv hintEnv) e).map report

end Ahbicht
