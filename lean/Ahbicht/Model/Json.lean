import Ahbicht.Generated.Schemas
import Ahbicht.Model.Fc
/-!
# M-JSON — JSON (de)serialisation of trees, evaluation inputs and evaluation results

Each class has a concrete `dump…` (objects with the keys in the declaration order marshmallow dumps them in) and `load…`.
Whether a field accepts `null` is **not** written down here: it is looked up in the descriptors extracted from the live
marshmallow schemas (`Generated.schemas`), so the round-trip theorems hold for the code's schemas as they are now.
-/
namespace Ahbicht
open Generated

mutual
inductive J
  | null
  | bool (b : Bool)
  | str (s : String)
  | arr (l : JL)
  | obj (o : JO)
inductive JL
  | nil
  | cons (x : J) (xs : JL)
inductive JO
  | nil
  | cons (k : String) (v : J) (rest : JO)
end

/-- `allow_none` of a field of a schema, as declared in the code -/
def allowNone (schema field : String) : Bool :=
  match schemas.find? (·.1 == schema) with
  | some s => match s.2.1.find? (·.1 == field) with
    | some f => f.2.2.1
    | none => false
  | none => false

/-! ## scalar fields -/
def dumpOptBool : Option Bool → J | some b => .bool b | none => .null
def dumpOptStr : Option String → J | some s => .str s | none => .null

/-- `fields.Boolean` (strict JSON booleans are what `dumps` produces) -/
def loadOptBool (allow : Bool) : J → Option (Option Bool)
  | .bool b => some (some b)
  | .null => if allow then some none else none
  | _ => none

def loadOptStr (allow : Bool) : J → Option (Option String)
  | .str s => some (some s)
  | .null => if allow then some none else none
  | _ => none

def loadBool : J → Option Bool | .bool b => some b | _ => none
def loadStr : J → Option String | .str s => some s | _ => none

/-! ## RequirementConstraintEvaluationResult -/
def rcS : String := "RequirementConstraintEvaluationResultSchema"

def dumpRc (r : RcResult) : J :=
  .obj (.cons "requirement_constraints_fulfilled" (dumpOptBool r.fulfilled)
       (.cons "requirement_is_conditional" (dumpOptBool r.conditional)
       (.cons "format_constraints_expression" (dumpOptStr r.fce)
       (.cons "hints" (dumpOptStr r.hints) .nil))))

def loadRc : J → Option RcResult
  | .obj (.cons "requirement_constraints_fulfilled" a (.cons "requirement_is_conditional" b
      (.cons "format_constraints_expression" c (.cons "hints" d .nil)))) => do
    let f ← loadOptBool (allowNone rcS "requirement_constraints_fulfilled") a
    let cnd ← loadOptBool (allowNone rcS "requirement_is_conditional") b
    let fce ← loadOptStr (allowNone rcS "format_constraints_expression") c
    let h ← loadOptStr (allowNone rcS "hints") d
    pure ⟨f, cnd, fce, h⟩
  | _ => none

/-! ## FormatConstraintEvaluationResult / EvaluatedFormatConstraint -/
def fcS : String := "FormatConstraintEvaluationResultSchema"
def efcS : String := "EvaluatedFormatConstraintSchema"

def dumpFcResult (r : Efc) : J :=
  .obj (.cons "format_constraints_fulfilled" (.bool r.ok) (.cons "error_message" (dumpOptStr r.msg) .nil))

def loadFcResult : J → Option Efc
  | .obj (.cons "format_constraints_fulfilled" a (.cons "error_message" b .nil)) => do
    let ok ← loadBool a
    let m ← loadOptStr (allowNone fcS "error_message") b
    pure ⟨ok, m⟩
  | _ => none

def dumpEfc (r : Efc) : J :=
  .obj (.cons "format_constraint_fulfilled" (.bool r.ok) (.cons "error_message" (dumpOptStr r.msg) .nil))

def loadEfc : J → Option Efc
  | .obj (.cons "format_constraint_fulfilled" a (.cons "error_message" b .nil)) => do
    let ok ← loadBool a
    let m ← loadOptStr (allowNone efcS "error_message") b
    pure ⟨ok, m⟩
  | _ => none

/-! ## requirement indicator and AhbExpressionEvaluationResult -/
/-- `RequirementIndicatorSchema`: dumped as the upper-case enum value, loaded as ModalMark else PrefixOperator -/
def indicators : List String := ["MUSS", "SOLL", "KANN", "X", "O", "U"]

def dumpInd (i : String) : J := .str i
def loadInd : J → Option String
  | .str s => if indicators.contains s then some s else none
  | _ => none

structure AhbResultJ where
  indicator : String
  rc : RcResult
  fc : Efc
  deriving DecidableEq, Repr

def dumpAhb (r : AhbResultJ) : J :=
  .obj (.cons "requirement_indicator" (dumpInd r.indicator)
       (.cons "requirement_constraint_evaluation_result" (dumpRc r.rc)
       (.cons "format_constraint_evaluation_result" (dumpFcResult r.fc) .nil)))

def loadAhb : J → Option AhbResultJ
  | .obj (.cons "requirement_indicator" a (.cons "requirement_constraint_evaluation_result" b
      (.cons "format_constraint_evaluation_result" c .nil))) => do
    pure ⟨← loadInd a, ← loadRc b, ← loadFcResult c⟩
  | _ => none

/-! ## lists and string-keyed dictionaries -/
def dumpStrList : List String → JL
  | [] => .nil
  | s :: ss => .cons (.str s) (dumpStrList ss)

def loadStrList : JL → Option (List String)
  | .nil => some []
  | .cons x xs => do pure ((← loadStr x) :: (← loadStrList xs))

def dumpDict {α : Type} (f : α → J) : List (String × α) → JO
  | [] => .nil
  | (k, v) :: rest => .cons k (f v) (dumpDict f rest)

def loadDict {α : Type} (f : J → Option α) : JO → Option (List (String × α))
  | .nil => some []
  | .cons k v rest => do pure ((k, ← f v) :: (← loadDict f rest))

/-! ## CategorizedKeyExtract -/
structure KeyExtractJ where
  hint : List String
  fc : List String
  rc : List String
  pkg : List String
  time : List String
  deriving DecidableEq, Repr

def dumpExtract (x : KeyExtractJ) : J :=
  .obj (.cons "hint_keys" (.arr (dumpStrList x.hint)) (.cons "format_constraint_keys" (.arr (dumpStrList x.fc))
       (.cons "requirement_constraint_keys" (.arr (dumpStrList x.rc)) (.cons "package_keys" (.arr (dumpStrList x.pkg))
       (.cons "time_condition_keys" (.arr (dumpStrList x.time)) .nil)))))

def loadExtract : J → Option KeyExtractJ
  | .obj (.cons "hint_keys" (.arr a) (.cons "format_constraint_keys" (.arr b) (.cons "requirement_constraint_keys" (.arr c)
      (.cons "package_keys" (.arr d) (.cons "time_condition_keys" (.arr e) .nil))))) => do
    pure ⟨← loadStrList a, ← loadStrList b, ← loadStrList c, ← loadStrList d, ← loadStrList e⟩
  | _ => none

/-! ## ContentEvaluationResult -/
def cerS : String := "ContentEvaluationResultSchema"

structure CerJ where
  hints : List (String × Option String)
  fcs : List (String × Efc)
  rcs : List (String × CFV)
  packages : Option (List (String × String))
  id : Option String          -- canonical UUID text
  deriving DecidableEq, Repr

def dumpCfv (c : CFV) : J := .str c.toString
def loadCfv : J → Option CFV
  | .str s => CFV.ofString? s
  | _ => none

def dumpCer (x : CerJ) : J :=
  .obj (.cons "hints" (.obj (dumpDict dumpOptStr x.hints))
       (.cons "format_constraints" (.obj (dumpDict dumpEfc x.fcs))
       (.cons "requirement_constraints" (.obj (dumpDict dumpCfv x.rcs))
       (.cons "packages" (match x.packages with | some p => .obj (dumpDict J.str p) | none => .null)
       (.cons "id" (dumpOptStr x.id) .nil)))))

def loadCer : J → Option CerJ
  | .obj (.cons "hints" (.obj a) (.cons "format_constraints" (.obj b) (.cons "requirement_constraints" (.obj c)
      (.cons "packages" d (.cons "id" e .nil))))) => do
    let hints ← loadDict (loadOptStr true) a      -- values=fields.String(allow_none=True): see `cer_hint_values_nullable`
    let fcs ← loadDict loadEfc b
    let rcs ← loadDict loadCfv c
    let packages ← match d with
      | .obj p => (loadDict loadStr p).map some
      | .null => if allowNone cerS "packages" then some none else none
      | _ => none
    let id ← loadOptStr (allowNone cerS "id") e
    pure ⟨hints, fcs, rcs, packages, id⟩
  | _ => none

/-! ## parse trees -/
mutual
inductive LTree
  | node (data : String) (children : LForest)
inductive LForest
  | nil
  | consTok (ty val : String) (rest : LForest)
  | consTree (t : LTree) (rest : LForest)
end

mutual
def dumpTree : LTree → J
  | .node d cs => .obj (.cons "type" (.str d) (.cons "children" (.arr (dumpForest cs)) .nil))
def dumpForest : LForest → JL
  | .nil => .nil
  | .consTok ty v rest =>
    .cons (.obj (.cons "token" (.obj (.cons "value" (.str v) (.cons "type" (.str ty) .nil))) (.cons "tree" .null .nil))) (dumpForest rest)
  | .consTree t rest => .cons (.obj (.cons "token" .null (.cons "tree" (dumpTree t) .nil))) (dumpForest rest)
end

mutual
def loadTree : J → Option LTree
  | .obj (.cons "type" (.str d) (.cons "children" (.arr cs) .nil)) => (loadForest cs).map (LTree.node d)
  | _ => none
def loadForest : JL → Option LForest
  | .nil => some .nil
  | .cons (.obj (.cons "token" (.obj (.cons "value" (.str v) (.cons "type" (.str ty) .nil))) (.cons "tree" .null .nil))) rest =>
    if allowNone "_TokenOrTreeSchema" "tree" then (loadForest rest).map (LForest.consTok ty v) else none
  | .cons (.obj (.cons "token" .null (.cons "tree" t .nil))) rest =>
    if allowNone "_TokenOrTreeSchema" "token" then
      match loadTree t, loadForest rest with
      | some t', some r => some (.consTree t' r)
      | _, _ => none
    else none
  | _ => none
end

end Ahbicht
