import Ahbicht.Model.Lex
/-!
# M-CHAIN / M-BUILD — from tokens to the precedence tree

A bracket-stack machine collects, per open bracket, a *chain* `item (sep item)*` where a separator is
one of `U O X` or nothing (juxtaposition = `then_`).  When a bracket closes (and at the end) the chain is
assembled by `asm`: split at the loosest operator present, recurse on the pieces with the remaining
levels, fold the pieces left-associatively.
-/
namespace Ahbicht

/-- a chain: first item, then (separator, item) pairs; items are already assembled sub-expressions -/
abbrev Chain := Expr × List (Op × Expr)

def splitTail (o : Op) : Expr → List (Op × Expr) → List Chain
  | h, [] => [(h, [])]
  | h, (s, x) :: rest =>
    if s = o then (h, []) :: splitTail o x rest
    else match splitTail o x rest with
      | [] => [(h, [(s, x)])]   -- unreachable: `splitTail` never returns `[]`
      | (h', t') :: more => (h, (s, h') :: t') :: more

def split (o : Op) (c : Chain) : List Chain := splitTail o c.1 c.2

def foldBin (o : Op) : Expr → List Expr → Expr
  | acc, [] => acc
  | acc, x :: xs => foldBin o (.bin o acc x) xs

def asm : List Op → Chain → Expr
  | [], c => c.1
  | o :: os, c =>
    match (split o c).map (asm os) with
    | [] => c.1
    | e :: es => foldBin o e es

/-- loosest first: OR, XOR, AND, then-also -/
def levels : List Op := [.or_, .xor_, .and_, .then_]

def build (c : Chain) : Expr := asm levels c

/-- state of one open bracket -/
inductive Frame
  | empty
  | item (c : Chain)
  | pend (c : Chain) (o : Op)
  deriving Repr

def Chain.snoc (c : Chain) (o : Op) (e : Expr) : Chain := (c.1, c.2 ++ [(o, e)])

/-- append an assembled item to a frame -/
def Frame.push : Frame → Expr → Frame
  | .empty, e => .item (e, [])
  | .item c, e => .item (c.snoc .then_ e)
  | .pend c o, e => .item (c.snoc o e)

def stepTok : List Frame → Tok → Option (List Frame)
  | f :: st, .atom a => some (f.push (.leaf a) :: st)
  | .item c :: st, .op o => some (.pend c o.toOp :: st)
  | f :: st, .lp => some (.empty :: f :: st)
  | .item c :: g :: st, .rp => some (g.push (build c) :: st)
  | _, _ => none

def runToks : List Frame → List Tok → Option (List Frame)
  | fs, [] => some fs
  | fs, t :: ts => (stepTok fs t).bind (fun fs' => runToks fs' ts)

def parseToks (ts : List Tok) : Option Expr :=
  match runToks [.empty] ts with
  | some [.item c] => some (build c)
  | _ => none

/-- the model of `parse_condition_expression_to_tree` (success / SyntaxError) -/
def parseCond (cs : List Char) : Option Expr := (lex cs).bind parseToks

end Ahbicht
