/-!
# M-ASYNC — the logic ahbicht adds on top of `asyncio.gather`, and the task/context machine

(i) list-level functions: `gather_if_necessary`, `dict(zip(keys, results))`, the placeholder pass of
`_replace_sub_coroutines_with_awaited_results`; (ii) a small-step machine for "gather writes slot i when child i completes";
(iii) tasks with copied contexts (PEP 567) for the context variable that carries a data element's input.
-/
namespace Ahbicht

/-! ## (ii) gather: slot i is written when awaitable i completes, in any completion order -/
/-- complete the awaitables in the order `order` (indices); the result list starts empty -/
def runGather {α : Type} (vals : List α) (order : List Nat) : List (Option α) :=
  order.foldl (fun slots i => match vals[i]? with | some v => slots.set i (some v) | none => slots) (List.replicate vals.length none)

/-! ## (i) gather_if_necessary -/
/-- an element of the heterogeneous list: already a result, or an awaitable that will produce one -/
inductive MaybeAwaitable (α : Type)
  | result (v : α)
  | awaitable (v : α)      -- `v` is what awaiting it yields

def MaybeAwaitable.isAwaitable {α : Type} : MaybeAwaitable α → Bool
  | .awaitable _ => true
  | .result _ => false

/-- the loop of `gather_if_necessary`, literally: `awaited` are the gathered results of the awaitables in argument order; a running
index picks the next awaited result whenever the position is one of the awaitable positions -/
def mergeAwaited {α : Type} (items : List (MaybeAwaitable α)) (awaitableIndexes : List Nat) (awaited : List α) : List α :=
  let step := fun (acc : List α × Nat × Nat) (obj : MaybeAwaitable α) =>
    let (res, index, awaitedIndex) := acc
    if awaitableIndexes.contains index then
      match awaited[awaitedIndex]? with
      | some r => (res ++ [r], index + 1, awaitedIndex + 1)
      | none => (res, index + 1, awaitedIndex + 1)
    else
      match obj with
      | .result v => (res ++ [v], index + 1, awaitedIndex)
      | .awaitable v => (res ++ [v], index + 1, awaitedIndex)   -- unreachable: awaitables are at awaitable indexes
  (items.foldl step ([], 0, 0)).1

def awaitableIndexesOf {α : Type} (items : List (MaybeAwaitable α)) : List Nat :=
  (List.range items.length).filter fun n => match items[n]? with | some x => x.isAwaitable | none => false

def awaitedOf {α : Type} (items : List (MaybeAwaitable α)) : List α :=
  items.filterMap fun x => match x with | .awaitable v => some v | .result _ => none

def gatherIfNecessary {α : Type} (items : List (MaybeAwaitable α)) : List α :=
  mergeAwaited items (awaitableIndexesOf items) (awaitedOf items)

def MaybeAwaitable.value {α : Type} : MaybeAwaitable α → α
  | .result v => v
  | .awaitable v => v

/-! ## (i) dict(zip(keys, results)) -/
/-- later pairs win, as in a Python dict built from pairs -/
def dictLookup {κ α : Type} [DecidableEq κ] (pairs : List (κ × α)) (k : κ) : Option α :=
  (pairs.reverse.find? (·.1 = k)).map (·.2)

/-! ## (i) placeholders: coroutines put into the tree, gathered, then replaced in place -/
mutual
inductive PTree
  | tok (v : String)
  | hole (id : Nat)                    -- a coroutine object (identity = id)
  | node (d : String) (children : PForest)
inductive PForest
  | nil
  | cons (t : PTree) (rest : PForest)
end

mutual
/-- `scan_values(asyncio.iscoroutine)`: the placeholders in depth-first order -/
def scanHoles : PTree → List Nat
  | .tok _ => []
  | .hole i => [i]
  | .node _ cs => scanHolesF cs
def scanHolesF : PForest → List Nat
  | .nil => []
  | .cons t rest => scanHoles t ++ scanHolesF rest
end

mutual
/-- one iteration of the outer loop: in every subtree, every child equal to the coroutine is replaced by its result -/
def replaceOne (id : Nat) (res : PTree) : PTree → PTree
  | .tok v => .tok v
  | .hole i => .hole i                 -- a hole is only replaced as a child of a node (the root is awaited beforehand)
  | .node d cs => .node d (replaceOneF id res cs)
def replaceOneF (id : Nat) (res : PTree) : PForest → PForest
  | .nil => .nil
  | .cons (.hole i) rest => .cons (if i = id then res else .hole i) (replaceOneF id res rest)
  | .cons t rest => .cons (replaceOne id res t) (replaceOneF id res rest)
end

/-- `for coro, sub_result in zip(scan, results): …` -/
def replaceAll (pairs : List (Nat × PTree)) (t : PTree) : PTree :=
  pairs.foldl (fun acc p => replaceOne p.1 p.2 acc) t

mutual
/-- the specification: every placeholder becomes the result produced for it -/
def substHoles (res : Nat → PTree) : PTree → PTree
  | .tok v => .tok v
  | .hole i => .hole i
  | .node d cs => .node d (substHolesF res cs)
def substHolesF (res : Nat → PTree) : PForest → PForest
  | .nil => .nil
  | .cons (.hole i) rest => .cons (res i) (substHolesF res rest)
  | .cons t rest => .cons (substHoles res t) (substHolesF res rest)
end

mutual
def holeFree : PTree → Bool
  | .tok _ => true
  | .hole _ => false
  | .node _ cs => holeFreeF cs
def holeFreeF : PForest → Bool
  | .nil => true
  | .cons t rest => holeFree t && holeFreeF rest
end

/-! ## (iii) tasks and contexts -/
abbrev Tid := Nat

inductive COp
  | set (v : Nat)         -- `var.set(v)` in the task's own context
  | spawn (c : Tid)       -- create task `c`: it starts with a copy of the current context
  | get                   -- `var.get()`
  deriving DecidableEq, Repr

def upd {β : Type} (f : Tid → β) (k : Tid) (v : β) : Tid → β := fun x => if x = k then v else f x

structure CSt where
  pc : Tid → Nat
  ctx : Tid → Option Nat
  live : Tid → Bool
  out : List (Tid × Nat × Option Nat)    -- observed gets: (task, position, value)

/-- one step of task `t` (the scheduler's choice) -/
def cstep (P : Tid → List COp) (s : CSt) (t : Tid) : CSt :=
  if s.live t then
    match (P t)[s.pc t]? with
    | none => s
    | some (.set v) => { s with pc := upd s.pc t (s.pc t + 1), ctx := upd s.ctx t (some v) }
    | some (.spawn c) =>
        if s.live c then s
        else { s with pc := upd s.pc t (s.pc t + 1), ctx := upd s.ctx c (s.ctx t), live := upd s.live c true }
    | some .get => { s with pc := upd s.pc t (s.pc t + 1), out := (t, s.pc t, s.ctx t) :: s.out }
  else s

/-- a schedule is any list of task ids -/
def crun (P : Tid → List COp) (s : CSt) : List Tid → CSt
  | [] => s
  | t :: ts => crun P (cstep P s t) ts

def cinit : CSt := { pc := fun _ => 0, ctx := fun _ => none, live := fun t => t == 0, out := [] }

def lastSet : List COp → Option Nat → Option Nat
  | [], acc => acc
  | .set v :: r, _ => lastSet r (some v)
  | _ :: r, acc => lastSet r acc

/-- static expectation: the last own `set` before position `i`, else what the spawner had when it spawned us -/
def expected (P : Tid → List COp) (parent : Tid → Option (Tid × Nat)) (t : Tid) (i : Nat) : Option Nat :=
  lastSet ((P t).take i) (match parent t with
    | none => none
    | some (p, j) => if p < t then expected P parent p j else none)
termination_by t

end Ahbicht
