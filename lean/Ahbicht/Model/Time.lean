import Ahbicht.Generated.Berlin
/-!
# M-TIME — the shipped date-time format constraints 931 … 935 (`german_strom_and_gas_tag.py`)

A written datetime is (year, month, day, hour, minute, second, UTC offset in seconds).  `instant` maps it to the
UTC second; German local time is `instant + berlinOffset instant` with the offset looked up in the transition table
extracted from pytz.  Parsing of the notation (`datetime.fromisoformat`) is not modelled: the harness hands the fields over.
-/
namespace Ahbicht
open Generated

/-- days since 1970-01-01 of a proleptic Gregorian date (Hinnant's `days_from_civil`) -/
def daysFromCivil (y m d : Int) : Int :=
  let y' := if m ≤ 2 then y - 1 else y
  let era := (if y' ≥ 0 then y' else y' - 399) / 400
  let yoe := y' - era * 400
  let mp := (m + 9) % 12
  let doy := (153 * mp + 2) / 5 + d - 1
  let doe := yoe * 365 + yoe / 4 - yoe / 100 + doy
  era * 146097 + doe - 719468

structure Written where
  y : Int
  m : Int
  d : Int
  hh : Int
  mm : Int
  ss : Int
  off : Int      -- UTC offset in seconds
  deriving DecidableEq, Repr, Inhabited

/-- the instant (UTC seconds since the epoch) a written datetime denotes -/
def instant (w : Written) : Int := daysFromCivil w.y w.m w.d * 86400 + w.hh * 3600 + w.mm * 60 + w.ss - w.off

/-- offset in force at UTC second `t`: that of the last transition not after `t` (pytz semantics) -/
def offsetAt (table : List (Int × Int)) (t : Int) : Int :=
  match (table.filter (fun e => e.1 ≤ t)).getLast? with
  | some e => e.2
  | none => 3600

def berlinOffset (t : Int) : Int := offsetAt berlinTransitions t

/-- second of the day in German local time -/
def localTod (t : Int) : Int := (t + berlinOffset t) % 86400

/-- 932 / 933: start / end of a German "Stromtag" -/
def isStromtagLimit (w : Written) : Bool := localTod (instant w) == 0
/-- 934 / 935: start / end of a German "Gastag" -/
def isGastagLimit (w : Written) : Bool := localTod (instant w) == 21600
/-- 931: written with a zero UTC offset -/
def hasNoUtcOffset (w : Written) : Bool := w.off == 0

/-! ## the EU rule -/
/-- day of week of a day number, 0 = Sunday -/
def weekday (days : Int) : Int := (days + 4) % 7

/-- day number of the last Sunday of month `m` (31 days: March, October) of year `y` -/
def lastSunday31 (y m : Int) : Int :=
  let last := daysFromCivil y m 31
  last - weekday last

/-- the two transitions of year `y` by the EU rule: last Sunday of March 01:00 UTC to +2 h, last Sunday of October 01:00 UTC to +1 h -/
def euTransitions (y : Int) : List (Int × Int) :=
  [(lastSunday31 y 3 * 86400 + 3600, 7200), (lastSunday31 y 10 * 86400 + 3600, 3600)]

def euTable (fromYear toYear : Nat) : List (Int × Int) :=
  (List.range (toYear + 1 - fromYear)).flatMap fun i => euTransitions (Int.ofNat (fromYear + i))

end Ahbicht
