import Ahbicht.Model.Rc
/-!
# Specification side of requirement evaluation: `denote`, structural validity, the documented domain
-/
namespace Ahbicht

def Expr.isFcLeaf : Expr → Bool
  | .leaf (.cond k) => catOf k == some .fc
  | _ => false

def Expr.isHintLeaf : Expr → Bool
  | .leaf (.cond k) => catOf k == some .hint
  | _ => false

/-- built from hints and format constraints alone: can only be NEUTRAL -/
def neutralOnly : Expr → Bool
  | .leaf (.cond k) => catOf k != some .rc
  | .leaf _ => true
  | .bin _ l r => neutralOnly l && neutralOnly r

/-- structural invalidity (C06): some O/X node combines a neutral-only operand with a requirement-bearing one,
or directly a single hint with a single format constraint -/
def invalidAt : Expr → Bool
  | .leaf _ => false
  | .bin o l r =>
    invalidAt l || invalidAt r ||
      ((o == .or_ || o == .xor_) &&
        (neutralOnly l != neutralOnly r || (l.isHintLeaf && r.isFcLeaf) || (l.isFcLeaf && r.isHintLeaf)))

/-- the quantifier of C04–C06: keys of the three ranges only; juxtaposition attaches a single
format-constraint key to a hint or to an operand carrying a requirement constraint -/
def WF : Expr → Bool
  | .leaf (.cond k) => (catOf k).isSome
  | .leaf _ => false
  | .bin .then_ l r =>
    WF l && WF r &&
      ((l.isFcLeaf && (r.isHintLeaf || !neutralOnly r)) || (r.isFcLeaf && (l.isHintLeaf || !neutralOnly l)))
  | .bin _ l r => WF l && WF r

/-- the documented compositional semantics: four-valued operators over the tree, hints and format
constraints NEUTRAL, an attached format constraint leaves its partner's state unchanged -/
def denote (rcEnv : List Char → Option CFV) : Expr → CFV
  | .leaf (.cond k) => if catOf k = some .rc then (rcEnv k).getD .N else .N
  | .leaf _ => .N
  | .bin .and_ l r => CFV.and (denote rcEnv l) (denote rcEnv r)
  | .bin .or_ l r => CFV.or (denote rcEnv l) (denote rcEnv r)
  | .bin .xor_ l r => CFV.xor (denote rcEnv l) (denote rcEnv r)
  | .bin .then_ l r => if l.isFcLeaf then denote rcEnv r else denote rcEnv l

/-- an assignment in the sense of C04: FULFILLED/UNFULFILLED/UNKNOWN for every requirement key of `t`, a text for every hint key -/
structure Assigns (rcEnv : List Char → Option CFV) (hintEnv : List Char → Option String) (t : Expr) : Prop where
  rc : ∀ k ∈ condKeys t, catOf k = some .rc → ∃ st, rcEnv k = some st ∧ st ≠ .N
  hint : ∀ k ∈ condKeys t, catOf k = some .hint → ∃ s, hintEnv k = some s

/-- outcome reported for a state -/
def outcomeOf : CFV → Option Bool × Option Bool
  | .F => (some true, some true)
  | .U => (some false, some true)
  | .N => (some true, some false)
  | .K => (none, none)

end Ahbicht
