/-!
# Types of the validation model (`validation_values.py`, requirement indicators)
-/
namespace Ahbicht

/-- `RequirementValidationValue` -/
inductive RVV
  | IS_REQUIRED | IS_FORBIDDEN | IS_OPTIONAL
  | IS_REQUIRED_AND_EMPTY | IS_REQUIRED_AND_FILLED
  | IS_FORBIDDEN_AND_EMPTY | IS_FORBIDDEN_AND_FILLED
  | IS_OPTIONAL_AND_EMPTY | IS_OPTIONAL_AND_FILLED
  deriving DecidableEq, Repr, Inhabited

def RVV.name : RVV → String
  | .IS_REQUIRED => "IS_REQUIRED" | .IS_FORBIDDEN => "IS_FORBIDDEN" | .IS_OPTIONAL => "IS_OPTIONAL"
  | .IS_REQUIRED_AND_EMPTY => "IS_REQUIRED_AND_EMPTY" | .IS_REQUIRED_AND_FILLED => "IS_REQUIRED_AND_FILLED"
  | .IS_FORBIDDEN_AND_EMPTY => "IS_FORBIDDEN_AND_EMPTY" | .IS_FORBIDDEN_AND_FILLED => "IS_FORBIDDEN_AND_FILLED"
  | .IS_OPTIONAL_AND_EMPTY => "IS_OPTIONAL_AND_EMPTY" | .IS_OPTIONAL_AND_FILLED => "IS_OPTIONAL_AND_FILLED"

/-- requirement indicators after normalisation -/
inductive Ind | MUSS | SOLL | KANN | X | O | U
  deriving DecidableEq, Repr, Inhabited

def Ind.ofString? : String → Option Ind
  | "MUSS" => some .MUSS | "SOLL" => some .SOLL | "KANN" => some .KANN
  | "X" => some .X | "O" => some .O | "U" => some .U | _ => none

/-- outcome of one of the table functions -/
inductive TRes
  | val (v : RVV)
  | notImplemented
  | valueError
  | other
  deriving DecidableEq, Repr, Inhabited

end Ahbicht
