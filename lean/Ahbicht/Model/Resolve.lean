import Ahbicht.Model.Parse
/-!
# M-RES — package expansion (one level) and time-condition expansion on trees
-/
namespace Ahbicht

inductive ResErr | valueError | notImplemented | syntaxError
  deriving DecidableEq, Repr, Inhabited

/-- substitute leaves by trees -/
def Expr.bind (σ : Atom → Expr) : Expr → Expr
  | .leaf a => σ a
  | .bin o l r => .bin o (l.bind σ) (r.bind σ)

/-- `parse_repeatability` + the `Repeatability` validators on an ASCII `a..b`: `0 ≤ a ≤ b`, not both `0` -/
def repOk (rep : List Char) : Bool :=
  let a := rep.takeWhile (· != '.')
  let b := (rep.dropWhile (· != '.')).dropWhile (· == '.')
  let n := a.foldl (fun n c => 10 * n + (c.toNat - '0'.toNat)) 0
  let m := b.foldl (fun n c => 10 * n + (c.toNat - '0'.toNat)) 0
  n ≤ m && !(n == 0 && m == 0)

def Atom.pkgPair : Atom → Option (List Char × Option (List Char))
  | .pkg k r => some (k, r)
  | _ => none

/-- package occurrences of the tree, in document order -/
def pkgPairs (e : Expr) : List (List Char × Option (List Char)) := e.atoms.filterMap Atom.pkgPair

def badRep (kr : List Char × Option (List Char)) : Bool :=
  match kr.2 with
  | some r => !repOk r
  | none => false

def badBody (P : List Char → Option (List Char)) (kr : List Char × Option (List Char)) : Bool :=
  match P kr.1 with
  | some b => (parseCond b).isNone
  | none => false

/-- the three failure modes in the order the code meets them: a bad repeatability (raised synchronously while the tree is
transformed), then an unknown package, then a package body that is not a condition expression -/
def pkgFailure (P : List Char → Option (List Char)) (e : Expr) : Option ResErr :=
  if (pkgPairs e).any badRep then some .valueError
  else if (pkgPairs e).any (fun kr => (P kr.1).isNone) then some .notImplemented
  else if (pkgPairs e).any (badBody P) then some .syntaxError
  else none

/-- what a package leaf becomes -/
def pkgSubst (P : List Char → Option (List Char)) : Atom → Expr
  | .pkg k r => match (P k).bind parseCond with
    | some body => body
    | none => .leaf (.pkg k r)
  | a => .leaf a

def expandPkg (P : List Char → Option (List Char)) (e : Expr) : Except ResErr Expr :=
  match pkgFailure P e with
  | some err => .error err
  | none => .ok (e.bind (pkgSubst P))

/-- `[932][492]X[934][493]` as parsed -/
def ub3Tree : Expr :=
  .bin .xor_ (.bin .then_ (.leaf (.cond ['9','3','2'])) (.leaf (.cond ['4','9','2'])))
             (.bin .then_ (.leaf (.cond ['9','3','4'])) (.leaf (.cond ['4','9','3'])))

def timeSubst : Atom → Expr
  | .time ['U','B','1'] => .leaf (.cond ['9','3','2'])
  | .time ['U','B','2'] => .leaf (.cond ['9','3','4'])
  | .time ['U','B','3'] => ub3Tree
  | a => .leaf a

def expandTime (e : Expr) : Expr := e.bind timeSubst

/-- `parse_expression_including_unresolved_subexpressions` after parsing, on one condition tree -/
def resolveTree (P : List Char → Option (List Char)) (resolvePackages replaceTime : Bool) (e : Expr) : Except ResErr Expr := do
  let e₁ ← if resolvePackages then expandPkg P e else pure e
  pure (if replaceTime then expandTime e₁ else e₁)

end Ahbicht
