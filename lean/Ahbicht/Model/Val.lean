import Ahbicht.Generated.Validation
/-!
# M-VAL — `validation.py`: the recursive walk over a deep AHB

The model takes, for every node, the *result of evaluating its AHB expression* (`NodeRes`: the selected indicator and outcome,
or "invalid expression") — expression evaluation itself is the business of C04–C09 — and mirrors the five `validate_*`
functions with the three extracted tables.
-/
namespace Ahbicht
open Generated

/-- what validation uses of an `AhbExpressionEvaluationResult` -/
structure EvalRes where
  ind : Ind
  fulfilled : Option Bool
  hints : Option String
  fcOk : Bool
  fcMsg : Option String
  deriving DecidableEq, Repr, Inhabited

inductive NodeRes
  | invalid (msg : String)      -- InvalidExpressionError(error_message)
  | ok (r : EvalRes)
  deriving DecidableEq, Repr, Inhabited

structure PoolEntry where
  qualifier : String
  meaning : String
  res : NodeRes
  deriving DecidableEq, Repr, Inhabited

inductive DataElement
  | free (disc : String) (res : NodeRes) (input : Option String) (vtype : Option String)
  | pool (disc : String) (entries : List PoolEntry) (input : Option String)
  deriving Repr, Inhabited

structure Segment where
  disc : String
  res : NodeRes
  des : List DataElement
  deriving Repr, Inhabited

mutual
inductive Group
  | mk (disc : String) (res : NodeRes) (groups : Groups) (segs : List Segment)
inductive Groups
  | nil
  | cons (g : Group) (gs : Groups)
end

inductive VErr | notImplemented | valueError | other
  deriving DecidableEq, Repr, Inhabited

/-- one `ValidationResultInContext` -/
structure Out where
  disc : String
  isDataElement : Bool
  status : RVV
  hints : Option String
  fcOk : Option Bool
  fcMsg : Option String
  possible : Option (List (String × String))
  dtype : Option String
  deriving DecidableEq, Repr, Inhabited

def liftT : TRes → Except VErr RVV
  | .val v => .ok v
  | .notImplemented => .error .notImplemented
  | .valueError => .error .valueError
  | .other => .error .other

/-- the three table functions, as extracted -/
def mapOwn (fulfilled : Option Bool) (ind : Ind) (soll : Bool) : TRes :=
  match mapTable.find? (fun e => e.1 == fulfilled && e.2.1 == ind && e.2.2.1 == soll) with
  | some e => e.2.2.2
  | none => .other

def combine (parent : Option RVV) (child : RVV) : TRes :=
  match combineTable.find? (fun e => e.1 == parent && e.2.1 == child) with
  | some e => e.2.2
  | none => .other

def withSuffix (base : RVV) (filled : Bool) : TRes :=
  match suffixTable.find? (fun e => e.1 == base && e.2.1 == filled) with
  | some e => e.2.2
  | none => .other

def truthyStr : Option String → Bool | some s => s != "" | none => false

/-- `get_segment_level_requirement_validation_value` preceded by the forbidden-parent shortcut -/
def segLevel (res : NodeRes) (parent : Option RVV) (soll : Bool) : Except VErr (RVV × Option String) :=
  if parent = some .IS_FORBIDDEN then .ok (.IS_FORBIDDEN, none)
  else match res with
    | .invalid msg => .ok (.IS_OPTIONAL, some msg)
    | .ok r => do
      let own ← liftT (mapOwn r.fulfilled r.ind soll)
      let st ← liftT (combine parent own)
      pure (st, r.hints)

def segOut (disc : String) (st : RVV) (h : Option String) : Out :=
  ⟨disc, false, st, h, none, none, none, none⟩

/-- dict insertion: a repeated key keeps its position, takes the new value -/
def dictInsert (d : List (String × String)) (k v : String) : List (String × String) :=
  if d.any (·.1 == k) then d.map (fun kv => if kv.1 == k then (k, v) else kv) else d ++ [(k, v)]

def entryOffered (e : PoolEntry) : Bool :=
  match e.res with
  | .invalid _ => true
  | .ok r => r.fulfilled == some true

def offered (entries : List PoolEntry) (segStatus : RVV) : List (String × String) :=
  if segStatus = .IS_FORBIDDEN then []
  else match entries with
    | [e] => [(e.qualifier, e.meaning)]
    | es => (es.filter entryOffered).foldl (fun d e => dictInsert d e.qualifier e.meaning) []

def validateDataElement (de : DataElement) (segStatus : RVV) (soll : Bool) : Except VErr Out :=
  match de with
  | .free disc res input vtype =>
    match res with
    | .invalid msg => .ok ⟨disc, true, .IS_OPTIONAL, some msg, some true, none, none, some "TEXT"⟩
    | .ok r => do
      let own ← liftT (mapOwn r.fulfilled r.ind soll)
      let st ← liftT (combine (some segStatus) own)
      let st' ← liftT (withSuffix st (truthyStr input))
      pure ⟨disc, true, st', r.hints, some r.fcOk, r.fcMsg, none, some (vtype.getD "TEXT")⟩
  | .pool disc entries input =>
    let poss := offered entries segStatus
    if poss.isEmpty then .ok ⟨disc, true, .IS_FORBIDDEN, none, some true, none, some [], some "VALUE_POOL"⟩
    else if (match input with | some i => poss.any (·.1 == i) | none => false) then
      .ok ⟨disc, true, .IS_REQUIRED_AND_FILLED, none, some true, none, some poss, some "VALUE_POOL"⟩
    else if truthyStr input then
      .ok ⟨disc, true, .IS_REQUIRED_AND_EMPTY,
        some ("Der Wert '" ++ input.getD "" ++ "' ist nicht in: {" ++ ", ".intercalate (poss.map (·.1)) ++ "}"),
        some false, none, some poss, some "VALUE_POOL"⟩
    else .ok ⟨disc, true, .IS_REQUIRED_AND_EMPTY, none, some true, none, some poss, some "VALUE_POOL"⟩

def validateSegment (s : Segment) (parent : Option RVV) (soll : Bool) : Except VErr (List Out) := do
  let (st, h) ← segLevel s.res parent soll
  let des ← if st = .IS_FORBIDDEN then pure [] else s.des.mapM (fun de => validateDataElement de st soll)
  pure (segOut s.disc st h :: des)

mutual
def validateGroup (g : Group) (parent : Option RVV) (soll : Bool) : Except VErr (List Out) :=
  match g with
  | .mk disc res groups segs => do
    let (st, h) ← segLevel res parent soll
    if st = .IS_FORBIDDEN then pure [segOut disc st h]
    else do
      let gs ← validateGroups groups (some st) soll
      let ss ← segs.mapM (fun s => validateSegment s (some st) soll)
      pure (segOut disc st h :: (gs ++ ss.flatten))
def validateGroups (gs : Groups) (parent : Option RVV) (soll : Bool) : Except VErr (List Out) :=
  match gs with
  | .nil => pure []
  | .cons g rest => do
    let a ← validateGroup g parent soll
    let b ← validateGroups rest parent soll
    pure (a ++ b)
end

/-- `validate_deep_anwendungshandbuch` -/
def validateAhb (lines : Groups) (soll : Bool) : Except VErr (List Out) := validateGroups lines none soll

end Ahbicht
