import Ahbicht.Model.Time
/-!
# M-ISO — the notation of a datetime: `parse_as_datetime` (`datetime.fromisoformat` as the code uses it) on the extended ISO-8601 family

The modelled family of notations is `YYYY-MM-DD<sep>HH:MM:SS<offset>` with any one-character separator other than `Z`, whole seconds,
and `<offset>` one of `Z`, `±HH:MM`, `±HH:MM:SS`.  For a string of that shape the model says which fields it denotes (`ok`), or that a
field is out of range (`invalid`: the code must answer "unfulfilled" with a message, never raise).  Everything else is `unmodelled`
here (basic format, week dates, fractions of a second, missing offset …) and is judged on the implementation only.

Ranges as CPython 3.12 enforces them: year 1 … 9999, month 1 … 12, day within the month (Gregorian leap years), hour < 24,
minute < 60, second < 60; the fields of the *offset* are not checked one by one, only their total must stay below 24 h
(`+01:75` is read as +02:15).
-/
namespace Ahbicht

def digitVal (c : Char) : Option Nat :=
  if 48 ≤ c.toNat ∧ c.toNat ≤ 57 then some (c.toNat - 48) else none

def num2 (a b : Char) : Option Nat :=
  match digitVal a, digitVal b with
  | some x, some y => some (10 * x + y)
  | _, _ => none

def num4 (a b c d : Char) : Option Nat :=
  match num2 a b, num2 c d with
  | some x, some y => some (100 * x + y)
  | _, _ => none

def isLeapYear (y : Nat) : Bool := y % 4 == 0 && (y % 100 != 0 || y % 400 == 0)

def daysInMonth (y m : Nat) : Nat :=
  if m == 2 then (if isLeapYear y then 29 else 28)
  else if m == 4 || m == 6 || m == 9 || m == 11 then 30 else 31

inductive IsoResult
  | ok (w : Written)
  | invalid
  | unmodelled
  deriving DecidableEq, Repr

/-- the offset part: `none` = not one of the three modelled shapes; `some none` = shape fits, total is 24 h or more -/
def offsetTotal (sign : Char) (h m s : Nat) : Option (Option Int) :=
  let total := h * 3600 + m * 60 + s
  if sign = '+' then some (if total < 86400 then some (Int.ofNat total) else none)
  else if sign = '-' then some (if total < 86400 then some (- Int.ofNat total) else none)
  else none

def parseOffset : List Char → Option (Option Int)
  | ['Z'] => some (some 0)
  | [sg, h1, h2, ':', m1, m2] =>
    match num2 h1 h2, num2 m1 m2 with
    | some h, some m => offsetTotal sg h m 0
    | _, _ => none
  | [sg, h1, h2, ':', m1, m2, ':', s1, s2] =>
    match num2 h1 h2, num2 m1 m2, num2 s1 s2 with
    | some h, some m, some s => offsetTotal sg h m s
    | _, _, _ => none
  | _ => none

/-- the range checks of `datetime(...)` -/
def fieldsValid (y mo d h mi s : Nat) : Bool :=
  1 ≤ y && 1 ≤ mo && mo ≤ 12 && 1 ≤ d && d ≤ daysInMonth y mo && h < 24 && mi < 60 && s < 60

def assemble (y mo d h mi s : Option Nat) (off : Option (Option Int)) : IsoResult :=
  match y, mo, d, h, mi, s, off with
  | some y, some mo, some d, some h, some mi, some s, some off =>
    if fieldsValid y mo d h mi s then
      match off with
      | some o => .ok ⟨Int.ofNat y, Int.ofNat mo, Int.ofNat d, Int.ofNat h, Int.ofNat mi, Int.ofNat s, o⟩
      | none => .invalid
    else .invalid
  | _, _, _, _, _, _, _ => .unmodelled

def parseIsoChars : List Char → IsoResult
  | y1 :: y2 :: y3 :: y4 :: c4 :: mo1 :: mo2 :: c7 :: d1 :: d2 :: sep :: h1 :: h2 :: c13 :: mi1 :: mi2 :: c16 :: s1 :: s2 :: rest =>
    if c4 = '-' ∧ c7 = '-' ∧ c13 = ':' ∧ c16 = ':' ∧ sep ≠ 'Z' then
      assemble (num4 y1 y2 y3 y4) (num2 mo1 mo2) (num2 d1 d2) (num2 h1 h2) (num2 mi1 mi2) (num2 s1 s2) (parseOffset rest)
    else .unmodelled
  | _ => .unmodelled

def parseIso (s : String) : IsoResult := parseIsoChars s.toList

/-! ## writing a datetime -/
def digitChar (n : Nat) : Char := Char.ofNat (48 + n % 10)
def show2 (n : Nat) : List Char := [digitChar (n / 10), digitChar n]
def show4 (n : Nat) : List Char := show2 (n / 100) ++ show2 (n % 100)

inductive OffStyle
  | zulu      -- `Z`            (only for offset 0)
  | short     -- `±HH:MM`       (only for whole minutes)
  | long      -- `±HH:MM:SS`
  | negZero   -- `-00:00`       (only for offset 0)
  deriving DecidableEq, Repr

def showOffset (st : OffStyle) (off : Int) : List Char :=
  let a := off.natAbs
  let sg : Char := if off < 0 then '-' else '+'
  match st with
  | .zulu => ['Z']
  | .negZero => ['-', '0', '0', ':', '0', '0']
  | .short => sg :: (show2 (a / 3600) ++ ':' :: show2 (a % 3600 / 60))
  | .long => sg :: (show2 (a / 3600) ++ ':' :: (show2 (a % 3600 / 60) ++ ':' :: show2 (a % 60)))

def styleFits (st : OffStyle) (off : Int) : Bool :=
  match st with
  | .zulu => off == 0
  | .negZero => off == 0
  | .short => off.natAbs % 60 == 0
  | .long => true

def renderIso (sep : Char) (st : OffStyle) (w : Written) : List Char :=
  show4 w.y.toNat ++ '-' :: (show2 w.m.toNat ++ '-' :: (show2 w.d.toNat ++ sep :: (show2 w.hh.toNat ++ ':' ::
    (show2 w.mm.toNat ++ ':' :: (show2 w.ss.toNat ++ showOffset st w.off)))))

/-- a written datetime the code accepts: fields in range, offset strictly inside ±24 h -/
def Written.valid (w : Written) : Bool :=
  0 ≤ w.y && w.y ≤ 9999 && 0 ≤ w.m && 0 ≤ w.d && 0 ≤ w.hh && 0 ≤ w.mm && 0 ≤ w.ss &&
  fieldsValid w.y.toNat w.m.toNat w.d.toNat w.hh.toNat w.mm.toNat w.ss.toNat && -86400 < w.off && w.off < 86400

/-! ## the verdicts at string level -/
structure Verdict where
  fulfilled : Bool
  hasMessage : Bool
  deriving DecidableEq, Repr

/-- `is_xtag_limit` / `has_no_utc_offset` on a string of the modelled family (`none`: outside the family) -/
def judgeWith (f : Written → Bool) (cs : List Char) : Option Verdict :=
  match parseIsoChars cs with
  | .ok w => some ⟨f w, !f w⟩
  | .invalid => some ⟨false, true⟩
  | .unmodelled => none

def judgeStrom := judgeWith isStromtagLimit
def judgeGas := judgeWith isGastagLimit
def judge931 := judgeWith hasNoUtcOffset

/-! ## writing an instant with a given offset (the inverse direction: every instant × every offset has its writings) -/
/-- proleptic Gregorian date of a day number (Hinnant's `civil_from_days`), the inverse of `daysFromCivil` -/
def civilFromDays (z0 : Int) : Int × Int × Int :=
  let z := z0 + 719468
  let era := (if z ≥ 0 then z else z - 146096) / 146097
  let doe := z - era * 146097
  let yoe := (doe - doe / 1460 + doe / 36524 - doe / 146096) / 365
  let y := yoe + era * 400
  let doy := doe - (365 * yoe + yoe / 4 - yoe / 100)
  let mp := (5 * doy + 2) / 153
  let d := doy - (153 * mp + 2) / 5 + 1
  let m := if mp < 10 then mp + 3 else mp - 9
  (if m ≤ 2 then y + 1 else y, m, d)

/-- the datetime that denotes UTC second `t` when written with UTC offset `off` (what `datetime.astimezone(timezone(off))` shows) -/
def writeInstant (t off : Int) : Written :=
  let loc := t + off
  let c := civilFromDays (loc / 86400)
  let sod := loc % 86400
  ⟨c.1, c.2.1, c.2.2, sod / 3600, sod % 3600 / 60, sod % 60, off⟩

end Ahbicht
