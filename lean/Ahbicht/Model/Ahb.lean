import Ahbicht.Model.Parse
/-!
# M-AHB — splitting an AHB expression into its parts, and the combined resolver (parse level)

`scanAhb` is the deterministic scanner equivalent to the Earley parser of `ahb_expression_parser.py`
over its three regex terminals (no `%ignore`):
`MODAL_MARK = /M(uss)?|S(oll)?|K(ann)?/i`, `PREFIX_OPERATOR = "X"i|"O"i|"U"i`,
`CONDITION_EXPRESSION = /(?!\BU\B)[\[\]\(\)U∧O∨X⊻\d\sP\.UB]+/i` (maximal munch, as Lark's dynamic lexer takes the
regex's own greedy match).  Character classes are the extracted ones.
-/
namespace Ahbicht
open Generated

inductive IndKind | modal | prefix_
  deriving DecidableEq, Repr, Inhabited

/-- one part: indicator as written, condition text as written (`none` for a bare indicator) -/
structure Part where
  kind : IndKind
  ind : List Char
  cond : Option (List Char)
  deriving DecidableEq, Repr, Inhabited

def matches3 (a b c : List (Nat × Nat)) : List Char → Bool
  | x :: y :: z :: _ => inRanges a x && inRanges b y && inRanges c z
  | _ => false

/-- `MODAL_MARK` at the head of the input: the matched text and the rest -/
def modalMark : List Char → Option (List Char × List Char)
  | [] => none
  | c :: cs =>
    if inRanges cc_mm_up_M c then
      if matches3 cc_mm_lo_u cc_mm_lo_s cc_mm_lo_s cs then some (c :: cs.take 3, cs.drop 3) else some ([c], cs)
    else if inRanges cc_mm_up_S c then
      if matches3 cc_mm_lo_o cc_mm_lo_l cc_mm_lo_l cs then some (c :: cs.take 3, cs.drop 3) else some ([c], cs)
    else if inRanges cc_mm_up_K c then
      if matches3 cc_mm_lo_a cc_mm_lo_n cc_mm_lo_n cs then some (c :: cs.take 3, cs.drop 3) else some ([c], cs)
    else none

/-- `CONDITION_EXPRESSION` at the head of the input (the previous character is always a letter, so `\B`
before `U` holds; the look-ahead blocks iff the text starts with `U`/`u` followed by a word character) -/
def condExpr (cs : List Char) : Option (List Char × List Char) :=
  let blocked := match cs with
    | c :: d :: _ => isFoldU c && isWordChar d
    | _ => false
  if blocked then none
  else
    let m := cs.takeWhile isAhbCondChar
    if m.isEmpty then none else some (m, cs.dropWhile isAhbCondChar)

/-- `(MODAL_MARK CONDITION_EXPRESSION)+ MODAL_MARK?` ; `fuel` bounds the number of parts (≤ length) -/
def scanModal : Nat → List Char → Option (List Part)
  | 0, _ => none
  | fuel + 1, cs =>
    match modalMark cs with
    | none => none
    | some (mm, rest) =>
      if rest.isEmpty then some [⟨.modal, mm, none⟩]
      else match condExpr rest with
        | none => none
        | some (ce, rest') =>
          if rest'.isEmpty then some [⟨.modal, mm, some ce⟩]
          else (scanModal fuel rest').map (⟨.modal, mm, some ce⟩ :: ·)

def scanAhb (cs : List Char) : Option (List Part) :=
  match cs with
  | [] => none
  | c :: rest =>
    if isPrefixOp c then
      if rest.isEmpty then some [⟨.prefix_, [c], none⟩]
      else match condExpr rest with
        | some (ce, []) => some [⟨.prefix_, [c], some ce⟩]
        | _ => none
    else
      match scanModal (cs.length + 1) cs with
      | some ps =>
        -- a bare modal mark is only allowed as the whole expression or as the last part
        if (ps.dropLast.all fun p => p.cond.isSome) then some ps else none
      | none => none

/-- result of the combined parser, default flags apart from resolution (done separately) -/
inductive Resolved
  | ahb (parts : List (Part × Option Expr))    -- bare indicators carry `none`
  | cond (e : Expr)
  | syntaxError
  deriving Repr

def resolveParse (cs : List Char) : Resolved :=
  match scanAhb cs with
  | some ps =>
    let parsed := ps.map fun p => (p, p.cond.bind parseCond)
    if parsed.all (fun pe => pe.1.cond.isNone || pe.2.isSome) then .ahb parsed
    else
      -- the SyntaxError of the inner condition parser triggers the fall-back
      match parseCond cs with
      | some e => .cond e
      | none => .syntaxError
  | none =>
    match parseCond cs with
    | some e => .cond e
    | none => .syntaxError

end Ahbicht
