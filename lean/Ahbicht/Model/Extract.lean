import Ahbicht.Model.Keys
/-!
# M-KEYS (part 2) — `CategorizedKeyExtract`: categorisation, sanitising, enumeration of possible content evaluation results
-/
namespace Ahbicht

structure KeyExtract where
  hint : List (List Char)
  fc : List (List Char)
  rc : List (List Char)
  pkg : List (List Char)
  time : List (List Char)
  deriving DecidableEq, Repr, Inhabited

/-- `extract_categorized_keys_from_tree` without sanitising; `none` = a condition key outside every range (`ValueError`) -/
def extractRaw (e : Expr) : Option KeyExtract :=
  if (condKeys e).all (fun k => (catOf k).isSome) then
    some {
      hint := (condKeys e).filter (fun k => catOf k == some .hint)
      fc := (condKeys e).filter (fun k => catOf k == some .fc)
      rc := (condKeys e).filter (fun k => catOf k == some .rc)
      pkg := pkgKeys e
      time := timeKeys e }
  else none

/-- keep the first occurrence of every element -/
def dedupKeys {α : Type} [DecidableEq α] : List α → List α
  | [] => []
  | x :: xs => x :: (dedupKeys xs).filter (· ≠ x)

/-- insertion sort by a numeric key -/
def insertBy {α : Type} (f : α → Nat) (x : α) : List α → List α
  | [] => [x]
  | y :: ys => if f x ≤ f y then x :: y :: ys else y :: insertBy f x ys

def sortBy {α : Type} (f : α → Nat) : List α → List α
  | [] => []
  | x :: xs => insertBy f x (sortBy f xs)

/-- lexicographic order on strings (`list.sort()` of package / time keys) -/
def lexLe : List Char → List Char → Bool
  | [], _ => true
  | _ :: _, [] => false
  | a :: as, b :: bs => a.toNat < b.toNat || (a == b && lexLe as bs)

def insertLex (x : List Char) : List (List Char) → List (List Char)
  | [] => [x]
  | y :: ys => if lexLe x y then x :: y :: ys else y :: insertLex x ys

def sortLex : List (List Char) → List (List Char)
  | [] => []
  | x :: xs => insertLex x (sortLex xs)

/-- `sanitize()`: remove duplicates, sort condition keys numerically, package and time keys as strings -/
def KeyExtract.sanitize (x : KeyExtract) : KeyExtract :=
  { hint := sortBy digitsToNat (dedupKeys x.hint)
    fc := sortBy digitsToNat (dedupKeys x.fc)
    rc := sortBy digitsToNat (dedupKeys x.rc)
    pkg := sortLex (dedupKeys x.pkg)
    time := sortLex (dedupKeys x.time) }

/-- `__add__` -/
def KeyExtract.add (a b : KeyExtract) : KeyExtract :=
  KeyExtract.sanitize
    { hint := a.hint ++ b.hint, fc := a.fc ++ b.fc, rc := a.rc ++ b.rc, pkg := a.pkg ++ b.pkg, time := a.time ++ b.time }

/-! ## enumeration of possible content evaluation results, modelled as written -/

/-- `itertools.combinations(l, n)` in its order -/
def combos {α : Type} : Nat → List α → List (List α)
  | 0, _ => [[]]
  | _ + 1, [] => []
  | n + 1, x :: xs => (combos n xs).map (x :: ·) ++ combos (n + 1) xs

/-- `itertools.product(keys, values)` -/
def pairs {α β : Type} (keys : List α) (vals : List β) : List (α × β) :=
  keys.flatMap fun k => vals.map fun v => (k, v)

/-- the generator expression: combinations of the product, keeping those whose first components are pairwise distinct
(`len({y[0] for y in z}) == len(keys)`) -/
def assignments {α β : Type} [DecidableEq α] (keys : List α) (vals : List β) : List (List (α × β)) :=
  (combos keys.length (pairs keys vals)).filter fun z => (dedupKeys (z.map (·.1))).length == keys.length

/-- the specification: one value per key, keys in order -/
def productSpec {α β : Type} : List α → List β → List (List (α × β))
  | [], _ => [[]]
  | k :: ks, vals => vals.flatMap fun v => (productSpec ks vals).map ((k, v) :: ·)

/-- `generate_possible_content_evaluation_results`: (fc assignment, rc assignment); `[]` when there is no key at all;
NEUTRAL requirement states are filtered afterwards -/
def genResults (fcKeys rcKeys : List (List Char)) : List (List (List Char × Bool) × List (List Char × CFV)) :=
  if fcKeys.isEmpty && rcKeys.isEmpty then []
  else
    let fcs := if fcKeys.isEmpty then [[]] else assignments fcKeys [true, false]
    let rcs := if rcKeys.isEmpty then [[]] else assignments rcKeys [CFV.F, CFV.U, CFV.K, CFV.N]
    (fcs.flatMap fun f => rcs.map fun r => (f, r)).filter fun fr => fr.2.all (fun kv => kv.2 != CFV.N)

end Ahbicht
