/-!
# Expressions: atoms, binary trees as produced by the parser, and the n-ary flattening `flat`

`Expr` mirrors the Lark trees of `condition_expression_parser.py`:
`or_composition`, `xor_composition`, `and_composition`, `then_also_composition` with two children,
`condition [CONDITION_KEY]`, `package [PACKAGE_KEY, REPEATABILITY?]`, `time_condition [TIME_CONDITION_KEY]`.
-/
namespace Ahbicht

/-- binary operators in ascending binding strength -/
inductive Op | or_ | xor_ | and_ | then_
  deriving DecidableEq, Repr, Inhabited

def Op.prec : Op → Nat | .or_ => 0 | .xor_ => 1 | .and_ => 2 | .then_ => 3

def Op.ruleName : Op → String
  | .or_ => "or_composition" | .xor_ => "xor_composition" | .and_ => "and_composition" | .then_ => "then_also_composition"

/-- leaves; keys are kept as the character strings the source contains (`"007"` ≠ `"7"`) -/
inductive Atom
  | cond (key : List Char)                       -- `[123]`
  | pkg (key : List Char) (rep : Option (List Char))  -- `[123P]`, `[123P0..1]`; `key` includes the trailing `P`
  | time (key : List Char)                       -- `[UB1]`
  deriving DecidableEq, Repr, Inhabited

inductive Expr
  | leaf (a : Atom)
  | bin (op : Op) (l r : Expr)
  deriving DecidableEq, Repr, Inhabited

/-- n-ary normal form: runs of one operator are merged -/
inductive NExpr
  | leaf (a : Atom)
  | node (op : Op) (args : List NExpr)
  deriving Repr, Inhabited

def NExpr.argsFor (op : Op) : NExpr → List NExpr
  | .node op' as => if op' = op then as else [.node op' as]
  | e => [e]

def Expr.flat : Expr → NExpr
  | .leaf a => .leaf a
  | .bin op l r => .node op (l.flat.argsFor op ++ r.flat.argsFor op)

def Expr.size : Expr → Nat
  | .leaf _ => 1
  | .bin _ l r => l.size + r.size + 1

def Expr.atoms : Expr → List Atom
  | .leaf a => [a]
  | .bin _ l r => l.atoms ++ r.atoms

end Ahbicht
