import Ahbicht.Model.Expr
import Ahbicht.Model.Chars
/-!
# M-LEX — tokens of the condition-expression grammar

A deterministic scanner (one character at a time) for the terminals of the Lark grammar of
`condition_expression_parser.py`; whitespace (`%ignore WS`) may stand between any two terminals,
never inside one.  A bracketed atom `[ … ]` is delivered as one token.
-/
namespace Ahbicht

inductive Op3 | or_ | xor_ | and_
  deriving DecidableEq, Repr, Inhabited

def Op3.toOp : Op3 → Op | .or_ => .or_ | .xor_ => .xor_ | .and_ => .and_

inductive Tok
  | atom (a : Atom)
  | op (o : Op3)
  | lp | rp
  deriving DecidableEq, Repr, Inhabited

/-- scanner states; accumulated characters are kept in reverse -/
inductive LState
  | out                                        -- between tokens
  | open_                                      -- after `[`, before the key (whitespace allowed)
  | digits (ds : List Char)                    -- reading `INT`
  | ub1 | ub2                                  -- after `U`, after `UB`
  | afterPkg (key : List Char)                 -- after `INT P`
  | repMin (key ds : List Char)                -- reading `\d+` of a repeatability
  | repDot (key ds : List Char)                -- after the first `.`
  | repDots (key ds : List Char)               -- after `..`
  | repMax (key ds : List Char)                -- after `[1-9]`, reading `\d*`
  | close (a : Atom)                           -- atom complete, waiting for `]`
  deriving Repr, DecidableEq

/-- one scanner step: new state and the token completed by this character, if any -/
def lexStep : LState → Char → Option (LState × Option Tok)
  | .out, c =>
    if isWs c then some (.out, none)
    else if isLsqb c then some (.open_, none)
    else if isLpar c then some (.out, some .lp)
    else if isRpar c then some (.out, some .rp)
    else if isOpOr c then some (.out, some (.op .or_))
    else if isOpXor c then some (.out, some (.op .xor_))
    else if isOpAnd c then some (.out, some (.op .and_))
    else none
  | .open_, c =>
    if isWs c then some (.open_, none)
    else if isIntDigit c then some (.digits [c], none)
    else if c = 'U' then some (.ub1, none)
    else none
  | .digits ds, c =>
    if isIntDigit c then some (.digits (c :: ds), none)
    else if c = 'P' then some (.afterPkg (c :: ds).reverse, none)
    else if isWs c then some (.close (.cond ds.reverse), none)
    else if isRsqb c then some (.out, some (.atom (.cond ds.reverse)))
    else none
  | .ub1, c => if c = 'B' then some (.ub2, none) else none
  | .ub2, c =>
    if c = '1' ∨ c = '2' ∨ c = '3' then some (.close (.time ['U', 'B', c]), none) else none
  | .afterPkg key, c =>
    if isWs c then some (.afterPkg key, none)
    else if isUniDigit c then some (.repMin key [c], none)
    else if isRsqb c then some (.out, some (.atom (.pkg key none)))
    else none
  | .repMin key ds, c =>
    if isUniDigit c then some (.repMin key (c :: ds), none)
    else if c = '.' then some (.repDot key (c :: ds), none)
    else none
  | .repDot key ds, c => if c = '.' then some (.repDots key (c :: ds), none) else none
  | .repDots key ds, c => if isRepFirstMax c then some (.repMax key (c :: ds), none) else none
  | .repMax key ds, c =>
    if isUniDigit c then some (.repMax key (c :: ds), none)
    else if isWs c then some (.close (.pkg key (some ds.reverse)), none)
    else if isRsqb c then some (.out, some (.atom (.pkg key (some ds.reverse))))
    else none
  | .close a, c =>
    if isWs c then some (.close a, none)
    else if isRsqb c then some (.out, some (.atom a))
    else none

/-- run the scanner; tokens are collected in order -/
def lexFrom : LState → List Char → Option (LState × List Tok)
  | s, [] => some (s, [])
  | s, c :: cs =>
    match lexStep s c with
    | none => none
    | some (s', t) =>
      match lexFrom s' cs with
      | none => none
      | some (s'', ts) => some (s'', match t with | some t => t :: ts | none => ts)

def lex (cs : List Char) : Option (List Tok) :=
  match lexFrom .out cs with
  | some (.out, ts) => some ts
  | _ => none

end Ahbicht
