import Ahbicht.Model.AhbEval
import Ahbicht.Model.Resolve
import Ahbicht.Model.Val
/-!
# M-FULL — validation end to end: expression *texts* in, validation results out

`Model/Val.lean` takes the evaluation result of every node's expression as given.  Here the nodes carry the expression text, as
the MAUS objects do, and the walk calls an evaluator exactly where `validation.py` calls
`parse_expression_including_unresolved_subexpressions(…, resolve_packages=True)` + `evaluate_ahb_expression_tree`:

* not at all below a forbidden parent, and not for the single entry of a one-entry value pool;
* for the entries of a larger pool one after the other, the first failure aborting;
* `InvalidExpressionError` is caught at the node, every other failure aborts the run.

`nodeRes` is that evaluator built from the models of C02/C09 (scanner, parser), C10 (resolution), C04–C09 (evaluation).
`Lemmas/Full.lean` shows that for an evaluator that never fails the walk is `validateAhb` of `Model/Val.lean` on the tree of
evaluated nodes, so the theorems of C13–C17 speak about this model too.
-/
namespace Ahbicht

/-- the content evaluation result the evaluators read -/
structure Cer where
  rc : List Char → Option CFV
  hints : List Char → Option String
  fc : FcEnv
  pkg : List Char → Option (List Char)

def resErr : ResErr → VErr
  | .valueError => .valueError
  | .notImplemented => .notImplemented
  | .syntaxError => .other

def evalErr : EvalErr → VErr
  | .notImplemented => .notImplemented
  | .valueError => .valueError
  | _ => .other

/-- package occurrences of all parts, in document order (the resolver transforms the whole AHB tree at once) -/
def partsPkgPairs (parts : List (Part × Option Expr)) : List (List Char × Option (List Char)) :=
  parts.flatMap fun pe => match pe.2 with | some e => pkgPairs e | none => []

/-- `resolve_packages=True, replace_time_conditions=True` on a parsed AHB expression -/
def resolveParts (P : List Char → Option (List Char)) (parts : List (Part × Option Expr)) :
    Except ResErr (List (Part × Option Expr)) :=
  let pairs := partsPkgPairs parts
  if pairs.any badRep then .error .valueError
  else if pairs.any (fun kr => (P kr.1).isNone) then .error .notImplemented
  else if pairs.any (badBody P) then .error .syntaxError
  else .ok (parts.map fun pe => (pe.1, pe.2.map fun e => expandTime (e.bind (pkgSubst P))))

def evalResOf (r : AhbResult) : Except VErr NodeRes :=
  match Ind.ofString? r.indicator with
  | some ind => .ok (.ok ⟨ind, r.rc.fulfilled, r.rc.hints, r.fc.ok, r.fc.msg⟩)
  | none => .error .other

/-- what a validation function learns about a node from its expression text (the text of the caught `InvalidExpressionError`
is not modelled: `invalid ""`) -/
def nodeRes (cer : Cer) (text : List Char) : Except VErr NodeRes :=
  match resolveParse text with
  | .ahb parts =>
    match resolveParts cer.pkg parts with
    | .error e => .error (resErr e)
    | .ok parts' =>
      match evalAhb cer.rc cer.hints cer.fc parts' with
      | .ok r => evalResOf r
      | .error .invalidExpr => .ok (.invalid "")
      | .error e => .error (evalErr e)
  | .cond _ => .error .other        -- a bare condition expression is not an AHB expression: the evaluator fails
  | .syntaxError => .error .other   -- SyntaxError

/-! ## the walk over text-carrying nodes -/

/-- an evaluator of expression texts; the second argument is the entered input the format constraints see -/
abbrev Ev := List Char → Option String → Except VErr NodeRes

inductive DataElementT
  | free (disc : String) (expr : List Char) (input : Option String) (vtype : Option String)
  | pool (disc : String) (entries : List (String × String × List Char)) (input : Option String)
  deriving Repr, Inhabited

structure SegmentT where
  disc : String
  expr : List Char
  des : List DataElementT
  deriving Repr, Inhabited

mutual
inductive GroupT
  | mk (disc : String) (expr : List Char) (groups : GroupsT) (segs : List SegmentT)
inductive GroupsT
  | nil
  | cons (g : GroupT) (gs : GroupsT)
end

def segLevelT (ev : Ev) (expr : List Char) (parent : Option RVV) (soll : Bool) : Except VErr (RVV × Option String) :=
  if parent = some .IS_FORBIDDEN then .ok (.IS_FORBIDDEN, none)
  else do
    let res ← ev expr none
    segLevel res parent soll

/-- the entries of a pool become `PoolEntry`s: evaluated one after the other unless the segment is forbidden or the pool has one entry -/
def poolEntriesT (ev : Ev) (entries : List (String × String × List Char)) (segStatus : RVV) (input : Option String) :
    Except VErr (List PoolEntry) :=
  if segStatus = .IS_FORBIDDEN then .ok (entries.map fun e => ⟨e.1, e.2.1, .invalid ""⟩)   -- not looked at by `offered`
  else match entries with
    | [e] => .ok [⟨e.1, e.2.1, .invalid ""⟩]                                              -- offered without evaluation
    | es => es.mapM fun e => do
        let res ← ev e.2.2 input
        pure ⟨e.1, e.2.1, res⟩

def validateDataElementT (ev : Ev) (de : DataElementT) (segStatus : RVV) (soll : Bool) : Except VErr Out :=
  match de with
  | .free disc expr input vtype => do
    let res ← ev expr input
    validateDataElement (.free disc res input vtype) segStatus soll
  | .pool disc entries input => do
    let es ← poolEntriesT ev entries segStatus input
    validateDataElement (.pool disc es input) segStatus soll

def validateSegmentT (ev : Ev) (s : SegmentT) (parent : Option RVV) (soll : Bool) : Except VErr (List Out) := do
  let (st, h) ← segLevelT ev s.expr parent soll
  let des ← if st = .IS_FORBIDDEN then pure [] else s.des.mapM (fun de => validateDataElementT ev de st soll)
  pure (segOut s.disc st h :: des)

mutual
def validateGroupT (ev : Ev) (g : GroupT) (parent : Option RVV) (soll : Bool) : Except VErr (List Out) :=
  match g with
  | .mk disc expr groups segs => do
    let (st, h) ← segLevelT ev expr parent soll
    if st = .IS_FORBIDDEN then pure [segOut disc st h]
    else do
      let gs ← validateGroupsT ev groups (some st) soll
      let ss ← segs.mapM (fun s => validateSegmentT ev s (some st) soll)
      pure (segOut disc st h :: (gs ++ ss.flatten))
def validateGroupsT (ev : Ev) (gs : GroupsT) (parent : Option RVV) (soll : Bool) : Except VErr (List Out) :=
  match gs with
  | .nil => pure []
  | .cons g rest => do
    let a ← validateGroupT ev g parent soll
    let b ← validateGroupsT ev rest parent soll
    pure (a ++ b)
end

/-- `validate_deep_anwendungshandbuch` on the expression texts, under a content evaluation result -/
def validateAhbFull (cer : Cer) (lines : GroupsT) (soll : Bool) : Except VErr (List Out) :=
  validateGroupsT (fun text _ => nodeRes cer text) lines none soll

end Ahbicht
