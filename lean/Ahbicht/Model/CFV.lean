/-!
# M-CFV — the four condition states and the three operators, in the README's words

`ConditionFulfilledValue` of `src/ahbicht/models/condition_nodes.py`.
`F` FULFILLED, `U` UNFULFILLED, `K` UNKNOWN, `N` NEUTRAL.
The hand-written operators below are the *specification*; what the code does is extracted on
every run into `Ahbicht/Generated/Cfv.lean` and related to these in `Properties/C03.lean`.
-/
namespace Ahbicht

inductive CFV | F | U | K | N
  deriving DecidableEq, Repr, Inhabited

namespace CFV

def all : List CFV := [F, U, K, N]

def toString : CFV → String
  | F => "FULFILLED" | U => "UNFULFILLED" | K => "UNKNOWN" | N => "NEUTRAL"

def ofString? : String → Option CFV
  | "FULFILLED" => some F | "UNFULFILLED" => some U | "UNKNOWN" => some K | "NEUTRAL" => some N
  | _ => none

/-- Kleene conjunction with `N` as identity. -/
def and : CFV → CFV → CFV
  | x, N => x
  | N, y => y
  | U, _ => U
  | _, U => U
  | K, _ => K
  | _, K => K
  | F, F => F

/-- Kleene disjunction with `N` as identity. -/
def or : CFV → CFV → CFV
  | x, N => x
  | N, y => y
  | F, _ => F
  | _, F => F
  | K, _ => K
  | _, K => K
  | U, U => U

/-- exclusive or, `K` absorbing among the non-neutral values, `N` identity. -/
def xor : CFV → CFV → CFV
  | x, N => x
  | N, y => y
  | K, _ => K
  | _, K => K
  | F, F => U
  | U, U => U
  | F, U => F
  | U, F => F

/-- quantifiers over the four states are decidable (core Lean has no `Fintype`) -/
instance decForall {p : CFV → Prop} [DecidablePred p] : Decidable (∀ a, p a) :=
  decidable_of_iff (p F ∧ p U ∧ p K ∧ p N)
    ⟨fun ⟨a, b, c, d⟩ x => by cases x <;> assumption, fun h => ⟨h _, h _, h _, h _⟩⟩

instance decExists {p : CFV → Prop} [DecidablePred p] : Decidable (∃ a, p a) :=
  decidable_of_iff (p F ∨ p U ∨ p K ∨ p N)
    ⟨fun h => by
        rcases h with h | h | h | h
        · exact ⟨_, h⟩
        · exact ⟨_, h⟩
        · exact ⟨_, h⟩
        · exact ⟨_, h⟩,
     fun ⟨x, h⟩ => by
        cases x
        · exact Or.inl h
        · exact Or.inr (Or.inl h)
        · exact Or.inr (Or.inr (Or.inl h))
        · exact Or.inr (Or.inr (Or.inr h))⟩

/-- `a'` resolves `a`: UNKNOWN may become FULFILLED or UNFULFILLED, everything else stays. -/
def Refines (a' a : CFV) : Prop := if a = K then (a' = F ∨ a' = U) else a' = a

instance (a' a : CFV) : Decidable (Refines a' a) := by unfold Refines; infer_instance

/-- Boolean embedding -/
def ofBool : Bool → CFV | true => F | false => U

end CFV
end Ahbicht
