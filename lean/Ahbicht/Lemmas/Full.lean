import Ahbicht.Model.Full
/-!
# The end-to-end walk is the table walk on the evaluated tree

For an evaluator that never fails, `validateGroupsT` (Model/Full.lean, nodes carry expression texts) equals `validateGroups`
(Model/Val.lean, nodes carry evaluation results) on the tree in which every expression has been replaced by its evaluation.
All theorems of C13–C17 about `validateAhb` therefore hold for the end-to-end model.
-/
namespace Ahbicht

/-- a total evaluator -/
abbrev EvT := List Char → Option String → NodeRes

def DataElementT.eval (f : EvT) : DataElementT → DataElement
  | .free d e i v => .free d (f e i) i v
  | .pool d es i => .pool d (es.map fun e => ⟨e.1, e.2.1, f e.2.2 i⟩) i

def SegmentT.eval (f : EvT) (s : SegmentT) : Segment := ⟨s.disc, f s.expr none, s.des.map (DataElementT.eval f)⟩

mutual
def GroupT.eval (f : EvT) : GroupT → Group
  | .mk d e gs ss => .mk d (f e none) (GroupsT.eval f gs) (ss.map (SegmentT.eval f))
def GroupsT.eval (f : EvT) : GroupsT → Groups
  | .nil => .nil
  | .cons g gs => .cons (GroupT.eval f g) (GroupsT.eval f gs)
end

def okEv (f : EvT) : Ev := fun t i => .ok (f t i)

/-! ## helpers: `List.mapM` in `Except`, pools, segment level -/

theorem mapM_ok_eq {α β : Type} (g : α → Except VErr β) (h : α → β) (l : List α)
    (H : ∀ a ∈ l, g a = .ok (h a)) : l.mapM g = .ok (l.map h) := by
  induction l with
  | nil => rfl
  | cons a l ih =>
    have h1 : g a = .ok (h a) := H a (by simp)
    have h2 : l.mapM g = .ok (l.map h) := ih (fun b hb => H b (by simp [hb]))
    simp [List.mapM_cons, h1, h2, bind, Except.bind, pure, Except.pure]

theorem mapM_congr_mem {α β : Type} (g h : α → Except VErr β) (l : List α)
    (H : ∀ a ∈ l, g a = h a) : l.mapM g = l.mapM h := by
  induction l with
  | nil => rfl
  | cons a l ih =>
    have h1 : g a = h a := H a (by simp)
    have h2 : l.mapM g = l.mapM h := ih (fun b hb => H b (by simp [hb]))
    simp [List.mapM_cons, h1, h2]

/-- `validateDataElement` on a pool sees the entries only through `offered` -/
theorem validateDataElement_pool_congr (d : String) (es es' : List PoolEntry) (i : Option String) (st : RVV) (soll : Bool)
    (H : offered es st = offered es' st) :
    validateDataElement (.pool d es i) st soll = validateDataElement (.pool d es' i) st soll := by
  simp only [validateDataElement, H]

/-- the pool entries of the text walk are offered like the evaluated entries, whenever the evaluator succeeds with `f` on them -/
theorem poolEntriesT_offered (ev : Ev) (f : EvT) (entries : List (String × String × List Char)) (st : RVV) (i : Option String)
    (H : ∀ e ∈ entries, ev e.2.2 i = .ok (f e.2.2 i)) :
    ∃ es, poolEntriesT ev entries st i = .ok es ∧
      offered es st = offered (entries.map fun e => ⟨e.1, e.2.1, f e.2.2 i⟩) st := by
  by_cases hst : st = .IS_FORBIDDEN
  · exact ⟨entries.map fun e => ⟨e.1, e.2.1, .invalid ""⟩, by simp [poolEntriesT, hst], by simp [offered, hst]⟩
  · have hm : entries.mapM (fun e => do let res ← ev e.2.2 i; pure (⟨e.1, e.2.1, res⟩ : PoolEntry)) =
        .ok (entries.map fun e => ⟨e.1, e.2.1, f e.2.2 i⟩) := by
      apply mapM_ok_eq
      intro e he
      simp [H e he, bind, Except.bind, pure, Except.pure]
    match entries, H, hm with
    | [], _, hm => exact ⟨[], by simp [poolEntriesT, hst, pure, Except.pure], by simp⟩
    | [e], _, _ => exact ⟨[⟨e.1, e.2.1, .invalid ""⟩], by simp [poolEntriesT, hst], by simp [offered, hst]⟩
    | e₁ :: e₂ :: es, _, hm => exact ⟨_, by simp only [poolEntriesT, if_neg hst]; exact hm, rfl⟩

/-- the texts of a data element (as `DataElementT.texts` below) -/
def deTexts : DataElementT → List (List Char)
  | .free _ e _ _ => [e]
  | .pool _ es _ => es.map (·.2.2)

theorem validateDataElementT_agree (ev : Ev) (f : EvT) (de : DataElementT) (st : RVV) (soll : Bool)
    (H : ∀ t ∈ deTexts de, ∀ i, ev t i = .ok (f t i)) :
    validateDataElementT ev de st soll = validateDataElement (de.eval f) st soll := by
  cases de with
  | free d e i v =>
    have h1 : ev e i = .ok (f e i) := H e (by simp [deTexts]) i
    simp [validateDataElementT, DataElementT.eval, h1, bind, Except.bind]
  | pool d es i =>
    obtain ⟨es', h1, h2⟩ := poolEntriesT_offered ev f es st i
      (fun e he => H e.2.2 (by simp only [deTexts]; exact List.mem_map.2 ⟨e, he, rfl⟩) i)
    simp only [validateDataElementT, DataElementT.eval, h1, bind, Except.bind]
    exact validateDataElement_pool_congr d _ _ i st soll h2

theorem segLevelT_agree (ev : Ev) (f : EvT) (e : List Char) (parent : Option RVV) (soll : Bool)
    (H : ev e none = .ok (f e none)) :
    segLevelT ev e parent soll = segLevel (f e none) parent soll := by
  by_cases hp : parent = some .IS_FORBIDDEN
  · simp [segLevelT, segLevel, hp]
  · simp [segLevelT, hp, H, bind, Except.bind]

theorem validateSegmentT_agree (ev : Ev) (f : EvT) (s : SegmentT) (parent : Option RVV) (soll : Bool)
    (H : ∀ t ∈ s.expr :: s.des.flatMap deTexts, ∀ i, ev t i = .ok (f t i)) :
    validateSegmentT ev s parent soll = validateSegment (s.eval f) parent soll := by
  have h1 := segLevelT_agree ev f s.expr parent soll (H s.expr (by simp) none)
  have h2 : ∀ st, s.des.mapM (fun de => validateDataElementT ev de st soll) =
      (s.des.map (DataElementT.eval f)).mapM (fun de => validateDataElement de st soll) := by
    intro st
    rw [List.mapM_map]
    apply mapM_congr_mem
    intro de hde
    apply validateDataElementT_agree
    intro t ht i
    exact H t (by simp only [List.mem_cons, List.mem_flatMap]; exact Or.inr ⟨de, hde, ht⟩) i
  simp only [validateSegmentT, validateSegment, SegmentT.eval, h1, h2]

/-- one step of the group walk, the recursive calls given -/
theorem validateGroupT_step (ev : Ev) (f : EvT) (d : String) (e : List Char) (gs : GroupsT) (ss : List SegmentT)
    (parent : Option RVV) (soll : Bool)
    (h1 : ev e none = .ok (f e none))
    (h2 : ∀ p, validateGroupsT ev gs p soll = validateGroups (gs.eval f) p soll)
    (h3 : ∀ s ∈ ss, ∀ p, validateSegmentT ev s p soll = validateSegment (s.eval f) p soll) :
    validateGroupT ev (.mk d e gs ss) parent soll = validateGroup ((GroupT.mk d e gs ss).eval f) parent soll := by
  have h4 : ∀ p, ss.mapM (fun s => validateSegmentT ev s p soll) =
      (ss.map (SegmentT.eval f)).mapM (fun s => validateSegment s p soll) := by
    intro p
    rw [List.mapM_map]
    exact mapM_congr_mem _ _ _ (fun s hs => h3 s hs p)
  simp only [validateGroupT, validateGroup, GroupT.eval, segLevelT_agree ev f e parent soll h1, h2, h4]

theorem validateGroupsT_step (ev : Ev) (f : EvT) (g : GroupT) (rest : GroupsT) (parent : Option RVV) (soll : Bool)
    (h1 : validateGroupT ev g parent soll = validateGroup (g.eval f) parent soll)
    (h2 : validateGroupsT ev rest parent soll = validateGroups (rest.eval f) parent soll) :
    validateGroupsT ev (.cons g rest) parent soll = validateGroups ((GroupsT.cons g rest).eval f) parent soll := by
  simp only [validateGroupsT, validateGroups, GroupsT.eval, h1, h2]

theorem validateDataElementT_total (f : EvT) (de : DataElementT) (st : RVV) (soll : Bool) :
    validateDataElementT (okEv f) de st soll = validateDataElement (de.eval f) st soll := by
  exact validateDataElementT_agree (okEv f) f de st soll (fun _ _ _ => rfl)

theorem validateSegmentT_total (f : EvT) (s : SegmentT) (parent : Option RVV) (soll : Bool) :
    validateSegmentT (okEv f) s parent soll = validateSegment (s.eval f) parent soll := by
  exact validateSegmentT_agree (okEv f) f s parent soll (fun _ _ _ => rfl)

mutual
theorem validateGroupT_total (f : EvT) : ∀ (g : GroupT) (parent : Option RVV) (soll : Bool),
    validateGroupT (okEv f) g parent soll = validateGroup (g.eval f) parent soll := by
  intro g parent soll
  match g with
  | .mk d e gs ss =>
    exact validateGroupT_step (okEv f) f d e gs ss parent soll rfl
      (fun p => validateGroupsT_total f gs p soll)
      (fun s _ p => validateSegmentT_total f s p soll)
theorem validateGroupsT_total (f : EvT) : ∀ (gs : GroupsT) (parent : Option RVV) (soll : Bool),
    validateGroupsT (okEv f) gs parent soll = validateGroups (gs.eval f) parent soll := by
  intro gs parent soll
  match gs with
  | .nil => simp only [validateGroupsT, validateGroups, GroupsT.eval]
  | .cons g rest =>
    exact validateGroupsT_step (okEv f) f g rest parent soll
      (validateGroupT_total f g parent soll) (validateGroupsT_total f rest parent soll)
end

/-- a failing evaluation aborts the walk only if the walk reaches it: below a forbidden parent nothing is evaluated -/
theorem segLevelT_forbidden_parent (ev : Ev) (expr : List Char) (soll : Bool) :
    segLevelT ev expr (some .IS_FORBIDDEN) soll = .ok (.IS_FORBIDDEN, none) := by
  simp [segLevelT]

/-- a one-entry pool is offered without evaluating its expression -/
theorem pool_single_not_evaluated (ev : Ev) (disc q m : String) (expr : List Char) (input : Option String) (st : RVV) (soll : Bool) :
    validateDataElementT ev (.pool disc [(q, m, expr)] input) st soll =
      validateDataElement (.pool disc [⟨q, m, .invalid ""⟩] input) st soll := by
  by_cases hst : st = .IS_FORBIDDEN <;> simp [validateDataElementT, poolEntriesT, hst, bind, Except.bind]

/-! ## the evaluator matters only at the texts of the tree -/

def DataElementT.texts : DataElementT → List (List Char)
  | .free _ e _ _ => [e]
  | .pool _ es _ => es.map (·.2.2)

def SegmentT.texts (s : SegmentT) : List (List Char) := s.expr :: s.des.flatMap DataElementT.texts

mutual
def GroupT.texts : GroupT → List (List Char)
  | .mk _ e gs ss => e :: (GroupsT.texts gs ++ ss.flatMap SegmentT.texts)
def GroupsT.texts : GroupsT → List (List Char)
  | .nil => []
  | .cons g gs => GroupT.texts g ++ GroupsT.texts gs
end

theorem deTexts_eq (de : DataElementT) : deTexts de = de.texts := by
  cases de <;> rfl

theorem validateSegmentT_agree' (ev : Ev) (f : EvT) (s : SegmentT) (parent : Option RVV) (soll : Bool)
    (H : ∀ t ∈ s.texts, ∀ i, ev t i = .ok (f t i)) :
    validateSegmentT ev s parent soll = validateSegment (s.eval f) parent soll := by
  apply validateSegmentT_agree
  intro t ht i
  apply H t _ i
  have : s.des.flatMap deTexts = s.des.flatMap DataElementT.texts := by
    rw [show deTexts = DataElementT.texts from funext deTexts_eq]
  rw [SegmentT.texts, ← this]; exact ht

mutual
theorem validateGroupT_agree (ev : Ev) (f : EvT) : ∀ (g : GroupT) (parent : Option RVV) (soll : Bool),
    (∀ t ∈ g.texts, ∀ i, ev t i = .ok (f t i)) →
    validateGroupT ev g parent soll = validateGroup (g.eval f) parent soll := by
  intro g parent soll H
  match g, H with
  | .mk d e gs ss, H =>
    simp only [GroupT.texts, List.mem_cons, List.mem_append, List.mem_flatMap] at H
    exact validateGroupT_step ev f d e gs ss parent soll (H e (Or.inl rfl) none)
      (fun p => validateGroupsT_agree ev f gs p soll (fun t ht i => H t (Or.inr (Or.inl ht)) i))
      (fun s hs p => validateSegmentT_agree' ev f s p soll (fun t ht i => H t (Or.inr (Or.inr ⟨s, hs, ht⟩)) i))
theorem validateGroupsT_agree (ev : Ev) (f : EvT) : ∀ (gs : GroupsT) (parent : Option RVV) (soll : Bool),
    (∀ t ∈ gs.texts, ∀ i, ev t i = .ok (f t i)) →
    validateGroupsT ev gs parent soll = validateGroups (gs.eval f) parent soll := by
  intro gs parent soll H
  match gs, H with
  | .nil, _ => simp only [validateGroupsT, validateGroups, GroupsT.eval]
  | .cons g rest, H =>
    simp only [GroupsT.texts, List.mem_append] at H
    exact validateGroupsT_step ev f g rest parent soll
      (validateGroupT_agree ev f g parent soll (fun t ht i => H t (Or.inl ht) i))
      (validateGroupsT_agree ev f rest parent soll (fun t ht i => H t (Or.inr ht) i))
end

/-- if the evaluator built from the models of C02–C10 succeeds on every expression of the AHB, the end-to-end model is the table walk
of `Model/Val.lean` on the evaluated tree -/
theorem validateAhbFull_eq (cer : Cer) (lines : GroupsT) (soll : Bool) (f : EvT)
    (h : ∀ t ∈ lines.texts, ∀ i, nodeRes cer t = .ok (f t i)) :
    validateAhbFull cer lines soll = validateAhb (lines.eval f) soll := by
  exact validateGroupsT_agree (fun text _ => nodeRes cer text) f lines none soll h

end Ahbicht

