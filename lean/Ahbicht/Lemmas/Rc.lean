import Ahbicht.Model.RcSpec
/-!
# The requirement transformer computes `denote` on the documented domain and raises exactly on structural invalidity
-/
namespace Ahbicht

theorem and_eq_N : ∀ x y : CFV, CFV.and x y = .N ↔ x = .N ∧ y = .N := by decide
theorem or_eq_N : ∀ x y : CFV, CFV.or x y = .N ↔ x = .N ∧ y = .N := by decide
theorem xor_eq_N : ∀ x y : CFV, CFV.xor x y = .N ↔ x = .N ∧ y = .N := by decide

theorem condKeys_bin (o : Op) (l r : Expr) : condKeys (.bin o l r) = condKeys l ++ condKeys r := by
  simp [condKeys, Expr.atoms, List.filterMap_append, Atom.condKey?]

theorem Assigns.left {rcEnv hintEnv o l r} (h : Assigns rcEnv hintEnv (.bin o l r)) : Assigns rcEnv hintEnv l :=
  ⟨fun k hk => h.rc k (by rw [condKeys_bin]; exact List.mem_append_left _ hk),
   fun k hk => h.hint k (by rw [condKeys_bin]; exact List.mem_append_left _ hk)⟩

theorem Assigns.right {rcEnv hintEnv o l r} (h : Assigns rcEnv hintEnv (.bin o l r)) : Assigns rcEnv hintEnv r :=
  ⟨fun k hk => h.rc k (by rw [condKeys_bin]; exact List.mem_append_right _ hk),
   fun k hk => h.hint k (by rw [condKeys_bin]; exact List.mem_append_right _ hk)⟩

/-- what a successfully evaluated node knows about the expression it came from -/
structure Good (rcEnv : List Char → Option CFV) (t : Expr) (n : Node) : Prop where
  state : n.state = denote rcEnv t
  neutral : n.state = .N ↔ neutralOnly t = true
  isHint : n.isHint = t.isHintLeaf
  isFc : n.isFc = t.isFcLeaf

@[simp] theorem fcInit_comp (st : CFV) (h : Option String) (x : Option FExpr) : fcInit (.comp st h x) = x := by
  cases x <;> rfl

theorem isHint_cases {n : Node} (h : n.isHint = true) : ∃ k t, n = .hint k t := by
  cases n <;> simp [Node.isHint] at h
  exact ⟨_, _, rfl⟩

theorem WF_bin {o : Op} {l r : Expr} (h : WF (.bin o l r) = true) : WF l = true ∧ WF r = true := by
  cases o <;> simp [WF] at h <;> simp [h]

theorem fcLeaf_not_hint {t : Expr} (h : t.isFcLeaf = true) : t.isHintLeaf = false ∧ neutralOnly t = true := by
  cases t with
  | leaf a => cases a <;> simp [Expr.isFcLeaf] at h; simp [Expr.isHintLeaf, neutralOnly, h]
  | bin o l r => simp [Expr.isFcLeaf] at h

theorem hintLeaf_neutral {t : Expr} (h : t.isHintLeaf = true) : neutralOnly t = true := by
  cases t with
  | leaf a => cases a <;> simp [Expr.isHintLeaf] at h; simp [neutralOnly, h]
  | bin o l r => simp [Expr.isHintLeaf] at h

section
variable {rcEnv : List Char → Option CFV} {hintEnv : List Char → Option String}

theorem good_leaf {k : List Char} (hwf : WF (.leaf (.cond k)) = true) (ha : Assigns rcEnv hintEnv (.leaf (.cond k))) :
    ∃ n, evalRc (mkEnv rcEnv hintEnv) (.leaf (.cond k)) = .ok n ∧ Good rcEnv (.leaf (.cond k)) n := by
  have hk : k ∈ condKeys (.leaf (.cond k)) := by simp [condKeys, Expr.atoms, Atom.condKey?]
  simp only [WF] at hwf
  cases hc : catOf k with
  | none => simp [hc] at hwf
  | some c =>
    cases c with
    | rc =>
      obtain ⟨st, hst, hne⟩ := ha.rc k hk hc
      refine ⟨.rc k st, by simp [evalRc, mkEnv, hc, hst], ?_⟩
      constructor
      · simp [Node.state, denote, hc, hst]
      · simp [Node.state, neutralOnly, hc, hne]
      · simp [Node.isHint, Expr.isHintLeaf, hc]
      · simp [Node.isFc, Expr.isFcLeaf, hc]
    | hint =>
      obtain ⟨s, hs⟩ := ha.hint k hk hc
      refine ⟨.hint k s, by simp [evalRc, mkEnv, hc, hs], ?_⟩
      constructor
      · simp [Node.state, denote, hc]
      · simp [Node.state, neutralOnly, hc]
      · simp [Node.isHint, Expr.isHintLeaf, hc]
      · simp [Node.isFc, Expr.isFcLeaf, hc]
    | fc =>
      refine ⟨.fc k, by simp [evalRc, mkEnv, hc], ?_⟩
      constructor
      · simp [Node.state, denote, hc]
      · simp [Node.state, neutralOnly, hc]
      · simp [Node.isHint, Expr.isHintLeaf, hc]
      · simp [Node.isFc, Expr.isFcLeaf, hc]

theorem evalRc_bin (env : Env) (o : Op) (l r : Expr) {a b : Node} (hl : evalRc env l = .ok a) (hr : evalRc env r = .ok b) :
    evalRc env (.bin o l r) = (match o with
      | .and_ => pure (andComp a b)
      | .or_ => orXorComp .or_ a b
      | .xor_ => orXorComp .xor_ a b
      | .then_ => thenAlso a b) := by
  cases o <;> simp [evalRc, hl, hr, bind, Except.bind, pure, Except.pure]

theorem evalRc_bin_errL (env : Env) (o : Op) (l r : Expr) {e : EvalErr} (hl : evalRc env l = .error e) :
    evalRc env (.bin o l r) = .error e := by
  simp [evalRc, hl, bind, Except.bind]

theorem evalRc_bin_errR (env : Env) (o : Op) (l r : Expr) {a : Node} {e : EvalErr} (hl : evalRc env l = .ok a)
    (hr : evalRc env r = .error e) : evalRc env (.bin o l r) = .error e := by
  simp [evalRc, hl, hr, bind, Except.bind]

/-- node-level behaviour of O / X on good operands -/
theorem orXor_char (o : BOp) (ho : o = .or_ ∨ o = .xor_) {l r : Expr} {a b : Node} (ga : Good rcEnv l a) (gb : Good rcEnv r b) :
    let bad := (neutralOnly l != neutralOnly r) || (l.isHintLeaf && r.isFcLeaf) || (l.isFcLeaf && r.isHintLeaf)
    (bad = true → orXorComp o a b = .error .invalidExpr) ∧
    (bad = false → ∃ n, orXorComp o a b = .ok n ∧
        n.state = (match o with | .or_ => CFV.or a.state b.state | _ => CFV.xor a.state b.state) ∧
        n.isHint = false ∧ n.isFc = false ∧ fcInit n = fcConnect o (fcInit a) b) := by
  intro bad
  have na := ga.neutral
  have nb := gb.neutral
  have hN : ((a.state = .N ∧ b.state ≠ .N) ∨ (b.state = .N ∧ a.state ≠ .N)) ↔ (neutralOnly l != neutralOnly r) = true := by
    by_cases ha : a.state = .N <;> by_cases hb : b.state = .N <;> simp_all
  have hpair : ((a.isHint && b.isFc) || (b.isHint && a.isFc)) =
      ((l.isHintLeaf && r.isFcLeaf) || (l.isFcLeaf && r.isHintLeaf)) := by
    rw [ga.isHint, gb.isHint, ga.isFc, gb.isFc, Bool.and_comm r.isHintLeaf]
  constructor
  · intro hbad
    unfold orXorComp
    rw [hpair]
    by_cases h1 : ((l.isHintLeaf && r.isFcLeaf) || (l.isFcLeaf && r.isHintLeaf)) = true
    · simp [h1]
    · have h1' : ((l.isHintLeaf && r.isFcLeaf) || (l.isFcLeaf && r.isHintLeaf)) = false := by simpa using h1
      have h2 : (neutralOnly l != neutralOnly r) = true := by
        simp only [bad, Bool.or_assoc] at hbad
        rw [h1', Bool.or_false] at hbad
        exact hbad
      rw [h1']
      simp only [Bool.false_eq_true, ↓reduceIte]
      rw [if_pos (hN.2 h2)]
  · intro hgood
    have h1 : (neutralOnly l != neutralOnly r) = false := by
      simp only [bad, Bool.or_assoc, Bool.or_eq_false_iff] at hgood; exact hgood.1
    have h23 : ((l.isHintLeaf && r.isFcLeaf) || (l.isFcLeaf && r.isHintLeaf)) = false := by
      simp only [bad, Bool.or_assoc, Bool.or_eq_false_iff] at hgood
      simp [hgood.2.1, hgood.2.2]
    unfold orXorComp
    rw [hpair, h23]
    simp only [Bool.false_eq_true, ↓reduceIte]
    have hn : ¬ ((a.state = .N ∧ b.state ≠ .N) ∨ (b.state = .N ∧ a.state ≠ .N)) := by
      rw [hN]; simp [h1]
    rw [if_neg hn]
    refine ⟨_, rfl, ?_, rfl, rfl, fcInit_comp _ _ _⟩
    rcases ho with rfl | rfl <;> rfl


/-- `_then_also` on a good partner that is a hint leaf or carries a requirement constraint -/
theorem thenAlso'_char {fcn other : Node} {t : Expr} (g : Good rcEnv t other)
    (h : t.isHintLeaf = true ∨ neutralOnly t = false) :
    ∃ n, thenAlso' fcn other = .ok n ∧ n.state = other.state ∧ n.isHint = false ∧ n.isFc = false ∧
      fcInit n = (if other.state = .F ∨ other.isHint = true then fcConnect .and_ (fcInit fcn) other else none) := by
  unfold thenAlso'
  by_cases hs : other.state = .N
  · have hno : neutralOnly t = true := g.neutral.1 hs
    have hh : t.isHintLeaf = true := by
      rcases h with h | h
      · exact h
      · rw [hno] at h; cases h
    have : other.isHint = true := by rw [g.isHint]; exact hh
    obtain ⟨k, tx, rfl⟩ := isHint_cases this
    simp only [Node.state, not_true_eq_false, ↓reduceIte, Node.isHint, or_true]
    exact ⟨_, rfl, rfl, rfl, rfl, fcInit_comp _ _ _⟩
  · simp only [ne_eq, hs, not_false_eq_true, ↓reduceIte]
    refine ⟨_, rfl, rfl, rfl, rfl, ?_⟩
    have hnh : other.isHint = false := by
      cases h' : other.isHint with
      | false => rfl
      | true => obtain ⟨k, tx, rfl⟩ := isHint_cases h'; exact absurd rfl hs
    by_cases hF : other.state = .F <;> simp [hF, hnh]

/-- **Characterisation.** On the documented domain, under any assignment, evaluation raises the invalid-expression
error iff the expression is structurally invalid; otherwise it succeeds with the state `denote` prescribes. -/
theorem eval_char (t : Expr) (hwf : WF t = true) (ha : Assigns rcEnv hintEnv t) :
    (invalidAt t = true → evalRc (mkEnv rcEnv hintEnv) t = .error .invalidExpr) ∧
    (invalidAt t = false → ∃ n, evalRc (mkEnv rcEnv hintEnv) t = .ok n ∧ Good rcEnv t n) := by
  induction t with
  | leaf a =>
    cases a with
    | cond k => exact ⟨by simp [invalidAt], fun _ => good_leaf hwf ha⟩
    | pkg k r => simp [WF] at hwf
    | time k => simp [WF] at hwf
  | bin o l r ihl ihr =>
    obtain ⟨wl, wr⟩ := WF_bin hwf
    obtain ⟨il1, il2⟩ := ihl wl ha.left
    obtain ⟨ir1, ir2⟩ := ihr wr ha.right
    cases hil : invalidAt l with
    | true =>
      refine ⟨fun _ => evalRc_bin_errL _ _ _ _ (il1 hil), fun h => ?_⟩
      simp [invalidAt, hil] at h
    | false =>
      obtain ⟨a, ha', ga⟩ := il2 hil
      cases hir : invalidAt r with
      | true =>
        refine ⟨fun _ => evalRc_bin_errR _ _ _ _ ha' (ir1 hir), fun h => ?_⟩
        simp [invalidAt, hir] at h
      | false =>
        obtain ⟨b, hb', gb⟩ := ir2 hir
        rw [evalRc_bin _ o l r ha' hb']
        cases o with
        | and_ =>
          refine ⟨fun h => by simp [invalidAt, hil, hir] at h, fun _ => ⟨andComp a b, rfl, ?_⟩⟩
          have hst : (andComp a b).state = CFV.and a.state b.state := rfl
          constructor
          · rw [hst, ga.state, gb.state]; rfl
          · rw [hst]; simp only [and_eq_N, neutralOnly, Bool.and_eq_true]; rw [ga.neutral, gb.neutral]
          · rfl
          · rfl
        | or_ =>
          obtain ⟨c1, c2⟩ := orXor_char .or_ (Or.inl rfl) ga gb
          constructor
          · intro h
            simp only [invalidAt, hil, hir, Bool.false_or, beq_self_eq_true, Bool.true_or, Bool.true_and,
              show (Op.or_ == Op.or_) = true from rfl] at h
            exact c1 h
          · intro h
            simp only [invalidAt, hil, hir, Bool.false_or, Bool.true_or, Bool.true_and,
              show (Op.or_ == Op.or_) = true from rfl] at h
            obtain ⟨n, hn, hst, hh, hf, _⟩ := c2 h
            refine ⟨n, hn, ?_⟩
            constructor
            · rw [hst]; simp [denote, ga.state, gb.state]
            · rw [hst]; simp only [or_eq_N, neutralOnly, Bool.and_eq_true]; rw [ga.neutral, gb.neutral]
            · rw [hh]; rfl
            · rw [hf]; rfl
        | xor_ =>
          obtain ⟨c1, c2⟩ := orXor_char .xor_ (Or.inr rfl) ga gb
          constructor
          · intro h
            simp only [invalidAt, hil, hir, Bool.false_or, Bool.or_true, Bool.true_and,
              show (Op.xor_ == Op.or_) = false from rfl, show (Op.xor_ == Op.xor_) = true from rfl] at h
            exact c1 h
          · intro h
            simp only [invalidAt, hil, hir, Bool.false_or, Bool.or_true, Bool.true_and,
              show (Op.xor_ == Op.or_) = false from rfl, show (Op.xor_ == Op.xor_) = true from rfl] at h
            obtain ⟨n, hn, hst, hh, hf, _⟩ := c2 h
            refine ⟨n, hn, ?_⟩
            constructor
            · rw [hst]; simp [denote, ga.state, gb.state]
            · rw [hst]; simp only [xor_eq_N, neutralOnly, Bool.and_eq_true]; rw [ga.neutral, gb.neutral]
            · rw [hh]; rfl
            · rw [hf]; rfl
        | then_ =>
          refine ⟨fun h => by simp [invalidAt, hil, hir, show (Op.then_ == Op.or_) = false from rfl, show (Op.then_ == Op.xor_) = false from rfl] at h, fun _ => ?_⟩
          simp only [WF, wl, wr, Bool.true_and, Bool.and_self] at hwf
          unfold thenAlso
          rw [ga.isFc]
          cases hfl : l.isFcLeaf with
          | true =>
            obtain ⟨lh, ln⟩ := fcLeaf_not_hint hfl
            have hr' : r.isHintLeaf = true ∨ neutralOnly r = false := by
              simp [hfl, lh, ln] at hwf
              rcases hwf with h | h
              · exact Or.inl h
              · exact Or.inr h
            obtain ⟨n, hn, hst, hh, hf, _⟩ := thenAlso'_char (fcn := a) gb hr'
            refine ⟨n, by simpa using hn, ?_⟩
            constructor
            · rw [hst, gb.state]; simp [denote, hfl]
            · rw [hst]; simp only [neutralOnly, ln, Bool.true_and]; exact gb.neutral
            · rw [hh]; rfl
            · rw [hf]; rfl
          | false =>
            have hrf : r.isFcLeaf = true ∧ (l.isHintLeaf = true ∨ neutralOnly l = false) := by
              simp [hfl] at hwf
              exact ⟨hwf.1, by rcases hwf.2 with h | h; exact Or.inl h; exact Or.inr h⟩
            obtain ⟨rh, rn⟩ := fcLeaf_not_hint hrf.1
            obtain ⟨n, hn, hst, hh, hf, _⟩ := thenAlso'_char (fcn := b) ga hrf.2
            refine ⟨n, by simpa using hn, ?_⟩
            constructor
            · rw [hst, ga.state]; simp [denote, hfl]
            · rw [hst]; simp only [neutralOnly, rn, Bool.and_true]; exact ga.neutral
            · rw [hh]; rfl
            · rw [hf]; rfl

end
theorem tokenErr_none_of_WF {t : Expr} (hwf : WF t = true) : t.atoms.findSome? Atom.tokenErr = none := by
  induction t with
  | leaf a =>
    cases a with
    | cond k =>
      simp only [WF] at hwf
      cases hc : catOf k with
      | none => simp [hc] at hwf
      | some c => simp [Expr.atoms, Atom.tokenErr, hc]
    | pkg k r => simp [WF] at hwf
    | time k => simp [WF] at hwf
  | bin o l r ihl ihr =>
    obtain ⟨wl, wr⟩ := WF_bin hwf
    simp [Expr.atoms, List.findSome?_append, ihl wl, ihr wr]


/-- on the documented domain the preliminary checks of `requirement_constraint_evaluation` pass -/
theorem rcEvaluation_eq {rcEnv : List Char → Option CFV} {hintEnv : List Char → Option String} {t : Expr}
    (hwf : WF t = true) (ha : Assigns rcEnv hintEnv t) :
    rcEvaluation rcEnv hintEnv t = (evalRc (mkEnv rcEnv hintEnv) t).map report := by
  unfold rcEvaluation
  rw [tokenErr_none_of_WF hwf]
  have h1 : (condKeys t).any (fun k => catOf k == some .rc && (rcEnv k).isNone) = false := by
    rw [List.any_eq_false]; intro k hk
    cases hc : catOf k with
    | none => simp
    | some c => cases c with
      | rc => obtain ⟨st, hs, _⟩ := ha.rc k hk hc; simp [hs]
      | hint => simp
      | fc => simp
  have h2 : (condKeys t).any (fun k => catOf k == some .hint && (hintEnv k).isNone) = false := by
    rw [List.any_eq_false]; intro k hk
    cases hc : catOf k with
    | none => simp
    | some c => cases c with
      | hint => obtain ⟨s, hs⟩ := ha.hint k hk hc; simp [hs]
      | rc => simp
      | fc => simp
  simp [h1, h2]

end Ahbicht
