import Ahbicht.Model.Parse
/-!
# Lemmas about chain assembly (`asm`) and the bracket-stack machine
-/
namespace Ahbicht

theorem argsFor_node_self (o : Op) (as : List NExpr) : (NExpr.node o as).argsFor o = as := by
  simp [NExpr.argsFor]

theorem flat_foldBin (o : Op) (e : Expr) (es : List Expr) :
    ((foldBin o e es).flat).argsFor o =
      e.flat.argsFor o ++ es.flatMap (fun x => x.flat.argsFor o) := by
  induction es generalizing e with
  | nil => simp [foldBin]
  | cons x xs ih =>
    simp only [foldBin, List.flatMap_cons]
    rw [ih]
    simp [Expr.flat, argsFor_node_self, List.append_assoc]

theorem flat_foldBin_cons (o : Op) (e x : Expr) (es : List Expr) :
    (foldBin o e (x :: es)).flat =
      .node o (e.flat.argsFor o ++ (x :: es).flatMap (fun y => y.flat.argsFor o)) := by
  induction es generalizing e x with
  | nil => simp [foldBin, Expr.flat]
  | cons y ys ih =>
    rw [foldBin, ih]
    simp [Expr.flat, argsFor_node_self, List.append_assoc]

theorem splitTail_ne_nil (o : Op) (h : Expr) (t : List (Op × Expr)) : splitTail o h t ≠ [] := by
  induction t generalizing h with
  | nil => simp [splitTail]
  | cons p rest ih =>
    obtain ⟨s, x⟩ := p
    simp only [splitTail]
    split
    · simp
    · split <;> simp

theorem splitTail_absent (o : Op) (h : Expr) (t : List (Op × Expr)) (hno : ∀ p ∈ t, p.1 ≠ o) :
    splitTail o h t = [(h, t)] := by
  induction t generalizing h with
  | nil => simp [splitTail]
  | cons p rest ih =>
    obtain ⟨s, x⟩ := p
    have hs : s ≠ o := hno (s, x) (by simp)
    have hrest : ∀ p ∈ rest, p.1 ≠ o := fun p hp => hno p (by simp [hp])
    simp [splitTail, hs, ih x hrest]

theorem splitTail_join (o : Op) (h : Expr) (t : List (Op × Expr)) (h' : Expr) (t' : List (Op × Expr)) :
    splitTail o h (t ++ (o, h') :: t') = splitTail o h t ++ splitTail o h' t' := by
  induction t generalizing h with
  | nil => simp [splitTail]
  | cons p rest ih =>
    obtain ⟨s, x⟩ := p
    simp only [List.cons_append, splitTail]
    split
    · simp [ih]
    · rw [ih]
      have hne := splitTail_ne_nil o x rest
      cases hsp : splitTail o x rest with
      | nil => exact absurd hsp hne
      | cons c cs => obtain ⟨a, b⟩ := c; simp

theorem flat_foldBin_ne (o : Op) (e : Expr) (es : List Expr) (hne : es ≠ []) :
    (foldBin o e es).flat = .node o (e.flat.argsFor o ++ es.flatMap (fun y => y.flat.argsFor o)) := by
  cases es with
  | nil => exact absurd rfl hne
  | cons x xs => exact flat_foldBin_cons o e x xs

/-- join two chains with a separator -/
def join (cl : Chain) (o : Op) (cr : Chain) : Chain := (cl.1, cl.2 ++ (o, cr.1) :: cr.2)

/-- all separators of the chain bind at least as tight as precedence `p` -/
def tightP (p : Nat) (c : Chain) : Prop := ∀ s ∈ c.2, p ≤ s.1.prec

abbrev tight (o : Op) (c : Chain) : Prop := tightP o.prec c

/-- `c` is a way of writing `e` as a chain of already assembled items -/
inductive Renders : Expr → Chain → Prop
  | item (e : Expr) : Renders e (e, [])
  | bin {l r cl cr} (o : Op) : Renders l cl → Renders r cr → tight o cl → tight o cr →
      Renders (.bin o l r) (join cl o cr)

theorem asm_skip (o : Op) (os : List Op) (c : Chain) (hno : ∀ p ∈ c.2, p.1 ≠ o) :
    asm (o :: os) c = asm os c := by
  obtain ⟨h, t⟩ := c
  simp [asm, split, splitTail_absent o h t hno, foldBin]

theorem asm_join (o : Op) (os : List Op) (cl cr : Chain) :
    (asm (o :: os) (join cl o cr)).flat =
      .node o ((asm (o :: os) cl).flat.argsFor o ++ (asm (o :: os) cr).flat.argsFor o) := by
  obtain ⟨hl, tl⟩ := cl
  obtain ⟨hr, tr⟩ := cr
  simp only [asm, split, join, splitTail_join]
  have hnl := splitTail_ne_nil o hl tl
  have hnr := splitTail_ne_nil o hr tr
  cases hsl : splitTail o hl tl with
  | nil => exact absurd hsl hnl
  | cons a as =>
    cases hsr : splitTail o hr tr with
    | nil => exact absurd hsr hnr
    | cons b bs =>
      simp only [List.cons_append, List.map_cons, List.map_append]
      rw [flat_foldBin_ne _ _ _ (by simp), flat_foldBin, flat_foldBin]
      simp [List.flatMap_append, List.append_assoc]

theorem tight_ne {o o' : Op} {c : Chain} (ht : tight o c) (hlt : o'.prec < o.prec) :
    ∀ p ∈ c.2, p.1 ≠ o' := by
  intro p hp heq
  have := ht p hp
  rw [heq] at this
  omega

theorem join_ne {o o' : Op} {cl cr : Chain} (hl : tight o cl) (hr : tight o cr) (hlt : o'.prec < o.prec) :
    ∀ p ∈ (join cl o cr).2, p.1 ≠ o' := by
  intro p hp
  simp only [join, List.mem_append, List.mem_cons] at hp
  rcases hp with hp | hp | hp
  · exact tight_ne hl hlt p hp
  · subst hp; intro h; simp only at h; subst h; omega
  · exact tight_ne hr hlt p hp

/-- the load-bearing lemma: assembling a chain that renders `e` gives `e`, modulo same-operator flattening -/
theorem asm_renders {e : Expr} {c : Chain} (h : Renders e c) : (build c).flat = e.flat := by
  unfold build
  induction h with
  | item e => simp [levels, asm, split, splitTail, foldBin]
  | @bin l r cl cr o _ _ tl tr ihl ihr =>
    simp only [Expr.flat, ← ihl, ← ihr]
    cases o with
    | or_ => exact asm_join _ _ _ _
    | xor_ =>
      have p : Op.or_.prec < Op.xor_.prec := by decide
      simp only [levels]
      rw [asm_skip _ _ _ (join_ne tl tr p), asm_skip _ _ _ (tight_ne tl p), asm_skip _ _ _ (tight_ne tr p)]
      exact asm_join _ _ _ _
    | and_ =>
      have p : Op.or_.prec < Op.and_.prec := by decide
      have q : Op.xor_.prec < Op.and_.prec := by decide
      simp only [levels]
      rw [asm_skip _ _ _ (join_ne tl tr p), asm_skip _ _ _ (tight_ne tl p), asm_skip _ _ _ (tight_ne tr p),
          asm_skip _ _ _ (join_ne tl tr q), asm_skip _ _ _ (tight_ne tl q), asm_skip _ _ _ (tight_ne tr q)]
      exact asm_join _ _ _ _
    | then_ =>
      have p : Op.or_.prec < Op.then_.prec := by decide
      have q : Op.xor_.prec < Op.then_.prec := by decide
      have s : Op.and_.prec < Op.then_.prec := by decide
      simp only [levels]
      rw [asm_skip _ _ _ (join_ne tl tr p), asm_skip _ _ _ (tight_ne tl p), asm_skip _ _ _ (tight_ne tr p),
          asm_skip _ _ _ (join_ne tl tr q), asm_skip _ _ _ (tight_ne tl q), asm_skip _ _ _ (tight_ne tr q),
          asm_skip _ _ _ (join_ne tl tr s), asm_skip _ _ _ (tight_ne tl s), asm_skip _ _ _ (tight_ne tr s)]
      exact asm_join _ _ _ _

/-! ## the machine -/

theorem runToks_append (fs : List Frame) (a b : List Tok) :
    runToks fs (a ++ b) = (runToks fs a).bind (fun fs' => runToks fs' b) := by
  induction a generalizing fs with
  | nil => simp [runToks]
  | cons t a ih =>
    simp only [List.cons_append, runToks]
    cases stepTok fs t with
    | none => simp
    | some fs' => simp [ih]

/-- append a whole chain to a frame -/
def Frame.extend : Frame → Chain → Frame
  | .empty, c => .item c
  | .item c0, c => .item (join c0 .then_ c)
  | .pend c0 o, c => .item (join c0 o c)

theorem Frame.push_eq_extend (f : Frame) (e : Expr) : f.push e = f.extend (e, []) := by
  cases f <;> simp [Frame.push, Frame.extend, Chain.snoc, join]

theorem join_assoc (a : Chain) (o : Op) (b : Chain) (o' : Op) (c : Chain) :
    join (join a o b) o' c = join a o (join b o' c) := by
  simp [join, List.append_assoc]

theorem Frame.extend_extend_then (f : Frame) (a b : Chain) :
    (f.extend a).extend b = f.extend (join a .then_ b) := by
  cases f <;> simp [Frame.extend, join_assoc]

end Ahbicht
