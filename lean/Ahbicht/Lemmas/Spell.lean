import Ahbicht.Lemmas.Lex
/-!
# Written forms of tokens (spelling, whitespace) and what the scanner makes of them
-/
namespace Ahbicht
open Generated

/-- what may stand between `[` and `]` -/
inductive SpellAtom : Atom → List Char → Prop
  | cond (ds w1 w2 : List Char) : ds ≠ [] → (∀ c ∈ ds, isIntDigit c = true) → AllWs w1 → AllWs w2 →
      SpellAtom (.cond ds) (w1 ++ ds ++ w2)
  | pkg (ds w1 w2 : List Char) : ds ≠ [] → (∀ c ∈ ds, isIntDigit c = true) → AllWs w1 → AllWs w2 →
      SpellAtom (.pkg (ds ++ ['P']) none) (w1 ++ ds ++ 'P' :: w2)
  | pkgRep (ds w1 w2 w3 a b : List Char) (b0 : Char) : ds ≠ [] → (∀ c ∈ ds, isIntDigit c = true) →
      AllWs w1 → AllWs w2 → AllWs w3 → a ≠ [] → (∀ c ∈ a, isUniDigit c = true) → isRepFirstMax b0 = true →
      (∀ c ∈ b, isUniDigit c = true) →
      SpellAtom (.pkg (ds ++ ['P']) (some (a ++ '.' :: '.' :: b0 :: b)))
        (w1 ++ ds ++ 'P' :: (w2 ++ (a ++ '.' :: '.' :: b0 :: b) ++ w3))
  | time (n : Char) (w1 w2 : List Char) : (n = '1' ∨ n = '2' ∨ n = '3') → AllWs w1 → AllWs w2 →
      SpellAtom (.time ['U', 'B', n]) (w1 ++ 'U' :: 'B' :: n :: w2)

/-- the written forms of one token: any character of the operator's class (letter in either case or
the MaKo2022 symbol), brackets, a bracketed atom with whitespace inside -/
inductive SpellTok : Tok → List Char → Prop
  | lp (c : Char) : isLpar c = true → SpellTok .lp [c]
  | rp (c : Char) : isRpar c = true → SpellTok .rp [c]
  | or_ (c : Char) : isOpOr c = true → SpellTok (.op .or_) [c]
  | xor_ (c : Char) : isOpXor c = true → SpellTok (.op .xor_) [c]
  | and_ (c : Char) : isOpAnd c = true → SpellTok (.op .and_) [c]
  | atom (o c : Char) (a : Atom) (body : List Char) : isLsqb o = true → isRsqb c = true → SpellAtom a body →
      SpellTok (.atom a) (o :: (body ++ [c]))

/-- a written token sequence: arbitrary whitespace before, between and after the tokens -/
inductive Spelt : List Tok → List Char → Prop
  | nil (w : List Char) : AllWs w → Spelt [] w
  | cons (w s rest : List Char) (t : Tok) (ts : List Tok) : AllWs w → SpellTok t s → Spelt ts rest →
      Spelt (t :: ts) (w ++ s ++ rest)

private theorem seq {s : LState} {a b : List Char} {s1 s2 : LState} {t1 t2 : List Tok}
    (h1 : lexFrom s a = some (s1, t1)) (h2 : lexFrom s1 b = some (s2, t2)) :
    lexFrom s (a ++ b) = some (s2, t1 ++ t2) := by
  rw [lexFrom_append, h1]; simp [h2]

private theorem one {s s' : LState} {c : Char} {t : Option Tok} (h : lexStep s c = some (s', t)) :
    lexFrom s [c] = some (s', match t with | some t => [t] | none => []) := by
  simp [lexFrom, h]; cases t <;> rfl

private theorem ne_of_false {p : Char → Bool} {c d : Char} (hc : p c = true) (hd : p d = false) : c ≠ d := by
  intro h; subst h; simp [hc] at hd

theorem lex_atom_body {a : Atom} {body : List Char} (F : ClassFacts) (h : SpellAtom a body) {c : Char}
    (hc : isRsqb c = true) : lexFrom .open_ (body ++ [c]) = some (.out, [.atom a]) := by
  have cws : isWs c = false := disj_sound F.rsqb_ws hc
  have cint : isIntDigit c = false := disj_sound F.rsqb_int hc
  have cuni : isUniDigit c = false := disj_sound F.rsqb_uni hc
  have cP : c ≠ 'P' := ne_of_false hc F.p_not.2.2
  cases h with
  | cond ds w1 w2 hne hds hw1 hw2 =>
    obtain ⟨d, ds', rfl⟩ := List.exists_cons_of_ne_nil hne
    have hd : isIntDigit d = true := hds d (by simp)
    have hds' : ∀ x ∈ ds', isIntDigit x = true := fun x hx => hds x (by simp [hx])
    have dws : isWs d = false := by
      cases h : isWs d with
      | false => rfl
      | true => have : isIntDigit d = false := disj_sound F.ws_int h; simp [hd] at this
    have e1 := lexFrom_ws ws_open hw1
    have e2 : lexFrom .open_ [d] = some (.digits [d], []) := by simp [lexFrom, lexStep, dws, hd]
    have e3 := lexFrom_digits hds' [d]
    -- after the digits: either whitespace then `]`, or `]` directly
    have e4 : lexFrom (.digits (ds'.reverse ++ [d])) (w2 ++ [c]) = some (.out, [.atom (.cond (d :: ds'))]) := by
      cases w2 with
      | nil => simp [lexFrom, lexStep, cint, cP, cws, hc]
      | cons x xs =>
        have hx : isWs x = true := hw2 x (by simp)
        have hxs : AllWs xs := fun y hy => hw2 y (by simp [hy])
        have xint : isIntDigit x = false := disj_sound F.ws_int hx
        have xP : x ≠ 'P' := ne_of_false hx F.p_not.2.1
        have s1 : lexFrom (.digits (ds'.reverse ++ [d])) [x] = some (.close (.cond (d :: ds')), []) := by
          simp [lexFrom, lexStep, xint, xP, hx]
        have s2 := lexFrom_ws (ws_close (.cond (d :: ds'))) hxs
        have s3 : lexFrom (.close (.cond (d :: ds'))) [c] = some (.out, [.atom (.cond (d :: ds'))]) := by
          simp [lexFrom, lexStep, cws, hc]
        have := seq s1 (seq s2 s3)
        simpa using this
    have := seq e1 (seq e2 (seq e3 e4))
    simpa [List.append_assoc] using this
  | pkg ds w1 w2 hne hds hw1 hw2 =>
    obtain ⟨d, ds', rfl⟩ := List.exists_cons_of_ne_nil hne
    have hd : isIntDigit d = true := hds d (by simp)
    have hds' : ∀ x ∈ ds', isIntDigit x = true := fun x hx => hds x (by simp [hx])
    have dws : isWs d = false := by
      cases h : isWs d with
      | false => rfl
      | true => have : isIntDigit d = false := disj_sound F.ws_int h; simp [hd] at this
    have e1 := lexFrom_ws ws_open hw1
    have e2 : lexFrom .open_ [d] = some (.digits [d], []) := by simp [lexFrom, lexStep, dws, hd]
    have e3 := lexFrom_digits hds' [d]
    have e4 : lexFrom (.digits (ds'.reverse ++ [d])) ['P'] = some (.afterPkg (d :: ds' ++ ['P']), []) := by
      simp [lexFrom, lexStep, F.p_not.1]
    have e5 := lexFrom_ws (ws_afterPkg (d :: ds' ++ ['P'])) hw2
    have e6 : lexFrom (.afterPkg (d :: ds' ++ ['P'])) [c] = some (.out, [.atom (.pkg (d :: ds' ++ ['P']) none)]) := by
      simp [lexFrom, lexStep, cws, cuni, hc]
    have := seq e1 (seq e2 (seq e3 (seq e4 (seq e5 e6))))
    simpa [List.append_assoc] using this
  | pkgRep ds w1 w2 w3 a b b0 hne hds hw1 hw2 hw3 hane ha hb0 hb =>
    obtain ⟨d, ds', rfl⟩ := List.exists_cons_of_ne_nil hne
    obtain ⟨a0, a', rfl⟩ := List.exists_cons_of_ne_nil hane
    have hd : isIntDigit d = true := hds d (by simp)
    have hds' : ∀ x ∈ ds', isIntDigit x = true := fun x hx => hds x (by simp [hx])
    have ha0 : isUniDigit a0 = true := ha a0 (by simp)
    have ha' : ∀ x ∈ a', isUniDigit x = true := fun x hx => ha x (by simp [hx])
    have dws : isWs d = false := by
      cases h : isWs d with
      | false => rfl
      | true => have : isIntDigit d = false := disj_sound F.ws_int h; simp [hd] at this
    have a0ws : isWs a0 = false := disj_sound F.uni_ws ha0
    let key := d :: ds' ++ ['P']
    have e1 := lexFrom_ws ws_open hw1
    have e2 : lexFrom .open_ [d] = some (.digits [d], []) := by simp [lexFrom, lexStep, dws, hd]
    have e3 := lexFrom_digits hds' [d]
    have e4 : lexFrom (.digits (ds'.reverse ++ [d])) ['P'] = some (.afterPkg key, []) := by
      simp [lexFrom, lexStep, F.p_not.1, key]
    have e5 := lexFrom_ws (ws_afterPkg key) hw2
    have e6 : lexFrom (.afterPkg key) [a0] = some (.repMin key [a0], []) := by
      simp [lexFrom, lexStep, a0ws, ha0]
    have e7 := lexFrom_repMin ha' key [a0]
    have e8 : lexFrom (.repMin key (a'.reverse ++ [a0])) ['.', '.', b0] =
        some (.repMax key (b0 :: '.' :: '.' :: (a'.reverse ++ [a0])), []) := by
      simp [lexFrom, lexStep, F.dot_not, hb0]
    have e9 := lexFrom_repMax hb key (b0 :: '.' :: '.' :: (a'.reverse ++ [a0]))
    have hrev : (b.reverse ++ b0 :: '.' :: '.' :: (a'.reverse ++ [a0])).reverse = a0 :: a' ++ '.' :: '.' :: b0 :: b := by
      simp
    have e10 : lexFrom (.repMax key (b.reverse ++ b0 :: '.' :: '.' :: (a'.reverse ++ [a0]))) (w3 ++ [c]) =
        some (.out, [.atom (.pkg key (some (a0 :: a' ++ '.' :: '.' :: b0 :: b)))]) := by
      cases w3 with
      | nil => simp only [List.nil_append, lexFrom, lexStep, cuni, cws, hc, hrev]; simp
      | cons x xs =>
        have hx : isWs x = true := hw3 x (by simp)
        have hxs : AllWs xs := fun y hy => hw3 y (by simp [hy])
        have xuni : isUniDigit x = false := disj_sound F.ws_uni hx
        have s1 : lexFrom (.repMax key (b.reverse ++ b0 :: '.' :: '.' :: (a'.reverse ++ [a0]))) [x] =
            some (.close (.pkg key (some (a0 :: a' ++ '.' :: '.' :: b0 :: b))), []) := by
          simp only [lexFrom, lexStep, xuni, hx, hrev]; simp
        have s2 := lexFrom_ws (ws_close (.pkg key (some (a0 :: a' ++ '.' :: '.' :: b0 :: b)))) hxs
        have s3 : lexFrom (.close (.pkg key (some (a0 :: a' ++ '.' :: '.' :: b0 :: b)))) [c] =
            some (.out, [.atom (.pkg key (some (a0 :: a' ++ '.' :: '.' :: b0 :: b)))]) := by
          simp [lexFrom, lexStep, cws, hc]
        have := seq s1 (seq s2 s3)
        simpa using this
    have := seq e1 (seq e2 (seq e3 (seq e4 (seq e5 (seq e6 (seq e7 (seq e8 (seq e9 e10))))))))
    simpa [List.append_assoc, key] using this
  | time n w1 w2 hn hw1 hw2 =>
    have e1 := lexFrom_ws ws_open hw1
    have e2 : lexFrom .open_ ['U', 'B', n] = some (.close (.time ['U', 'B', n]), []) := by
      simp [lexFrom, lexStep, F.u_not.1, F.u_not.2, hn]
    have e3 := lexFrom_ws (ws_close (.time ['U', 'B', n])) hw2
    have e4 : lexFrom (.close (.time ['U', 'B', n])) [c] = some (.out, [.atom (.time ['U', 'B', n])]) := by
      simp [lexFrom, lexStep, cws, hc]
    have := seq e1 (seq e2 (seq e3 e4))
    simpa [List.append_assoc] using this

theorem lex_tok (F : ClassFacts) {t : Tok} {s : List Char} (h : SpellTok t s) :
    lexFrom .out s = some (.out, [t]) := by
  cases h with
  | lp c hc =>
    have h1 : isWs c = false := disj_sound F.lpar_ws hc
    have h2 : isLsqb c = false := disj_sound F.lpar_lsqb hc
    simp [lexFrom, lexStep, h1, h2, hc]
  | rp c hc =>
    have h1 : isWs c = false := disj_sound F.rpar_ws hc
    have h2 : isLsqb c = false := disj_sound F.rpar_lsqb hc
    have h3 : isLpar c = false := disj_sound F.rpar_lpar hc
    simp [lexFrom, lexStep, h1, h2, h3, hc]
  | or_ c hc =>
    have h1 : isWs c = false := disj_sound F.or_ws hc
    have h2 : isLsqb c = false := disj_sound F.or_lsqb hc
    have h3 : isLpar c = false := disj_sound F.or_lpar hc
    have h4 : isRpar c = false := disj_sound F.or_rpar hc
    simp [lexFrom, lexStep, h1, h2, h3, h4, hc]
  | xor_ c hc =>
    have h1 : isWs c = false := disj_sound F.xor_ws hc
    have h2 : isLsqb c = false := disj_sound F.xor_lsqb hc
    have h3 : isLpar c = false := disj_sound F.xor_lpar hc
    have h4 : isRpar c = false := disj_sound F.xor_rpar hc
    have h5 : isOpOr c = false := disj_sound F.xor_or hc
    simp [lexFrom, lexStep, h1, h2, h3, h4, h5, hc]
  | and_ c hc =>
    have h1 : isWs c = false := disj_sound F.and_ws hc
    have h2 : isLsqb c = false := disj_sound F.and_lsqb hc
    have h3 : isLpar c = false := disj_sound F.and_lpar hc
    have h4 : isRpar c = false := disj_sound F.and_rpar hc
    have h5 : isOpOr c = false := disj_sound F.and_or hc
    have h6 : isOpXor c = false := disj_sound F.and_xor hc
    simp [lexFrom, lexStep, h1, h2, h3, h4, h5, h6, hc]
  | atom o c a body ho hc hbody =>
    have h1 : isWs o = false := disj_sound F.lsqb_ws ho
    have e1 : lexFrom .out [o] = some (.open_, []) := by
      simp [lexFrom, lexStep, h1, ho]
    have := seq e1 (lex_atom_body F hbody hc)
    simpa using this

theorem lex_spelt (F : ClassFacts) {ts : List Tok} {cs : List Char} (h : Spelt ts cs) :
    lexFrom .out cs = some (.out, ts) := by
  induction h with
  | nil w hw => exact lexFrom_ws ws_out hw
  | cons w s rest t ts hw ht _ ih =>
    have := seq (lexFrom_ws ws_out hw) (seq (lex_tok F ht) ih)
    simpa [List.append_assoc] using this

end Ahbicht
