import Ahbicht.Lemmas.Rc
/-!
# One-hole contexts and the facts about a sub-expression its surroundings can observe
-/
namespace Ahbicht

inductive Ctx
  | hole
  | binL (o : Op) (c : Ctx) (r : Expr)
  | binR (o : Op) (l : Expr) (c : Ctx)
  deriving Repr

def Ctx.fill : Ctx → Expr → Expr
  | .hole, e => e
  | .binL o c r, e => .bin o (c.fill e) r
  | .binR o l c, e => .bin o l (c.fill e)

/-- everything the surroundings of a sub-expression can observe of it (validity: one direction) -/
structure Rel (s s' : Expr) : Prop where
  den : ∀ env, denote env s' = denote env s
  neu : neutralOnly s' = neutralOnly s
  fcl : s'.isFcLeaf = s.isFcLeaf
  hl : s'.isHintLeaf = s.isHintLeaf
  wf : WF s' = WF s
  inv : invalidAt s' = true → invalidAt s = true

theorem Rel.binL {s s' : Expr} (h : Rel s s') (o : Op) (r : Expr) : Rel (.bin o s r) (.bin o s' r) := by
  constructor
  · intro env; cases o <;> simp [denote, h.den, h.fcl]
  · simp [neutralOnly, h.neu]
  · rfl
  · rfl
  · cases o <;> simp [WF, h.wf, h.fcl, h.hl, h.neu]
  · intro hi
    simp only [invalidAt, Bool.or_eq_true] at hi ⊢
    rw [h.neu, h.fcl, h.hl] at hi
    rcases hi with (hi | hi) | hi
    · exact Or.inl (Or.inl (h.inv hi))
    · exact Or.inl (Or.inr hi)
    · exact Or.inr hi

theorem Rel.binR {s s' : Expr} (h : Rel s s') (o : Op) (l : Expr) : Rel (.bin o l s) (.bin o l s') := by
  constructor
  · intro env; cases o <;> simp [denote, h.den]
  · simp [neutralOnly, h.neu]
  · rfl
  · rfl
  · cases o <;> simp [WF, h.wf, h.fcl, h.hl, h.neu]
  · intro hi
    simp only [invalidAt, Bool.or_eq_true] at hi ⊢
    rw [h.neu, h.fcl, h.hl] at hi
    rcases hi with (hi | hi) | hi
    · exact Or.inl (Or.inl hi)
    · exact Or.inl (Or.inr (h.inv hi))
    · exact Or.inr hi

theorem Rel.fill {s s' : Expr} (h : Rel s s') (c : Ctx) : Rel (c.fill s) (c.fill s') := by
  induction c with
  | hole => exact h
  | binL o c r ih => exact ih.binL o r
  | binR o l c ih => exact ih.binR o l

/-- a replacement that is never a single key, as seen by a U/O/X frame directly around it -/
structure Weak (s s' : Expr) : Prop where
  den : ∀ env, denote env s' = denote env s
  neu : neutralOnly s' = neutralOnly s
  fcl : s'.isFcLeaf = false
  hl : s'.isHintLeaf = false
  wf : WF s' = WF s
  inv : invalidAt s' = true → invalidAt s = true

theorem Weak.frameL {s s' : Expr} (h : Weak s s') {o : Op} (ho : o ≠ .then_) (r : Expr) :
    Rel (.bin o s r) (.bin o s' r) := by
  constructor
  · intro env; cases o <;> simp [denote, h.den] at ho ⊢
  · simp [neutralOnly, h.neu]
  · rfl
  · rfl
  · cases o <;> simp [WF, h.wf] at ho ⊢
  · intro hi
    simp only [invalidAt, Bool.or_eq_true] at hi ⊢
    rw [h.neu, h.fcl, h.hl] at hi
    rcases hi with (hi | hi) | hi
    · exact Or.inl (Or.inl (h.inv hi))
    · exact Or.inl (Or.inr hi)
    · refine Or.inr ?_
      simp only [Bool.false_and, Bool.or_false, Bool.and_eq_true] at hi ⊢
      exact ⟨hi.1, by simp [hi.2]⟩

theorem Weak.frameR {s s' : Expr} (h : Weak s s') {o : Op} (ho : o ≠ .then_) (l : Expr) :
    Rel (.bin o l s) (.bin o l s') := by
  constructor
  · intro env; cases o <;> simp [denote, h.den] at ho ⊢
  · simp [neutralOnly, h.neu]
  · rfl
  · rfl
  · cases o <;> simp [WF, h.wf] at ho ⊢
  · intro hi
    simp only [invalidAt, Bool.or_eq_true] at hi ⊢
    rw [h.neu, h.fcl, h.hl] at hi
    rcases hi with (hi | hi) | hi
    · exact Or.inl (Or.inl hi)
    · exact Or.inl (Or.inr (h.inv hi))
    · refine Or.inr ?_
      simp only [Bool.and_false, Bool.or_false, Bool.and_eq_true] at hi ⊢
      exact ⟨hi.1, by simp [hi.2]⟩

end Ahbicht
