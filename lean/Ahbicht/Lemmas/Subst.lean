import Ahbicht.Lemmas.Parse
import Ahbicht.Model.Resolve
/-!
# Substituting tokens for atoms commutes with parsing
-/
namespace Ahbicht

def mapChain (g : Expr → Expr) (c : Chain) : Chain := (g c.1, c.2.map fun p => (p.1, g p.2))

def Frame.map (g : Expr → Expr) : Frame → Frame
  | .empty => .empty
  | .item c => .item (mapChain g c)
  | .pend c o => .pend (mapChain g c) o

/-- `g` respects binary nodes -/
def Hom (g : Expr → Expr) : Prop := ∀ o l r, g (.bin o l r) = .bin o (g l) (g r)

theorem bind_hom (σ : Atom → Expr) : Hom (Expr.bind σ) := fun _ _ _ => rfl

theorem foldBin_map {g : Expr → Expr} (hg : Hom g) (o : Op) (e : Expr) (es : List Expr) :
    foldBin o (g e) (es.map g) = g (foldBin o e es) := by
  induction es generalizing e with
  | nil => rfl
  | cons x xs ih => simp only [List.map_cons, foldBin]; rw [← hg, ih]

theorem splitTail_map (g : Expr → Expr) (o : Op) (h : Expr) (t : List (Op × Expr)) :
    splitTail o (g h) (t.map fun p => (p.1, g p.2)) = (splitTail o h t).map (mapChain g) := by
  induction t generalizing h with
  | nil => simp [splitTail, mapChain]
  | cons p rest ih =>
    obtain ⟨s, x⟩ := p
    simp only [List.map_cons, splitTail]
    split
    · simp [ih, mapChain]
    · rw [ih]
      cases hsp : splitTail o x rest with
      | nil => exact absurd hsp (splitTail_ne_nil o x rest)
      | cons c cs => obtain ⟨a, b⟩ := c; simp [mapChain]

theorem asm_map {g : Expr → Expr} (hg : Hom g) (os : List Op) (c : Chain) :
    asm os (mapChain g c) = g (asm os c) := by
  induction os generalizing c with
  | nil => rfl
  | cons o os ih =>
    obtain ⟨h, t⟩ := c
    simp only [asm, split, mapChain]
    rw [splitTail_map]
    cases hsp : splitTail o h t with
    | nil => exact absurd hsp (splitTail_ne_nil o h t)
    | cons a as =>
      simp only [List.map_cons, List.map_map]
      have : (as.map (asm os ∘ mapChain g)) = (as.map (asm os)).map g := by
        simp [List.map_map, Function.comp_def, ih]
      rw [ih, this, foldBin_map hg]

theorem build_map {g : Expr → Expr} (hg : Hom g) (c : Chain) : build (mapChain g c) = g (build c) :=
  asm_map hg levels c

theorem push_map (g : Expr → Expr) (f : Frame) (e : Expr) : (f.push e).map g = (f.map g).push (g e) := by
  cases f <;> simp [Frame.push, Frame.map, mapChain, Chain.snoc]

/-- replace every atom token by a token list -/
def substToks (τ : Atom → List Tok) : List Tok → List Tok
  | [] => []
  | .atom a :: ts => τ a ++ substToks τ ts
  | t :: ts => t :: substToks τ ts

/-- the replacement tokens of `a` behave like one item `σ a` -/
def Realises (τ : Atom → List Tok) (σ : Atom → Expr) : Prop :=
  ∀ a f st, runToks (f :: st) (τ a) = some (f.push (σ a) :: st)

theorem step_subst {τ : Atom → List Tok} {σ : Atom → Expr} (H : Realises τ σ) {fs fs' : List Frame} {t : Tok}
    (h : stepTok fs t = some fs') :
    runToks (fs.map (Frame.map (Expr.bind σ))) (substToks τ [t]) = some (fs'.map (Frame.map (Expr.bind σ))) := by
  cases t with
  | atom a =>
    cases fs with
    | nil => simp [stepTok] at h
    | cons f st =>
      simp [stepTok] at h; subst h
      simp only [substToks, List.append_nil, List.map_cons]
      rw [H a, push_map]; rfl
  | op o =>
    cases fs with
    | nil => simp [stepTok] at h
    | cons f st =>
      cases f <;> simp [stepTok] at h
      subst h
      simp [substToks, runToks, stepTok, Frame.map]
  | lp =>
    cases fs with
    | nil => simp [stepTok] at h
    | cons f st =>
      simp [stepTok] at h; subst h
      simp [substToks, runToks, stepTok, Frame.map]
  | rp =>
    cases fs with
    | nil => simp [stepTok] at h
    | cons f st =>
      cases st with
      | nil => cases f <;> simp [stepTok] at h
      | cons g st' =>
        cases f <;> simp [stepTok] at h
        subst h
        have hm : ∀ c : Chain, Frame.map (Expr.bind σ) (.item c) = .item (mapChain (Expr.bind σ) c) := fun _ => rfl
        simp only [substToks, runToks, List.map_cons, hm, stepTok, Option.bind_some, build_map (bind_hom σ), push_map]

theorem substToks_cons (τ : Atom → List Tok) (t : Tok) (ts : List Tok) :
    substToks τ (t :: ts) = substToks τ [t] ++ substToks τ ts := by
  cases t <;> simp [substToks]

theorem run_subst {τ : Atom → List Tok} {σ : Atom → Expr} (H : Realises τ σ) {ts : List Tok} {fs fs' : List Frame}
    (h : runToks fs ts = some fs') :
    runToks (fs.map (Frame.map (Expr.bind σ))) (substToks τ ts) = some (fs'.map (Frame.map (Expr.bind σ))) := by
  induction ts generalizing fs with
  | nil => simp [runToks] at h; subst h; rfl
  | cons t ts ih =>
    simp only [runToks] at h
    cases hs : stepTok fs t with
    | none => simp [hs] at h
    | some fs1 =>
      simp [hs] at h
      rw [substToks_cons, runToks_append, step_subst H hs]
      exact ih h

/-- **parsing commutes with substitution** (exactly, not only modulo `flat`) -/
theorem parse_subst {τ : Atom → List Tok} {σ : Atom → Expr} (H : Realises τ σ) {ts : List Tok} {e : Expr}
    (h : parseToks ts = some e) : parseToks (substToks τ ts) = some (e.bind σ) := by
  unfold parseToks at h ⊢
  cases hr : runToks [.empty] ts with
  | none => simp [hr] at h
  | some fs =>
    rw [hr] at h
    have := run_subst H hr
    simp only [List.map_cons, List.map_nil, Frame.map] at this
    rw [this]
    match fs, h with
    | [.item c], h =>
      simp at h; subst h
      simp [Frame.map, build_map (bind_hom σ)]

/-- a successful run does not look below the frames it started with -/
theorem step_extend {fs fs' : List Frame} {t : Tok} (h : stepTok fs t = some fs') (rest : List Frame) :
    stepTok (fs ++ rest) t = some (fs' ++ rest) := by
  cases t with
  | atom a => cases fs with
    | nil => simp [stepTok] at h
    | cons f st => simp [stepTok] at h ⊢; subst h; rfl
  | op o => cases fs with
    | nil => simp [stepTok] at h
    | cons f st => cases f <;> simp [stepTok] at h ⊢; subst h; rfl
  | lp => cases fs with
    | nil => simp [stepTok] at h
    | cons f st => simp [stepTok] at h ⊢; subst h; rfl
  | rp => cases fs with
    | nil => simp [stepTok] at h
    | cons f st => cases st with
      | nil => cases f <;> simp [stepTok] at h
      | cons g st' => cases f <;> simp [stepTok] at h ⊢; subst h; rfl

theorem run_extend {ts : List Tok} {fs fs' : List Frame} (h : runToks fs ts = some fs') (rest : List Frame) :
    runToks (fs ++ rest) ts = some (fs' ++ rest) := by
  induction ts generalizing fs with
  | nil => simp [runToks] at h ⊢; subst h; rfl
  | cons t ts ih =>
    simp only [runToks] at h ⊢
    cases hs : stepTok fs t with
    | none => simp [hs] at h
    | some fs1 =>
      simp [hs] at h
      rw [step_extend hs]
      exact ih h

/-- a bracketed well-formed token list behaves like one item -/
theorem run_bracketed {bt : List Tok} {be : Expr} (h : parseToks bt = some be) (f : Frame) (st : List Frame) :
    runToks (f :: st) (.lp :: bt ++ [.rp]) = some (f.push be :: st) := by
  unfold parseToks at h
  cases hr : runToks [.empty] bt with
  | none => simp [hr] at h
  | some fs =>
    rw [hr] at h
    match fs, h with
    | [.item c], h =>
      simp at h; subst h
      have := run_extend hr (f :: st)
      simp only [List.cons_append, List.nil_append] at this
      simp [runToks, stepTok, runToks_append, this]

end Ahbicht
