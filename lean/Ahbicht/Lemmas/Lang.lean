import Ahbicht.Lemmas.Parse
/-!
# The bracket-stack machine accepts exactly the grammar as written

`Lang` is the `?expression` rule of the Lark grammar read as a context-free grammar over tokens:
`e ::= e OP e | e e | ( e ) | atom`.
-/
namespace Ahbicht

inductive Lang : List Tok → Prop
  | atom (a : Atom) : Lang [.atom a]
  | paren {ts} : Lang ts → Lang (.lp :: ts ++ [.rp])
  | binop {l r} (o : Op3) : Lang l → Lang r → Lang (l ++ .op o :: r)
  | juxt {l r} : Lang l → Lang r → Lang (l ++ r)

/-- control skeleton of a frame -/
inductive Fr | empty | item | pend deriving DecidableEq, Repr

def Frame.shape : Frame → Fr
  | .empty => .empty | .item _ => .item | .pend _ _ => .pend

def stepSh : List Fr → Tok → Option (List Fr)
  | _ :: st, .atom _ => some (.item :: st)
  | f :: st, .op _ => if f = .item then some (.pend :: st) else none
  | f :: st, .lp => some (.empty :: f :: st)
  | f :: _ :: st, .rp => if f = .item then some (.item :: st) else none
  | _, _ => none

def runSh : List Fr → List Tok → Option (List Fr)
  | fs, [] => some fs
  | fs, t :: ts => (stepSh fs t).bind (fun fs' => runSh fs' ts)

@[simp] theorem push_shape (f : Frame) (e : Expr) : (f.push e).shape = .item := by
  cases f <;> rfl
@[simp] theorem shape_empty : Frame.empty.shape = .empty := rfl
@[simp] theorem shape_item (c : Chain) : (Frame.item c).shape = .item := rfl
@[simp] theorem shape_pend (c : Chain) (o : Op) : (Frame.pend c o).shape = .pend := rfl

/-- the value machine and its skeleton move in lock-step -/
theorem step_sim (fs : List Frame) (t : Tok) :
    (stepTok fs t).map (·.map Frame.shape) = stepSh (fs.map Frame.shape) t := by
  cases t with
  | atom a => cases fs with
    | nil => rfl
    | cons f st => simp [stepTok, stepSh]
  | op o => cases fs with
    | nil => rfl
    | cons f st => cases f <;> simp [stepTok, stepSh]
  | lp => cases fs with
    | nil => rfl
    | cons f st => simp [stepTok, stepSh]
  | rp => cases fs with
    | nil => rfl
    | cons f st => cases st with
      | nil => cases f <;> simp [stepTok, stepSh]
      | cons g st' => cases f <;> simp [stepTok, stepSh]

theorem run_sim (fs : List Frame) (ts : List Tok) :
    (runToks fs ts).map (·.map Frame.shape) = runSh (fs.map Frame.shape) ts := by
  induction ts generalizing fs with
  | nil => simp [runToks, runSh]
  | cons t ts ih =>
    simp only [runToks, runSh]
    rw [← step_sim]
    cases stepTok fs t with
    | none => simp
    | some fs' => simp [ih]

theorem runSh_append (fs : List Fr) (a b : List Tok) :
    runSh fs (a ++ b) = (runSh fs a).bind (fun fs' => runSh fs' b) := by
  induction a generalizing fs with
  | nil => simp [runSh]
  | cons t a ih =>
    simp only [List.cons_append, runSh]
    cases stepSh fs t with
    | none => simp
    | some fs' => simp [ih]

theorem sh_complete {ts} (h : Lang ts) : ∀ f st, runSh (f :: st) ts = some (.item :: st) := by
  induction h with
  | atom n => intro f st; simp [runSh, stepSh]
  | @paren ts _ ih =>
    intro f st
    have h1 : runSh (f :: st) (.lp :: ts ++ [.rp]) = runSh (.empty :: f :: st) (ts ++ [.rp]) := by
      simp [runSh, stepSh]
    rw [h1, runSh_append, ih]
    simp [runSh, stepSh]
  | binop o _ _ ihl ihr =>
    intro f st
    rw [runSh_append, ihl]
    simp [runSh, stepSh, ihr]
  | juxt _ _ ihl ihr =>
    intro f st
    rw [runSh_append, ihl]
    simp [ihr]

def FrameOk : Fr → List Tok → Prop
  | .empty, w => w = []
  | .item, w => Lang w
  | .pend, w => ∃ u o, w = u ++ [.op o] ∧ Lang u

inductive StackOk : List Fr → List (List Tok) → Prop
  | nil : StackOk [] []
  | cons {f w fs ws} : FrameOk f w → StackOk fs ws → StackOk (f :: fs) (w :: ws)

def consumed : List (List Tok) → List Tok
  | [] => []
  | [w] => w
  | w :: v :: ws => consumed (v :: ws) ++ .lp :: w

theorem lang_extend_item {f w x} (hf : FrameOk f w) (hx : Lang x) : Lang (w ++ x) := by
  cases f with
  | empty => simp [FrameOk] at hf; subst hf; simpa using hx
  | item => exact Lang.juxt hf hx
  | pend =>
    obtain ⟨u, o, rfl, hu⟩ := hf
    simpa using Lang.binop o hu hx

theorem sound_step {fs ws t fs'} (h : StackOk fs ws) (hs : stepSh fs t = some fs') :
    ∃ ws', StackOk fs' ws' ∧ consumed ws' = consumed ws ++ [t] := by
  cases h with
  | nil => cases t <;> simp [stepSh] at hs
  | @cons f w fs0 ws0 hf hrest =>
    cases t with
    | atom n =>
      simp [stepSh] at hs; subst hs
      refine ⟨(w ++ [.atom n]) :: ws0, .cons (lang_extend_item hf (.atom n)) hrest, ?_⟩
      cases ws0 <;> simp [consumed]
    | op o =>
      simp [stepSh] at hs
      obtain ⟨hfi, rfl⟩ := hs
      subst hfi
      refine ⟨(w ++ [.op o]) :: ws0, .cons ⟨w, o, rfl, hf⟩ hrest, ?_⟩
      cases ws0 <;> simp [consumed]
    | lp =>
      simp [stepSh] at hs; subst hs
      exact ⟨[] :: w :: ws0, .cons rfl (.cons hf hrest), by simp [consumed]⟩
    | rp =>
      cases hrest with
      | nil => simp [stepSh] at hs
      | @cons g v fs1 ws1 hg hrest' =>
        simp [stepSh] at hs
        obtain ⟨hfi, rfl⟩ := hs
        subst hfi
        refine ⟨(v ++ .lp :: w ++ [.rp]) :: ws1, .cons ?_ hrest', ?_⟩
        · have := lang_extend_item hg (Lang.paren hf)
          show Lang _
          simpa using this
        · cases ws1 <;> simp [consumed]

theorem sound_run {fs ws ts fs'} (h : StackOk fs ws) (hr : runSh fs ts = some fs') :
    ∃ ws', StackOk fs' ws' ∧ consumed ws' = consumed ws ++ ts := by
  induction ts generalizing fs ws with
  | nil => simp [runSh] at hr; subst hr; exact ⟨ws, h, by simp⟩
  | cons t ts ih =>
    simp only [runSh] at hr
    cases hst : stepSh fs t with
    | none => simp [hst] at hr
    | some fs1 =>
      simp [hst] at hr
      obtain ⟨ws1, h1, c1⟩ := sound_step h hst
      obtain ⟨ws2, h2, c2⟩ := ih h1 hr
      exact ⟨ws2, h2, by simp [c2, c1]⟩

theorem sh_accept_iff_lang (ts : List Tok) : runSh [.empty] ts = some [.item] ↔ Lang ts := by
  constructor
  · intro hr
    obtain ⟨ws, hs, hc⟩ := sound_run (.cons (f := .empty) (w := []) rfl .nil) hr
    cases hs with
    | cons hf hrest =>
      cases hrest
      simp [consumed] at hc
      subst hc
      exact hf
  · intro h
    simp [sh_complete h]

/-- acceptance by the value machine = acceptance by its skeleton -/
theorem parseToks_isSome_iff (ts : List Tok) : (parseToks ts).isSome = true ↔ runSh [.empty] ts = some [.item] := by
  have hsim := run_sim [.empty] ts
  simp only [List.map_cons, List.map_nil, shape_empty] at hsim
  unfold parseToks
  cases hr : runToks [.empty] ts with
  | none => simp [hr] at hsim; simp [← hsim]
  | some fs =>
    simp [hr] at hsim
    rw [← hsim]
    match fs with
    | [] => simp
    | [.empty] => simp
    | [.item c] => simp
    | [.pend c o] => simp
    | _ :: _ :: _ => simp

end Ahbicht
