import Ahbicht.Model.Val
/-!
# Facts about the three extracted tables of `validation.py` (all decided by the kernel on the generated data)
-/
namespace Ahbicht
open Generated

/-- the three statuses of segment-level nodes -/
def RVV.isBase : RVV → Bool
  | .IS_REQUIRED | .IS_FORBIDDEN | .IS_OPTIONAL => true
  | _ => false

/-- parent statuses that can occur: none at the top, otherwise a base status -/
def okParent : Option RVV → Bool
  | none => true
  | some p => p.isBase

instance decForallRVV {p : RVV → Prop} [DecidablePred p] : Decidable (∀ a, p a) :=
  decidable_of_iff (p .IS_REQUIRED ∧ p .IS_FORBIDDEN ∧ p .IS_OPTIONAL ∧ p .IS_REQUIRED_AND_EMPTY ∧ p .IS_REQUIRED_AND_FILLED ∧
      p .IS_FORBIDDEN_AND_EMPTY ∧ p .IS_FORBIDDEN_AND_FILLED ∧ p .IS_OPTIONAL_AND_EMPTY ∧ p .IS_OPTIONAL_AND_FILLED)
    ⟨fun ⟨a, b, c, d, e, f, g, h, i⟩ x => by cases x <;> assumption,
     fun h => ⟨h _, h _, h _, h _, h _, h _, h _, h _, h _⟩⟩

instance decExistsRVV {p : RVV → Prop} [DecidablePred p] : Decidable (∃ a, p a) :=
  decidable_of_iff (¬ ∀ a, ¬ p a) ⟨fun h => Classical.not_forall_not.1 h, fun ⟨a, ha⟩ h => h a ha⟩

instance decForallInd {p : Ind → Prop} [DecidablePred p] : Decidable (∀ a, p a) :=
  decidable_of_iff (p .MUSS ∧ p .SOLL ∧ p .KANN ∧ p .X ∧ p .O ∧ p .U)
    ⟨fun ⟨a, b, c, d, e, f⟩ x => by cases x <;> assumption, fun h => ⟨h _, h _, h _, h _, h _, h _⟩⟩

instance decForallOptBool {p : Option Bool → Prop} [DecidablePred p] : Decidable (∀ a, p a) :=
  decidable_of_iff (p none ∧ p (some true) ∧ p (some false))
    ⟨fun ⟨a, b, c⟩ x => by
      cases x with
      | none => exact a
      | some v => cases v <;> assumption,
     fun h => ⟨h _, h _, h _⟩⟩

/-- the documented mapping: requirement indicator × requirement outcome (with SOLL read through the flag) -/
def mapSpec (fulfilled : Option Bool) (ind : Ind) (soll : Bool) : TRes :=
  let ind' := if ind = .SOLL then (if soll then Ind.MUSS else Ind.KANN) else ind
  match fulfilled, ind' with
  | some false, _ => .val .IS_FORBIDDEN
  | none, .KANN => .val .IS_OPTIONAL
  | none, _ => .notImplemented
  | some true, .KANN => .val .IS_OPTIONAL
  | some true, _ => .val .IS_REQUIRED

/-- the documented table: parent required keeps the child's status, parent optional turns required into optional -/
def combineSpec (parent : Option RVV) (child : RVV) : TRes :=
  match parent with
  | none => .val child
  | some .IS_REQUIRED => .val child
  | some .IS_OPTIONAL => if child = .IS_REQUIRED then .val .IS_OPTIONAL else .val child
  | some _ => .valueError

theorem mapOwn_eq_spec : ∀ (f : Option Bool) (i : Ind) (s : Bool), mapOwn f i s = mapSpec f i s := by decide
theorem combine_eq_spec : ∀ (p : Option RVV) (c : RVV), combine p c = combineSpec p c := by
  intro p c; cases p with
  | none => revert c; decide
  | some p => revert p c; decide

/-- results of the mapping are base statuses -/
theorem mapOwn_base : ∀ (f : Option Bool) (i : Ind) (s : Bool) (v : RVV), mapOwn f i s = .val v → v.isBase = true := by decide

/-- the only failure of the mapping is the documented `NotImplementedError` -/
theorem mapOwn_err : ∀ (f : Option Bool) (i : Ind) (s : Bool), mapOwn f i s ≠ .valueError ∧ mapOwn f i s ≠ .other := by decide

/-- combining never fails on parents that occur and yields a base status for a base child -/
theorem combine_base : ∀ (p : Option RVV) (c : RVV), okParent p = true → p ≠ some .IS_FORBIDDEN → c.isBase = true →
    ∃ v, combine p c = .val v ∧ v.isBase = true := by
  intro p c; cases p with
  | none => revert c; decide
  | some p => revert p c; decide

/-- the FILLED / EMPTY suffix exists for every base status -/
theorem suffix_base : ∀ (b : RVV) (f : Bool), b.isBase = true → ∃ v, withSuffix b f = .val v := by decide

end Ahbicht
