import Ahbicht.Model.Async
/-!
# The task/context machine: observed context values do not depend on the schedule
-/
namespace Ahbicht

@[simp] theorem upd_same {β : Type} (f : Tid → β) (k) (v : β) : upd f k v k = v := by simp [upd]
theorem upd_other {β : Type} (f : Tid → β) (k x) (v : β) (h : x ≠ k) : upd f k v x = f x := by simp [upd, h]

structure CWF (P : Tid → List COp) (parent : Tid → Option (Tid × Nat)) : Prop where
  root   : parent 0 = none
  lt     : ∀ t p j, parent t = some (p, j) → p < t
  spawn  : ∀ t i c, (P t)[i]? = some (.spawn c) → parent c = some (t, i)

theorem lastSet_append (l r : List COp) (acc) : lastSet (l ++ r) acc = lastSet r (lastSet l acc) := by
  induction l generalizing acc with
  | nil => rfl
  | cons o l ih => cases o <;> simp [lastSet, ih]

theorem take_succ_getElem? {α} (l : List α) (i : Nat) (x : α) (h : l[i]? = some x) :
    l.take (i + 1) = l.take i ++ [x] := by
  induction l generalizing i with
  | nil => simp at h
  | cons a l ih =>
    cases i with
    | zero => simp at h; simp [h]
    | succ i => simp at h; simp [ih i h]

theorem expected_step_set (P parent t i v) (h : (P t)[i]? = some (.set v)) :
    expected P parent t (i + 1) = some v := by
  rw [expected, take_succ_getElem? _ _ _ h, lastSet_append]; rfl

theorem expected_step_other (P parent t i o) (h : (P t)[i]? = some o) (hn : ∀ v, o ≠ .set v) :
    expected P parent t (i + 1) = expected P parent t i := by
  rw [expected, take_succ_getElem? _ _ _ h, lastSet_append]
  conv => rhs; rw [expected]
  cases o with
  | set v => exact absurd rfl (hn v)
  | spawn c => rfl
  | get => rfl

theorem expected_child (P parent) (wf : CWF P parent) (t i c) (h : (P t)[i]? = some (.spawn c)) :
    expected P parent c 0 = expected P parent t i := by
  have hp := wf.spawn t i c h
  have hlt := wf.lt c t i hp
  rw [expected]
  simp [lastSet, hp, hlt]

/-- invariant: every live task holds exactly the statically expected value; tasks not yet live sit at pc 0 -/
def CtxInv (P : Tid → List COp) (parent : Tid → Option (Tid × Nat)) (s : CSt) : Prop :=
  (∀ t, s.live t = true → s.ctx t = expected P parent t (s.pc t)) ∧
  (∀ t, s.live t = false → s.pc t = 0) ∧
  (∀ e ∈ s.out, e.2.2 = expected P parent e.1 e.2.1)

theorem inv_init (P parent) (wf : CWF P parent) : CtxInv P parent cinit := by
  refine ⟨?_, ?_, ?_⟩
  · intro t ht
    have : t = 0 := by simpa [cinit] using ht
    subst this
    simp [cinit]
    rw [expected]; simp [lastSet, wf.root]
  · intro t _; rfl
  · intro e he; simp [cinit] at he

theorem inv_step (P parent) (wf : CWF P parent) (s : CSt) (t : Tid) (h : CtxInv P parent s) :
    CtxInv P parent (cstep P s t) := by
  obtain ⟨hctx, hpc, hout⟩ := h
  unfold cstep
  split
  next hlive =>
    split
    next => exact ⟨hctx, hpc, hout⟩
    next v hop =>
      refine ⟨?_, ?_, hout⟩
      · intro x hx
        by_cases hxt : x = t
        · subst hxt; simp [expected_step_set P parent _ _ v hop]
        · simp [upd_other _ _ _ _ hxt]; exact hctx x hx
      · intro x hx
        by_cases hxt : x = t
        · subst hxt; simp [hlive] at hx
        · simp [upd_other _ _ _ _ hxt]; exact hpc x hx
    next c hop =>
      split
      next => exact ⟨hctx, hpc, hout⟩
      next hc =>
        have hc' : s.live c = false := by simpa using hc
        have hct : c ≠ t := by intro e; subst e; simp [hlive] at hc'
        refine ⟨?_, ?_, hout⟩
        · intro x hx
          by_cases hxc : x = c
          · subst hxc
            have hpc0 := hpc x hc'
            simp [upd_other _ _ _ _ hct, hpc0, expected_child P parent wf t _ x hop, hctx t hlive]
          · by_cases hxt : x = t
            · subst hxt
              simp [upd_other _ _ _ _ hxc,
                expected_step_other P parent x _ _ hop (by intro v; simp), hctx x hlive]
            · have hx' : s.live x = true := by simpa [upd_other _ _ _ _ hxc] using hx
              simp [upd_other _ _ _ _ hxc, upd_other _ _ _ _ hxt, hctx x hx']
        · intro x hx
          have hxc : x ≠ c := by intro e; subst e; simp at hx
          have hx' : s.live x = false := by simpa [upd_other _ _ _ _ hxc] using hx
          have hxt : x ≠ t := by intro e; subst e; simp [hlive] at hx'
          simp [upd_other _ _ _ _ hxt, hpc x hx']
    next hop =>
      refine ⟨?_, ?_, ?_⟩
      · intro x hx
        by_cases hxt : x = t
        · subst hxt
          simp [expected_step_other P parent x _ _ hop (by intro v; simp), hctx x hlive]
        · simp [upd_other _ _ _ _ hxt]; exact hctx x hx
      · intro x hx
        by_cases hxt : x = t
        · subst hxt; simp [hlive] at hx
        · simp [upd_other _ _ _ _ hxt]; exact hpc x hx
      · intro e he
        simp at he
        rcases he with rfl | he
        · exact hctx t hlive
        · exact hout e he
  next => exact ⟨hctx, hpc, hout⟩

/-- every value observed by any `get`, under any schedule, is the statically expected one -/
theorem ctx_schedule_independent (P parent) (wf : CWF P parent) (sched : List Tid) :
    ∀ e ∈ (crun P cinit sched).out, e.2.2 = expected P parent e.1 e.2.1 := by
  have : ∀ s, CtxInv P parent s → CtxInv P parent (crun P s sched) := by
    induction sched with
    | nil => intro s h; exact h
    | cons t ts ih => intro s h; exact ih _ (inv_step P parent wf s t h)
  exact (this cinit (inv_init P parent wf)).2.2


end Ahbicht
