import Ahbicht.Model.Lex
/-!
# Lemmas about the scanner: segments of a written token
-/
namespace Ahbicht
open Generated

/-- range lists without a common code point -/
def disj (a b : List (Nat × Nat)) : Bool :=
  a.all fun r => b.all fun s => decide (r.2 < s.1) || decide (s.2 < r.1)

theorem disj_sound {a b : List (Nat × Nat)} (h : disj a b = true) {c : Char}
    (ha : inRanges a c = true) : inRanges b c = false := by
  cases hb : inRanges b c with
  | false => rfl
  | true =>
    exfalso
    simp only [inRanges, List.any_eq_true, Bool.and_eq_true, decide_eq_true_eq] at ha hb
    obtain ⟨r, hr, hr1, hr2⟩ := ha
    obtain ⟨s, hs, hs1, hs2⟩ := hb
    simp only [disj, List.all_eq_true, Bool.or_eq_true, decide_eq_true_eq] at h
    rcases h r hr s hs with h | h <;> omega

theorem lexFrom_append (s : LState) (a b : List Char) :
    lexFrom s (a ++ b) = match lexFrom s a with
      | none => none
      | some (s', ts) => match lexFrom s' b with
        | none => none
        | some (s'', ts') => some (s'', ts ++ ts') := by
  induction a generalizing s with
  | nil =>
    simp only [List.nil_append, lexFrom]
    cases lexFrom s b with
    | none => rfl
    | some p => obtain ⟨s'', ts'⟩ := p; simp
  | cons c cs ih =>
    simp only [List.cons_append, lexFrom]
    cases hstep : lexStep s c with
    | none => rfl
    | some p =>
      obtain ⟨s', t⟩ := p
      simp only
      rw [ih]
      cases lexFrom s' cs with
      | none => rfl
      | some q =>
        obtain ⟨s2, ts⟩ := q
        simp only
        cases lexFrom s2 b with
        | none => rfl
        | some r =>
          obtain ⟨s3, ts'⟩ := r
          cases t <;> simp

def AllWs (w : List Char) : Prop := ∀ c ∈ w, isWs c = true

/-- a state that stays put on whitespace swallows any run of whitespace -/
theorem lexFrom_ws {s : LState} (hs : ∀ c, isWs c = true → lexStep s c = some (s, none)) {w : List Char}
    (hw : AllWs w) : lexFrom s w = some (s, []) := by
  induction w with
  | nil => rfl
  | cons c cs ih =>
    have hc : isWs c = true := hw c (by simp)
    have hcs : AllWs cs := fun d hd => hw d (by simp [hd])
    simp [lexFrom, hs c hc, ih hcs]

theorem ws_out : ∀ c, isWs c = true → lexStep .out c = some (.out, none) := by
  intro c h; simp [lexStep, h]
theorem ws_open : ∀ c, isWs c = true → lexStep .open_ c = some (.open_, none) := by
  intro c h; simp [lexStep, h]
theorem ws_afterPkg (k) : ∀ c, isWs c = true → lexStep (.afterPkg k) c = some (.afterPkg k, none) := by
  intro c h; simp [lexStep, h]
theorem ws_close (a) : ∀ c, isWs c = true → lexStep (.close a) c = some (.close a, none) := by
  intro c h; simp [lexStep, h]

theorem lexFrom_digits {ds : List Char} (h : ∀ c ∈ ds, isIntDigit c = true) (acc : List Char) :
    lexFrom (.digits acc) ds = some (.digits (ds.reverse ++ acc), []) := by
  induction ds generalizing acc with
  | nil => rfl
  | cons c cs ih =>
    have hc := h c (by simp)
    have hcs : ∀ d ∈ cs, isIntDigit d = true := fun d hd => h d (by simp [hd])
    simp [lexFrom, lexStep, hc, ih hcs]

theorem lexFrom_repMin {ds : List Char} (h : ∀ c ∈ ds, isUniDigit c = true) (k acc : List Char) :
    lexFrom (.repMin k acc) ds = some (.repMin k (ds.reverse ++ acc), []) := by
  induction ds generalizing acc with
  | nil => rfl
  | cons c cs ih =>
    have hc := h c (by simp)
    have hcs : ∀ d ∈ cs, isUniDigit d = true := fun d hd => h d (by simp [hd])
    simp [lexFrom, lexStep, hc, ih hcs]

theorem lexFrom_repMax {ds : List Char} (h : ∀ c ∈ ds, isUniDigit c = true) (k acc : List Char) :
    lexFrom (.repMax k acc) ds = some (.repMax k (ds.reverse ++ acc), []) := by
  induction ds generalizing acc with
  | nil => rfl
  | cons c cs ih =>
    have hc := h c (by simp)
    have hcs : ∀ d ∈ cs, isUniDigit d = true := fun d hd => h d (by simp [hd])
    simp [lexFrom, lexStep, hc, ih hcs]

/-- the facts about the extracted character classes the scanner relies on (all decided on the generated tables) -/
structure ClassFacts : Prop where
  ws_lsqb : disj cc_ws cc_lsqb = true
  ws_int : disj cc_ws cc_intDigit = true
  ws_uni : disj cc_ws cc_uniDigit = true
  rsqb_ws : disj cc_rsqb cc_ws = true
  rsqb_int : disj cc_rsqb cc_intDigit = true
  rsqb_uni : disj cc_rsqb cc_uniDigit = true
  uni_ws : disj cc_uniDigit cc_ws = true
  lsqb_ws : disj cc_lsqb cc_ws = true
  lpar_ws : disj cc_lpar cc_ws = true
  lpar_lsqb : disj cc_lpar cc_lsqb = true
  rpar_ws : disj cc_rpar cc_ws = true
  rpar_lsqb : disj cc_rpar cc_lsqb = true
  rpar_lpar : disj cc_rpar cc_lpar = true
  or_ws : disj cc_opOr cc_ws = true
  or_lsqb : disj cc_opOr cc_lsqb = true
  or_lpar : disj cc_opOr cc_lpar = true
  or_rpar : disj cc_opOr cc_rpar = true
  xor_ws : disj cc_opXor cc_ws = true
  xor_lsqb : disj cc_opXor cc_lsqb = true
  xor_lpar : disj cc_opXor cc_lpar = true
  xor_rpar : disj cc_opXor cc_rpar = true
  xor_or : disj cc_opXor cc_opOr = true
  and_ws : disj cc_opAnd cc_ws = true
  and_lsqb : disj cc_opAnd cc_lsqb = true
  and_lpar : disj cc_opAnd cc_lpar = true
  and_rpar : disj cc_opAnd cc_rpar = true
  and_or : disj cc_opAnd cc_opOr = true
  and_xor : disj cc_opAnd cc_opXor = true
  p_not : isIntDigit 'P' = false ∧ isWs 'P' = false ∧ isRsqb 'P' = false
  u_not : isIntDigit 'U' = false ∧ isWs 'U' = false
  dot_not : isUniDigit '.' = false

theorem classFacts : ClassFacts := by
  constructor <;> decide

end Ahbicht
