import Ahbicht.Model.Heap
/-!
# Lemmas about M-HEAP (for C11)

`readTree (fuel+1)` calls `readItems fuel`, which calls `readTree (fuel-1)` for a tree child: every nesting level costs **two** units
of fuel.  The model reads with fuel `h.trees.length + 1`, which is too little for a chain of depth ≥ 3 in a small heap (see
`C11_pure_fails_as_modelled` in `Properties/C11.lean`).  Everything below is therefore proved for copies `handOutF` / `parseOpF` /
`runOpsF` of the model functions that are parametrised by the fuel `fuel : Heap → Nat`; they coincide with the model for
`fuel h = h.trees.length + 1` (`runOpsF_model`), and the purity theorem holds for every `fuel` with `2 * h.trees.length ≤ fuel h + 1`.
-/
namespace Ahbicht

/-! ## fuel-parametrised copies of the model functions -/

def handOutF (fuel : Heap → Nat) (mode : CopyMode) (h : Heap) (r : Nat) : Option (Heap × Nat) :=
  match mode with
  | .deep =>
    match readTree h (fuel h) r with
    | some v => some (allocTree .user v h)
    | none => none
  | .shareChildren =>
    match h.trees[r]? with
    | some c => some ({ h with trees := h.trees ++ [⟨.user, c.data, c.list⟩] }, h.trees.length)
    | none => none

def parseOpF (fuel : Heap → Nat) (pp : String → Option LTree) (mode : CopyMode) (cap : Nat) (st : State) (s : String) :
    State × Option Nat :=
  match st.memo.find? (·.1 == s) with
  | some (_, r) =>
    let memo' := (s, r) :: st.memo.filter (·.1 != s)
    match handOutF fuel mode st.heap r with
    | some (h', u) => ({ heap := h', memo := memo', held := st.held ++ [u] }, some u)
    | none => ({ st with memo := memo' }, none)
  | none =>
    match pp s with
    | none => (st, none)
    | some v =>
      let (h₁, r) := allocTree .cache v st.heap
      let memo' := ((s, r) :: st.memo).take cap
      match handOutF fuel mode h₁ r with
      | some (h', u) => ({ heap := h', memo := memo', held := st.held ++ [u] }, some u)
      | none => ({ st with heap := h₁, memo := memo' }, none)

def runOpsF (fuel : Heap → Nat) (pp : String → Option LTree) (mode : CopyMode) (cap : Nat) :
    State → List HOp → List (Option LTree)
  | _, [] => []
  | st, .parse s :: rest =>
    let (st', r) := parseOpF fuel pp mode cap st s
    (r.bind fun u => readTree st'.heap (fuel st'.heap) u) :: runOpsF fuel pp mode cap st' rest
  | st, .edit root path e :: rest => runOpsF fuel pp mode cap (editOp st root path e) rest

/-- the fuel of the model -/
def modelFuel (h : Heap) : Nat := 2 * h.trees.length + 1

theorem handOutF_model : handOutF modelFuel = handOut := by
  funext mode h r; cases mode <;> rfl

theorem parseOpF_model : parseOpF modelFuel = parseOp := by
  funext pp mode cap st s
  unfold parseOpF parseOp
  rw [handOutF_model]
  rfl

theorem runOpsF_model (pp : String → Option LTree) (mode : CopyMode) (cap : Nat) (st : State) (ops : List HOp) :
    runOpsF modelFuel pp mode cap st ops = runOps pp mode cap st ops := by
  induction ops generalizing st with
  | nil => rfl
  | cons op rest ih =>
    cases op with
    | parse s => simp only [runOpsF, runOps, parseOpF_model, ih, modelFuel]
    | edit root path e => simp only [runOpsF, runOps, ih]

/-! ## list helpers -/

theorem get_append_single {α} {l : List α} {a x : α} {i : Nat} (h : (l ++ [a])[i]? = some x) :
    l[i]? = some x ∨ (i = l.length ∧ x = a) := by
  rw [List.getElem?_append] at h
  split at h
  · exact .inl h
  · rename_i hi
    right
    have hi' : i - l.length = 0 := by
      cases hk : i - l.length with
      | zero => rfl
      | succ k => rw [hk] at h; simp at h
    rw [hi'] at h
    simp at h
    exact ⟨by omega, h.symm⟩

theorem get_append_of_get {α} {l l2 : List α} {x : α} {i : Nat} (h : l[i]? = some x) : (l ++ l2)[i]? = some x := by
  have hi : i < l.length := (List.getElem?_eq_some_iff.1 h).1
  rw [List.getElem?_append_left hi]; exact h

theorem get_set_cases {α} {l : List α} {a x : α} {i j : Nat} (h : (l.set i a)[j]? = some x) :
    (j = i ∧ x = a ∧ i < l.length) ∨ (j ≠ i ∧ l[j]? = some x) := by
  rw [List.getElem?_set] at h
  split at h
  · rename_i hij
    split at h
    · rename_i hlt
      left; simp at h; exact ⟨hij.symm, h.symm, hlt⟩
    · simp at h
  · rename_i hij
    right; exact ⟨fun e => hij e.symm, h⟩

theorem lt_of_get {α} {l : List α} {x : α} {i : Nat} (h : l[i]? = some x) : i < l.length :=
  (List.getElem?_eq_some_iff.1 h).1

/-! ## what a value looks like in the heap -/

mutual
/-- the cells below `r` spell the value, all of them lie in region `reg`, and every child reference is smaller than its parent's -/
def Repr (reg : Region) (h : Heap) : Nat → LTree → Prop
  | r, .node d cs => ∃ l items, h.trees[r]? = some ⟨reg, d, l⟩ ∧ h.lists[l]? = some ⟨reg, items⟩ ∧ ReprItems reg h r items cs
def ReprItems (reg : Region) (h : Heap) : Nat → List Child → LForest → Prop
  | _, items, .nil => items = []
  | b, items, .consTok ty v rest => ∃ tl, items = .tok ty v :: tl ∧ ReprItems reg h b tl rest
  | b, items, .consTree t rest => ∃ r tl, items = .tree r :: tl ∧ r < b ∧ Repr reg h r t ∧ ReprItems reg h b tl rest
end

/-- a `Tree` cell of region `reg` -/
def RTree (reg : Region) (h : Heap) (r : Nat) : Prop := ∃ c, h.trees[r]? = some c ∧ c.region = reg
/-- a list cell of region `reg` -/
def RList (reg : Region) (h : Heap) (l : Nat) : Prop := ∃ c, h.lists[l]? = some c ∧ c.region = reg

/-- references never cross regions -/
structure Homog (h : Heap) : Prop where
  trees : ∀ (r : Nat) (c : TreeCell), h.trees[r]? = some c → RList c.region h c.list
  lists : ∀ (l : Nat) (lc : ListCell), h.lists[l]? = some lc → ∀ r', Child.tree r' ∈ lc.items → RTree lc.region h r'

/-- `h'` has all cells of `h`, with the same regions, and the `cache` cells unchanged -/
structure Le (h h' : Heap) : Prop where
  trees : ∀ (i : Nat) (c : TreeCell), h.trees[i]? = some c →
    ∃ c', h'.trees[i]? = some c' ∧ c'.region = c.region ∧ (c.region = .cache → c' = c)
  lists : ∀ (i : Nat) (c : ListCell), h.lists[i]? = some c →
    ∃ c', h'.lists[i]? = some c' ∧ c'.region = c.region ∧ (c.region = .cache → c' = c)

/-- `h'` has all cells of `h`, unchanged -/
structure Ext (h h' : Heap) : Prop where
  trees : ∀ (i : Nat) (c : TreeCell), h.trees[i]? = some c → h'.trees[i]? = some c
  lists : ∀ (i : Nat) (c : ListCell), h.lists[i]? = some c → h'.lists[i]? = some c

/-- the cells of region `reg` are unchanged -/
structure Pres (reg : Region) (h h' : Heap) : Prop where
  trees : ∀ (i : Nat) (c : TreeCell), h.trees[i]? = some c → c.region = reg → h'.trees[i]? = some c
  lists : ∀ (i : Nat) (c : ListCell), h.lists[i]? = some c → c.region = reg → h'.lists[i]? = some c

theorem Le.refl (h : Heap) : Le h h := ⟨fun _ c hc => ⟨c, hc, rfl, fun _ => rfl⟩, fun _ c hc => ⟨c, hc, rfl, fun _ => rfl⟩⟩

theorem Le.trans {h₁ h₂ h₃ : Heap} (a : Le h₁ h₂) (b : Le h₂ h₃) : Le h₁ h₃ := by
  constructor
  · intro i c hc
    obtain ⟨c', hc', hr', he'⟩ := a.trees i c hc
    obtain ⟨c'', hc'', hr'', he''⟩ := b.trees i c' hc'
    refine ⟨c'', hc'', hr''.trans hr', fun hcache => ?_⟩
    rw [he'' (hr'.trans hcache), he' hcache]
  · intro i c hc
    obtain ⟨c', hc', hr', he'⟩ := a.lists i c hc
    obtain ⟨c'', hc'', hr'', he''⟩ := b.lists i c' hc'
    refine ⟨c'', hc'', hr''.trans hr', fun hcache => ?_⟩
    rw [he'' (hr'.trans hcache), he' hcache]

theorem Ext.refl (h : Heap) : Ext h h := ⟨fun _ _ hc => hc, fun _ _ hc => hc⟩
theorem Ext.trans {h₁ h₂ h₃ : Heap} (a : Ext h₁ h₂) (b : Ext h₂ h₃) : Ext h₁ h₃ :=
  ⟨fun i c hc => b.trees i c (a.trees i c hc), fun i c hc => b.lists i c (a.lists i c hc)⟩
theorem Ext.le {h h' : Heap} (a : Ext h h') : Le h h' :=
  ⟨fun i c hc => ⟨c, a.trees i c hc, rfl, fun _ => rfl⟩, fun i c hc => ⟨c, a.lists i c hc, rfl, fun _ => rfl⟩⟩
theorem Ext.pres {h h' : Heap} (a : Ext h h') (reg : Region) : Pres reg h h' :=
  ⟨fun i c hc _ => a.trees i c hc, fun i c hc _ => a.lists i c hc⟩
theorem Le.pres {h h' : Heap} (a : Le h h') : Pres .cache h h' := by
  constructor
  · intro i c hc hr
    obtain ⟨c', hc', _, he⟩ := a.trees i c hc
    rw [← he hr]; exact hc'
  · intro i c hc hr
    obtain ⟨c', hc', _, he⟩ := a.lists i c hc
    rw [← he hr]; exact hc'

theorem RTree.mono {reg : Region} {h h' : Heap} {r : Nat} (a : Le h h') : RTree reg h r → RTree reg h' r := by
  rintro ⟨c, hc, hr⟩
  obtain ⟨c', hc', hr', _⟩ := a.trees r c hc
  exact ⟨c', hc', hr'.trans hr⟩

theorem RList.mono {reg : Region} {h h' : Heap} {l : Nat} (a : Le h h') : RList reg h l → RList reg h' l := by
  rintro ⟨c, hc, hr⟩
  obtain ⟨c', hc', hr', _⟩ := a.lists l c hc
  exact ⟨c', hc', hr'.trans hr⟩

mutual
theorem Repr.mono {reg : Region} {h h' : Heap} (a : Pres reg h h') : ∀ (v : LTree) (r : Nat), Repr reg h r v → Repr reg h' r v
  | .node d cs, r => by
    simp only [Repr]
    rintro ⟨l, items, ht, hl, hi⟩
    exact ⟨l, items, a.trees _ _ ht rfl, a.lists _ _ hl rfl, ReprItems.mono a cs r r items (Nat.le_refl _) hi⟩
theorem ReprItems.mono {reg : Region} {h h' : Heap} (a : Pres reg h h') :
    ∀ (f : LForest) (b b' : Nat) (items : List Child), b ≤ b' → ReprItems reg h b items f → ReprItems reg h' b' items f
  | .nil, b, b', items, _ => by simp only [ReprItems]; exact id
  | .consTok ty v rest, b, b', items, hb => by
    simp only [ReprItems]
    rintro ⟨tl, he, hi⟩
    exact ⟨tl, he, ReprItems.mono a rest b b' tl hb hi⟩
  | .consTree t rest, b, b', items, hb => by
    simp only [ReprItems]
    rintro ⟨r, tl, he, hlt, hr, hi⟩
    exact ⟨r, tl, he, Nat.lt_of_lt_of_le hlt hb, Repr.mono a t r hr, ReprItems.mono a rest b b' tl hb hi⟩
end

theorem Repr.rtree {reg : Region} {h : Heap} {r : Nat} : ∀ {v : LTree}, Repr reg h r v → RTree reg h r
  | .node d cs => by
    simp only [Repr]
    rintro ⟨l, items, ht, _, _⟩
    exact ⟨_, ht, rfl⟩

/-! ## reading what is represented -/

mutual
theorem Repr.read {reg : Region} {h : Heap} : ∀ (v : LTree) (r n : Nat), Repr reg h r v → 2 * r + 1 ≤ n → readTree h n r = some v
  | .node d cs, r, n => by
    simp only [Repr]
    rintro ⟨l, items, ht, hl, hi⟩ hn
    obtain ⟨m, rfl⟩ : ∃ m, n = m + 1 := ⟨n - 1, by omega⟩
    simp only [readTree, ht, hl]
    rw [ReprItems.read cs r m items hi (by omega)]
    rfl
theorem ReprItems.read {reg : Region} {h : Heap} :
    ∀ (f : LForest) (b n : Nat) (items : List Child), ReprItems reg h b items f → 2 * b ≤ n → readItems h n items = some f
  | .nil, b, n, items => by
    simp only [ReprItems]
    rintro rfl _
    simp [readItems]
  | .consTok ty v rest, b, n, items => by
    simp only [ReprItems]
    rintro ⟨tl, rfl, hi⟩ hn
    simp only [readItems]
    rw [ReprItems.read rest b n tl hi hn]
    rfl
  | .consTree t rest, b, n, items => by
    simp only [ReprItems]
    rintro ⟨r, tl, rfl, hlt, hr, hi⟩ hn
    obtain ⟨m, rfl⟩ : ∃ m, n = m + 1 := ⟨n - 1, by omega⟩
    simp only [readItems]
    rw [Repr.read t r m hr (by omega), ReprItems.read rest b (m + 1) tl hi hn]
end

/-! ## the four primitive heap updates -/

/-- a criterion for `Homog h'`: every cell of `h'` either has the region and the references of the cell at the same place in `h`,
or is justified directly -/
theorem Homog.of_le {h h' : Heap} (hH : Homog h) (a : Le h h')
    (ht : ∀ (r : Nat) (c' : TreeCell), h'.trees[r]? = some c' →
      (∃ c : TreeCell, h.trees[r]? = some c ∧ c.region = c'.region ∧ c.list = c'.list) ∨ RList c'.region h' c'.list)
    (hl : ∀ (l : Nat) (lc' : ListCell), h'.lists[l]? = some lc' →
      (∃ lc : ListCell, h.lists[l]? = some lc ∧ lc.region = lc'.region ∧ lc.items = lc'.items) ∨
        (∀ r', Child.tree r' ∈ lc'.items → RTree lc'.region h' r')) : Homog h' := by
  constructor
  · intro r c' hc'
    rcases ht r c' hc' with ⟨c, hc, hr, hlist⟩ | h2
    · have := (hH.trees r c hc).mono a
      rw [hr, hlist] at this; exact this
    · exact h2
  · intro l lc' hlc' r' hmem
    rcases hl l lc' hlc' with ⟨lc, hlc, hr, hitems⟩ | h2
    · have := (hH.lists l lc hlc r' (by rw [hitems]; exact hmem)).mono a
      rw [hr] at this; exact this
    · exact h2 r' hmem

theorem ext_appendList (h : Heap) (lc : ListCell) : Ext h { h with lists := h.lists ++ [lc] } :=
  ⟨fun _ _ hc => hc, fun _ _ hc => get_append_of_get hc⟩

theorem ext_appendTree (h : Heap) (c : TreeCell) : Ext h { h with trees := h.trees ++ [c] } :=
  ⟨fun _ _ hc => get_append_of_get hc, fun _ _ hc => hc⟩

theorem homog_appendList {h : Heap} (hH : Homog h) (lc : ListCell)
    (hch : ∀ r', Child.tree r' ∈ lc.items → RTree lc.region h r') : Homog { h with lists := h.lists ++ [lc] } := by
  refine hH.of_le (ext_appendList h lc).le (fun r c' hc' => .inl ⟨c', hc', rfl, rfl⟩) (fun l lc' hlc' => ?_)
  rcases get_append_single hlc' with h1 | ⟨_, rfl⟩
  · exact .inl ⟨lc', h1, rfl, rfl⟩
  · exact .inr fun r' hmem => (hch r' hmem).mono (ext_appendList h lc').le

theorem homog_appendTree {h : Heap} (hH : Homog h) (c : TreeCell) (hl : RList c.region h c.list) :
    Homog { h with trees := h.trees ++ [c] } := by
  refine hH.of_le (ext_appendTree h c).le (fun r c' hc' => ?_) (fun l lc' hlc' => .inl ⟨lc', hlc', rfl, rfl⟩)
  rcases get_append_single hc' with h1 | ⟨_, rfl⟩
  · exact .inl ⟨c', h1, rfl, rfl⟩
  · exact .inr (hl.mono (ext_appendTree h c').le)

theorem le_setTree {h : Heap} {r : Nat} {c c' : TreeCell} (hc : h.trees[r]? = some c) (hu : c.region = .user)
    (hu' : c'.region = .user) : Le h { h with trees := h.trees.set r c' } := by
  refine ⟨fun i x hx => ?_, fun _ x hx => ⟨x, hx, rfl, fun _ => rfl⟩⟩
  by_cases hir : i = r
  · subst hir
    rw [hc] at hx; cases hx
    refine ⟨c', ?_, hu'.trans hu.symm, fun hcache => ?_⟩
    · simp [lt_of_get hc]
    · rw [hu] at hcache; cases hcache
  · refine ⟨x, ?_, rfl, fun _ => rfl⟩
    show (h.trees.set r c')[i]? = some x
    rw [List.getElem?_set]; simp [Ne.symm hir, hx]

theorem homog_setTree {h : Heap} (hH : Homog h) {r : Nat} {c c' : TreeCell} (hc : h.trees[r]? = some c) (hu : c.region = .user)
    (hu' : c'.region = .user) (hl : RList .user h c'.list) : Homog { h with trees := h.trees.set r c' } := by
  refine hH.of_le (le_setTree hc hu hu') (fun j x hx => ?_) (fun l lc' hlc' => .inl ⟨lc', hlc', rfl, rfl⟩)
  rcases get_set_cases hx with ⟨_, rfl, _⟩ | ⟨_, h1⟩
  · right; rw [hu']; exact hl.mono (le_setTree hc hu hu')
  · exact .inl ⟨x, h1, rfl, rfl⟩

theorem setList_eq {h : Heap} {l : Nat} {lc : ListCell} (hc : h.lists[l]? = some lc) (items : List Child) :
    setList h l items = { h with lists := h.lists.set l ⟨lc.region, items⟩ } := by
  simp [setList, hc]

theorem le_setList {h : Heap} {l : Nat} {lc : ListCell} (hc : h.lists[l]? = some lc) (hu : lc.region = .user)
    (items : List Child) : Le h (setList h l items) := by
  rw [setList_eq hc]
  refine ⟨fun _ x hx => ⟨x, hx, rfl, fun _ => rfl⟩, fun i x hx => ?_⟩
  by_cases hil : i = l
  · subst hil
    rw [hc] at hx; cases hx
    refine ⟨⟨lc.region, items⟩, ?_, rfl, fun hcache => ?_⟩
    · simp [lt_of_get hc]
    · rw [hu] at hcache; cases hcache
  · refine ⟨x, ?_, rfl, fun _ => rfl⟩
    show (h.lists.set l _)[i]? = some x
    rw [List.getElem?_set]; simp [Ne.symm hil, hx]

theorem homog_setList {h : Heap} (hH : Homog h) {l : Nat} {lc : ListCell} (hc : h.lists[l]? = some lc) (hu : lc.region = .user)
    (items : List Child) (hch : ∀ r', Child.tree r' ∈ items → RTree .user h r') : Homog (setList h l items) := by
  have hle := le_setList hc hu items
  refine hH.of_le hle (fun r c' hc' => ?_) (fun j x hx => ?_)
  · rw [setList_eq hc] at hc'; exact .inl ⟨c', hc', rfl, rfl⟩
  · rw [setList_eq hc] at hx
    rcases get_set_cases hx with ⟨_, rfl, _⟩ | ⟨_, h1⟩
    · right; intro r' hmem
      show RTree lc.region _ r'
      rw [hu]; exact (hch r' hmem).mono hle
    · exact .inl ⟨x, h1, rfl, rfl⟩

/-! ## allocation -/

mutual
theorem allocTree_spec (reg : Region) : ∀ (v : LTree) (h h' : Heap) (r : Nat), allocTree reg v h = (h', r) → Homog h →
    Homog h' ∧ Ext h h' ∧ Repr reg h' r v
  | .node d cs, h, h', r => by
    intro he hH
    simp only [allocTree] at he
    cases hp : allocForest reg cs h with
    | mk h₁ items =>
      rw [hp] at he
      simp only [Prod.mk.injEq] at he
      obtain ⟨rfl, rfl⟩ := he
      obtain ⟨hH₁, hE₁, hR₁, hC₁⟩ := allocForest_spec reg cs h h₁ items hp hH
      have hH₂ := homog_appendList hH₁ ⟨reg, items⟩ hC₁
      have hE₂ := ext_appendList h₁ ⟨reg, items⟩
      have hH₃ := homog_appendTree hH₂ ⟨reg, d, h₁.lists.length⟩ ⟨⟨reg, items⟩, by simp, rfl⟩
      have hE₃ := ext_appendTree { h₁ with lists := h₁.lists ++ [⟨reg, items⟩] } ⟨reg, d, h₁.lists.length⟩
      refine ⟨hH₃, hE₁.trans (hE₂.trans hE₃), ?_⟩
      simp only [Repr]
      refine ⟨h₁.lists.length, items, by simp, by simp, ?_⟩
      exact ReprItems.mono ((hE₂.trans hE₃).pres reg) cs _ _ items (Nat.le_refl _) hR₁
theorem allocForest_spec (reg : Region) : ∀ (f : LForest) (h h' : Heap) (items : List Child), allocForest reg f h = (h', items) →
    Homog h → Homog h' ∧ Ext h h' ∧ ReprItems reg h' h'.trees.length items f ∧ (∀ r', Child.tree r' ∈ items → RTree reg h' r')
  | .nil, h, h', items => by
    intro he hH
    simp only [allocForest, Prod.mk.injEq] at he
    obtain ⟨rfl, rfl⟩ := he
    exact ⟨hH, Ext.refl _, by simp [ReprItems], by simp⟩
  | .consTok ty v rest, h, h', items => by
    intro he hH
    simp only [allocForest] at he
    cases hp : allocForest reg rest h with
    | mk h₁ items₁ =>
      rw [hp] at he
      simp only [Prod.mk.injEq] at he
      obtain ⟨rfl, rfl⟩ := he
      obtain ⟨hH₁, hE₁, hR₁, hC₁⟩ := allocForest_spec reg rest h h₁ items₁ hp hH
      refine ⟨hH₁, hE₁, ?_, ?_⟩
      · simp only [ReprItems]; exact ⟨items₁, rfl, hR₁⟩
      · intro r' hmem
        simp at hmem
        exact hC₁ r' hmem
  | .consTree t rest, h, h', items => by
    intro he hH
    simp only [allocForest] at he
    cases hp : allocTree reg t h with
    | mk h₁ r =>
      rw [hp] at he
      cases hq : allocForest reg rest h₁ with
      | mk h₂ items₂ =>
        rw [hq] at he
        simp only [Prod.mk.injEq] at he
        obtain ⟨rfl, rfl⟩ := he
        obtain ⟨hH₁, hE₁, hR₁⟩ := allocTree_spec reg t h h₁ r hp hH
        obtain ⟨hH₂, hE₂, hR₂, hC₂⟩ := allocForest_spec reg rest h₁ h₂ items₂ hq hH₁
        have hR₁' : Repr reg h₂ r t := Repr.mono (hE₂.pres reg) t r hR₁
        have hrt := hR₁'.rtree
        refine ⟨hH₂, hE₁.trans hE₂, ?_, ?_⟩
        · simp only [ReprItems]
          obtain ⟨c, hc, _⟩ := hrt
          exact ⟨r, items₂, rfl, lt_of_get hc, hR₁', hR₂⟩
        · intro r' hmem
          simp at hmem
          rcases hmem with rfl | hmem
          · exact hrt
          · exact hC₂ r' hmem
end

/-! ## navigation and edits stay in the `user` region -/

theorem navigate_user {h : Heap} (hH : Homog h) : ∀ (path : List Nat) (r r' : Nat), RTree .user h r → navigate h r path = some r' →
    RTree .user h r'
  | [], r, r', hr, hn => by
    simp only [navigate, Option.some.injEq] at hn
    subst hn; exact hr
  | i :: rest, r, r', hr, hn => by
    obtain ⟨c, hc, hu⟩ := hr
    obtain ⟨lc, hlc, hlu⟩ := hH.trees r c hc
    simp only [navigate, hc, hlc] at hn
    split at hn
    · rename_i r'' hitem
      have hmem : Child.tree r'' ∈ lc.items := List.mem_of_getElem? hitem
      have := hH.lists _ lc hlc r'' hmem
      rw [hlu, hu] at this
      exact navigate_user hH rest r'' r' this hn
    · cases hn

theorem resolveChild_spec {st : State} {h h' : Heap} {nc : NewChild} {ch : Child} (hH : Homog h)
    (hheld : ∀ r ∈ st.held, RTree .user h r) (he : resolveChild st h nc = some (h', ch)) :
    Homog h' ∧ Le h h' ∧ (∀ r', ch = .tree r' → RTree .user h' r') := by
  cases nc with
  | tok ty v =>
    simp only [resolveChild, Option.some.injEq, Prod.mk.injEq] at he
    obtain ⟨rfl, rfl⟩ := he
    exact ⟨hH, Le.refl _, fun r' hr' => by cases hr'⟩
  | fresh t =>
    simp only [resolveChild] at he
    cases hp : allocTree .user t h with
    | mk h₁ r =>
      rw [hp] at he
      simp only [Option.some.injEq, Prod.mk.injEq] at he
      obtain ⟨rfl, rfl⟩ := he
      obtain ⟨hH₁, hE₁, hR₁⟩ := allocTree_spec .user t h h₁ r hp hH
      refine ⟨hH₁, hE₁.le, fun r' hr' => ?_⟩
      cases hr'; exact hR₁.rtree
  | existing root path =>
    simp only [resolveChild] at he
    split at he
    · cases he
    · rename_i r hroot
      cases hn : navigate h r path with
      | none => rw [hn] at he; cases he
      | some r'' =>
        rw [hn] at he
        simp only [Option.map_some, Option.some.injEq, Prod.mk.injEq] at he
        obtain ⟨rfl, rfl⟩ := he
        refine ⟨hH, Le.refl _, fun r' hr' => ?_⟩
        cases hr'
        exact navigate_user hH path r r'' (hheld r (List.mem_of_getElem? hroot)) hn

/-- the accumulator step of `Edit.rebind` -/
def rebindStep (st : State) (acc : Option (Heap × List Child)) (nc : NewChild) : Option (Heap × List Child) :=
  match acc with
  | none => none
  | some (h, cs) => (resolveChild st h nc).map fun (h', ch) => (h', cs ++ [ch])

theorem rebind_fold_none (st : State) : ∀ ncs : List NewChild, ncs.foldl (rebindStep st) none = none
  | [] => rfl
  | _ :: rest => by simp only [List.foldl, rebindStep]; exact rebind_fold_none st rest

theorem rebind_fold (st : State) : ∀ (ncs : List NewChild) (h : Heap) (cs : List Child) (h' : Heap) (cs' : List Child),
    Homog h → (∀ r ∈ st.held, RTree .user h r) → (∀ r', Child.tree r' ∈ cs → RTree .user h r') →
    ncs.foldl (rebindStep st) (some (h, cs)) = some (h', cs') →
    Homog h' ∧ Le h h' ∧ (∀ r', Child.tree r' ∈ cs' → RTree .user h' r')
  | [], h, cs, h', cs', hH, _, hcs, he => by
    simp only [List.foldl, Option.some.injEq, Prod.mk.injEq] at he
    obtain ⟨rfl, rfl⟩ := he
    exact ⟨hH, Le.refl _, hcs⟩
  | nc :: rest, h, cs, h', cs', hH, hheld, hcs, he => by
    simp only [List.foldl] at he
    cases hr : resolveChild st h nc with
    | none =>
      simp only [rebindStep, hr, Option.map_none] at he
      rw [rebind_fold_none] at he; cases he
    | some p =>
      obtain ⟨h₁, ch⟩ := p
      simp only [rebindStep, hr, Option.map_some] at he
      obtain ⟨hH₁, hL₁, hch⟩ := resolveChild_spec hH hheld hr
      have := rebind_fold st rest h₁ (cs ++ [ch]) h' cs' hH₁ (fun r hr => (hheld r hr).mono hL₁)
        (fun r' hmem => by
          simp only [List.mem_append, List.mem_singleton] at hmem
          rcases hmem with hmem | hmem
          · exact (hcs r' hmem).mono hL₁
          · exact hch r' hmem.symm) he
      exact ⟨this.1, hL₁.trans this.2.1, this.2.2⟩

theorem editOp_spec (st : State) (root : Nat) (path : List Nat) (e : Edit) (hH : Homog st.heap)
    (hheld : ∀ r ∈ st.held, RTree .user st.heap r) :
    ∃ h', editOp st root path e = { st with heap := h' } ∧ Homog h' ∧ Le st.heap h' := by
  have noop : ∃ h', st = { st with heap := h' } ∧ Homog h' ∧ Le st.heap h' := ⟨st.heap, rfl, hH, Le.refl _⟩
  unfold editOp
  split
  · exact noop
  rename_i r0 hr0
  split
  · exact noop
  rename_i r hnav
  split
  · exact noop
  rename_i c hc
  split
  · exact noop
  rename_i l hl
  have hr : RTree .user st.heap r := navigate_user hH path r0 r (hheld r0 (List.mem_of_getElem? hr0)) hnav
  have hcu : c.region = .user := by
    obtain ⟨c2, hc2, hu⟩ := hr
    rw [hc] at hc2; cases hc2; exact hu
  have hlu : l.region = .user := by
    obtain ⟨l2, hl2, hu⟩ := hH.trees r c hc
    rw [hl] at hl2; cases hl2; rw [hu, hcu]
  have hitems : ∀ r', Child.tree r' ∈ l.items → RTree .user st.heap r' := by
    intro r' hmem
    have := hH.lists _ l hl r' hmem
    rw [hlu] at this; exact this
  split
  · -- setData
    rename_i d
    exact ⟨_, rfl, homog_setTree hH hc hcu hcu ⟨l, hl, hlu⟩, le_setTree hc hcu hcu⟩
  · -- remove
    rename_i i
    refine ⟨_, rfl, homog_setList hH hl hlu _ (fun r' hmem => hitems r' ?_), le_setList hl hlu _⟩
    exact (List.eraseIdx_sublist _ _).subset hmem
  · -- replace
    rename_i i nc
    split
    · rename_i h' ch hres
      obtain ⟨hH', hL', hch⟩ := resolveChild_spec hH hheld hres
      split
      · obtain ⟨l', hl', hlu'⟩ := RList.mono hL' ⟨l, hl, hlu⟩
        refine ⟨_, rfl, homog_setList hH' hl' hlu' _ (fun r' hmem => ?_), hL'.trans (le_setList hl' hlu' _)⟩
        rcases List.mem_or_eq_of_mem_set hmem with hmem | hmem
        · exact (hitems r' hmem).mono hL'
        · exact hch r' hmem.symm
      · exact noop
    · exact noop
  · -- append
    rename_i nc
    split
    · rename_i h' ch hres
      obtain ⟨hH', hL', hch⟩ := resolveChild_spec hH hheld hres
      obtain ⟨l', hl', hlu'⟩ := RList.mono hL' ⟨l, hl, hlu⟩
      refine ⟨_, rfl, homog_setList hH' hl' hlu' _ (fun r' hmem => ?_), hL'.trans (le_setList hl' hlu' _)⟩
      simp only [List.mem_append, List.mem_singleton] at hmem
      rcases hmem with hmem | hmem
      · exact (hitems r' hmem).mono hL'
      · exact hch r' hmem.symm
    · exact noop
  · -- rebind
    rename_i ncs
    show ∃ h', (match ncs.foldl (rebindStep st) (some (st.heap, [])) with
      | none => st
      | some (h', cs) =>
        { st with heap := { trees := h'.trees.set r { c with list := h'.lists.length }, lists := h'.lists ++ [⟨.user, cs⟩] } }) =
        { st with heap := h' } ∧ Homog h' ∧ Le st.heap h'
    split
    · exact noop
    · rename_i h' cs hfold
      obtain ⟨hH', hL', hcs⟩ := rebind_fold st ncs st.heap [] h' cs hH hheld (by simp) hfold
      obtain ⟨c', hc', hcu', _⟩ := hL'.trees r c hc
      have hH₁ := homog_appendList hH' ⟨.user, cs⟩ hcs
      have hE₁ := ext_appendList h' ⟨.user, cs⟩
      have hc'' : ({ h' with lists := h'.lists ++ [⟨.user, cs⟩] } : Heap).trees[r]? = some c' := hc'
      have hcu'' : c'.region = .user := hcu'.trans hcu
      have hnew : ({ c with list := h'.lists.length } : TreeCell).region = .user := hcu
      refine ⟨_, rfl, homog_setTree hH₁ hc'' hcu'' hnew ⟨⟨.user, cs⟩, by simp, rfl⟩, ?_⟩
      exact hL'.trans (hE₁.le.trans (le_setTree hc'' hcu'' hnew))

/-! ## the invariant of reachable states -/

structure Inv (pp : String → Option LTree) (st : State) : Prop where
  memo : ∀ s r, (s, r) ∈ st.memo → ∃ v, pp s = some v ∧ Repr .cache st.heap r v
  homog : Homog st.heap
  held : ∀ r ∈ st.held, RTree .user st.heap r

theorem Inv.init (pp : String → Option LTree) : Inv pp State.init := by
  refine ⟨by simp [State.init], ⟨?_, ?_⟩, by simp [State.init]⟩ <;> simp [State.init, Heap.empty]

theorem Inv.edit {pp : String → Option LTree} {st : State} (hI : Inv pp st) (root : Nat) (path : List Nat) (e : Edit) :
    Inv pp (editOp st root path e) := by
  obtain ⟨h', he, hH', hL'⟩ := editOp_spec st root path e hI.homog hI.held
  rw [he]
  refine ⟨fun s r hmem => ?_, hH', fun r hr => (hI.held r hr).mono hL'⟩
  obtain ⟨v, hv, hR⟩ := hI.memo s r hmem
  exact ⟨v, hv, Repr.mono hL'.pres v r hR⟩

/-- handing out a correctly cached value under `deep` -/
theorem handOutF_deep {fuel : Heap → Nat} (hf : ∀ h, 2 * h.trees.length ≤ fuel h + 1) {h : Heap} {r : Nat} {v : LTree}
    (hH : Homog h) (hR : Repr .cache h r v) :
    ∃ h' u, handOutF fuel .deep h r = some (h', u) ∧ Homog h' ∧ Le h h' ∧ Repr .user h' u v ∧
      readTree h' (fuel h') u = some v := by
  have hlt : r < h.trees.length := by
    obtain ⟨c, hc, _⟩ := hR.rtree
    exact lt_of_get hc
  have hread : readTree h (fuel h) r = some v := Repr.read v r _ hR (by have := hf h; omega)
  cases hp : allocTree .user v h with
  | mk h' u =>
    obtain ⟨hH', hE', hR'⟩ := allocTree_spec .user v h h' u hp hH
    refine ⟨h', u, ?_, hH', hE'.le, hR', ?_⟩
    · simp only [handOutF, hread, hp]
    · have hlt' : u < h'.trees.length := by
        obtain ⟨c, hc, _⟩ := hR'.rtree
        exact lt_of_get hc
      exact Repr.read v u _ hR' (by have := hf h'; omega)

theorem parseOpF_spec {fuel : Heap → Nat} (hf : ∀ h, 2 * h.trees.length ≤ fuel h + 1) {pp : String → Option LTree} {cap : Nat}
    {st : State} (hI : Inv pp st) (s : String) :
    Inv pp (parseOpF fuel pp .deep cap st s).1 ∧
      ((parseOpF fuel pp .deep cap st s).2.bind fun u =>
        readTree (parseOpF fuel pp .deep cap st s).1.heap (fuel (parseOpF fuel pp .deep cap st s).1.heap) u) = pp s := by
  unfold parseOpF
  split
  · -- hit
    rename_i s' r hfind
    have hmem : (s', r) ∈ st.memo := List.mem_of_find?_eq_some hfind
    have hs : s' = s := by
      have := List.find?_some hfind
      simpa using this
    subst hs
    obtain ⟨v, hv, hR⟩ := hI.memo s' r hmem
    obtain ⟨h', u, hho, hH', hL', hR', hread⟩ := handOutF_deep hf hI.homog hR
    simp only [hho]
    refine ⟨⟨fun s2 r2 hmem2 => ?_, hH', fun r2 hr2 => ?_⟩, ?_⟩
    · simp only [List.mem_cons, Prod.mk.injEq, List.mem_filter] at hmem2
      rcases hmem2 with ⟨rfl, rfl⟩ | ⟨hmem2, _⟩
      · exact ⟨v, hv, Repr.mono hL'.pres v _ hR⟩
      · obtain ⟨v2, hv2, hR2⟩ := hI.memo s2 r2 hmem2
        exact ⟨v2, hv2, Repr.mono hL'.pres v2 _ hR2⟩
    · simp only [List.mem_append, List.mem_singleton] at hr2
      rcases hr2 with hr2 | rfl
      · exact (hI.held r2 hr2).mono hL'
      · exact hR'.rtree
    · simp only [Option.bind_some, hread, hv]
  · -- miss
    split
    · rename_i hpp
      exact ⟨hI, by simp [hpp]⟩
    · rename_i v hv
      cases hp : allocTree .cache v st.heap with
      | mk h₁ r =>
        obtain ⟨hH₁, hE₁, hR₁⟩ := allocTree_spec .cache v st.heap h₁ r hp hI.homog
        obtain ⟨h', u, hho, hH', hL', hR', hread⟩ := handOutF_deep hf hH₁ hR₁
        simp only [hho]
        have hL := hE₁.le.trans hL'
        refine ⟨⟨fun s2 r2 hmem2 => ?_, hH', fun r2 hr2 => ?_⟩, ?_⟩
        · have hmem3 := List.mem_of_mem_take hmem2
          simp only [List.mem_cons, Prod.mk.injEq] at hmem3
          rcases hmem3 with ⟨rfl, rfl⟩ | hmem3
          · exact ⟨v, hv, Repr.mono hL'.pres v _ hR₁⟩
          · obtain ⟨v2, hv2, hR2⟩ := hI.memo s2 r2 hmem3
            exact ⟨v2, hv2, Repr.mono hL.pres v2 _ hR2⟩
        · simp only [List.mem_append, List.mem_singleton] at hr2
          rcases hr2 with hr2 | rfl
          · exact (hI.held r2 hr2).mono hL
          · exact hR'.rtree
        · simp only [Option.bind_some, hread, hv]

/-- purity of `deep` for every history, from every state satisfying the invariant -/
theorem runOpsF_pure {fuel : Heap → Nat} (hf : ∀ h, 2 * h.trees.length ≤ fuel h + 1) (pp : String → Option LTree) (cap : Nat)
    (answers : List HOp → List (Option LTree))
    (hnil : answers [] = [])
    (hparse : ∀ s rest, answers (.parse s :: rest) = pp s :: answers rest)
    (hedit : ∀ root path e rest, answers (.edit root path e :: rest) = answers rest) :
    ∀ (ops : List HOp) (st : State), Inv pp st → runOpsF fuel pp .deep cap st ops = answers ops
  | [], st, _ => by simp only [runOpsF, hnil]
  | .parse s :: rest, st, hI => by
    obtain ⟨hI', hans⟩ := parseOpF_spec (cap := cap) hf hI s
    simp only [runOpsF, hparse]
    rw [hans, runOpsF_pure hf pp cap answers hnil hparse hedit rest _ hI']
  | .edit root path e :: rest, st, hI => by
    simp only [runOpsF, hedit]
    exact runOpsF_pure hf pp cap answers hnil hparse hedit rest _ (hI.edit root path e)

end Ahbicht
