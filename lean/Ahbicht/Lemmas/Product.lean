import Ahbicht.Model.Extract
/-!
# `assignments` (combinations of a product, filtered on distinct keys) enumerates exactly the Cartesian product
-/
namespace Ahbicht

/-- membership in the specification -/
theorem mem_productSpec {α β : Type} (keys : List α) (vals : List β) (z : List (α × β)) :
    z ∈ productSpec keys vals ↔ z.map (·.1) = keys ∧ ∀ p ∈ z, p.2 ∈ vals := by
  induction keys generalizing z with
  | nil =>
    simp [productSpec]
    rintro rfl a b h
    simp at h
  | cons k ks ih =>
    simp only [productSpec, List.mem_flatMap, List.mem_map]
    constructor
    · rintro ⟨v, hv, z', hz', rfl⟩
      obtain ⟨h1, h2⟩ := (ih z').mp hz'
      refine ⟨by simp [h1], ?_⟩
      intro p hp
      rcases List.mem_cons.mp hp with rfl | hp
      · exact hv
      · exact h2 p hp
    · rintro ⟨h1, h2⟩
      cases z with
      | nil => simp at h1
      | cons p z' =>
        simp only [List.map_cons, List.cons.injEq] at h1
        obtain ⟨hp, hz⟩ := h1
        refine ⟨p.2, h2 p (by simp), z', (ih z').mpr ⟨hz, fun q hq => h2 q (by simp [hq])⟩, ?_⟩
        subst hp
        rfl

/-! ## combinations -/

theorem mem_combos {α : Type} (n : Nat) (L z : List α) : z ∈ combos n L ↔ z.Sublist L ∧ z.length = n := by
  induction L generalizing n z with
  | nil =>
    cases n with
    | zero => simp [combos]
    | succ n => simp [combos]; intro h; simp [h]
  | cons x xs ih =>
    cases n with
    | zero =>
      simp [combos]
      intro h; subst h; simp
    | succ n =>
      simp only [combos, List.mem_append, List.mem_map]
      constructor
      · rintro (⟨z', hz', rfl⟩ | h)
        · obtain ⟨hs, hl⟩ := (ih n z').mp hz'
          exact ⟨hs.cons_cons x, by simp [hl]⟩
        · obtain ⟨hs, hl⟩ := (ih (n+1) z).mp h
          exact ⟨hs.cons x, hl⟩
      · rintro ⟨hs, hl⟩
        cases hs with
        | cons _ hs' => right; exact (ih (n+1) z).mpr ⟨hs', hl⟩
        | cons_cons _ hs' =>
          rename_i z'
          left
          exact ⟨z', (ih n z').mpr ⟨hs', by simpa using hl⟩, rfl⟩

theorem nodup_map_of_injective {α β : Type} (f : α → β) (hf : ∀ a b, f a = f b → a = b) (l : List α)
    (hl : l.Nodup) : (l.map f).Nodup := by
  induction l with
  | nil => simp
  | cons x xs ih =>
    rw [List.nodup_cons] at hl
    rw [List.map_cons, List.nodup_cons]
    refine ⟨?_, ih hl.2⟩
    intro hm
    obtain ⟨y, hy, hxy⟩ := List.mem_map.mp hm
    have := hf _ _ hxy
    subst this
    exact hl.1 hy

theorem nodup_combos {α : Type} (n : Nat) (L : List α) (hL : L.Nodup) : (combos n L).Nodup := by
  induction L generalizing n with
  | nil =>
    cases n with
    | zero => simp [combos]
    | succ n => simp [combos]
  | cons x xs ih =>
    rw [List.nodup_cons] at hL
    cases n with
    | zero => simp [combos]
    | succ n =>
      simp only [combos]
      rw [List.nodup_append]
      refine ⟨?_, ih (n+1) hL.2, ?_⟩
      · exact nodup_map_of_injective _ (fun a b h => (List.cons.inj h).2) _ (ih n hL.2)
      · intro a ha b hb hab
        obtain ⟨a', _, rfl⟩ := List.mem_map.mp ha
        subst hab
        have := ((mem_combos (n+1) xs _).mp hb).1
        exact hL.1 (this.subset (by simp))

/-! ## the product -/

theorem pairs_cons {α β : Type} (k : α) (ks : List α) (vals : List β) :
    pairs (k :: ks) vals = vals.map (fun v => (k, v)) ++ pairs ks vals := by
  simp [pairs]

theorem mem_pairs {α β : Type} (keys : List α) (vals : List β) (p : α × β) :
    p ∈ pairs keys vals ↔ p.1 ∈ keys ∧ p.2 ∈ vals := by
  obtain ⟨a, b⟩ := p
  simp only [pairs, List.mem_flatMap, List.mem_map, Prod.mk.injEq]
  constructor
  · rintro ⟨k, hk, v, hv, rfl, rfl⟩
    exact ⟨hk, hv⟩
  · rintro ⟨hk, hv⟩
    exact ⟨a, hk, b, hv, rfl, rfl⟩

theorem nodup_pairs {α β : Type} (keys : List α) (vals : List β) (hk : keys.Nodup) (hv : vals.Nodup) :
    (pairs keys vals).Nodup := by
  induction keys with
  | nil => simp [pairs]
  | cons k ks ih =>
    rw [List.nodup_cons] at hk
    rw [pairs_cons, List.nodup_append]
    refine ⟨?_, ih hk.2, ?_⟩
    · exact nodup_map_of_injective _ (fun a b h => (Prod.mk.inj h).2) _ hv
    · intro a ha b hb hab
      obtain ⟨v, _, rfl⟩ := List.mem_map.mp ha
      subst hab
      exact hk.1 ((mem_pairs ks vals _).mp hb).1

theorem map_fst_pairs {α β : Type} (keys : List α) (vals : List β) :
    (pairs keys vals).map (·.1) = keys.flatMap fun k => List.replicate vals.length k := by
  induction keys with
  | nil => simp [pairs]
  | cons k ks ih =>
    rw [pairs_cons, List.map_append, ih, List.flatMap_cons]
    congr 1
    rw [List.map_map]
    exact List.map_const' ..

theorem sublist_pairs_of_spec {α β : Type} (keys : List α) (vals : List β) (z : List (α × β))
    (h1 : z.map (·.1) = keys) (h2 : ∀ p ∈ z, p.2 ∈ vals) : z.Sublist (pairs keys vals) := by
  induction keys generalizing z with
  | nil =>
    have : z = [] := by simpa using h1
    subst this
    simp
  | cons k ks ih =>
    cases z with
    | nil => simp at h1
    | cons p z' =>
      simp only [List.map_cons, List.cons.injEq] at h1
      obtain ⟨hp, hz⟩ := h1
      rw [pairs_cons]
      have hz' := ih z' hz (fun q hq => h2 q (by simp [hq]))
      have hp' : [p].Sublist (vals.map fun v => (k, v)) := by
        rw [List.singleton_sublist]
        exact List.mem_map.mpr ⟨p.2, h2 p (by simp), by subst hp; rfl⟩
      exact hp'.append hz'

/-! ## `dedupKeys` -/

theorem dedupKeys_length_le {α : Type} [DecidableEq α] (l : List α) : (dedupKeys l).length ≤ l.length := by
  induction l with
  | nil => simp [dedupKeys]
  | cons x xs ih =>
    simp only [dedupKeys, List.length_cons]
    have := List.length_filter_le (fun y => decide (y ≠ x)) (dedupKeys xs)
    omega

theorem dedupKeys_of_nodup {α : Type} [DecidableEq α] (l : List α) (hl : l.Nodup) : dedupKeys l = l := by
  induction l with
  | nil => simp [dedupKeys]
  | cons x xs ih =>
    rw [List.nodup_cons] at hl
    simp only [dedupKeys, ih hl.2, List.cons.injEq, true_and]
    rw [List.filter_eq_self]
    intro a ha
    simp only [ne_eq, decide_eq_true_eq]
    rintro rfl
    exact hl.1 ha

theorem nodup_of_dedupKeys_length {α : Type} [DecidableEq α] (l : List α)
    (h : (dedupKeys l).length = l.length) : l.Nodup := by
  induction l with
  | nil => simp
  | cons x xs ih =>
    simp only [dedupKeys, List.length_cons] at h
    have h1 := List.length_filter_le (fun y => decide (y ≠ x)) (dedupKeys xs)
    have h2 := dedupKeys_length_le xs
    have h3 : (dedupKeys xs).length = xs.length := by omega
    have hxs := ih h3
    rw [List.nodup_cons]
    refine ⟨?_, hxs⟩
    intro hx
    rw [dedupKeys_of_nodup xs hxs] at h
    have h4 : (xs.filter fun y => decide (y ≠ x)).length = xs.length := by omega
    have h5 := List.length_filter_eq_length_iff.mp h4 x hx
    simp at h5

/-! ## a duplicate-free sublist of a list of constant blocks picks at most one element per block -/

theorem sublist_of_nodup_flatMap_replicate {α : Type} (m : Nat) (keys l : List α) (hl : l.Nodup)
    (hs : l.Sublist (keys.flatMap fun k => List.replicate m k)) : l.Sublist keys := by
  induction keys generalizing l with
  | nil =>
    have : l = [] := by simpa using hs
    subst this
    simp
  | cons k ks ih =>
    rw [List.flatMap_cons, List.sublist_append_iff] at hs
    obtain ⟨l1, l2, rfl, hs1, hs2⟩ := hs
    obtain ⟨j, _, rfl⟩ := List.sublist_replicate_iff.mp hs1
    have hl2 : l2.Nodup := (List.nodup_append.mp hl).2.1
    have ih2 := ih l2 hl2 hs2
    match j, hl with
    | 0, _ => simpa using ih2.cons k
    | 1, _ => simpa using ih2.cons_cons k
    | j + 2, hl =>
      exfalso
      have := (List.nodup_append.mp hl).1
      simp [List.replicate_succ] at this

/-- **every combination, none missing** -/
theorem mem_assignments {α β : Type} [DecidableEq α] (keys : List α) (vals : List β) (hk : keys.Nodup) (z : List (α × β)) :
    z ∈ assignments keys vals ↔ z ∈ productSpec keys vals := by
  rw [mem_productSpec]
  simp only [assignments, List.mem_filter, mem_combos, beq_iff_eq]
  constructor
  · rintro ⟨⟨hs, hl⟩, hd⟩
    have hlen : (z.map (·.1)).length = keys.length := by simpa using hl
    have hnd : (z.map (·.1)).Nodup := nodup_of_dedupKeys_length _ (by rw [hd, hlen])
    have hsub : (z.map (·.1)).Sublist (keys.flatMap fun k => List.replicate vals.length k) := by
      rw [← map_fst_pairs]
      exact hs.map _
    have hsk := sublist_of_nodup_flatMap_replicate _ _ _ hnd hsub
    refine ⟨hsk.eq_of_length hlen, ?_⟩
    intro p hp
    exact ((mem_pairs keys vals p).mp (hs.subset hp)).2
  · rintro ⟨h1, h2⟩
    have hlen : z.length = keys.length := by rw [← h1]; simp
    refine ⟨⟨sublist_pairs_of_spec keys vals z h1 h2, hlen⟩, ?_⟩
    rw [h1, dedupKeys_of_nodup keys hk]

/-- **every combination once** -/
theorem nodup_assignments {α β : Type} [DecidableEq α] [DecidableEq β] (keys : List α) (vals : List β)
    (hk : keys.Nodup) (hv : vals.Nodup) : (assignments keys vals).Nodup := by
  unfold assignments
  exact (nodup_combos _ _ (nodup_pairs keys vals hk hv)).filter _

end Ahbicht

