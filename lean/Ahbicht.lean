import Ahbicht.Model.CFV
import Ahbicht.Generated.Cfv
import Ahbicht.Properties.C03
