#!/bin/bash
# offline setup: regenerate the extracted Lean files from /repo and build the whole Lean development
cd "$(dirname "$0")" || exit 2
export PATH="/opt/veriftools/lean/bin:$PATH"
export PYTHONHASHSEED=0
set -e
/venv/bin/python -W ignore::SyntaxWarning -m vf.extract
cd lean
lake build
if grep -q 'lean_exe' lakefile.toml; then lake build driver || echo "driver exe not built; interpreter fallback will be used"; fi
