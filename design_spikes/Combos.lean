/-! spike: `itertools.combinations` membership characterisation, core Lean only -/
def combos {α} : Nat → List α → List (List α)
  | 0, _ => [[]]
  | _ + 1, [] => []
  | k + 1, x :: xs => (combos k xs).map (x :: ·) ++ combos (k + 1) xs

#eval combos 2 [1,2,3,4]

theorem mem_combos {α} (n : Nat) (L z : List α) : z ∈ combos n L ↔ z.Sublist L ∧ z.length = n := by
  induction L generalizing n z with
  | nil =>
    cases n with
    | zero => simp [combos]
    | succ n => simp [combos]; intro h; simp [h]
  | cons x xs ih =>
    cases n with
    | zero =>
      simp [combos]
      intro h; subst h; simp
    | succ n =>
      simp only [combos, List.mem_append, List.mem_map]
      constructor
      · rintro (⟨z', hz', rfl⟩ | h)
        · obtain ⟨hs, hl⟩ := (ih n z').mp hz'
          exact ⟨hs.cons_cons x, by simp [hl]⟩
        · obtain ⟨hs, hl⟩ := (ih (n+1) z).mp h
          exact ⟨hs.cons x, hl⟩
      · rintro ⟨hs, hl⟩
        cases hs with
        | cons _ hs' => right; exact (ih (n+1) z).mpr ⟨hs', hl⟩
        | cons_cons _ hs' =>
          rename_i z'
          left
          exact ⟨z', (ih n z').mpr ⟨hs', by simpa using hl⟩, rfl⟩

#print axioms mem_combos
