/-! spike: bracket-stack recogniser accepts exactly the ambiguous grammar  e ::= e OP e | e e | ( e ) | atom -/
inductive Tok | atom (n : Nat) | op (o : Nat) | lp | rp deriving DecidableEq, Repr

inductive Lang : List Tok → Prop
  | atom (n) : Lang [.atom n]
  | paren {ts} : Lang ts → Lang (.lp :: ts ++ [.rp])
  | binop {l r} (o) : Lang l → Lang r → Lang (l ++ .op o :: r)
  | juxt {l r} : Lang l → Lang r → Lang (l ++ r)

inductive Fr | empty | item | pend deriving DecidableEq, Repr

def stepTok : List Fr → Tok → Option (List Fr)
  | _ :: st, .atom _ => some (.item :: st)
  | f :: st, .op _ => if f = .item then some (.pend :: st) else none
  | f :: st, .lp => some (.empty :: f :: st)
  | f :: _ :: st, .rp => if f = .item then some (.item :: st) else none
  | _, _ => none

def runToks : List Fr → List Tok → Option (List Fr)
  | fs, [] => some fs
  | fs, t :: ts => (stepTok fs t).bind (fun fs' => runToks fs' ts)

def accept (ts : List Tok) : Bool := runToks [.empty] ts == some [.item]

theorem runToks_append (fs : List Fr) (a b : List Tok) :
    runToks fs (a ++ b) = (runToks fs a).bind (fun fs' => runToks fs' b) := by
  induction a generalizing fs with
  | nil => simp [runToks]
  | cons t a ih =>
    simp only [List.cons_append, runToks]
    cases stepTok fs t with
    | none => simp
    | some fs' => simp [ih]

theorem complete {ts} (h : Lang ts) : ∀ f st, runToks (f :: st) ts = some (.item :: st) := by
  induction h with
  | atom n => intro f st; simp [runToks, stepTok]
  | @paren ts _ ih =>
    intro f st
    have h1 : runToks (f :: st) (.lp :: ts ++ [.rp]) = runToks (.empty :: f :: st) (ts ++ [.rp]) := by
      simp [runToks, stepTok]
    rw [h1, runToks_append, ih]
    simp [runToks, stepTok]
  | binop o _ _ ihl ihr =>
    intro f st
    rw [runToks_append, ihl]
    simp [runToks, stepTok, ihr]
  | juxt _ _ ihl ihr =>
    intro f st
    rw [runToks_append, ihl]
    simp [ihr]

/-- what a frame in state `f` has consumed so far -/
def FrameOk : Fr → List Tok → Prop
  | .empty, w => w = []
  | .item, w => Lang w
  | .pend, w => ∃ u o, w = u ++ [.op o] ∧ Lang u

/-- stack (top first) together with the token strings of its frames; `flatten` re-inserts the open brackets -/
inductive StackOk : List Fr → List (List Tok) → Prop
  | nil : StackOk [] []
  | cons {f w fs ws} : FrameOk f w → StackOk fs ws → StackOk (f :: fs) (w :: ws)

/-- tokens consumed so far, given frame contents top first -/
def consumed : List (List Tok) → List Tok
  | [] => []
  | [w] => w
  | w :: v :: ws => consumed (v :: ws) ++ .lp :: w

theorem lang_extend_item {f w x} (hf : FrameOk f w) (hx : Lang x) : Lang (w ++ x) := by
  cases f with
  | empty => simp [FrameOk] at hf; subst hf; simpa using hx
  | item => exact Lang.juxt hf hx
  | pend =>
    obtain ⟨u, o, rfl, hu⟩ := hf
    simpa using Lang.binop o hu hx

theorem sound_step {fs ws t fs'} (h : StackOk fs ws) (hs : stepTok fs t = some fs') :
    ∃ ws', StackOk fs' ws' ∧ consumed ws' = consumed ws ++ [t] := by
  cases h with
  | nil => cases t <;> simp [stepTok] at hs
  | @cons f w fs0 ws0 hf hrest =>
    cases t with
    | atom n =>
      simp [stepTok] at hs; subst hs
      refine ⟨(w ++ [.atom n]) :: ws0, .cons (lang_extend_item hf (.atom n)) hrest, ?_⟩
      cases ws0 <;> simp [consumed]
    | op o =>
      simp [stepTok] at hs
      obtain ⟨hfi, rfl⟩ := hs
      subst hfi
      refine ⟨(w ++ [.op o]) :: ws0, .cons ⟨w, o, rfl, hf⟩ hrest, ?_⟩
      cases ws0 <;> simp [consumed]
    | lp =>
      simp [stepTok] at hs; subst hs
      exact ⟨[] :: w :: ws0, .cons rfl (.cons hf hrest), by simp [consumed]⟩
    | rp =>
      cases hrest with
      | nil => simp [stepTok] at hs
      | @cons g v fs1 ws1 hg hrest' =>
        simp [stepTok] at hs
        obtain ⟨hfi, rfl⟩ := hs
        subst hfi
        refine ⟨(v ++ .lp :: w ++ [.rp]) :: ws1, .cons ?_ hrest', ?_⟩
        · have := lang_extend_item hg (Lang.paren hf)
          show Lang _
          simpa using this
        · cases ws1 <;> simp [consumed]

theorem sound_run {fs ws ts fs'} (h : StackOk fs ws) (hr : runToks fs ts = some fs') :
    ∃ ws', StackOk fs' ws' ∧ consumed ws' = consumed ws ++ ts := by
  induction ts generalizing fs ws with
  | nil => simp [runToks] at hr; subst hr; exact ⟨ws, h, by simp⟩
  | cons t ts ih =>
    simp only [runToks] at hr
    cases hst : stepTok fs t with
    | none => simp [hst] at hr
    | some fs1 =>
      simp [hst] at hr
      obtain ⟨ws1, h1, c1⟩ := sound_step h hst
      obtain ⟨ws2, h2, c2⟩ := ih h1 hr
      exact ⟨ws2, h2, by simp [c2, c1]⟩

theorem accept_iff_lang (ts : List Tok) : accept ts = true ↔ Lang ts := by
  constructor
  · intro h
    have hr : runToks [.empty] ts = some [.item] := by simpa [accept] using h
    obtain ⟨ws, hs, hc⟩ := sound_run (.cons (f := .empty) (w := []) rfl .nil) hr
    cases hs with
    | cons hf hrest =>
      cases hrest
      simp [consumed] at hc
      subst hc
      exact hf
  · intro h
    simp [accept, complete h]

#print axioms accept_iff_lang
