/-! spike: split-based assembly of a flat operator chain and its correctness modulo same-operator flattening -/
inductive Op | or_ | xor_ | and_ | then_ deriving DecidableEq, Repr

def Op.prec : Op → Nat | .or_ => 0 | .xor_ => 1 | .and_ => 2 | .then_ => 3

inductive Expr | leaf (a : Nat) | bin (op : Op) (l r : Expr) deriving Repr, DecidableEq

/-- n-ary normal form -/
inductive NExpr | leaf (a : Nat) | node (op : Op) (args : List NExpr) deriving Repr

def NExpr.argsFor (op : Op) : NExpr → List NExpr
  | .node op' as => if op' = op then as else [.node op' as]
  | e => [e]

def Expr.flat : Expr → NExpr
  | .leaf a => .leaf a
  | .bin op l r => .node op (l.flat.argsFor op ++ r.flat.argsFor op)

/-- a chain: first item, then (separator,item) pairs -/
abbrev Chain := Expr × List (Op × Expr)

/-- split the chain at separators equal to `o` -/
def splitTail (o : Op) : Expr → List (Op × Expr) → List Chain
  | h, [] => [(h, [])]
  | h, (s, x) :: rest =>
    if s = o then (h, []) :: splitTail o x rest
    else match splitTail o x rest with
      | [] => [(h, [(s, x)])]   -- unreachable
      | (h', t') :: more => (h, (s, h') :: t') :: more

def split (o : Op) (c : Chain) : List Chain := splitTail o c.1 c.2

def foldBin (o : Op) : Expr → List Expr → Expr
  | acc, [] => acc
  | acc, x :: xs => foldBin o (.bin o acc x) xs

def asm : List Op → Chain → Expr
  | [], c => c.1
  | o :: os, c =>
    match (split o c).map (asm os) with
    | [] => c.1
    | e :: es => foldBin o e es

def levels : List Op := [.or_, .xor_, .and_, .then_]

def join (cl : Chain) (o : Op) (cr : Chain) : Chain := (cl.1, cl.2 ++ (o, cr.1) :: cr.2)

def tight (o : Op) (c : Chain) : Prop := ∀ s ∈ c.2, o.prec ≤ s.1.prec

inductive Renders : Expr → Chain → Prop
  | item (e : Expr) : Renders e (e, [])
  | bin {l r cl cr} (o : Op) : Renders l cl → Renders r cr → tight o cl → tight o cr →
      Renders (.bin o l r) (join cl o cr)

#eval asm levels (.leaf 1, [(.or_, .leaf 2), (.and_, .leaf 3), (.or_, .leaf 4), (.xor_, .leaf 5), (.then_, .leaf 6)])

/-! ### proofs -/

theorem argsFor_node_self (o : Op) (as : List NExpr) : (NExpr.node o as).argsFor o = as := by
  simp [NExpr.argsFor]

theorem flat_foldBin (o : Op) (e : Expr) (es : List Expr) :
    ((foldBin o e es).flat).argsFor o =
      e.flat.argsFor o ++ es.flatMap (fun x => x.flat.argsFor o) := by
  induction es generalizing e with
  | nil => simp [foldBin]
  | cons x xs ih =>
    simp only [foldBin, List.flatMap_cons]
    rw [ih]
    simp [Expr.flat, argsFor_node_self, List.append_assoc]

theorem flat_foldBin_cons (o : Op) (e x : Expr) (es : List Expr) :
    (foldBin o e (x :: es)).flat =
      .node o (e.flat.argsFor o ++ (x :: es).flatMap (fun y => y.flat.argsFor o)) := by
  induction es generalizing e x with
  | nil => simp [foldBin, Expr.flat]
  | cons y ys ih =>
    rw [foldBin, ih]
    simp [Expr.flat, argsFor_node_self, List.append_assoc]

theorem splitTail_ne_nil (o : Op) (h : Expr) (t : List (Op × Expr)) : splitTail o h t ≠ [] := by
  induction t generalizing h with
  | nil => simp [splitTail]
  | cons p rest ih =>
    obtain ⟨s, x⟩ := p
    simp only [splitTail]
    split
    · simp
    · split <;> simp

theorem splitTail_absent (o : Op) (h : Expr) (t : List (Op × Expr)) (hno : ∀ p ∈ t, p.1 ≠ o) :
    splitTail o h t = [(h, t)] := by
  induction t generalizing h with
  | nil => simp [splitTail]
  | cons p rest ih =>
    obtain ⟨s, x⟩ := p
    have hs : s ≠ o := hno (s, x) (by simp)
    have hrest : ∀ p ∈ rest, p.1 ≠ o := fun p hp => hno p (by simp [hp])
    simp [splitTail, hs, ih x hrest]

theorem splitTail_join (o : Op) (h : Expr) (t : List (Op × Expr)) (h' : Expr) (t' : List (Op × Expr)) :
    splitTail o h (t ++ (o, h') :: t') = splitTail o h t ++ splitTail o h' t' := by
  induction t generalizing h with
  | nil => simp [splitTail]
  | cons p rest ih =>
    obtain ⟨s, x⟩ := p
    simp only [List.cons_append, splitTail]
    split
    · simp [ih]
    · rw [ih]
      have hne := splitTail_ne_nil o x rest
      cases hsp : splitTail o x rest with
      | nil => exact absurd hsp hne
      | cons c cs => obtain ⟨a, b⟩ := c; simp

theorem flat_foldBin_ne (o : Op) (e : Expr) (es : List Expr) (hne : es ≠ []) :
    (foldBin o e es).flat = .node o (e.flat.argsFor o ++ es.flatMap (fun y => y.flat.argsFor o)) := by
  cases es with
  | nil => exact absurd rfl hne
  | cons x xs => exact flat_foldBin_cons o e x xs

theorem asm_skip (o : Op) (os : List Op) (c : Chain) (hno : ∀ p ∈ c.2, p.1 ≠ o) :
    asm (o :: os) c = asm os c := by
  obtain ⟨h, t⟩ := c
  simp [asm, split, splitTail_absent o h t hno, foldBin]

theorem asm_join (o : Op) (os : List Op) (cl cr : Chain) :
    (asm (o :: os) (join cl o cr)).flat =
      .node o ((asm (o :: os) cl).flat.argsFor o ++ (asm (o :: os) cr).flat.argsFor o) := by
  obtain ⟨hl, tl⟩ := cl
  obtain ⟨hr, tr⟩ := cr
  simp only [asm, split, join, splitTail_join]
  have hnl := splitTail_ne_nil o hl tl
  have hnr := splitTail_ne_nil o hr tr
  cases hsl : splitTail o hl tl with
  | nil => exact absurd hsl hnl
  | cons a as =>
    cases hsr : splitTail o hr tr with
    | nil => exact absurd hsr hnr
    | cons b bs =>
      simp only [List.cons_append, List.map_cons, List.map_append]
      rw [flat_foldBin_ne _ _ _ (by simp), flat_foldBin, flat_foldBin]
      simp [List.flatMap_append, List.append_assoc]

theorem tight_ne {o o' : Op} {c : Chain} (ht : tight o c) (hlt : o'.prec < o.prec) :
    ∀ p ∈ c.2, p.1 ≠ o' := by
  intro p hp heq
  have := ht p hp
  rw [heq] at this
  omega

theorem join_ne {o o' : Op} {cl cr : Chain} (hl : tight o cl) (hr : tight o cr) (hlt : o'.prec < o.prec) :
    ∀ p ∈ (join cl o cr).2, p.1 ≠ o' := by
  intro p hp
  simp only [join, List.mem_append, List.mem_cons] at hp
  rcases hp with hp | hp | hp
  · exact tight_ne hl hlt p hp
  · subst hp; intro h; simp only at h; subst h; omega
  · exact tight_ne hr hlt p hp

theorem asm_renders {e : Expr} {c : Chain} (h : Renders e c) : (asm levels c).flat = e.flat := by
  induction h with
  | item e => simp [levels, asm, split, splitTail, foldBin]
  | @bin l r cl cr o _ _ tl tr ihl ihr =>
    simp only [Expr.flat, ← ihl, ← ihr]
    cases o with
    | or_ => exact asm_join _ _ _ _
    | xor_ =>
      have p : Op.or_.prec < Op.xor_.prec := by decide
      simp only [levels]
      rw [asm_skip _ _ _ (join_ne tl tr p), asm_skip _ _ _ (tight_ne tl p), asm_skip _ _ _ (tight_ne tr p)]
      exact asm_join _ _ _ _
    | and_ =>
      have p : Op.or_.prec < Op.and_.prec := by decide
      have q : Op.xor_.prec < Op.and_.prec := by decide
      simp only [levels]
      rw [asm_skip _ _ _ (join_ne tl tr p), asm_skip _ _ _ (tight_ne tl p), asm_skip _ _ _ (tight_ne tr p),
          asm_skip _ _ _ (join_ne tl tr q), asm_skip _ _ _ (tight_ne tl q), asm_skip _ _ _ (tight_ne tr q)]
      exact asm_join _ _ _ _
    | then_ =>
      have p : Op.or_.prec < Op.then_.prec := by decide
      have q : Op.xor_.prec < Op.then_.prec := by decide
      have s : Op.and_.prec < Op.then_.prec := by decide
      simp only [levels]
      rw [asm_skip _ _ _ (join_ne tl tr p), asm_skip _ _ _ (tight_ne tl p), asm_skip _ _ _ (tight_ne tr p),
          asm_skip _ _ _ (join_ne tl tr q), asm_skip _ _ _ (tight_ne tl q), asm_skip _ _ _ (tight_ne tr q),
          asm_skip _ _ _ (join_ne tl tr s), asm_skip _ _ _ (tight_ne tl s), asm_skip _ _ _ (tight_ne tr s)]
      exact asm_join _ _ _ _

#print axioms asm_renders
