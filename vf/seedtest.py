"""
development helper (not a registered check): confirm a seeded change produced by a sub-agent and run our check against it.

python -m vf.seedtest <name> <property> <outdir> <worktree>   e.g.  C01-a C01 /tmp/mut/C01-out /tmp/mut/C01
"""
import json
import os
import shutil
import subprocess
import sys
import time
from pathlib import Path

VERIF = Path(__file__).resolve().parent.parent


def sh(cmd, **kw):
    return subprocess.run(cmd, shell=True, capture_output=True, text=True, **kw)


def main():
    name, prop, outdir, wt = sys.argv[1:5]
    tier = sys.argv[5] if len(sys.argv) > 5 else "quick"
    out = Path(outdir)
    patch = out / "patch.diff"
    res = {"name": name, "property": prop, "confirmed": {}, "check": {}}
    # 1. confirm in the scratch worktree: suite passes with the change, demo fails with / passes without
    t = sh(f"cd {wt} && git diff --stat | tail -1")
    res["confirmed"]["diffstat"] = t.stdout.strip()
    t = sh(f"cd {wt} && PYTHONPATH={wt}/src /venv/bin/python -m pytest -q -p no:cacheprovider 2>&1 | tail -1")
    res["confirmed"]["suite_with_change"] = t.stdout.strip()
    base = os.environ.get("SEED_BASE", "/repo")
    d0 = sh(f"PYTHONPATH={base}/src /venv/bin/python -W ignore {out}/demo.py", cwd="/tmp")
    d1 = sh(f"PYTHONPATH={wt}/src /venv/bin/python -W ignore {out}/demo.py", cwd="/tmp")
    res["confirmed"]["demo_on_original_exit"] = d0.returncode
    res["confirmed"]["demo_on_changed_exit"] = d1.returncode
    res["confirmed"]["demo_changed_tail"] = (d1.stdout + d1.stderr).strip().splitlines()[-1:] if d1.returncode else []
    ok = "532 passed" in res["confirmed"]["suite_with_change"] and d0.returncode == 0 and d1.returncode != 0
    res["confirmed"]["ok"] = ok
    # 2. our check against it
    st = sh("git -C /repo status --porcelain")
    if st.stdout.strip():
        print("refusing: /repo is dirty", st.stdout)
        sys.exit(2)
    ap = sh(f"git -C /repo apply --3way {patch} || git -C /repo apply {patch}")
    if sh("git -C /repo status --porcelain").stdout.strip() == "":
        ap = sh(f"cd /repo && patch -p1 < {patch}")
    res["check"]["apply"] = "ok" if sh("git -C /repo status --porcelain").stdout.strip() else ("FAILED " + ap.stderr[-300:])
    try:
        t0 = time.time()
        c = sh(f"cd {VERIF} && ./check {prop} --tier {tier}", timeout=3000)
        res["check"].update({"exit": c.returncode, "wall_s": round(time.time() - t0, 1),
                             "lines": [l for l in c.stdout.splitlines() if l.startswith(("VIOLATION", "KNOWN", "["))][:6],
                             "stderr_tail": c.stderr.strip().splitlines()[-3:]})
        viol = [l for l in c.stdout.splitlines() if l.startswith("VIOLATION")]
        if viol:
            rp = viol[0].split("replay=")[1].split()[0]
            try:
                rj = json.load(open(rp))
                res["check"]["replay_what"] = rj.get("what") or [b["name"] for b in rj.get("no_longer_checks", [])]
                res["check"]["replay"] = json.dumps(rj.get("replay", rj.get("no_longer_checks")), ensure_ascii=False)[:600]
            except Exception as e:  # pylint:disable=broad-except
                res["check"]["replay_err"] = str(e)
    finally:
        sh("git -C /repo reset -q --hard HEAD; git -C /repo checkout -- .")
        sh(f"cd {VERIF} && git checkout -- evidence lean/Ahbicht/Generated 2>/dev/null")
    res["check"]["detected"] = res["check"].get("exit") == 1
    # 3. keep
    dst = VERIF / "seeded" / name
    dst.mkdir(parents=True, exist_ok=True)
    shutil.copy(patch, dst / "patch.diff")
    shutil.copy(out / "demo.py", dst / "demo.py")
    meta = {}
    try:
        meta = json.load(open(out / "meta.json"))
    except Exception:  # pylint:disable=broad-except
        pass
    meta.update({"property": prop, "confirmed_by_us": res["confirmed"], "our_check": res["check"],
                 "what_we_ran": [f"suite in scratch worktree {wt} with the change", "demo.py on /repo/src and on the worktree",
                                 f"git -C /repo apply patch.diff; ./check {prop} --tier {tier}; git -C /repo checkout -- ."]})
    (dst / "meta.json").write_text(json.dumps(meta, indent=1, ensure_ascii=False) + "\n")
    print(json.dumps(res, indent=1, ensure_ascii=False))


if __name__ == "__main__":
    main()
