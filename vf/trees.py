"""
Expression trees as nested tuples, conversion from Lark trees, n-ary flattening, rendering, generators.

leaf:  ("cond", "123") | ("pkg", "123P", None | "0..1") | ("time", "UB1")
node:  (rule, left, right) with rule in OPS (binary) ; flat form: (rule, [args...])
"""
from __future__ import annotations

import random
from typing import Any, List, Optional, Sequence, Tuple

from lark import Token, Tree

OR, XOR, AND, THEN = "or_composition", "xor_composition", "and_composition", "then_also_composition"
OPS = (OR, XOR, AND, THEN)
PREC = {OR: 0, XOR: 1, AND: 2, THEN: 3}
SPELL = {OR: ["O", "o", "∨"], XOR: ["X", "x", "⊻"], AND: ["U", "u", "∧"]}
WS_CHARS = " \t\f\r\n"


def is_leaf(e) -> bool:
    return e[0] in ("cond", "pkg", "time")


def from_lark(t: Any):
    """Lark tree of the condition grammar (possibly below an AHB tree) -> nested tuples; unknown shapes are kept opaque"""
    if isinstance(t, Tree):
        if t.data in OPS and len(t.children) == 2:
            return (str(t.data), from_lark(t.children[0]), from_lark(t.children[1]))
        if t.data == "condition" and len(t.children) == 1 and isinstance(t.children[0], Token):
            return ("cond", str(t.children[0].value))
        if t.data == "time_condition" and len(t.children) == 1 and isinstance(t.children[0], Token):
            return ("time", str(t.children[0].value))
        if t.data == "package" and 1 <= len(t.children) <= 2:
            key = str(t.children[0].value)
            rep = str(t.children[1].value) if len(t.children) == 2 else None
            return ("pkg", key, rep)
        return ("tree", str(t.data), [from_lark(c) for c in t.children])
    if isinstance(t, Token):
        return ("tok", str(t.type), str(t.value))
    return ("obj", type(t).__name__)


def to_json(e):
    """same shape as the Lean driver's exprJson / nexprJson"""
    if e[0] == "cond":
        return ["cond", e[1]]
    if e[0] == "time":
        return ["time", e[1]]
    if e[0] == "pkg":
        return ["pkg", e[1], e[2]]
    if e[0] in OPS:
        if len(e) == 2 and isinstance(e[1], list):
            return [e[0]] + [to_json(a) for a in e[1]]
        return [e[0], to_json(e[1]), to_json(e[2])]
    if e[0] == "tree":
        return ["tree", e[1], [to_json(c) for c in e[2]]]
    return list(e)


def from_json(j):
    if j[0] == "cond" or j[0] == "time":
        return (j[0], j[1])
    if j[0] == "pkg":
        return ("pkg", j[1], j[2])
    if j[0] in OPS:
        return (j[0], from_json(j[1]), from_json(j[2]))
    raise ValueError(j)


def flat(e):
    """n-ary flattening of same-operator runs (the only canonicalisation applied to parse trees)"""
    if e[0] in OPS:
        args: List[Any] = []
        for sub in (e[1], e[2]):
            f = flat(sub)
            if f[0] == e[0]:
                args.extend(f[1])
            else:
                args.append(f)
        return (e[0], args)
    if e[0] == "tree":
        return ("tree", e[1], [flat(c) for c in e[2]])
    return e


def flat_json(e):
    f = flat(e)

    def j(x):
        if x[0] in OPS:
            return [x[0]] + [j(a) for a in x[1]]
        if x[0] == "tree":
            return ["tree", x[1], [j(c) for c in x[2]]]
        return to_json(x)

    return j(f)


def leaves(e) -> List[Any]:
    if e[0] in OPS:
        return leaves(e[1]) + leaves(e[2])
    return [e]


def size(e) -> int:
    return 1 if is_leaf(e) else size(e[1]) + size(e[2]) + 1


def depth(e) -> int:
    return 0 if is_leaf(e) else 1 + max(depth(e[1]), depth(e[2]))


def to_lark(e) -> Tree:
    """nested tuples -> Lark tree (what the parser would have produced)"""
    if e[0] == "cond":
        return Tree("condition", [Token("CONDITION_KEY", e[1])])
    if e[0] == "time":
        return Tree("time_condition", [Token("TIME_CONDITION_KEY", e[1])])
    if e[0] == "pkg":
        ch = [Token("PACKAGE_KEY", e[1])]
        if e[2] is not None:
            ch.append(Token("REPEATABILITY", e[2]))
        return Tree("package", ch)
    return Tree(e[0], [to_lark(e[1]), to_lark(e[2])])


# ---------------------------------------------------------------------------------------------
# rendering
# ---------------------------------------------------------------------------------------------
class Style:
    """how to write an expression: bracket policy, operator spelling, whitespace"""

    def __init__(self, rng: random.Random, brackets: str = "min", spelling: str = "rand", ws: str = "rand"):
        if ws == "rand" and rng.random() < 0.25:
            ws = "between"  # a quarter of the randomly spaced renderings are written the way people write: "[1] U ([2] O [3])"
        self.rng, self.brackets, self.spelling, self.ws = rng, brackets, spelling, ws

    def inner(self) -> str:
        """whitespace directly inside square or round brackets ("between": none there, one blank between operands and operators, as people write)"""
        return "" if self.ws == "between" else self.gap()

    def gap(self, need_nonempty: bool = False) -> str:
        if self.ws == "none":
            return ""
        if self.ws in ("one", "between"):
            return " "
        n = self.rng.choice([0, 0, 1, 1, 1, 2, 3])
        return "".join(self.rng.choice(WS_CHARS) if self.rng.random() < 0.3 else " " for _ in range(n))

    def op(self, rule: str) -> str:
        if self.spelling == "rand":
            return self.rng.choice(SPELL[rule])
        if self.spelling == "upper":
            return SPELL[rule][0]
        if self.spelling == "lower":
            return SPELL[rule][1]
        return SPELL[rule][2]

    def extra(self) -> int:
        if self.brackets == "min":
            return 0
        if self.brackets == "max":
            return 1
        return self.rng.choice([0, 0, 0, 1, 1, 2])


def render_leaf(e, st: Style) -> str:
    g = st.inner
    if e[0] == "cond" or e[0] == "time":
        return f"[{g()}{e[1]}{g()}]"
    rep = "" if e[2] is None else f"{g()}{e[2]}"
    return f"[{g()}{e[1]}{rep}{g()}]"


def render(e, st: Style, parent: Optional[str] = None, top: bool = True, leaf_text=None) -> str:
    """write `e`; an operand gets brackets iff its operator binds looser than the parent's (plus optional redundant ones);
    `leaf_text(leaf)` may supply replacement text for a leaf (textual substitution)"""
    if is_leaf(e):
        s = (leaf_text(e) if leaf_text else None) or render_leaf(e, st)
        need = False
    else:
        rule = e[0]
        l = render(e[1], st, rule, False, leaf_text)
        r = render(e[2], st, rule, False, leaf_text)
        if rule == THEN:
            s = f"{l}{st.gap()}{r}"
        else:
            s = f"{l}{st.gap()}{st.op(rule)}{st.gap()}{r}"
        need = parent is not None and PREC[rule] < PREC[parent]
    n = (1 if need else 0) + st.extra()
    for _ in range(n):
        s = f"({st.inner()}{s}{st.inner()})"
    if top:
        s = f"{st.inner()}{s}{st.inner()}"
    return s


# ---------------------------------------------------------------------------------------------
# generators
# ---------------------------------------------------------------------------------------------
def rand_key(rng: random.Random, kind: Optional[str] = None) -> str:
    kind = kind or rng.choice(["rc", "rc", "rc", "hint", "fc", "rc2000", "other"])
    if kind == "rc":
        n = rng.randint(1, 499)
    elif kind == "hint":
        n = rng.randint(500, 900)
    elif kind == "fc":
        n = rng.randint(901, 999)
    elif kind == "rc2000":
        n = rng.randint(2000, 2499)
    else:
        n = rng.choice([0, 1000, 1999, 2500, 99999, rng.randint(1000, 1999)])
    s = str(n)
    if rng.random() < 0.1:
        s = "0" * rng.randint(1, 3) + s
    return s


def rand_leaf(rng: random.Random, kinds: Sequence[str] = ("cond", "cond", "cond", "cond", "pkg", "time")):
    k = rng.choice(list(kinds))
    if k == "cond":
        return ("cond", rand_key(rng))
    if k == "time":
        return ("time", "UB" + rng.choice("123"))
    rep = None
    if rng.random() < 0.5:
        a = rng.randint(0, 12)
        rep = f"{a}..{rng.randint(max(a, 1), a + 9)}"
    return ("pkg", f"{rng.randint(1, 999)}P", rep)


def rand_expr(rng: random.Random, n_leaves: int, leaf=rand_leaf, ops: Sequence[str] = OPS, weights=None):
    """uniformly split random binary tree with n_leaves leaves"""
    if n_leaves <= 1:
        return leaf(rng)
    k = rng.randint(1, n_leaves - 1)
    op = rng.choices(list(ops), weights=weights)[0] if weights else rng.choice(list(ops))
    return (op, rand_expr(rng, k, leaf, ops, weights), rand_expr(rng, n_leaves - k, leaf, ops, weights))


def chain_expr(seps: Sequence[str], leaf_of=lambda i: ("cond", str(i + 1))):
    """the precedence tree of the chain  a0 s0 a1 s1 ... (left-assoc inside runs) -- reference implementation"""
    items = [leaf_of(i) for i in range(len(seps) + 1)]

    def asm(level: int, items, seps):
        if level == 4 or not seps:
            return items[0] if not seps else None
        op = OPS[level]
        pieces, cur_i, cur_s = [], [items[0]], []
        for s, it in zip(seps, items[1:]):
            if s == op:
                pieces.append((cur_i, cur_s))
                cur_i, cur_s = [it], []
            else:
                cur_i.append(it)
                cur_s.append(s)
        pieces.append((cur_i, cur_s))
        built = [asm(level + 1, i, s) for i, s in pieces]
        acc = built[0]
        for b in built[1:]:
            acc = (op, acc, b)
        return acc

    return asm(0, items, list(seps))


def render_chain(seps: Sequence[str], st: Style, leaf_of=lambda i: ("cond", str(i + 1))) -> str:
    out = [render_leaf(leaf_of(0), st)]
    for i, s in enumerate(seps):
        out.append(st.gap())
        if s != THEN:
            out.append(st.op(s))
            out.append(st.gap())
        out.append(render_leaf(leaf_of(i + 1), st))
    return "".join(out)
