"""shared by C04-C07: generate (expression, assignment) cases, run implementation and model, compare"""
from __future__ import annotations

import json
from typing import Any, Dict, List, Sequence, Tuple

from .. import evalenv, evaluation as E, trees as T
from ..common import Ctx


def hints_for(e) -> Dict[str, str]:
    return {k: f"Hinweis {k}" for k in E.keys_by_kind(e)["hint"]}


def gen_exprs(ctx: Ctx, n_random: int, max_leaves: int, exhaustive_leaves: int, wf: bool = True) -> List[Tuple[str, Any]]:
    rng = ctx.rng
    out: List[Tuple[str, Any]] = []
    alphabet = [("cond", "1"), ("cond", "2"), ("cond", "900"), ("cond", "901")]  # 900: the last hint key, next to the first format key
    for n in range(1, exhaustive_leaves + 1):
        for e in E.all_shapes(n, alphabet):
            out.append(("exhaustive", e))
    ctx.coverage["shapes_exhaustive_up_to_leaves"] = exhaustive_leaves
    for _ in range(n_random):
        n = rng.randint(2, max_leaves)
        out.append(("random-wf" if wf else "random-any", E.rand_eval_expr(rng, n, wf=wf)))
    if wf:
        for _ in range(n_random // 4):
            out.append(("random-any", E.rand_eval_expr(rng, rng.randint(2, max_leaves), wf=False)))
    return out


def rc_cases(ctx: Ctx, exprs: Sequence[Tuple[str, Any]], max_assign: int) -> List[Dict[str, Any]]:
    """one case per (expression, assignment): all 3^k assignments when that is at most max_assign, else a sample"""
    cases = []
    for stream, e in exprs:
        keys = E.keys_by_kind(e)["rc"]
        for a in E.assignments(keys, "FUK", ctx.rng, max_assign):
            cases.append({"stream": stream, "e": e, "rc": a, "hints": hints_for(e)})
    return cases


def run_impl_and_model(ctx: Ctx, cases: List[Dict[str, Any]], model_ok: bool) -> None:
    """fills case['impl'] and case['model'] (requirement_constraint_evaluation on the tree)"""
    E.configure(ctx.rng)
    # the cases of one expression follow each other: for half of the expressions ONE parsed tree object is evaluated under all its
    # assignments (callers may parse once and evaluate many times), for the others every evaluation gets a fresh tree
    last_e, tree, reuse, before = None, None, False, []
    for c in cases:
        if c["e"] is not last_e:
            last_e, tree, reuse, before = c["e"], T.to_lark(c["e"]), ctx.rng.random() < 0.5, []
            ctx.count("tree_object", "reused" if reuse else "fresh")
        c["same_tree_object_evaluated_before_under"] = list(before) if reuse else []
        c["impl"] = E.eval_rc(tree if reuse else T.to_lark(c["e"]), c["rc"], c["hints"])
        before.append(c["rc"])
    if model_ok:
        outs = ctx.driver({"op": "evalRc", "tree": T.to_json(c["e"]), "rc": c["rc"], "hints": c["hints"]} for c in cases)
        for c, o in zip(cases, outs):
            c["model"] = o


def compare(ctx: Ctx, cases, gate: Sequence[str], advisory: Sequence[str], name: str) -> None:
    n_diff = 0
    for c in cases:
        if "model" not in c:
            continue
        i, m = c["impl"], c["model"]
        if ("err" in i) != ("err" in m) or ("err" in i and i["err"] != m["err"]):
            n_diff += 1
            if n_diff <= 6:
                ctx.broke("correspondence", name, json.dumps({"e": T.to_json(c["e"]), "rc": c["rc"], "impl": i, "model": m}, ensure_ascii=False))
            continue
        if "err" in i:
            continue
        bad = [f for f in gate if i.get(f) != m.get(f)]
        if bad:
            n_diff += 1
            if n_diff <= 6:
                ctx.broke("correspondence", name, json.dumps({"fields": bad, "e": T.to_json(c["e"]), "rc": c["rc"], "impl": i, "model": m}, ensure_ascii=False))
        for f in advisory:
            if i.get(f) != m.get(f):
                ctx.advise({"field": f, "e": T.to_json(c["e"]), "rc": c["rc"], "impl": i.get(f), "model": m.get(f)})
    ctx.coverage.setdefault("correspondence", {})[name] = {"lines": sum(1 for c in cases if "model" in c), "disagreements": n_diff}


def disagreeing(cases) -> List[Any]:
    """expressions on which implementation and model differ (in error class or a gated field), smallest first"""
    out, seen = [], set()
    for c in cases:
        if "model" not in c:
            continue
        i, m = c["impl"], c["model"]
        if ("err" in i) != ("err" in m) or i.get("err") != m.get("err") or i.get("fulfilled") != m.get("fulfilled") or i.get("conditional") != m.get("conditional"):
            k = repr(c["e"])
            if k not in seen:
                seen.add(k)
                out.append(c["e"])
    return sorted(out, key=lambda e: len(T.leaves(e)))


def contexts_around(e) -> List[Any]:
    """the failing-input search when the correspondence breaks: the expression on which code and model differ, put under every operator next to
    a requirement key, a hint and a format constraint (either side) -- the places where a property about validity / outcomes can start to fail"""
    out = [e]
    for other in (("cond", "2"), ("cond", "502"), ("cond", "902"), ("cond", "3")):
        for op in (T.OR, T.XOR, T.AND, T.THEN):
            for t in ((op, e, other), (op, other, e)):
                if E.well_formed(t):
                    out.append(t)
    return out

