"""
C13 — validation covers the AHB tree once, in order; parents dominate children.

Proof: Properties/C13.lean (order = pruned pre-order, nothing below forbidden, status = combine(parent, own), dominance, suffix;
all table facts over the extracted tables).  Tie: T1 tables, T3 full result list of validate_deep_anwendungshandbuch.
"""
from __future__ import annotations

from .. import evaluation as E, evalenv, extract, valgen as V
from ..common import Ctx
from . import _valcommon as VC

MODULES = ["Ahbicht.Properties.C13", "Ahbicht.Properties.C13Full"]


def expected_order(spec, status_of):
    out = []

    def grp(g):
        out.append(g["disc"])
        if status_of.get(g["disc"]) == "IS_FORBIDDEN":
            return
        for x in g["groups"]:
            grp(x)
        for s in g["segs"]:
            out.append(s["disc"])
            if status_of.get(s["disc"]) == "IS_FORBIDDEN":
                continue
            out.extend(d["disc"] for d in s["des"])

    for g in spec["lines"]:
        grp(g)
    return out


def check_run(ctx: Ctx, spec, cer, soll, im) -> None:
    """the clauses of C13 on one result of the implementation"""
    from ahbicht.models.enums import ModalMark, PrefixOperator
    from ahbicht.models.validation_values import RequirementValidationValue as R
    from ahbicht.validation.validation import combine_requirements_of_different_levels, map_requirement_validation_values

    def rep(extra):
        return {"ahb": spec, "content_evaluation": cer, "soll_is_required": soll, **extra}

    nodes = list(V.walk(spec))
    if "err" in im:
        ctx.count("outcome", im["err"])
        if im["err"] != "NotImplementedError":
            ctx.violation(f"validation aborts with {im['err']}", rep({}), key=f"abort:{im['err']}")
            return
        # the only documented reason to abort: some node's own outcome is undetermined under MUSS / a prefix operator / SOLL read as MUSS
        # (or its evaluation itself raises, e.g. an unknown package)
        justified = False
        for kind, node, parent in nodes:
            for x, inp in ([(e["expr"], None) for e in node["entries"]] if kind == "pool" else [(node["expr"], node.get("input"))]):
                ev = V.eval_node_expr(V.expr_text(x), cer, inp)
                if "raises" in ev or (kind != "pool" and ev.get("fulfilled", 0) is None and (ev["ind"] in ("MUSS", "X", "O", "U") or (ev["ind"] == "SOLL" and soll))):
                    justified = True
        if not justified:
            ctx.violation("validation aborts with NotImplementedError although no node has an undetermined outcome under MUSS / prefix operator / SOLL-as-MUSS", rep({}), key="abort:unjustified")
        return
    ctx.count("outcome", "results")
    res = im["results"]
    by = {}
    for r in res:
        if r["disc"] in by:
            ctx.violation("a node is reported more than once", rep({"discriminator": r["disc"]}), key="twice")
        by[r["disc"]] = r
    status = {d: r["status"] for d, r in by.items()}
    want = expected_order(spec, status)
    got = [r["disc"] for r in res]
    if got != want:
        ctx.violation("results are not in document order / nodes missing or below a forbidden node", rep({"expected_order": want, "got": got}), key="order")
        return
    for kind, node, parent in nodes:
        if node["disc"] not in by or kind == "pool":
            continue
        r = by[node["disc"]]
        ev = V.eval_node_expr(V.expr_text(node["expr"]), cer, node.get("input"))
        pstat = None if parent is None else R(status[parent["disc"]])
        if "invalid" in ev or "raises" in ev:
            continue
        if pstat is R.IS_FORBIDDEN:
            continue
        ind = ModalMark(ev["ind"]) if ev["ind"] in ("MUSS", "SOLL", "KANN") else PrefixOperator(ev["ind"])
        try:
            own = map_requirement_validation_values(ev["fulfilled"], ind, soll)
            comb = combine_requirements_of_different_levels(pstat, own)
        except Exception:  # pylint:disable=broad-except
            continue
        exp = str(comb.value)
        if kind == "free":
            exp += "_AND_FILLED" if node["input"] else "_AND_EMPTY"
        ctx.count("status", exp)
        if r["status"] != exp:
            ctx.violation("status is not own status combined with the parent's status" + (" (+ FILLED/EMPTY suffix)" if kind == "free" else ""),
                          rep({"discriminator": node["disc"], "expression": V.expr_text(node["expr"]), "own": str(own.value), "parent": None if pstat is None else str(pstat.value),
                               "expected": exp, "got": r["status"]}), key=f"status:{kind}:{exp}:{r['status']}")
        if pstat is R.IS_OPTIONAL and r["status"].startswith("IS_REQUIRED") and kind != "pool":
            ctx.violation("a node below an optional node is reported required", rep({"discriminator": node["disc"]}), key="dominance-optional")
        if pstat is R.IS_REQUIRED and not r["status"].startswith(str(own.value)):
            ctx.violation("below a required node the own status is not kept", rep({"discriminator": node["disc"]}), key="dominance-required")
    # undetermined outcome under MUSS / prefix operator / SOLL-as-MUSS at a visited node must abort
    for kind, node, parent in nodes:
        if node["disc"] in by and kind != "pool":
            ev = V.eval_node_expr(V.expr_text(node["expr"]), cer, node.get("input"))
            if ev.get("fulfilled", 0) is None and (ev["ind"] in ("MUSS", "X", "O", "U") or (ev["ind"] == "SOLL" and soll)) and by[node["disc"]]["status"] != "IS_FORBIDDEN":
                ctx.violation("undetermined outcome under MUSS/prefix operator at a visited node does not abort the run", rep({"discriminator": node["disc"]}), key="unknown-no-abort")


def run(ctx: Ctx) -> None:
    ctx.rule = ("random deep AHBs (depth<=3/4, branching<=3/4, 0-4 data elements per segment, free text and value pools, expressions with several modal marks, "
                "packages, hints, format constraints), content results incl. UNKNOWN, both values of soll_is_required; distinct = (AHB, content result, flag); "
                "non-trivial = more than 3 nodes")
    ctx.coverage["generated_changed"] = extract.regenerate(["Validation", "Indicators", "Cfv"])
    ok = ctx.lean_build(MODULES)
    drv = ctx.lean_build_driver()
    if ok:
        ctx.lean_audit(MODULES)
        if not ctx.quick:
            ctx.lean_check_olean(MODULES)
    E.configure(ctx.rng)  # evaluators: content-result based or evaluate_<key> methods, suspending under a random schedule half of the time
    runs = []
    for i in range(ctx.pick(120, 1200)):
        g = V.Gen(ctx.rng, depth=ctx.rng.randint(1, ctx.pick(3, 4)), branching=ctx.rng.randint(1, ctx.pick(3, 4)))
        spec = g.ahb()
        cer = g.cer(p_unknown=0.0 if i % 3 else 0.1)
        for soll in (True, False):
            im = V.run_validation(spec, cer, soll)
            n_nodes = sum(1 for _ in V.walk(spec))
            ctx.case((str(spec), str(cer), soll), nontrivial=n_nodes > 3)
            ctx.count("nodes", str(min(n_nodes, 60) // 10 * 10))
            runs.append({"spec": spec, "cer": cer, "soll": soll, "impl": im})
            check_run(ctx, spec, cer, soll, im)
    ctx.sample({"ahb": runs[0]["spec"], "content_evaluation": runs[0]["cer"], "soll": runs[0]["soll"], "result": runs[0]["impl"]}, limit=2)
    VC.correspondence(ctx, runs, drv)
    ctx.assumptions += ["two models are compared with the implementation: the table walk (node results fed from the implementation's own evaluation) and the end-to-end model that scans, parses, resolves and evaluates every node expression itself (Model/Full.lean); inside the class of known finding K1 (C05) the latter may group a same-operator run differently from Lark",
                        "asyncio.gather returns results in argument order (C12)"]


def replay(ctx: Ctx, data) -> int:
    evalenv.configure_cer_based()
    r = data["replay"]
    im = V.run_validation(r["ahb"], r["content_evaluation"], r["soll_is_required"])
    sub = Ctx("C13", "quick", 0)
    check_run(sub, r["ahb"], r["content_evaluation"], r["soll_is_required"], im)
    for v in sub.violations:
        print("reproduced:", v["what"])
    return 1 if sub.violations else 0
