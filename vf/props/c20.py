"""
C20 — the shipped date-time format constraints judge the instant, not its notation.

Proof: Properties/C20.lean (pytz table 1996-2037 = EU rule; verdict is a function of the instant; 931 = zero offset; hour grid).
Tie: T1 pytz transition table, T3 FcEvaluator.evaluate_931..935 and format_constraint_evaluation("[93x]") with the context variable set.
Predicate on the implementation: verdict = independent integer arithmetic of the EU rule, for every notation of every instant.
"""
from __future__ import annotations

import asyncio
import json
import random
from typing import Optional

from .. import evalenv, extract
from ..common import Ctx

MODULES = ["Ahbicht.Properties.C20"]


def days_from_civil(y, m, d):
    y -= m <= 2
    era = (y if y >= 0 else y - 399) // 400
    yoe = y - era * 400
    mp = (m + 9) % 12
    doy = (153 * mp + 2) // 5 + d - 1
    doe = yoe * 365 + yoe // 4 - yoe // 100 + doy
    return era * 146097 + doe - 719468


def civil_from_days(z):
    z += 719468
    era = (z if z >= 0 else z - 146096) // 146097
    doe = z - era * 146097
    yoe = (doe - doe // 1460 + doe // 36524 - doe // 146096) // 365
    y = yoe + era * 400
    doy = doe - (365 * yoe + yoe // 4 - yoe // 100)
    mp = (5 * doy + 2) // 153
    d = doy - (153 * mp + 2) // 5 + 1
    m = mp + 3 if mp < 10 else mp - 9
    return (y + (m <= 2), m, d)


def last_sunday(y, m):
    last = days_from_civil(y, m, 31)
    return last - (last + 4) % 7


def german_offset(t: int) -> int:
    """EU rule, independent of pytz/datetime: +2h between last Sunday of March 01:00 UTC and last Sunday of October 01:00 UTC"""
    y = civil_from_days(t // 86400)[0]
    a = last_sunday(y, 3) * 86400 + 3600
    b = last_sunday(y, 10) * 86400 + 3600
    return 7200 if a <= t < b else 3600


def expected(t: int, off: int):
    tod = (t + german_offset(t)) % 86400
    return {"931": off == 0, "932": tod == 0, "933": tod == 0, "934": tod == 21600, "935": tod == 21600}


def fmt_offset(off: int, style: str) -> str:
    if off == 0 and style == "Z":
        return "Z"
    sign = "+" if off >= 0 else "-"
    a = abs(off)
    hh, mm, ss = a // 3600, a % 3600 // 60, a % 60
    if ss:
        return f"{sign}{hh:02d}:{mm:02d}:{ss:02d}"
    if style == "basic":
        return f"{sign}{hh:02d}{mm:02d}"
    if style == "hh" and mm == 0:
        return f"{sign}{hh:02d}"
    return f"{sign}{hh:02d}:{mm:02d}"


def write(t: int, off: int, rng: random.Random):
    """one way of writing instant t with UTC offset off; returns (string, fields)"""
    loc = t + off
    y, m, d = civil_from_days(loc // 86400)
    sod = loc % 86400
    H, M, S = sod // 3600, sod % 3600 // 60, sod % 60
    style = rng.choice(["ext", "ext", "Z", "basic", "hh", "space", "lowt"])
    sep = " " if style == "space" else ("t" if style == "lowt" else "T")
    if style == "basic":
        s = f"{y:04d}{m:02d}{d:02d}T{H:02d}{M:02d}{S:02d}{fmt_offset(off, 'basic')}"
    else:
        s = f"{y:04d}-{m:02d}-{d:02d}{sep}{H:02d}:{M:02d}:{S:02d}{fmt_offset(off, style)}"
    return s, {"y": y, "m": m, "d": d, "H": H, "M": M, "S": S, "off": off}


OFFSETS = [0, 3600, 7200, -36000, 5 * 3600 + 45 * 60, 14 * 3600, -12 * 3600, 1800, 9 * 3600 + 1800, -3 * 3600 - 1800, 12 * 3600 + 45 * 60]
BAD = ["", None, "2022-01-01T00:00:00", "garbage", "2022-01-01T00:00:00−01:00", "2022-01-01T00:00:00+01:00\n", "2022-01-01T24:00:00+01:00",
       "2022-01-01T00:00:00+24:00", "2022-13-01T00:00:00+01:00", "\ud800", "0001-01-01T00:00:00+01:00", "9999-12-31T23:59:59-01:00",
       "0001-01-01T00:00:00+00:00", "9999-12-31T23:59:59Z", "2022-01-01", "12:00:00+01:00", "Z", "2022-02-30T00:00:00Z", "２０２２-01-01T00:00:00Z",
       # characters that are special to string formatting, logging and regular expressions
       "{", "}", "{}", "{0}", "{foo}", "%s", "%(x)s", "%", "\\", "2022-01-01T00:00:00+01:00}", "{2022-01-01T00:00:00+01:00}", "$1", "\x00", "a" * 5000, " ", "\t\n"]


def run(ctx: Ctx) -> None:
    from ahbicht.content_evaluation import fc_evaluators
    from ahbicht.content_evaluation.fc_evaluators import FcEvaluator
    from ahbicht.expressions.format_constraint_expression_evaluation import format_constraint_evaluation
    from efoli import EdifactFormat, EdifactFormatVersion

    ctx.rule = ("quick: every whole hour within +-3 h of both DST switches of all 42 years, 20000 random seconds, x 4 offsets each; thorough: ALL 368184 whole hours "
                "1996-2037; offsets from {0, +1h, +2h, -10h, +5:45, +14h, -12h, +0:30, +9:30, -3:30, +12:45}; notations Z, +hh:mm, +hhmm, +hh, blank/T/t separator, "
                "basic format; a stream of strings that are not datetimes with offset (incl. characters special to str.format / % / regex), directly and through the evaluator infrastructure; distinct = (instant, offset, notation); non-trivial = all")
    ctx.coverage["generated_changed"] = extract.regenerate(["Berlin"])
    ok = ctx.lean_build(MODULES)
    drv = ctx.lean_build_driver()
    if ok:
        ctx.lean_audit(MODULES)
        if not ctx.quick:
            ctx.lean_check_olean(MODULES)

    class Ev(FcEvaluator):
        edifact_format = EdifactFormat.UTILMD
        edifact_format_version = EdifactFormatVersion.FV2210

    ev = Ev()
    methods = {k: getattr(ev, f"evaluate_{k}") for k in ("931", "932", "933", "934", "935")}
    rng = ctx.rng
    t0, t1 = days_from_civil(1996, 1, 1) * 86400, days_from_civil(2038, 1, 1) * 86400
    instants = []
    if ctx.quick:
        for y in range(1996, 2038):
            for m in (3, 10):
                sw = last_sunday(y, m) * 86400 + 3600
                instants += [sw + h * 3600 for h in range(-27, 8)]
        instants += [rng.randrange(t0, t1) for _ in range(20000)]
        instants += [rng.randrange(t0 // 3600, t1 // 3600) * 3600 for _ in range(10000)]
    else:
        instants = list(range(t0, t1, 3600)) + [rng.randrange(t0, t1) for _ in range(200000)]
        ctx.coverage["exhaustive_hours_1996_2037"] = (t1 - t0) // 3600
    rows = []
    n_true = 0
    for t in instants:
        offs = [0, rng.choice([3600, 7200])] + rng.sample(OFFSETS, 2) if ctx.quick else [rng.choice(OFFSETS), rng.choice([0, 3600, 7200])]
        verdicts = {}
        for off in offs:
            s, fields = write(t, off, rng)
            want = expected(t, off)
            got = {}
            for k, meth in methods.items():
                try:
                    r = meth(s)
                    got[k] = bool(r.format_constraint_fulfilled)
                    if not got[k] and not r.error_message:
                        ctx.violation("unfulfilled without error message", {"key": k, "input": s}, key=f"nomsg:{k}")
                except BaseException as e:  # pylint:disable=broad-except
                    got[k] = "raises:" + type(e).__name__
            ctx.case((t, off, s))
            n_true += got["932"] is True or got["934"] is True
            if len(rows) < 200000:
                rows.append((s, fields, got))
            if got != want:
                k = next(k for k in want if got[k] != want[k])
                ctx.violation(f"[{k}] on '{s}': expected {want[k]}, got {got[k]}", {"input": s, "utc_second": t, "utc_offset_s": off, "expected": want, "got": got,
                              "python": f"from ahbicht.content_evaluation.fc_evaluators import FcEvaluator as F; print(F.evaluate_{k}(None, {s!r}))"},
                              key=f"verdict:{k}:{'whole-hour-offset' if off % 3600 == 0 else 'fractional-offset'}:{want[k]}")
            verdicts[off] = (got["932"], got["934"])
        if len(set(verdicts.values())) > 1:
            ctx.violation("the verdict depends on the offset used to write the instant", {"utc_second": t, "verdicts_by_offset": {str(k): v for k, v in verdicts.items()}}, key="notation")
    ctx.count("fulfilled_932_or_934", "true", n_true)
    # strings that are not datetimes with offset: unfulfilled + message, never raise
    for s in BAD + ["x" * 5, " 2022-01-01T00:00:00Z", "2022-01-01T00:00:00Z "]:
        for k, meth in methods.items():
            ctx.case(("bad", s, k))
            try:
                r = meth(s)
            except BaseException as e:  # pylint:disable=broad-except
                ctx.violation(f"[{k}] raises {type(e).__name__} on a string input", {"key": k, "input": s,
                              "python": f"from ahbicht.content_evaluation.fc_evaluators import FcEvaluator as F; F.evaluate_{k}(None, {s!r})"}, key=f"raise:{type(e).__name__}")
                continue
            parses = False
            try:
                import datetime
                parses = s is not None and datetime.datetime.fromisoformat(s.replace("Z", "+00:00") if s.endswith("Z") else s).tzinfo is not None
            except Exception:  # pylint:disable=broad-except
                parses = False
            if not parses and (r.format_constraint_fulfilled or not r.error_message):
                ctx.violation(f"[{k}] does not report a non-datetime as unfulfilled with a message", {"key": k, "input": s, "got": [r.format_constraint_fulfilled, r.error_message]}, key=f"bad:{k}")
    # the same strings through the evaluator infrastructure (context variable -> evaluate_single_format_constraint -> format_constraint_evaluation)
    evalenv.configure_cer_based(extra=[ev])
    for s in BAD:
        if s is None or "\ud800" in s:
            continue
        for k in ("931", "932", "934"):
            fc_evaluators.text_to_be_evaluated_by_format_constraint.set(s)
            ctx.case(("bad-infra", k, s[:60]))
            try:
                r1 = asyncio.run(ev.evaluate_single_format_constraint(k))
                r2 = asyncio.run(format_constraint_evaluation(f"[{k}]"))
            except BaseException as e:  # pylint:disable=broad-except
                ctx.violation(f"[{k}] raises {type(e).__name__} on a string input (through evaluate_single_format_constraint / format_constraint_evaluation)",
                              {"key": k, "input": s[:200]}, key=f"raise-infra:{type(e).__name__}")
                continue
            direct = methods[k](s)
            if bool(r1.format_constraint_fulfilled) != bool(direct.format_constraint_fulfilled) or bool(r2.format_constraints_fulfilled) != bool(direct.format_constraint_fulfilled) \
                    or (not r1.format_constraint_fulfilled and not r1.error_message):
                ctx.violation(f"[{k}]: the verdict through the evaluator infrastructure differs from the evaluation method's own, or an unfulfilled result has no message",
                              {"key": k, "input": s[:200], "direct": [direct.format_constraint_fulfilled, direct.error_message], "single": [r1.format_constraint_fulfilled, r1.error_message]},
                              key=f"infra:{k}")
    # 931 on times of day other than midnight; through format_constraint_evaluation with the context variable
    for s, want in (("2022-06-01T12:00:00+00:00", True), ("2022-06-01T12:00:00Z", True), ("2022-06-01T00:00:00+02:00", False), ("2021-12-31T23:00:00+00:00", True)):
        fc_evaluators.text_to_be_evaluated_by_format_constraint.set(s)
        try:
            r = asyncio.run(format_constraint_evaluation("[931]"))
            got = r.format_constraints_fulfilled
        except BaseException as e:  # pylint:disable=broad-except
            got = "raises:" + type(e).__name__
        ctx.case(("931-expr", s))
        if got != want:
            ctx.violation(f"[931] on '{s}': expected {want}, got {got}", {"input": s, "expected": want, "got": got}, key=f"931:{want}")
    for s, fields, got in rows[:3]:
        ctx.sample({"input": s, "verdicts": got})
    if drv:
        outs = ctx.driver({"op": "time93x", **f} for _, f, _ in rows)
        n_diff = 0
        for (s, f, got), o in zip(rows, outs):
            m = {"931": o["v931"], "932": o["strom"], "933": o["strom"], "934": o["gas"], "935": o["gas"]}
            if m != got:
                n_diff += 1
                if n_diff <= 5:
                    ctx.broke("correspondence", "time93x", json.dumps({"input": s, "fields": f, "impl": got, "model": m}))
        ctx.coverage["correspondence"] = {"time93x": {"lines": len(rows), "disagreements": n_diff}}
    ctx.assumptions += ["datetime.fromisoformat's accepted syntax is sampled, not modelled; datetime/pytz arithmetic is observed through the correspondence",
                        "fractions of a second are ignored by the code (hour/minute/second are compared); the property speaks of whole-second instants"]


def replay(ctx: Ctx, data) -> int:
    print(data["replay"].get("python", data["replay"]))
    return 1
