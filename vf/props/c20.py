"""
C20 — the shipped date-time format constraints judge the instant, not its notation.

Proof: Properties/C20.lean (pytz table 1996-2037 = EU rule; verdict is a function of the instant; 931 = zero offset; hour grid),
Properties/C20Eu.lean (the offset in force at EVERY second 1996-2037 is the EU rule's; closed form of the verdicts),
Properties/C20Iso.lean (string level: parse_as_datetime on the extended ISO-8601 family modelled; every writing of a valid datetime is read back;
two writings of one instant get one verdict; out-of-range fields are unfulfilled with a message).
Tie: T1 pytz transition table, T3 `iso` (parse_as_datetime + verdicts on strings, model decides from the string alone), T3 FcEvaluator.evaluate_931..935 and format_constraint_evaluation("[93x]") with the context variable set.
Predicate on the implementation: verdict = independent integer arithmetic of the EU rule, for every notation of every instant.
"""
from __future__ import annotations

import asyncio
import json
import random
from typing import Optional

from .. import evalenv, extract
from ..common import Ctx

MODULES = ["Ahbicht.Properties.C20", "Ahbicht.Properties.C20Eu", "Ahbicht.Properties.C20Iso", "Ahbicht.Properties.C20Write"]


def days_from_civil(y, m, d):
    y -= m <= 2
    era = (y if y >= 0 else y - 399) // 400
    yoe = y - era * 400
    mp = (m + 9) % 12
    doy = (153 * mp + 2) // 5 + d - 1
    doe = yoe * 365 + yoe // 4 - yoe // 100 + doy
    return era * 146097 + doe - 719468


def civil_from_days(z):
    z += 719468
    era = (z if z >= 0 else z - 146096) // 146097
    doe = z - era * 146097
    yoe = (doe - doe // 1460 + doe // 36524 - doe // 146096) // 365
    y = yoe + era * 400
    doy = doe - (365 * yoe + yoe // 4 - yoe // 100)
    mp = (5 * doy + 2) // 153
    d = doy - (153 * mp + 2) // 5 + 1
    m = mp + 3 if mp < 10 else mp - 9
    return (y + (m <= 2), m, d)


def last_sunday(y, m):
    last = days_from_civil(y, m, 31)
    return last - (last + 4) % 7


def german_offset(t: int) -> int:
    """EU rule, independent of pytz/datetime: +2h between last Sunday of March 01:00 UTC and last Sunday of October 01:00 UTC"""
    y = civil_from_days(t // 86400)[0]
    a = last_sunday(y, 3) * 86400 + 3600
    b = last_sunday(y, 10) * 86400 + 3600
    return 7200 if a <= t < b else 3600


def expected(t: int, off: int):
    tod = (t + german_offset(t)) % 86400
    return {"931": off == 0, "932": tod == 0, "933": tod == 0, "934": tod == 21600, "935": tod == 21600}


def fmt_offset(off: int, style: str) -> str:
    if off == 0 and style == "Z":
        return "Z"
    sign = "+" if off >= 0 else "-"
    a = abs(off)
    hh, mm, ss = a // 3600, a % 3600 // 60, a % 60
    if ss:
        return f"{sign}{hh:02d}:{mm:02d}:{ss:02d}"
    if style == "basic":
        return f"{sign}{hh:02d}{mm:02d}"
    if style == "hh" and mm == 0:
        return f"{sign}{hh:02d}"
    return f"{sign}{hh:02d}:{mm:02d}"


def write(t: int, off: int, rng: random.Random):
    """one way of writing instant t with UTC offset off; returns (string, fields)"""
    loc = t + off
    y, m, d = civil_from_days(loc // 86400)
    sod = loc % 86400
    H, M, S = sod // 3600, sod % 3600 // 60, sod % 60
    style = rng.choice(["ext", "ext", "Z", "basic", "hh", "space", "lowt"])
    sep = " " if style == "space" else ("t" if style == "lowt" else "T")
    if style == "basic":
        s = f"{y:04d}{m:02d}{d:02d}T{H:02d}{M:02d}{S:02d}{fmt_offset(off, 'basic')}"
    else:
        s = f"{y:04d}-{m:02d}-{d:02d}{sep}{H:02d}:{M:02d}:{S:02d}{fmt_offset(off, style)}"
    return s, {"y": y, "m": m, "d": d, "H": H, "M": M, "S": S, "off": off}


OFFSETS = [0, 3600, 7200, -36000, 5 * 3600 + 45 * 60, 14 * 3600, -12 * 3600, 1800, 9 * 3600 + 1800, -3 * 3600 - 1800, 12 * 3600 + 45 * 60]
BAD = ["", None, "2022-01-01T00:00:00", "garbage", "2022-01-01T00:00:00−01:00", "2022-01-01T00:00:00+01:00\n", "2022-01-01T24:00:00+01:00",
       "2022-01-01T00:00:00+24:00", "2022-13-01T00:00:00+01:00", "\ud800", "0001-01-01T00:00:00+01:00", "9999-12-31T23:59:59-01:00",
       "0001-01-01T00:00:00+00:00", "9999-12-31T23:59:59Z", "2022-01-01", "12:00:00+01:00", "Z", "2022-02-30T00:00:00Z", "２０２２-01-01T00:00:00Z",
       # characters that are special to string formatting, logging and regular expressions
       "{", "}", "{}", "{0}", "{foo}", "%s", "%(x)s", "%", "\\", "2022-01-01T00:00:00+01:00}", "{2022-01-01T00:00:00+01:00}", "$1", "\x00", "a" * 5000, " ", "\t\n"]

SEPS = ["T", "T", "T", " ", "t", "x", "_", "\u00e9", "\u20ac", "\U0001F600", "-", ":", "+", "0", "\t", "z"]
QUIRK_OFFSETS = ["+01:75", "+23:59:59", "-23:59:59", "+24:00", "-24:00", "+99:00", "-00:00", "+00:00:00", "-00:00:00", "+00:60", "+23:60", "+12:34:99", "+23:59:60",
                 "+00:00:01", "-00:00:01", "Z", "+00:00", "+14:00", "-12:00", "+05:45", "+02:00", "+01:00"]


def write_family(t: int, off: int, rng: random.Random) -> str:
    """instant t written with offset off in the extended family: any separator, offset as Z / +-hh:mm / +-hh:mm:ss / -00:00"""
    loc = t + off
    y, m, d = civil_from_days(loc // 86400)
    sod = loc % 86400
    sign = "+" if off >= 0 else "-"
    a = abs(off)
    styles = ["long"] + (["short", "short"] if a % 60 == 0 else []) + (["zulu", "negzero"] if off == 0 else [])
    st = rng.choice(styles)
    o = {"long": f"{sign}{a // 3600:02d}:{a % 3600 // 60:02d}:{a % 60:02d}", "short": f"{sign}{a // 3600:02d}:{a % 3600 // 60:02d}", "zulu": "Z", "negzero": "-00:00"}[st]
    return f"{y:04d}-{m:02d}-{d:02d}{rng.choice(SEPS)}{sod // 3600:02d}:{sod % 3600 // 60:02d}:{sod % 60:02d}{o}"


def iso_stream(rng: random.Random, n: int):
    """(string, kind, t, off): strings in and around the modelled family; t/off known for kind == 'valid'"""
    t0, t1 = days_from_civil(1996, 1, 1) * 86400, days_from_civil(2038, 1, 1) * 86400
    out = []
    for _ in range(n):
        kind = rng.choice(["valid"] * 5 + ["edge-year", "field", "field", "offset-quirk", "shape", "shape"])
        r = rng.random()
        if r < 0.4:  # close to a switch, on the hour grid
            y = rng.randrange(1996, 2038)
            t = last_sunday(y, rng.choice([3, 10])) * 86400 + 3600 + rng.randrange(-30, 10) * 3600
        elif r < 0.7:
            t = rng.randrange(t0 // 3600, t1 // 3600) * 3600
        else:
            t = rng.randrange(t0, t1)
        ro = rng.random()
        off = rng.choice(OFFSETS) if ro < 0.5 else (rng.randrange(-23, 24) * 3600 if ro < 0.7 else (rng.randrange(-1439, 1440) * 60 if ro < 0.85 else rng.randrange(-86399, 86400)))
        if kind != "valid" and off > 0:
            t = max(t, t0 + 86400)
        s = write_family(t, off, rng)
        if kind == "valid":
            out.append((s, kind, t, off))
            continue
        if kind == "edge-year":
            s = rng.choice(["0001", "0002", "9998", "9999", "1000", "1995", "2038", "2500", "1970", "1900", "0000"]) + s[4:]
        elif kind == "field":
            pos, vals = rng.choice([(5, ["00", "13", "02", "04", "12"]), (8, ["00", "29", "30", "31", "32"]), (11, ["24", "23", "25"]), (14, ["60", "59"]), (17, ["60", "61", "59"])])
            s = s[:pos] + rng.choice(vals) + s[pos + 2:]
            if rng.random() < 0.4:
                s = s[:5] + rng.choice(["02", "04", "06", "09", "11"]) + s[7:]
            if rng.random() < 0.3:
                s = rng.choice(["2000", "1900", "2024", "2100", "2023"]) + s[4:]
        elif kind == "offset-quirk":
            s = s[:19] + rng.choice(QUIRK_OFFSETS)
        else:
            i = rng.randrange(len(s) + 1)
            mut = rng.choice(["del", "ins", "letter", "arabic", "dot", "frac", "lowz", "sepZ", "dup", "noff", "trunc"])
            if mut == "del" and i < len(s):
                s = s[:i] + s[i + 1:]
            elif mut == "ins":
                s = s[:i] + rng.choice("0:-+TZ 9") + s[i:]
            elif mut == "letter" and i < len(s):
                s = s[:i] + rng.choice("aO:l-") + s[i + 1:]
            elif mut == "arabic" and i < len(s) and s[i].isdigit():
                s = s[:i] + chr(0x660 + int(s[i])) + s[i + 1:]
            elif mut == "dot":
                s = s.replace(":", ".", 1)
            elif mut == "frac":
                s = s[:19] + rng.choice([".5", ".000000", ",25"]) + s[19:]
            elif mut == "lowz":
                s = s[:19] + "z"
            elif mut == "sepZ":
                s = s[:10] + "Z" + s[11:]
            elif mut == "dup":
                s = s + s[19:]
            elif mut == "noff":
                s = s[:19]
            else:
                s = s[:i]
        out.append((s, kind, None, None))
    return out


def run(ctx: Ctx) -> None:
    from ahbicht.content_evaluation import fc_evaluators
    from ahbicht.content_evaluation.fc_evaluators import FcEvaluator
    from ahbicht.expressions.format_constraint_expression_evaluation import format_constraint_evaluation
    from efoli import EdifactFormat, EdifactFormatVersion

    ctx.rule = ("quick: every whole hour within +-3 h of both DST switches of all 42 years, 20000 random seconds, x 4 offsets each; thorough: ALL 368184 whole hours "
                "1996-2037; offsets from {0, +1h, +2h, -10h, +5:45, +14h, -12h, +0:30, +9:30, -3:30, +12:45}; notations Z, +hh:mm, +hhmm, +hh, blank/T/t separator, "
                "basic format; a stream of strings that are not datetimes with offset (incl. characters special to str.format / % / regex), directly and through the evaluator infrastructure; distinct = (instant, offset, notation); non-trivial = all")
    ctx.coverage["generated_changed"] = extract.regenerate(["Berlin"])
    ok = ctx.lean_build(MODULES)
    drv = ctx.lean_build_driver()
    if ok:
        ctx.lean_audit(MODULES)
        if not ctx.quick:
            ctx.lean_check_olean(MODULES)

    class Ev(FcEvaluator):
        edifact_format = EdifactFormat.UTILMD
        edifact_format_version = EdifactFormatVersion.FV2210

    ev = Ev()
    methods = {k: getattr(ev, f"evaluate_{k}") for k in ("931", "932", "933", "934", "935")}
    rng = ctx.rng
    t0, t1 = days_from_civil(1996, 1, 1) * 86400, days_from_civil(2038, 1, 1) * 86400
    instants = []
    if ctx.quick:
        for y in range(1996, 2038):
            for m in (3, 10):
                sw = last_sunday(y, m) * 86400 + 3600
                instants += [sw + h * 3600 for h in range(-27, 8)]
        for y in range(1996, 2039):  # around every new year incl. both ends of the range: the written year differs from the instant's for most offsets
            ny = days_from_civil(y, 1, 1) * 86400
            instants += [t for t in (ny + h * 3600 for h in range(-27, 27)) if t0 <= t < t1]
        instants += [rng.randrange(t0, t1) for _ in range(20000)]
        instants += [rng.randrange(t0 // 3600, t1 // 3600) * 3600 for _ in range(10000)]
    else:
        instants = list(range(t0, t1, 3600)) + [rng.randrange(t0, t1) for _ in range(200000)]
        ctx.coverage["exhaustive_hours_1996_2037"] = (t1 - t0) // 3600
    rows = []
    n_true = 0
    for t in instants:
        offs = [0, rng.choice([3600, 7200])] + rng.sample(OFFSETS, 2) if ctx.quick else [rng.choice(OFFSETS), rng.choice([0, 3600, 7200])]
        verdicts = {}
        for off in offs:
            s, fields = write(t, off, rng)
            want = expected(t, off)
            got = {}
            for k, meth in methods.items():
                try:
                    r = meth(s)
                    got[k] = bool(r.format_constraint_fulfilled)
                    if not got[k] and not r.error_message:
                        ctx.violation("unfulfilled without error message", {"key": k, "input": s}, key=f"nomsg:{k}")
                except BaseException as e:  # pylint:disable=broad-except
                    got[k] = "raises:" + type(e).__name__
            ctx.case((t, off, s))
            n_true += got["932"] is True or got["934"] is True
            if len(rows) < 200000:
                rows.append((s, fields, got))
            if got != want:
                k = next(k for k in want if got[k] != want[k])
                ctx.violation(f"[{k}] on '{s}': expected {want[k]}, got {got[k]}", {"input": s, "utc_second": t, "utc_offset_s": off, "expected": want, "got": got,
                              "python": f"from ahbicht.content_evaluation.fc_evaluators import FcEvaluator as F; print(F.evaluate_{k}(None, {s!r}))"},
                              key=f"verdict:{k}:{'whole-hour-offset' if off % 3600 == 0 else 'fractional-offset'}:{want[k]}")
            verdicts[off] = (got["932"], got["934"])
        if len(set(verdicts.values())) > 1:
            ctx.violation("the verdict depends on the offset used to write the instant", {"utc_second": t, "verdicts_by_offset": {str(k): v for k, v in verdicts.items()}}, key="notation")
    ctx.count("fulfilled_932_or_934", "true", n_true)
    # strings that are not datetimes with offset: unfulfilled + message, never raise
    for s in BAD + ["x" * 5, " 2022-01-01T00:00:00Z", "2022-01-01T00:00:00Z "]:
        for k, meth in methods.items():
            ctx.case(("bad", s, k))
            try:
                r = meth(s)
            except BaseException as e:  # pylint:disable=broad-except
                ctx.violation(f"[{k}] raises {type(e).__name__} on a string input", {"key": k, "input": s,
                              "python": f"from ahbicht.content_evaluation.fc_evaluators import FcEvaluator as F; F.evaluate_{k}(None, {s!r})"}, key=f"raise:{type(e).__name__}")
                continue
            parses = False
            try:
                import datetime
                parses = s is not None and datetime.datetime.fromisoformat(s.replace("Z", "+00:00") if s.endswith("Z") else s).tzinfo is not None
            except Exception:  # pylint:disable=broad-except
                parses = False
            if not parses and (r.format_constraint_fulfilled or not r.error_message):
                ctx.violation(f"[{k}] does not report a non-datetime as unfulfilled with a message", {"key": k, "input": s, "got": [r.format_constraint_fulfilled, r.error_message]}, key=f"bad:{k}")
    # the same strings through the evaluator infrastructure (context variable -> evaluate_single_format_constraint -> format_constraint_evaluation)
    evalenv.configure_cer_based(extra=[ev])
    for s in BAD:
        if s is None or "\ud800" in s:
            continue
        for k in ("931", "932", "934"):
            fc_evaluators.text_to_be_evaluated_by_format_constraint.set(s)
            ctx.case(("bad-infra", k, s[:60]))
            try:
                r1 = asyncio.run(ev.evaluate_single_format_constraint(k))
                r2 = asyncio.run(format_constraint_evaluation(f"[{k}]"))
            except BaseException as e:  # pylint:disable=broad-except
                ctx.violation(f"[{k}] raises {type(e).__name__} on a string input (through evaluate_single_format_constraint / format_constraint_evaluation)",
                              {"key": k, "input": s[:200]}, key=f"raise-infra:{type(e).__name__}")
                continue
            direct = methods[k](s)
            if bool(r1.format_constraint_fulfilled) != bool(direct.format_constraint_fulfilled) or bool(r2.format_constraints_fulfilled) != bool(direct.format_constraint_fulfilled) \
                    or (not r1.format_constraint_fulfilled and not r1.error_message):
                ctx.violation(f"[{k}]: the verdict through the evaluator infrastructure differs from the evaluation method's own, or an unfulfilled result has no message",
                              {"key": k, "input": s[:200], "direct": [direct.format_constraint_fulfilled, direct.error_message], "single": [r1.format_constraint_fulfilled, r1.error_message]},
                              key=f"infra:{k}")
    # 931 on times of day other than midnight; through format_constraint_evaluation with the context variable
    for s, want in (("2022-06-01T12:00:00+00:00", True), ("2022-06-01T12:00:00Z", True), ("2022-06-01T00:00:00+02:00", False), ("2021-12-31T23:00:00+00:00", True)):
        fc_evaluators.text_to_be_evaluated_by_format_constraint.set(s)
        try:
            r = asyncio.run(format_constraint_evaluation("[931]"))
            got = r.format_constraints_fulfilled
        except BaseException as e:  # pylint:disable=broad-except
            got = "raises:" + type(e).__name__
        ctx.case(("931-expr", s))
        if got != want:
            ctx.violation(f"[931] on '{s}': expected {want}, got {got}", {"input": s, "expected": want, "got": got}, key=f"931:{want}")
    # ---- string level: the extended ISO-8601 family (Model/Iso.lean decides from the string alone) ----
    import datetime as _dt
    from ahbicht.content_evaluation.german_strom_and_gas_tag import parse_as_datetime
    iso_cases = iso_stream(rng, 6000 if ctx.quick else 120000)
    t0w, t1w = t0, t1
    iso_rows = []
    for s, kind, t, off in iso_cases:
        ctx.case(("iso", s))
        got = {}
        msg_missing = None
        for k, meth in methods.items():
            try:
                r = meth(s)
                got[k] = bool(r.format_constraint_fulfilled)
                if not got[k] and not r.error_message:
                    msg_missing = k
            except BaseException as e:  # pylint:disable=broad-except
                got[k] = "raises:" + type(e).__name__
        raised = [k for k, v in got.items() if isinstance(v, str)]
        if raised:
            ctx.violation(f"[{raised[0]}] {got[raised[0]]} on a string input", {"key": raised[0], "input": s,
                          "python": f"from ahbicht.content_evaluation.fc_evaluators import FcEvaluator as F; F.evaluate_{raised[0]}(None, {s!r})"}, key=f"raise:{got[raised[0]]}")
        if msg_missing:
            ctx.violation("unfulfilled without error message", {"key": msg_missing, "input": s}, key=f"nomsg:{msg_missing}")
        try:
            ref = _dt.datetime.fromisoformat(s.replace("Z", "+00:00") if s.endswith("Z") else s)
            ref = ref if ref.tzinfo is not None else None
        except ValueError:
            ref = None
        if ref is None and any(v is True for v in got.values()):
            k = next(k for k, v in got.items() if v is True)
            ctx.violation(f"[{k}] reports a string that is not a datetime with offset as fulfilled", {"key": k, "input": s}, key=f"bad:{k}")
        if kind == "valid":
            want = expected(t, off)
            if got != want:
                k = next(k for k in want if got[k] != want[k])
                ctx.violation(f"[{k}] on '{s}': expected {want[k]}, got {got[k]}", {"input": s, "utc_second": t, "utc_offset_s": off, "expected": want, "got": got,
                              "python": f"from ahbicht.content_evaluation.fc_evaluators import FcEvaluator as F; print(F.evaluate_{k}(None, {s!r}))"},
                              key=f"verdict-family:{k}:{want[k]}")
        try:
            dt, err = parse_as_datetime(s)
            parsed = None if dt is None else {"y": dt.year, "m": dt.month, "d": dt.day, "H": dt.hour, "M": dt.minute, "S": dt.second,
                                                "off": int(dt.utcoffset().total_seconds()), "whole": dt.microsecond == 0 and dt.utcoffset().microseconds == 0}
        except BaseException as e:  # pylint:disable=broad-except
            parsed = "raises:" + type(e).__name__
        iso_rows.append((s, kind, parsed, got))
    ctx.count("iso_kind", "valid", sum(1 for r in iso_rows if r[1] == "valid"))
    for kd in ("edge-year", "field", "offset-quirk", "shape"):
        ctx.count("iso_kind", kd, sum(1 for r in iso_rows if r[1] == kd))
    if drv:
        sendable = [r for r in iso_rows if not any(0xD800 <= ord(c) <= 0xDFFF for c in r[0]) and "\n" not in r[0] and "\r" not in r[0]]
        outs = ctx.driver({"op": "iso", "s": r[0]} for r in sendable)
        tally = {"ok": 0, "invalid": 0, "unmodelled": 0}
        n_diff = 0
        for (s, kind, parsed, got), o in zip(sendable, outs):
            tally[o.get("r", "?")] = tally.get(o.get("r", "?"), 0) + 1
            bad = None
            if o.get("r") == "ok":
                mf = {k: o[k] for k in ("y", "m", "d", "H", "M", "S", "off")}
                if not isinstance(parsed, dict) or {k: parsed[k] for k in mf} != mf or not parsed["whole"]:
                    bad = "the model reads fields the implementation does not"
                elif 1902 <= mf["y"] <= 9998:  # before pytz's first row (1901-12-13) it uses local mean time, at the edges datetime overflows: not claimed by the model
                    mv = {"931": o["v931"], "932": o["strom"], "933": o["strom"], "934": o["gas"], "935": o["gas"]}
                    if mv != got:
                        bad = "verdicts differ"
            elif o.get("r") == "invalid":
                if parsed is not None or any(v is not False for v in got.values()):
                    bad = "the model says a field is out of range, the implementation accepts or raises"
            elif o.get("r") == "unmodelled":
                if kind == "valid":
                    bad = "a writing of the family is not recognised by the model"
            else:
                bad = "driver error: " + json.dumps(o)[:200]
            if bad:
                n_diff += 1
                if n_diff <= 5:
                    ctx.broke("correspondence", "iso", json.dumps({"input": s, "why": bad, "impl_parsed": parsed, "impl": got, "model": o}, ensure_ascii=False))
        wr = []
        for _ in range(3000 if ctx.quick else 60000):
            r = rng.random()
            t = (days_from_civil(rng.randrange(1996, 2039), 1, 1) * 86400 + rng.randrange(-90000, 90000)) if r < 0.3 else rng.randrange(t0w, t1w)
            t = min(max(t, t0w), t1w - 1)
            off = rng.choice(OFFSETS + [-86399, 86399, 82800, -82800]) if rng.random() < 0.5 else rng.randrange(-86399, 86400)
            dtx = _dt.datetime.fromtimestamp(t, tz=_dt.timezone(_dt.timedelta(seconds=off)))
            wr.append((t, off, dtx.isoformat(), "long" if off % 60 else "short"))
        wouts = ctx.driver({"op": "write", "t": t, "off": off, "sep": "T", "st": st} for t, off, _, st in wr)
        n_wdiff = 0
        for (t, off, py, st), o in zip(wr, wouts):
            if o.get("s") != py or not o.get("valid") or not o.get("fits"):
                n_wdiff += 1
                if n_wdiff <= 5:
                    ctx.broke("correspondence", "write", json.dumps({"utc_second": t, "utc_offset_s": off, "python_isoformat": py, "model": o}))
        ctx.coverage.setdefault("correspondence", {})["write"] = {"lines": len(wr), "disagreements": n_wdiff}
        ctx.coverage.setdefault("correspondence", {})["iso"] = {"lines": len(sendable), "disagreements": n_diff, "model_answers": tally}
    for s, fields, got in rows[:3]:
        ctx.sample({"input": s, "verdicts": got})
    if drv:
        outs = ctx.driver({"op": "time93x", **f} for _, f, _ in rows)
        n_diff = 0
        for (s, f, got), o in zip(rows, outs):
            m = {"931": o["v931"], "932": o["strom"], "933": o["strom"], "934": o["gas"], "935": o["gas"]}
            if m != got:
                n_diff += 1
                if n_diff <= 5:
                    ctx.broke("correspondence", "time93x", json.dumps({"input": s, "fields": f, "impl": got, "model": m}))
        ctx.coverage.setdefault("correspondence", {})["time93x"] = {"lines": len(rows), "disagreements": n_diff}
    ctx.assumptions += ["datetime.fromisoformat is modelled on the extended family YYYY-MM-DD<sep>HH:MM:SS(Z|+-HH:MM|+-HH:MM:SS) (Model/Iso.lean, tied by the `iso` correspondence); other notations it accepts (basic format, +hh, +hhmm, fractions, week dates) are sampled, not modelled; datetime/pytz arithmetic is observed through the correspondence",
                        "fractions of a second are ignored by the code (hour/minute/second are compared); the property speaks of whole-second instants"]


def replay(ctx: Ctx, data) -> int:
    print(data["replay"].get("python", data["replay"]))
    return 1
