"""
C03 — four-valued condition logic obeys its algebraic laws and is sound for UNKNOWN.

Decided by proof over the exhaustively extracted operator tables (T1) and README rows (T2).
The failing-input search evaluates every law on the real enum (exhaustive: 16 pairs / 64 triples).
"""
from __future__ import annotations

import itertools
import operator

from .. import extract, impl
from ..common import Ctx

MODULES = ["Ahbicht.Properties.C03"]
OPS = {"and": (operator.and_, "&"), "or": (operator.or_, "|"), "xor": (operator.xor, "^")}
V = impl.CFV_BY_LETTER
L = impl.cfv_letter


def _refinements(x: str):
    return ["F", "U"] if x == "K" else [x]


def impl_laws(ctx: Ctx) -> None:
    """every clause of C03 evaluated directly on ahbicht's enum"""
    readme = extract.readme_tables()
    boolean = {"and": lambda x, y: x and y, "or": lambda x, y: x or y, "xor": lambda x, y: x != y}
    for name, (op, sym) in OPS.items():
        def ap(a, b):
            return L(op(V[a], V[b]))

        def viol(law, expr, **kw):
            ctx.violation(f"{name}: {law} fails: {expr}", {"law": law, "op": name, **kw,
                          "python": f"from ahbicht.models.condition_nodes import ConditionFulfilledValue as C; print({expr})"},
                          key=f"{name}:{law}:{expr}")

        for a, b in itertools.product("FUKN", repeat=2):
            ctx.case(("pair", name, a, b))
            try:
                r = ap(a, b)
            except Exception as e:  # pylint:disable=broad-except
                viol("total", f"C.{V[a].name} {sym} C.{V[b].name}", raised=impl.exc_class(e))
                continue
            if r not in "FUKN":
                viol("closed", f"C.{V[a].name} {sym} C.{V[b].name}")
            try:
                if ap(b, a) != r:
                    viol("commutative", f"(C.{V[a].name} {sym} C.{V[b].name}) == (C.{V[b].name} {sym} C.{V[a].name})")
            except Exception:  # pylint:disable=broad-except
                pass
            if b == "N" and r != a:
                viol("neutral_identity", f"C.{V[a].name} {sym} C.NEUTRAL")
            if a == "N" and r != b:
                viol("neutral_identity", f"C.NEUTRAL {sym} C.{V[b].name}")
            if a in "FU" and b in "FU":
                want = "F" if boolean[name](a == "F", b == "F") else "U"
                if r != want:
                    viol("boolean", f"C.{V[a].name} {sym} C.{V[b].name}")
            try:
                refs = {(a2, b2): ap(a2, b2) for a2 in _refinements(a) for b2 in _refinements(b)}
            except Exception:  # pylint:disable=broad-except
                continue
            if r != "K" and any(v != r for v in refs.values()):
                viol("unknown_sound", f"C.{V[a].name} {sym} C.{V[b].name}", refinements={f"{k[0]}{k[1]}": v for k, v in refs.items()})
            if r == "K" and len(set(refs.values())) < 2:
                viol("unknown_tight", f"C.{V[a].name} {sym} C.{V[b].name}", refinements={f"{k[0]}{k[1]}": v for k, v in refs.items()})
        for a, b, c in itertools.product("FUKN", repeat=3):
            ctx.case(("triple", name, a, b, c))
            try:
                if ap(ap(a, b), c) != ap(a, ap(b, c)):
                    viol("associative", f"((C.{V[a].name} {sym} C.{V[b].name}) {sym} C.{V[c].name}) == (C.{V[a].name} {sym} (C.{V[b].name} {sym} C.{V[c].name}))")
            except Exception:  # pylint:disable=broad-except
                pass
        rows = readme[name]
        if len(rows) != 7:
            ctx.violation(f"README table of {name}_composition has {len(rows)} rows, 7 documented", {"rows": rows}, key=f"readme:{name}:rows")
        for a, b, want in rows:
            ctx.case(("readme", name, a, b))
            if want is None:
                continue
            try:
                if ap(a, b) != want or ap(b, a) != want:
                    viol("readme_row", f"C.{V[a].name} {sym} C.{V[b].name}", readme=want)
            except Exception:  # pylint:disable=broad-except
                pass


def run(ctx: Ctx) -> None:
    ctx.rule = ("exhaustive: all 16 pairs and 64 triples per operator and all README rows, evaluated on the real enum; "
                "every case is non-trivial (each is a distinct cell of a law)")
    ctx.coverage["exhaustive"] = True
    changed = extract.regenerate(["Cfv"])
    ctx.coverage["generated_changed"] = changed
    ok = ctx.lean_build(MODULES)
    if ok:
        ctx.lean_audit(MODULES)
        if not ctx.quick:
            ctx.lean_check_olean(MODULES)
    impl_laws(ctx)
    t = extract.cfv_tables()
    ctx.sample({"and": t["and"][:6], "readme_or": extract.readme_tables()["or"]})
    ctx.assumptions += ["operands are members of ConditionFulfilledValue (the property's quantifier)",
                        "README.rst tables are parsed by vf/extract.py:readme_tables"]


def replay(ctx: Ctx, data) -> int:
    impl_laws(ctx)
    for v in ctx.violations:
        print("reproduced:", v["what"])
    return 1 if ctx.violations else 0
