"""
C19 — JSON serialisation round-trips trees, evaluation inputs and evaluation results.

Proof: Properties/C19.lean (load (dump x) = some x per class, nullability looked up in the extracted marshmallow descriptors).
Tie: T2 (field descriptors, dump orders), T3 (the implementation's dumped JSON must be accepted and reproduced by the model's load/dump).
Predicate on the implementation: Schema().loads(Schema().dumps(x)) == x; evaluating a round-tripped tree gives the same result.
"""
from __future__ import annotations

import asyncio
import json
import uuid

from .. import evalenv, evaluation as E, extract, parsing as P, trees as T, valgen as V
from ..common import Ctx
from . import _evalcommon as EC

MODULES = ["Ahbicht.Properties.C19"]


def wire(x):
    """order-preserving wire form for the Lean driver (objects given as lists of pairs by object_pairs_hook)"""
    if isinstance(x, list) and x and all(isinstance(p, tuple) and len(p) == 2 for p in x):
        return {"o": [[k, wire(v)] for k, v in x]}
    if isinstance(x, _Obj):
        return {"o": [[k, wire(v)] for k, v in x.pairs]}
    if isinstance(x, list):
        return {"a": [wire(v) for v in x]}
    return x


class _Obj:
    def __init__(self, pairs):
        self.pairs = pairs


def parse_ordered(s: str):
    return json.loads(s, object_pairs_hook=_Obj)


def canon_tree(t):
    from lark import Token, Tree
    if isinstance(t, Tree):
        return ("T", str(t.data), [canon_tree(c) for c in t.children])
    if isinstance(t, Token):
        return ("t", str(t.type), str(t.value))
    return ("?", repr(t))


def run(ctx: Ctx) -> None:
    from ahbicht.expressions.condition_expression_parser import extract_categorized_keys_from_tree
    from ahbicht.json_serialization.tree_schema import TreeSchema
    from ahbicht.models.categorized_key_extract import CategorizedKeyExtractSchema
    from ahbicht.models.condition_nodes import EvaluatedFormatConstraint, EvaluatedFormatConstraintSchema
    from ahbicht.models.content_evaluation_result import ContentEvaluationResult, ContentEvaluationResultSchema
    from ahbicht.models.evaluation_results import (
        AhbExpressionEvaluationResultSchema,
        FormatConstraintEvaluationResultSchema,
        RequirementConstraintEvaluationResultSchema,
    )
    from ahbicht.expressions.ahb_expression_evaluation import evaluate_ahb_expression_tree

    ctx.rule = ("trees from the condition parser, the AHB parser and the resolver (with packages/time conditions); evaluation results of random AHB expressions "
                "under random content results incl. UNKNOWN outcomes; content results with None hints, empty dictionaries, with/without packages and id (some ids repeated with other content); schema instances fresh or re-used; evaluated format constraints produced by the predefined 931-935 on ordinary / malformed / extreme inputs; key extracts (sanitised, unsanitised with repeated keys, after time-condition expansion, hand-made with repeats and numeric ties); "
                "distinct = (class, dumped JSON)")
    ctx.coverage["generated_changed"] = extract.regenerate(["Schemas"])
    ok = ctx.lean_build(MODULES)
    drv = ctx.lean_build_driver()
    if ok:
        ctx.lean_audit(MODULES)
        if not ctx.quick:
            ctx.lean_check_olean(MODULES)
    evalenv.configure_cer_based()
    rng = ctx.rng
    items = []  # (cls, schema, object, equality-key function)

    shared = {}  # one schema instance per class that is used again and again (as applications do), next to fresh instances

    def add(cls, schema, obj, keyfn=lambda o: o, extra=None):
        if rng.random() < 0.5:
            schema = shared.setdefault(type(schema), schema)
        items.append((cls, schema, obj, keyfn, extra))

    g = V.Gen(rng)
    for _ in range(ctx.pick(150, 1500)):
        x = g.expr()
        s = V.expr_text(x)
        cer = g.cer(p_unknown=0.25)
        V.set_cer(cer)
        r = P.resolve(s, resolve_packages=rng.random() < 0.5, replace_time_conditions=True)
        if "err" in r:
            continue
        add("tree", TreeSchema(), r["lark"], canon_tree, {"s": s, "cer": cer})
        add("tree", TreeSchema(), P.parse_ahb(s)["lark"], canon_tree)
        try:
            res = asyncio.run(evaluate_ahb_expression_tree(P.resolve(s, resolve_packages=True)["lark"]))
        except BaseException:  # pylint:disable=broad-except
            continue
        add("ahb", AhbExpressionEvaluationResultSchema(), res, extra={"s": s})
        add("rc", RequirementConstraintEvaluationResultSchema(), res.requirement_constraint_evaluation_result, extra={"s": s})
        add("fc", FormatConstraintEvaluationResultSchema(), res.format_constraint_evaluation_result)
    for _ in range(ctx.pick(100, 1000)):
        e = T.rand_expr(rng, rng.randint(1, 8))
        s = T.render(e, T.Style(rng, "rand", "rand", "rand"))
        p = P.parse_cond(s)
        if "err" not in p:
            add("tree", TreeSchema(), p["lark"], canon_tree)
            try:
                add("extract", CategorizedKeyExtractSchema(), extract_categorized_keys_from_tree(p["lark"], sanitize=rng.random() < 0.5))
            except Exception:  # pylint:disable=broad-except
                pass
    from ahbicht.models.categorized_key_extract import CategorizedKeyExtract
    for _ in range(ctx.pick(100, 1000)):
        # extracts as the library produces them without sanitising (keys repeated, in scan order), and arbitrary hand-made ones
        def keys(pool):
            return [rng.choice(pool) for _ in range(rng.choice([0, 1, 2, 3, 5]))]
        add("extract", CategorizedKeyExtractSchema(), CategorizedKeyExtract(
            hint_keys=keys(["501", "502", "0501", "900"]), format_constraint_keys=keys(["901", "932", "934", "999"]), requirement_constraint_keys=keys(["1", "2", "01", "499", "2001"]),
            package_keys=keys(["7P", "8P", "123P"]), time_condition_keys=keys(["UB1", "UB2", "UB3"])))
        e = T.rand_expr(rng, rng.randint(2, 6), lambda r: ("cond", r.choice(["1", "2", "3", "501", "901", "902"])))
        p = P.parse_cond(T.render(e, T.Style(rng, "rand", "rand", "rand")))
        if "err" not in p:
            add("extract", CategorizedKeyExtractSchema(), extract_categorized_keys_from_tree(p["lark"], sanitize=False))
        r = P.resolve(rng.choice(["Muss [UB1] U [UB3]", "Muss [UB2] O [UB3]", "Muss [UB1] U [1]", "Muss ([UB1] O [2])[901] U [UB1]"]), resolve_packages=False, replace_time_conditions=True)
        if "err" not in r:
            add("extract", CategorizedKeyExtractSchema(), extract_categorized_keys_from_tree(r["lark"], sanitize=False))
    for _ in range(ctx.pick(100, 1000)):
        n = rng.randint(0, 4)
        cer = ContentEvaluationResult(
            hints={str(500 + i): (None if rng.random() < 0.3 else f"Hinweis {i}") for i in range(rng.randint(0, 3))},
            format_constraints={str(901 + i): EvaluatedFormatConstraint(format_constraint_fulfilled=rng.random() < 0.5, error_message=rng.choice([None, "msg", ""])) for i in range(n)},
            requirement_constraints={rng.choice(["1", "17", "2001", "499", "2499"]): impl_cfv(rng) for _ in range(rng.randint(0, 4))},
            packages=rng.choice([None, {}, {"7P": "[1] U [2]"}]),
            id=rng.choice([None, uuid.UUID(int=rng.getrandbits(128)), uuid.UUID(int=rng.randint(1, 3))]))  # a few ids come back with other content
        add("cer", ContentEvaluationResultSchema(), cer)
        add("efc", EvaluatedFormatConstraintSchema(), EvaluatedFormatConstraint(format_constraint_fulfilled=rng.random() < 0.5, error_message=rng.choice([None, "m"])))
    # evaluated format constraints as the library itself produces them (the predefined 931-935 on ordinary, malformed and extreme inputs)
    from ahbicht.content_evaluation.german_strom_and_gas_tag import has_no_utc_offset, is_xtag_limit
    texts = ["2022-01-01T00:00:00+00:00", "2022-03-27T22:00:00Z", "2022-10-30T05:00:00+01:00", "2022-01-01T00:00:00", "abc", "", "9999-12-31T23:00:00Z",
             "9999-12-31T23:59:59-01:00", "0001-01-01T00:00:00+01:00", "0001-01-01T00:00:00Z", "2022-13-01T00:00:00Z", "20220101", "2022-01-01T05:00:00+00:00"]
    for t in texts:
        for fn_name, fn in (("931", lambda v: has_no_utc_offset(v)), ("932", lambda v: is_xtag_limit(v, "Strom")), ("934", lambda v: is_xtag_limit(v, "Gas"))):
            try:
                produced = fn(t)
            except BaseException:  # pylint:disable=broad-except
                continue  # C20's business
            add("efc", EvaluatedFormatConstraintSchema(), produced, extra={"produced_by": f"predefined format constraint {fn_name} on {t!r}"})
            add("cer", ContentEvaluationResultSchema(), ContentEvaluationResult(hints={}, format_constraints={fn_name: produced}, requirement_constraints={}, packages={}),
                extra={"produced_by": f"predefined format constraint {fn_name} on {t!r}"})
    rows = []
    for cls, schema, obj, keyfn, extra in items:
        try:
            dumped = schema.dumps(obj)
        except BaseException as e:  # pylint:disable=broad-except
            ctx.violation(f"{cls}: dumps raises {type(e).__name__}", {"class": cls, "object": repr(obj)[:500]}, key=f"dump:{cls}:{type(e).__name__}")
            continue
        ctx.case((cls, dumped))
        ctx.count("class", cls)
        try:
            loaded = schema.loads(dumped)
            ok_load = True
        except BaseException as e:  # pylint:disable=broad-except
            ok_load = False
            ctx.violation(f"{cls}: the dumped JSON cannot be loaded back ({type(e).__name__}: {str(e)[:120]})", {"class": cls, "json": dumped, **(extra or {})},
                          key=f"load:{cls}:{type(e).__name__}:{str(e)[:60]}")
        rows.append((cls, dumped, ok_load))
        if not ok_load:
            continue
        if keyfn(loaded) != keyfn(obj):
            ctx.violation(f"{cls}: loading the dumped JSON does not give back an equal object", {"class": cls, "json": dumped, "loaded": repr(loaded)[:400]}, key=f"neq:{cls}")
            continue
        if cls == "tree" and extra and obj.data == "ahb_expression":
            V.set_cer(extra["cer"])
            a = E.eval_ahb(obj, {}, {}, {}) if False else None
            try:
                r1 = asyncio.run(evaluate_ahb_expression_tree(obj))
                r2 = asyncio.run(evaluate_ahb_expression_tree(loaded))
                if r1 != r2:
                    ctx.violation("evaluating the round-tripped tree differs from evaluating the original", {"s": extra["s"], "json": dumped}, key="eval-differs")
                ctx.count("evaluated_roundtripped", "ok")
            except BaseException as e1:  # pylint:disable=broad-except
                try:
                    asyncio.run(evaluate_ahb_expression_tree(loaded))
                    ctx.violation("original tree raises on evaluation but the round-tripped one does not", {"s": extra["s"]}, key="eval-raise")
                except BaseException as e2:  # pylint:disable=broad-except
                    if type(e1) is not type(e2):
                        ctx.violation("evaluation of original and round-tripped tree raise different errors", {"s": extra["s"]}, key="eval-raise2")
    for cls, dumped, _ in rows[:: max(1, len(rows) // 6)][:6]:
        ctx.sample({"class": cls, "json": dumped[:300]})
    if drv:
        outs = ctx.driver({"op": "roundtrip", "cls": cls, "json": wire(parse_ordered(d))} for cls, d, _ in rows)
        n_diff = 0
        for (cls, d, ok_load), o in zip(rows, outs):
            want = wire(parse_ordered(d))
            if ("err" in o) == ok_load or (ok_load and o.get("json") != want):
                n_diff += 1
                if n_diff <= 5:
                    ctx.broke("correspondence", "roundtrip:" + cls, json.dumps({"json": d[:600], "impl_loads": ok_load, "model": o})[:1500])
        ctx.coverage["correspondence"] = {"roundtrip": {"lines": len(rows), "disagreements": n_diff}}
    ctx.assumptions += ["marshmallow's field semantics are interpreted by the per-class models of Model/Json.lean (hooks modelled by hand)",
                        "lark Token equality ignores the token type; the harness compares (type, value)"]


def impl_cfv(rng):
    from ahbicht.models.condition_nodes import ConditionFulfilledValue
    return rng.choice(list(ConditionFulfilledValue))


def replay(ctx: Ctx, data) -> int:
    print(data["replay"])
    return 1
