"""
C17 — value pools offer exactly the admissible qualifiers and judge input by them.

Proof: Properties/C17.lean (offered set, acceptance, forbidden when nothing is offered).
Predicates on the implementation: validate_data_element_valuepool directly (all parent statuses) and through validate_segment.
"""
from __future__ import annotations

import asyncio
import json

from .. import evaluation as E, evalenv, extract, valgen as V
from ..common import Ctx

MODULES = ["Ahbicht.Properties.C17"]


def _near_miss(rng, qs):
    """an input that resembles the offered qualifiers without being one: a piece of one, two of them joined, different case, padded"""
    if not qs:
        return "Q"
    q = rng.choice(qs)
    return rng.choice([q[:-1], q[1:], q[:1], q + " ", " " + q, q.lower(), q + q, ", ".join(qs[:2]), ", ", q + ",", ",".join(qs)])


def run(ctx: Ctx) -> None:
    from ahbicht.models.validation_values import RequirementValidationValue as R
    from ahbicht.validation.validation import validate_data_element_valuepool

    ctx.rule = ("value pools of size 0-6 with entry expressions that are fulfilled / unfulfilled / undetermined / invalid, duplicate qualifiers, inputs absent / empty / "
                "offered / in the pool but not offered / not in the pool / near misses (pieces, joins, padding, case of offered qualifiers; one qualifier a prefix of another), parent statuses required / optional / forbidden; distinct = (pool, input, parent, content result)")
    ctx.coverage["generated_changed"] = extract.regenerate(["Validation"])
    ok = ctx.lean_build(MODULES)
    drv = ctx.lean_build_driver()
    if ok:
        ctx.lean_audit(MODULES)
        if not ctx.quick:
            ctx.lean_check_olean(MODULES)
    E.configure(ctx.rng)  # evaluators: content-result based or evaluate_<key> methods, suspending under a random schedule half of the time
    rng = ctx.rng
    rows = []
    for i in range(ctx.pick(500, 5000)):
        g = V.Gen(rng, p_invalid=0.12)
        cer = g.cer(p_unknown=0.15)
        n = rng.choice([0, 1, 1, 2, 2, 3, 3, 4, 6])
        qs = [f"Z{rng.randint(1, 5):02d}" if rng.random() < 0.3 else f"Q{j}" for j in range(n)]
        entries = [{"q": q, "m": f"meaning {j}", "expr": g.expr()} for j, q in enumerate(qs)]
        if n >= 2 and rng.random() < 0.25:
            qs[1] = qs[0] + str(rng.randint(0, 9))  # one qualifier is a prefix of another (Z1 / Z13)
        inp = rng.choice([None, "", "nope", rng.choice(qs) if qs else "Q0", rng.choice(qs) if qs else None, _near_miss(rng, qs)])
        parent = rng.choice(["IS_REQUIRED", "IS_REQUIRED", "IS_OPTIONAL", "IS_FORBIDDEN"])
        spec = {"t": "pool", "disc": f"vp{i}", "entries": entries, "input": inp}
        V.set_cer(cer)
        seg = V.to_maus({"lines": [{"t": "g", "disc": "g", "expr": {"parts": [["X", "X", None]]}, "groups": [], "segs": [{"disc": "s", "expr": {"parts": [["X", "X", None]]}, "des": [spec]}]}]})
        de = seg.lines[0].segments[0].data_elements[0]
        E._arm(cer["rc"], cer["fc"], cer["hints"], cer["packages"])  # pylint:disable=protected-access
        try:
            r = asyncio.run(validate_data_element_valuepool(de, R(parent)))
            got = V.canon_result(r)
            got["input_after"] = de.entered_input
        except BaseException as e:  # pylint:disable=broad-except
            got = {"err": type(e).__name__}
        evs = [V.eval_node_expr(V.expr_text(e["expr"]), cer) for e in entries]
        ctx.case((str(spec), parent, str(cer)), nontrivial=n > 1)
        ctx.count("pool_size", str(n))
        ctx.count("parent", parent)
        rows.append({"spec": spec, "cer": cer, "parent": parent, "impl": got, "evs": evs})
        rep = {"pool": [{"qualifier": e["q"], "expression": V.expr_text(e["expr"])} for e in entries], "entered_input": inp, "segment_status": parent, "content_evaluation": cer, "got": got}
        if "err" in got:
            if not any("raises" in ev for ev in evs):
                ctx.violation(f"value-pool validation raises {got['err']}", rep, key=f"raise:{got['err']}")
            continue
        if any("raises" in ev for ev in evs):
            continue
        # the offered values, from the property text
        if parent == "IS_FORBIDDEN":
            offered = {}
        elif n == 1:
            offered = {entries[0]["q"]: entries[0]["m"]}
        else:
            offered = {}
            for e, ev in zip(entries, evs):
                if "invalid" in ev or ev.get("fulfilled") is True:
                    offered[e["q"]] = e["m"]
        ctx.count("offered", str(len(offered)))
        if got["possible"] != [list(kv) for kv in offered.items()]:
            ctx.violation("offered values are not exactly the qualifiers whose own expression is fulfilled, in pool order", {**rep, "expected_offered": list(offered)}, key=f"offered:{n}:{len(offered)}")
            continue
        if not offered:
            ctx.count("case", "nothing offered")
            if got["status"] != "IS_FORBIDDEN":
                ctx.violation("nothing is offered but the element is not reported forbidden", rep, key=f"none-offered:{parent}")
        elif inp in offered:
            ctx.count("case", "offered value entered")
            if got["status"] != "IS_REQUIRED_AND_FILLED" or got["fc_ok"] is not True:
                ctx.violation("an offered value is not accepted", rep, key="accept")
        elif inp:
            ctx.count("case", "unexpected value entered")
            if got["status"] != "IS_REQUIRED_AND_EMPTY" or got["fc_ok"] is not False or got["input_after"] is not None:
                ctx.violation("an unexpected value is not flagged and reported as empty", rep, key="unexpected")
        else:
            ctx.count("case", "nothing entered")
            if got["status"] != "IS_REQUIRED_AND_EMPTY" or got["fc_ok"] is not True:
                ctx.violation("empty input with offered values is not reported required-and-empty", rep, key="empty")
    ctx.sample({"pool": rows[0]["spec"], "parent": rows[0]["parent"], "result": rows[0]["impl"]}, limit=3)
    if drv:
        reqs, idx = [], []
        for k, row in enumerate(rows):
            if any("raises" in ev for ev in row["evs"]) or "err" in row["impl"]:
                continue
            de = {"k": "pool", "disc": row["spec"]["disc"], "entries": [{"q": e["q"], "m": e["m"], "res": ev} for e, ev in zip(row["spec"]["entries"], row["evs"])], "input": row["spec"]["input"]}
            # the model validates a pool below a segment of the given status: wrap it in a segment whose own result is that status
            reqs.append({"op": "validateSegment", "segment": {"disc": "s", "res": {"ind": "X" if row["parent"] != "IS_OPTIONAL" else "KANN", "fulfilled": row["parent"] != "IS_FORBIDDEN", "fc_ok": True}, "des": [de]}, "parent": None, "soll": True})
            idx.append(k)
        outs = ctx.driver(reqs)
        n_diff = 0
        for k, o in zip(idx, outs):
            row = rows[k]
            if row["parent"] == "IS_FORBIDDEN":
                continue  # a forbidden segment does not visit its data elements; the direct call is covered by the predicate above
            m = o["results"][1]
            i = row["impl"]
            if any(m.get(f) != i.get(f) for f in ("status", "fc_ok", "possible", "dtype")):
                n_diff += 1
                if n_diff <= 5:
                    ctx.broke("correspondence", "valuepool", json.dumps({"pool": row["spec"], "parent": row["parent"], "impl": i, "model": m}))
            elif m.get("hints") != i.get("hints"):
                ctx.advise({"impl": i.get("hints"), "model": m.get("hints")})
        ctx.coverage["correspondence"] = {"valuepool": {"lines": len(reqs), "disagreements": n_diff}}


def replay(ctx: Ctx, data) -> int:
    print(data["replay"])
    return 1
