"""
C04 — requirement-constraint evaluation equals the documented compositional semantics.

Proof: Properties/C04.lean (state of evalRc = denote; outcome mapping).  Tie: T3 on trees (states, outcomes, error classes
gate; hint text and layout of the collected format expression advisory), T1 for the operators (C03's tables).
Predicate on the implementation: outcome = outcome_of_state(denote(tree, assignment)) for every valid well-formed case.
"""
from __future__ import annotations

from .. import evaluation as E, extract, trees as T
from ..common import Ctx
from . import _evalcommon as EC

MODULES = ["Ahbicht.Properties.C03", "Ahbicht.Properties.C04"]


def run(ctx: Ctx) -> None:
    ctx.rule = ("every binary tree with up to 3/4 leaves over {rc 1, rc 2, hint 900, fc 901} (exhaustive) plus random well-formed (valid-biased) and "
                "arbitrary trees with up to 7/10 leaves; all 3^k assignments (k<=4/5, sampled beyond); distinct = (tree, assignment); "
                "non-trivial = tree has an operator")
    ctx.coverage["generated_changed"] = extract.regenerate(["Cfv"])
    ok = ctx.lean_build(MODULES)
    drv = ctx.lean_build_driver()
    if ok:
        ctx.lean_audit(MODULES)
        if not ctx.quick:
            ctx.lean_check_olean(MODULES)
    exprs = EC.gen_exprs(ctx, ctx.pick(300, 4000), ctx.pick(7, 10), ctx.pick(3, 4))
    cases = EC.rc_cases(ctx, exprs, ctx.pick(81, 243))
    EC.run_impl_and_model(ctx, cases, drv)
    for c in cases:
        e, i = c["e"], c["impl"]
        ctx.case((T.to_json(e), sorted(c["rc"].items())), nontrivial=not T.is_leaf(e))
        ctx.count("stream", c["stream"])
        wf, inv = E.well_formed(e), E.invalid_at(e)
        ctx.count("domain", "wf-valid" if wf and not inv else ("wf-invalid" if wf else "outside"))
        ctx.count("impl_outcome", i.get("err") or f"{i['fulfilled']}/{i['conditional']}")
        if wf and not inv:
            st = E.denote(e, c["rc"])
            ctx.count("denote", st)
            want = E.outcome_of_state(st)
            if "err" in i:
                ctx.violation(f"valid expression raises {i['exc']}", {"tree": T.to_json(e), "string": T.render(e, T.Style(ctx.rng, 'min', 'upper', 'one')).strip(),
                              "rc": c["rc"], "expected_state": st, "same_tree_object_evaluated_before_under": c.get("same_tree_object_evaluated_before_under", [])}, key=f"raise:{T.to_json(e)}")
            elif (i["fulfilled"], i["conditional"]) != want:
                ctx.violation("requirement outcome differs from the compositional semantics",
                              {"tree": T.to_json(e), "string": T.render(e, T.Style(ctx.rng, 'min', 'upper', 'one')).strip(), "rc": c["rc"], "expected_state": st,
                               "expected": want, "got": [i["fulfilled"], i["conditional"]],
                               "same_tree_object_evaluated_before_under": c.get("same_tree_object_evaluated_before_under", [])}, key=f"outcome:{T.to_json(e)}:{sorted(c['rc'].items())}")
    for c in cases[:: max(1, len(cases) // 6)][:6]:
        ctx.sample({"tree": T.to_json(c["e"]), "rc": c["rc"], "impl": c["impl"]})
    EC.compare(ctx, cases, gate=["fulfilled", "conditional"], advisory=["fce", "hints"], name="evalRc")
    ctx.assumptions += ["user evaluators return ConditionFulfilledValue members and are functions of the key",
                        "lark Transformer dispatch (bottom-up, children inline) is observed through the correspondence"]


def replay(ctx: Ctx, data) -> int:
    from .. import evalenv
    evalenv.configure_cer_based()
    r = data["replay"]
    e = T.from_json(r["tree"])
    tree = T.to_lark(e)
    for earlier in r.get("same_tree_object_evaluated_before_under", []):
        E.eval_rc(tree, earlier, EC.hints_for(e))
    i = E.eval_rc(tree, r["rc"], EC.hints_for(e))
    print("impl:", i, "expected state:", r.get("expected_state"))
    return 0 if (i.get("fulfilled"), i.get("conditional")) == E.outcome_of_state(r["expected_state"]) else 1
