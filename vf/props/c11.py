"""
C11 — parsing is a pure function of the string, whatever happened before.

Proof: Properties/C11.lean (heap model with region tags: under a copy discipline that shares nothing with the cache, every parse of
every history returns the pure parse; with lark's Tree.copy() three operations break it).  The copy discipline is observed on the
live functions (alias analysis against the lru_cache entry) and the theorem is instantiated with it.
Tie: T3 on histories (parse calls of both parsers (a third of the strings always passed as keyword argument) interleaved with in-place edits), compared with the model and an uncached parse.
"""
from __future__ import annotations

import json

from lark import Token, Tree

from .. import extract, trees as T
from ..common import Ctx

MODULES = ["Ahbicht.Properties.C11"]


def canon(t, depth=0, budget=None):
    """canonical form; shared lists can make the object graph cyclic (that is the bug class), so depth and size are capped"""
    if budget is None:
        budget = [4000]
    budget[0] -= 1
    if depth > 40 or budget[0] <= 0:
        return ["…"]
    if isinstance(t, Tree):
        return ["T", str(t.data), [canon(c, depth + 1, budget) for c in t.children]]
    if isinstance(t, Token):
        return ["t", str(t.type), str(t.value)]
    return ["?", repr(t)]


def to_tree(c):
    if c[0] == "T":
        return Tree(c[1], [to_tree(x) for x in c[2]])
    return Token(c[1], c[2])


def deep_like(s: str) -> bool:
    return s.count("(") > 100


def deep_string(rng, depth: int) -> str:
    """a legal expression nested `depth` brackets deep: [k]U([k]O([k]U( … )))"""
    ops = [rng.choice("UOX") for _ in range(depth)]
    return "".join(f"[{rng.randint(1, 499)}]{o}(" for o in ops) + "[1]" + ")" * depth


def twin(rng, s: str) -> str:
    import re as _re
    kind = rng.choice(["trail", "nows", "double", "lower", "swap", "inkey", "afterbracket", "lead"])
    if kind == "trail":
        return s + " "
    if kind == "nows":
        return s.replace(" ", "")
    if kind == "double":
        return s.replace(" ", "  ")
    if kind == "lower":
        return s.lower()
    if kind == "swap":
        return s.swapcase()
    if kind == "inkey":      # "[12]" -> "[1 2]" (malformed)
        m = [m for m in _re.finditer(r"\[(\d)(\d+)", s)]
        if m:
            x = rng.choice(m)
            return s[:x.start()] + "[" + x.group(1) + " " + x.group(2) + s[x.end():]
        return s + " "
    if kind == "afterbracket":
        return s.replace("[", "[ ", 1)
    return " " + s


class History:
    """runs one history on the implementation, generating edits against the live objects"""

    def __init__(self, ctx: Ctx, parser: str, strings):
        from ahbicht.expressions import ahb_expression_parser as ap
        from ahbicht.expressions import condition_expression_parser as cp
        self.ctx, self.rng = ctx, ctx.rng
        mod = cp if parser == "cond" else ap
        self.fn = cp.parse_condition_expression_to_tree if parser == "cond" else ap.parse_ahb_expression_to_single_requirement_indicator_expressions
        self.raw = mod._parser  # pylint:disable=protected-access
        self.cached = [self.fn]
        self.kwname = None
        for c in (self.fn.__closure__ or []):
            if hasattr(c.cell_contents, "cache_clear"):
                import inspect
                try:
                    self.kwname = next(iter(inspect.signature(c.cell_contents.__wrapped__).parameters))  # the public name of the string parameter
                except Exception:  # pylint:disable=broad-except
                    self.kwname = None
        if parser == "resolve":
            self.kwname = None
            # the third way to obtain a tree for a string: the combined parser that also expands packages and time conditions
            import asyncio
            from ahbicht.expressions.expression_resolver import parse_expression_including_unresolved_subexpressions as resolve
            from .. import evalenv, schedules as S
            S.configure()  # the package resolver really suspends (as one that asks a database would)
            S.set_schedule({("pkg", "7P"): 1, ("pkg", "8P"): 2, ("pkg", "9P"): 1})
            evalenv.set_cer(evalenv.make_cer(packages={"7P": "[1] U [2]", "8P": "[3] O ([4] U [UB1])", "9P": "[5][901]"}))
            self.cached = [cp.parse_condition_expression_to_tree, ap.parse_ahb_expression_to_single_requirement_indicator_expressions]
            def flags(s):
                # the two flags are written in front of the string ("TF|Muss [1]": resolve_packages=True, replace_time_conditions=False), so that a
                # history names them and a replay repeats them
                return {"resolve_packages": s[0] == "T", "replace_time_conditions": s[1] == "T"}
            self.flags = flags
            self.fn = lambda s: asyncio.run(resolve(s[3:], **flags(s)))
            self.raw = None
        self.clear()
        self.parser = parser
        self.strings = strings
        self.pure = {}
        for s in strings:
            if self.raw is None:
                # the resolver has no uncached twin: the reference is its own answer in a fresh process state (nothing has been edited yet)
                self.clear()
                try:
                    self.pure[s] = canon(self.fn(s))
                except SyntaxError:
                    self.pure[s] = None
                except BaseException as e:  # pylint:disable=broad-except
                    self.pure[s] = ["raises", type(e).__name__]
                self.clear()
                continue
            try:
                self.pure[s] = canon(self.raw.parse(s))
            except Exception:  # pylint:disable=broad-except
                self.pure[s] = None
            if self.pure[s] is not None and deep_like(s):
                # a string may be parsable and still make the memoised function raise (RecursionError while copying a very deep tree):
                # then "the" answer for the string is what the function says with an empty cache
                self.clear()
                try:
                    self.fn(s)
                except SyntaxError:
                    pass
                except BaseException as e:  # pylint:disable=broad-except
                    self.pure[s] = ["raises", type(e).__name__]
                self.clear()
        self.held = []
        self.ops = []
        self.failure = None

    def clear(self):
        for f in getattr(self, "cached", [self.fn]):
            for c in (f.__closure__ or []):
                if hasattr(c.cell_contents, "cache_clear"):
                    c.cell_contents.cache_clear()

    def subtrees(self, t, path=(), budget=None):
        budget = budget if budget is not None else [300]
        budget[0] -= 1
        yield path, t
        for i, c in enumerate(t.children):
            if isinstance(c, Tree) and len(path) < 8 and budget[0] > 0:
                yield from self.subtrees(c, path + (i,), budget)

    def new_child(self, root_idx):
        rng = self.rng
        r = rng.random()
        if r < 0.5:
            ty, val = rng.choice([("CONDITION_KEY", str(rng.randint(1, 999))), ("X", "x"), ("MODAL_MARK", "Kann"), ("CONDITION_EXPRESSION", "[77]")])
            return {"tok": [ty, val]}, Token(ty, val)
        if r < 0.8 or root_idx == 0:
            c = ["T", rng.choice(["condition", "or_composition", "zzz"]), [["t", "CONDITION_KEY", str(rng.randint(1, 99))]]]
            return {"fresh": c}, to_tree(c)
        other = rng.randrange(0, root_idx)  # only older trees are grafted into newer ones: no cycles
        path, node = rng.choice(list(self.subtrees(self.held[other])))
        return {"existing": [other, list(path)]}, node

    def step_edit(self, at=None):
        rng = self.rng
        if not self.held:
            return
        root = rng.randrange(len(self.held)) if rng.random() < 0.5 else len(self.held) - 1
        if at is not None:
            root = at[0]
            cands = [(p, n) for p, n in self.subtrees(self.held[root]) if list(p) == list(at[1])]
            if not cands:
                return
            path, node = cands[0]
        else:
            path, node = rng.choice(list(self.subtrees(self.held[root])))
        kind = rng.choice(["replace", "replace", "remove", "append", "rebind", "setData"])
        n = len(node.children)
        if kind in ("replace", "remove") and n == 0:
            kind = "append"
        if kind == "replace":
            i = rng.randrange(n)
            spec, obj = self.new_child(root)
            node.children[i] = obj
            e = {"k": "replace", "i": i, "c": spec}
        elif kind == "remove":
            i = rng.randrange(n)
            del node.children[i]
            e = {"k": "remove", "i": i}
        elif kind == "append":
            spec, obj = self.new_child(root)
            node.children.append(obj)
            e = {"k": "append", "c": spec}
        elif kind == "rebind":
            pairs = [self.new_child(root) for _ in range(rng.randint(0, 2))]
            node.children = [o for _, o in pairs]
            e = {"k": "rebind", "cs": [s for s, _ in pairs]}
        else:
            d = rng.choice(["renamed", "and_composition"])
            node.data = d
            e = {"k": "setData", "d": d}
        self.ctx.count("edit", kind)
        self.ctx.count("edit_depth", str(len(path)))
        self.ops.append(["edit", root, list(path), e])

    def by_keyword(self, s) -> bool:
        """a third of the strings are always passed as keyword argument (a fixed function of the string, so that replays repeat it)"""
        import zlib
        return self.kwname is not None and zlib.crc32(s.encode("utf-8", "replace")) % 3 == 0

    def step_parse(self, s):
        self.ops.append(["parse", s])
        try:
            t = self.fn(**{self.kwname: s}) if self.by_keyword(s) else self.fn(s)
        except SyntaxError:
            got = None
            t = None
        except BaseException as e:  # pylint:disable=broad-except
            got = ["raises", type(e).__name__]  # e.g. RecursionError when a corrupted cache entry has become cyclic
            t = None
        if t is not None:
            self.held.append(t)
            got = canon(t)
        self.ctx.count("parse", "hit-or-miss")
        if got != self.pure[s] and self.failure is None:
            self.failure = (len(self.ops), s, got)
        return got


def shrink(ctx, parser, ops, strings, s):
    """greedy: drop operations while the last parse of `s` still differs from the pure parse"""
    def fails(cand):
        h = History(ctx, parser, strings)
        return replay_ops(h, cand) is not None
    cur = list(ops)
    i = 0
    budget = 300
    while i < len(cur) - 1 and budget > 0:
        cand = cur[:i] + cur[i + 1:]
        budget -= 1
        try:
            if fails(cand):
                cur = cand
                continue
        except Exception:  # pylint:disable=broad-except
            pass
        i += 1
    return cur


def replay_ops(h: "History", ops):
    """re-run recorded ops on the implementation; returns the first impure answer or None"""
    for op in ops:
        if op[0] == "parse":
            got = h.step_parse(op[1])
            if got != h.pure[op[1]]:
                return {"string": op[1], "returned": got, "pure_parse": h.pure[op[1]]}
        else:
            _, root, path, e = op
            if root >= len(h.held):
                continue
            node = h.held[root]
            try:
                for i in path:
                    node = node.children[i]
                    assert isinstance(node, Tree)

                def obj(spec):
                    if "tok" in spec:
                        return Token(*spec["tok"])
                    if "fresh" in spec:
                        return to_tree(spec["fresh"])
                    n2 = h.held[spec["existing"][0]]
                    for j in spec["existing"][1]:
                        n2 = n2.children[j]
                    return n2
                if e["k"] == "replace":
                    node.children[e["i"]] = obj(e["c"])
                elif e["k"] == "remove":
                    del node.children[e["i"]]
                elif e["k"] == "append":
                    node.children.append(obj(e["c"]))
                elif e["k"] == "rebind":
                    node.children = [obj(c) for c in e["cs"]]
                else:
                    node.data = e["d"]
            except (IndexError, AssertionError, AttributeError):
                continue
            h.ops.append(op)
    return None


def run(ctx: Ctx) -> None:
    ctx.rule = ("histories of 150-400 (thorough: up to 3000) operations per parser: parse calls over 20-60 (thorough: 1500 > cache capacity 1024) distinct strings, "
                "repeated and fresh (one history with expressions nested 150-330 brackets deep; one through the combined resolver with packages and time conditions), (a third of the strings always passed as keyword argument) interleaved with in-place edits (replace/remove/append/rebind/rename at random depth, inserting tokens, fresh trees, nodes of "
                "older returned trees); every returned tree compared with an uncached parse; distinct = (parser, history index, operation index)")
    changed = extract.regenerate(["CopyMode"])
    ctx.coverage["generated_changed"] = changed
    mode, notes = extract.copy_mode()
    ctx.coverage["observed_copy_mode"] = {"mode": mode, "notes": notes[:4]}
    ok = ctx.lean_build(MODULES)
    drv = ctx.lean_build_driver()
    if ok:
        ctx.lean_audit(MODULES)
        if not ctx.quick:
            ctx.lean_check_olean(MODULES)
    rng = ctx.rng
    histories = []
    plans = [("cond", ctx.pick(40, 60), ctx.pick(250, 400)), ("ahb", ctx.pick(25, 40), ctx.pick(200, 300)), ("cond", 8, 150), ("ahb", 5, 120), ("cond-deep", 6, 60), ("resolve", 24, 260)]
    if not ctx.quick:
        plans += [("cond", 1500, 3500), ("ahb", 1200, 2600)] + [("cond", 30, 300)] * 6 + [("ahb", 20, 250)] * 6
    for parser, n_strings, n_ops in plans:
        strings = []
        deep = parser == "cond-deep"
        if deep:  # very deep but legal nesting: copying such a tree is where a copy routine may give up or take a short cut
            parser = "cond"
            strings = [deep_string(rng, d) for d in (150, 270, 330)]
        if parser == "resolve":
            deep = True  # (no model twin: answers of the resolver are compared with its own first answers)
            base = ["Muss [1] U [UB3]", "[UB1] O [UB1]", "Muss [UB2] Soll [7P]", "X [9P] O [UB1]", "[2] U ([UB3] O [8P 1..2])"]
            strings = [f + "|" + b for b in base for f in ("TT", "FF")] + ["TF|" + base[2], "FT|" + base[0]]
            strings.append("TT|" + " U ".join(["[7P]", "[8P]", "[9P]"] * 4))  # twelve package occurrences in one expression
            n_prelude = len(strings)
        while len(strings) < n_strings:
            e = T.rand_expr(rng, rng.randint(1, 5))
            s = T.render(e, T.Style(rng, "min", "upper", "one")).strip()
            if parser == "resolve":
                import re as _re
                s = _re.sub(r"\[\d+P[^\]]*\]", lambda m: rng.choice(["[7P]", "[8P]", "[9P]"]), s)
                if rng.random() < 0.5:
                    s = rng.choice(["Muss ", "X ", "Soll "]) + s
                s = rng.choice(["TT", "TT", "FF", "TF", "FT"]) + "|" + s
            if parser == "ahb":
                s = rng.choice(["Muss", "Soll", "Kann", "X"]) + " " + s + rng.choice(["", " Kann", " Soll [1]"])
            if rng.random() < 0.05 and parser != "resolve":
                s = s[:-1]  # malformed: SyntaxError is not memoised
            if s not in strings:
                strings.append(s)
                if parser in ("cond", "ahb") and not deep and rng.random() < 0.35:
                    # a near twin: a different string that a careless normalisation (whitespace removal, stripping, case folding) would identify with s;
                    # some twins are malformed (blank inside a key, trailing blank after a bare modal mark) - the answer for either must not depend on the other
                    tw = twin(rng, s)
                    if tw != s and tw not in strings:
                        strings.append(tw)
        if parser == "ahb" and not deep:
            for pair in (("X", "X "), ("Muss [1] Kann", "Muss [1] Kann "), ("Soll[7]", "So ll[7]")):
                strings += [x for x in (pair if rng.random() < 0.5 else pair[::-1]) if x not in strings]
        h = History(ctx, parser, strings)
        h.deep = deep
        seen = []
        if parser == "resolve":
            # systematic prelude: every sub-tree of every returned tree of the first strings is edited once, then all of them are resolved again
            for s0 in strings[:n_prelude]:
                if h.step_parse(s0) is None or not h.held:
                    continue
                root = len(h.held) - 1
                for path, _ in list(h.subtrees(h.held[root]))[:10]:
                    h.step_edit(at=(root, path))
                for s1 in strings[:n_prelude]:
                    h.step_parse(s1)
                    ctx.case((parser, len(histories), "prelude", s0, s1))
        for k in range(n_ops):
            if rng.random() < 0.45 and h.held:
                h.step_edit()
            else:
                if n_strings > 1100 and k < n_strings:
                    s = strings[k]          # fill the cache beyond its capacity first
                else:
                    s = rng.choice(seen) if (seen and rng.random() < 0.6) else rng.choice(strings)
                seen.append(s)
                h.step_parse(s)
                ctx.case((parser, len(histories), k))
        histories.append(h)
        if h.failure is not None:
            at, s, got = h.failure
            ops = h.ops[:at]
            small = shrink(ctx, parser, ops, strings, s)
            ctx.violation(f"{parser} parser: the tree returned for {s!r} depends on the history (cache hit, miss or eviction, or what callers did with trees returned earlier)",
                          {"parser": parser, "history": small, "string": s, "returned": got, "pure_parse": h.pure[s], "full_history_length": at,
                           "passed_as_keyword_argument": sorted({op[1] for op in small if op[0] == "parse" and h.by_keyword(op[1])}), "keyword": h.kwname,
                           "resolver_flags": {op[1]: h.flags(op[1]) for op in small if op[0] == "parse"} if hasattr(h, "flags") else None},
                          key=f"impure:{parser}")
    ctx.sample({"parser": histories[0].parser, "ops": histories[0].ops[:8]})
    if drv and mode in ("deep", "shareChildren"):
        # the model replays each history under the observed copy discipline; its answers must equal the implementation's
        reqs = []
        histories = [h for h in histories if not getattr(h, "deep", False)]  # answers that are exceptions are not in the model's vocabulary
        for h in histories:
            reqs.append({"op": "cacheOps", "mode": mode, "cap": 1024, "pure": {s: v for s, v in h.pure.items() if v is not None}, "ops": h.ops})
        outs = ctx.driver(reqs)
        n_diff = 0
        for h, o in zip(histories, outs):
            h2 = History(ctx, h.parser, h.strings)
            impl_answers = []
            for op in h.ops:
                if op[0] == "parse":
                    impl_answers.append(h2.step_parse(op[1]))
                else:
                    replay_ops(h2, [op])
            if impl_answers != o["returned"]:
                n_diff += 1
                k = next(i for i, (a, b) in enumerate(zip(impl_answers, o["returned"])) if a != b)
                if n_diff <= 3:
                    ctx.broke("correspondence", "cacheOps", json.dumps({"parser": h.parser, "answer_index": k, "impl": impl_answers[k], "model": o["returned"][k]})[:1500])
        ctx.coverage["correspondence"] = {"cacheOps": {"histories": len(histories), "mode": mode, "disagreements": n_diff}}
        ctx.coverage["traces_validated_against_impl"] = len(histories)
    ctx.assumptions += ["functools.lru_cache and copy.deepcopy are observed (alias analysis + histories), not modelled internally",
                        "thread-level races on the cache are outside the property (histories, not schedules)"]


def replay(ctx: Ctx, data) -> int:
    r = data["replay"]
    strings = sorted({op[1] for op in r["history"] if op[0] == "parse"})
    h = History(ctx, r["parser"], strings)
    bad = replay_ops(h, r["history"])
    print("impure answer:" if bad else "all answers pure", bad or "")
    return 1 if bad else 0
