"""
C10 — resolving packages and time conditions is exact bracketed substitution.

Proof: Properties/C10.lean (token-level substitution = tree-level expansion, exactly; one level; unknown package aborts).
Tie: T3 — flat(resolved tree) against flat(parse of the textually substituted string), both on the implementation
(the property's own predicate) and against the model's expansion of the tree Lark produced.
"""
from __future__ import annotations

import json

from .. import evalenv, evaluation as E, extract, parsing as P, trees as T
from ..common import Ctx

MODULES = ["Ahbicht.Properties.C10"]
TIME_TEXT = {"UB1": "[932]", "UB2": "[934]", "UB3": "([932][492]X[934][493])"}
MARKS = ["Muss", "Soll", "Kann", "M", "S", "K", "muss", "kann"]


def leaf_gen(pkg_keys):
    def leaf(rng):
        r = rng.random()
        if r < 0.35:
            rep = None
            if rng.random() < 0.4:
                a = rng.randint(0, 5)
                rep = f"{a}..{rng.randint(max(a, 1), a + 4)}"
            return ("pkg", rng.choice(pkg_keys), rep)
        if r < 0.5:
            return ("time", "UB" + rng.choice("123"))
        return ("cond", T.rand_key(rng, rng.choice(["rc", "rc", "hint", "fc"])))
    return leaf


def gen_table(ctx: Ctx, keys=None):
    rng = ctx.rng
    keys = keys or [f"{n}P" for n in rng.sample(range(1, 60), rng.randint(3, 8))]
    table = {}
    for k in keys:
        if rng.random() < 0.12:
            table[k] = None
            continue
        body = T.rand_expr(rng, rng.randint(1, 5), leaf_gen(keys))
        table[k] = T.render(body, T.Style(rng, "min", "rand", rng.choice(["one", "rand", "none"]))).strip(" \t\n\r\f") or "[1]"
    return keys, table


def substituted(e, table, st, packages=True, times=True) -> str:
    import re

    def leaf_text(l):
        if l[0] == "pkg" and packages:
            body = table[l[1]]
            if times:  # time conditions inside a package body are replaced as well
                body = re.sub(r"\[\s*(UB[123])\s*\]", lambda m: TIME_TEXT[m.group(1)], body)
            return "(" + body + ")"
        if l[0] == "time" and times:
            return TIME_TEXT[l[1]]
        return None
    return T.render(e, st, leaf_text=leaf_text)


def run(ctx: Ctx) -> None:
    ctx.rule = ("package tables with 3-8 entries (bodies from the expression generator, containing packages and UB keys, some unresolvable); expressions with "
                "abbreviations at random positions (repeated, adjacent, root), condition and multi-part AHB expressions; a third of the tables re-resolve the previous table's strings (same text, other bodies); distinct = (table, string)")
    ctx.coverage["generated_changed"] = extract.regenerate(["CharClasses", "Grammar"])
    ok = ctx.lean_build(MODULES)
    drv = ctx.lean_build_driver()
    if ok:
        ctx.lean_audit(MODULES)
        if not ctx.quick:
            ctx.lean_check_olean(MODULES)
    evalenv.configure_cer_based()
    rng = ctx.rng
    rows = []
    prev = None  # (keys, specs) of the previous table: a third of the tables re-resolve the SAME strings under a different table
    history = {}
    for _ in range(ctx.pick(60, 500)):
        reuse = prev is not None and rng.random() < 0.35
        keys, table = gen_table(ctx, prev[0] if reuse else None)
        evalenv.set_cer(evalenv.make_cer(packages={k: v for k, v in table.items() if v is not None}))
        specs = prev[1] if reuse else []
        if not reuse:
            for _ in range(ctx.pick(10, 25)):
                n_parts = rng.choice([0, 0, 0, 1, 2, 3])
                exprs = [T.rand_expr(rng, rng.randint(1, 7), leaf_gen(keys)) for _ in range(max(1, n_parts))]
                st = T.Style(rng, rng.choice(["min", "rand"]), "rand", rng.choice(["one", "rand", "none"]))
                texts = [T.render(e, st).strip(" \t\n\r\f") for e in exprs]
                marks = [rng.choice(MARKS) for _ in exprs]
                s = texts[0] if n_parts == 0 else "".join(m + " " + t + " " for m, t in zip(marks, texts)).strip()
                specs.append((n_parts, exprs, st, marks, s, rng.choice(["both", "both", "both", "packages", "times"])))
        prev = (keys, specs)
        ctx.count("table", "same strings as under the previous table" if reuse else "new strings")
        for n_parts, exprs, st, marks, s, mode in specs:
            used = {l[1] for e in exprs for l in T.leaves(e) if l[0] == "pkg"}
            unknown = any(table[k] is None for k in used)
            rp, rt = mode in ("both", "packages"), mode in ("both", "times")
            if n_parts == 0:
                s_sub = None if (unknown and rp) else substituted(exprs[0], table, st, rp, rt)
            else:
                s_sub = None if (unknown and rp) else "".join(m + " " + substituted(e, table, st, rp, rt).strip(" \t\n\r\f") + " " for m, e in zip(marks, exprs)).strip()
            before = list(history.get((s, mode), []))
            history.setdefault((s, mode), []).append(table)
            ctx.case((sorted(table.items(), key=str), s, mode), nontrivial=bool(used) or any(l[0] == "time" for e in exprs for l in T.leaves(e)))
            ctx.count("mode", mode)
            ctx.count("kind", "ahb" if n_parts else "cond")
            got = P.resolve(s, resolve_packages=rp, replace_time_conditions=rt)
            base = P.resolve(s, resolve_packages=False, replace_time_conditions=False)
            row = {"s": s, "table": table, "rp": rp, "rt": rt, "impl": got.get("shape", got.get("err")), "base": base.get("shape", base.get("err"))}
            rows.append(row)
            if unknown and rp:
                ctx.count("outcome", "unknown-package")
                if got.get("err") != "other:NotImplementedError":
                    ctx.violation("a package unknown to the resolver does not abort with NotImplementedError", {"s": s, "table": table, "got": row["impl"], "same_string_resolved_before_under": before}, key=f"unknown:{s}")
                continue
            if "err" in got:
                ctx.count("outcome", got["err"])
                ctx.violation(f"resolving raises {got['err']}", {"s": s, "table": table}, key=f"raise:{got['err']}:{s}")
                continue
            ctx.count("outcome", "tree")
            want = P.resolve(s_sub, resolve_packages=False, replace_time_conditions=False)
            if "err" in want:
                ctx.violation("textually substituted expression does not parse", {"s": s, "substituted": s_sub, "table": table}, key=f"subst-parse:{s}")
                continue
            if got["shape"] != want["shape"]:
                ctx.violation("resolved tree differs from the parse of the textually substituted expression",
                              {"s": s, "table": table, "resolve_packages": rp, "replace_time_conditions": rt, "substituted": s_sub, "resolved": got["shape"], "expected": want["shape"],
                               "same_string_resolved_before_under": before},
                              key=f"subst:{s}:{mode}")
    for row in rows[:: max(1, len(rows) // 5)][:5]:
        ctx.sample({"s": row["s"], "table": row["table"], "resolved": row["impl"]})
    if drv:
        reqs, where = [], []
        for i, row in enumerate(rows):
            b = row["base"]
            if isinstance(b, str):
                continue
            p = P.resolve(row["s"], resolve_packages=False, replace_time_conditions=False)
            trees = []
            if b[0] == "cond":
                trees = [T.to_json(T.from_lark(p["lark"]))]
            else:
                trees = [T.to_json(T.from_lark(ch.children[1])) for ch in p["lark"].children if ch.data == "single_requirement_indicator_expression"]
            for t in trees:
                reqs.append({"op": "expand", "tree": t, "packages": {k: v for k, v in row["table"].items() if v is not None}, "resolve_packages": row["rp"], "replace_time": row["rt"]})
                where.append(i)
        outs = ctx.driver(reqs)
        per = {}
        for i, o in zip(where, outs):
            per.setdefault(i, []).append(o)
        n_diff = 0
        for i, row in enumerate(rows):
            if i not in per:
                continue
            impl = row["impl"]
            mo = per[i]
            if isinstance(impl, str):
                errs = [o.get("err") for o in mo if "err" in o]
                m = ("other:" + errs[0]) if errs else "tree"
                if m != impl and not (impl == "SyntaxError" and errs and errs[0] == "SyntaxError"):
                    n_diff += 1
                    if n_diff <= 6:
                        ctx.broke("correspondence", "expand", json.dumps({"s": row["s"], "table": row["table"], "impl": impl, "model": m}, ensure_ascii=False))
                continue
            if impl[0] == "cond":
                mflat = [mo[0].get("flat", mo[0].get("err"))]
                iflat = [impl[1]]
            else:
                mflat = [o.get("flat", o.get("err")) for o in mo]
                iflat = [p[3] for p in impl[1] if p[0] == "part"]
            if mflat != iflat:
                n_diff += 1
                if n_diff <= 6:
                    ctx.broke("correspondence", "expand", json.dumps({"s": row["s"], "table": row["table"], "impl": iflat, "model": mflat}, ensure_ascii=False))
        ctx.coverage["correspondence"] = {"expand": {"lines": len(reqs), "disagreements": n_diff}}
    ctx.assumptions += ["package bodies are well-formed condition expressions and repeatabilities satisfy a <= b (the property's domain)",
                        "asyncio.gather returns results in argument order (see C12)"]


def replay(ctx: Ctx, data) -> int:
    evalenv.configure_cer_based()
    r = data["replay"]
    for earlier in r.get("same_string_resolved_before_under", []):
        evalenv.set_cer(evalenv.make_cer(packages={k: v for k, v in earlier.items() if v is not None}))
        P.resolve(r["s"], resolve_packages=r.get("resolve_packages", True), replace_time_conditions=r.get("replace_time_conditions", True))
    evalenv.set_cer(evalenv.make_cer(packages={k: v for k, v in r["table"].items() if v is not None}))
    got = P.resolve(r["s"], resolve_packages=r.get("resolve_packages", True), replace_time_conditions=r.get("replace_time_conditions", True))
    want = P.resolve(r["substituted"], resolve_packages=False, replace_time_conditions=False) if r.get("substituted") else {}
    print("resolved:", got.get("shape", got.get("err")))
    print("expected:", want.get("shape"))
    return 0 if got.get("shape") == want.get("shape") else 1
