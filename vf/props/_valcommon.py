"""shared by C13, C14, C16, C17: run implementation and model on generated AHBs, compare"""
from __future__ import annotations

import json
from typing import Any, Dict, List

from .. import evalenv, valgen as V
from ..common import Ctx

GATE = ["disc", "is_de", "status", "fc_ok", "possible", "dtype"]
ADVISORY = ["hints", "fc_msg"]


def correspondence(ctx: Ctx, runs: List[Dict[str, Any]], drv: bool, name: str = "validate") -> None:
    """runs: [{'spec', 'cer', 'soll', 'impl'}]; adds 'model'"""
    if not drv:
        return
    reqs, idx = [], []
    for i, r in enumerate(runs):
        mi, usable = V.model_input(r["spec"], r["cer"])
        if not usable:
            ctx.count("model_input", "skipped: some node expression raises outside the modelled classes")
            continue
        reqs.append({"op": "validate", "lines": mi["lines"], "soll": r["soll"]})
        idx.append(i)
    outs = ctx.driver(reqs) if reqs else []
    n_diff = 0
    for i, o in zip(idx, outs):
        r = runs[i]
        r["model"] = o
        im = r["impl"]
        if ("err" in im) or ("err" in o):
            if im.get("err") != o.get("err"):
                n_diff += 1
                if n_diff <= 5:
                    ctx.broke("correspondence", name, json.dumps({"impl": im.get("err", "results"), "model": o.get("err", "results"), "spec": r["spec"], "cer": r["cer"], "soll": r["soll"]})[:3000])
            continue
        a, b = im["results"], o["results"]
        bad = None
        if len(a) != len(b):
            bad = {"len_impl": len(a), "len_model": len(b)}
        else:
            for x, y in zip(a, b):
                d = [f for f in GATE if x.get(f) != y.get(f)]
                # the message of an invalid expression contains object reprs: gate on presence only
                if d:
                    bad = {"disc": x["disc"], "fields": d, "impl": x, "model": y}
                    break
                for f in ADVISORY:
                    if x.get(f) != y.get(f):
                        ctx.advise({"disc": x["disc"], "field": f, "impl": x.get(f), "model": y.get(f)})
        if bad:
            n_diff += 1
            if n_diff <= 5:
                ctx.broke("correspondence", name, json.dumps({"diff": bad, "spec": r["spec"], "cer": r["cer"], "soll": r["soll"]})[:3000])
    ctx.coverage.setdefault("correspondence", {})[name] = {"lines": len(reqs), "disagreements": n_diff}
