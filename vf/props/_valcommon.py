"""shared by C13, C14, C16, C17: run implementation and model on generated AHBs, compare"""
from __future__ import annotations

import json
from typing import Any, Dict, List

from .. import evalenv, valgen as V
from ..common import Ctx

GATE = ["disc", "is_de", "status", "fc_ok", "possible", "dtype"]
ADVISORY = ["hints", "fc_msg"]


def full_input(spec, cer, soll) -> Dict[str, Any]:
    """the request for the end-to-end model (Model/Full.lean): expression TEXTS and the content evaluation result"""
    def de(d):
        if d["t"] == "free":
            return {"k": "free", "disc": d["disc"], "expr": V.expr_text(d["expr"]), "input": d["input"], "vtype": d.get("vtype")}
        return {"k": "pool", "disc": d["disc"], "entries": [{"q": e["q"], "m": e["m"], "expr": V.expr_text(e["expr"])} for e in d["entries"]], "input": d["input"]}

    def seg(s_):
        return {"disc": s_["disc"], "expr": V.expr_text(s_["expr"]), "des": [de(d) for d in s_["des"]]}

    def grp(g):
        return {"disc": g["disc"], "expr": V.expr_text(g["expr"]), "groups": [grp(x) for x in g["groups"]], "segs": [seg(x) for x in g["segs"]]}

    return {"op": "validateFull", "soll": soll, "lines": [grp(g) for g in spec["lines"]], "rc": cer["rc"],
            "fc": {k: [v, None if v else f"fc {k} failed"] for k, v in cer["fc"].items()}, "hints": cer["hints"], "packages": cer["packages"]}


def grouping_sensitive(spec, cer) -> bool:
    """does some node expression lie where the grouping of a same-operator run matters (C05's known finding K1), or does Lark group a
    juxtaposition run outside the documented use?  Only there may the model's parse (left-nested runs) and Lark's differ in effect:
    everywhere else C05_brackets_partial proves that trees with the same flattening have the same validity and outcome."""
    from .. import evaluation as E, parsing as P, trees as T
    V.set_cer(cer)
    for kind, node, _ in V.walk(spec):
        exprs = [e["expr"] for e in node["entries"]] if kind == "pool" else [node["expr"]]
        for x in exprs:
            r = P.resolve(V.expr_text(x), resolve_packages=True)
            if "err" in r or r["lark"].data != "ahb_expression":
                continue
            for ch in r["lark"].children:
                if ch.data == "single_requirement_indicator_expression" and len(ch.children) > 1:
                    t = T.from_lark(ch.children[1])
                    if E.in_k1_class(t) or not E.well_formed(t):
                        return True
    return False


def _err_class(e):
    return None if e is None else ("other" if e.startswith("other") else e)


def correspondence_full(ctx: Ctx, runs: List[Dict[str, Any]], drv: bool, name: str = "validateFull") -> None:
    """end to end: the model parses, resolves and evaluates every node expression itself (nothing is taken from the implementation)"""
    if not drv or not runs:
        return
    outs = ctx.driver([full_input(r["spec"], r["cer"], r["soll"]) for r in runs])
    n_diff = n_k1 = 0
    for r, o in zip(runs, outs):
        im = r["impl"]
        bad = None
        if "results" not in o and "err" not in o:
            bad = {"driver": json.dumps(o)[:300]}      # the model could not even read the request: a broken correspondence, not a harness crash
        elif ("err" in im) or ("err" in o):
            if _err_class(im.get("err")) != _err_class(o.get("err")):
                bad = {"impl": im.get("err", "results"), "model": o.get("err", "results")}
        else:
            a, b = im["results"], o["results"]
            if len(a) != len(b):
                bad = {"len_impl": len(a), "len_model": len(b)}
            else:
                for x, y in zip(a, b):
                    d = [f for f in GATE if x.get(f) != y.get(f)]
                    if d:
                        bad = {"disc": x["disc"], "fields": d, "impl": x, "model": y}
                        break
                    for f in ADVISORY:
                        if x.get(f) != y.get(f) and y.get(f) != "":  # the text of a caught InvalidExpressionError is not modelled
                            ctx.advise({"disc": x["disc"], "field": f, "impl": x.get(f), "model": y.get(f)})
        if bad and grouping_sensitive(r["spec"], r["cer"]):
            n_k1 += 1
            continue
        if bad:
            n_diff += 1
            if n_diff <= 5:
                ctx.broke("correspondence", name, json.dumps({"diff": bad, "spec": r["spec"], "cer": r["cer"], "soll": r["soll"]})[:3000])
    ctx.coverage.setdefault("correspondence", {})[name] = {"lines": len(runs), "disagreements": n_diff,
                                                           "differences_inside_K1_class_not_counted": n_k1}


def correspondence(ctx: Ctx, runs: List[Dict[str, Any]], drv: bool, name: str = "validate") -> None:
    """runs: [{'spec', 'cer', 'soll', 'impl'}]; adds 'model'"""
    if not drv:
        return
    correspondence_full(ctx, runs, drv)
    reqs, idx = [], []
    for i, r in enumerate(runs):
        mi, usable = V.model_input(r["spec"], r["cer"])
        if not usable:
            ctx.count("model_input", "skipped: some node expression raises outside the modelled classes")
            continue
        reqs.append({"op": "validate", "lines": mi["lines"], "soll": r["soll"]})
        idx.append(i)
    outs = ctx.driver(reqs) if reqs else []
    n_diff = 0
    for i, o in zip(idx, outs):
        r = runs[i]
        r["model"] = o
        im = r["impl"]
        if "results" not in o and "err" not in o:
            n_diff += 1
            if n_diff <= 5:
                ctx.broke("correspondence", name, json.dumps({"driver": json.dumps(o)[:300], "spec": r["spec"], "cer": r["cer"], "soll": r["soll"]})[:3000])
            continue
        if ("err" in im) or ("err" in o):
            if im.get("err") != o.get("err"):
                n_diff += 1
                if n_diff <= 5:
                    ctx.broke("correspondence", name, json.dumps({"impl": im.get("err", "results"), "model": o.get("err", "results"), "spec": r["spec"], "cer": r["cer"], "soll": r["soll"]})[:3000])
            continue
        a, b = im["results"], o["results"]
        bad = None
        if len(a) != len(b):
            bad = {"len_impl": len(a), "len_model": len(b)}
        else:
            for x, y in zip(a, b):
                d = [f for f in GATE if x.get(f) != y.get(f)]
                # the message of an invalid expression contains object reprs: gate on presence only
                if d:
                    bad = {"disc": x["disc"], "fields": d, "impl": x, "model": y}
                    break
                for f in ADVISORY:
                    if x.get(f) != y.get(f):
                        ctx.advise({"disc": x["disc"], "field": f, "impl": x.get(f), "model": y.get(f)})
        if bad:
            n_diff += 1
            if n_diff <= 5:
                ctx.broke("correspondence", name, json.dumps({"diff": bad, "spec": r["spec"], "cer": r["cer"], "soll": r["soll"]})[:3000])
    ctx.coverage.setdefault("correspondence", {})[name] = {"lines": len(reqs), "disagreements": n_diff}
