"""
C02 — parsers accept exactly the documented language; all else is a SyntaxError.

Proof: Properties/C02.lean (acceptance = grammar; AHB-shaped never a condition; bad condition part ⇒ SyntaxError).
Tie: T1 character classes, T2 grammars, T3 outcome class + accepted structure for the three entry points.
Failing-input search: any outcome other than tree/SyntaxError, any acceptance disagreement with the (proved) model.
"""
from __future__ import annotations

import asyncio
import itertools
import json

from .. import evalenv, extract, parsing as P, trees as T
from ..common import Ctx, VERIF

MODULES = ["Ahbicht.Properties.Grammar", "Ahbicht.Properties.C02", "Ahbicht.Properties.C02Lex", "Ahbicht.Properties.C02Ahb"]
CORPUS = VERIF / "corpus" / "C02.jsonl"
ALPHABET = ["[", "]", "(", ")", "U", "O", "X", "∧", "1", "P", ".", "B", "M", "s", " "]
UNICODE = [" ", "\x0b", " ", "٣", "１", "K", "ſ", "\ud800", "İ", " ", "²", "\x1c", "\x85", "µ", "ı", "İ"]
MARKS = ["Muss", "M", "Soll", "S", "Kann", "K", "muss", "mUsS", "soll", "kann", "k", "m", "s", "KANN", "SOLL"]
PREFIXES = ["X", "O", "U", "x", "o", "u"]


def gen_valid_cond(ctx: Ctx, n_max=8) -> str:
    rng = ctx.rng
    e = T.rand_expr(rng, rng.randint(1, n_max))
    return T.render(e, T.Style(rng, rng.choice(["min", "rand"]), "rand", rng.choice(["rand", "one", "none"])))


def gen_ahb(ctx: Ctx, bad_part: bool = False) -> str:
    rng = ctx.rng
    if rng.random() < 0.15:
        return rng.choice(PREFIXES) + rng.choice(["", " "]) + gen_valid_cond(ctx, 4)
    n = rng.randint(1, 4)
    parts = []
    bad_at = rng.randrange(n) if bad_part else -1
    for i in range(n):
        c = gen_valid_cond(ctx, 4)
        if i == bad_at:
            c = mutate(ctx, c)
        parts.append(rng.choice(MARKS) + c)
    s = "".join(parts)
    if rng.random() < 0.3:
        s += rng.choice(MARKS)
    return s


def mutate(ctx: Ctx, s: str) -> str:
    rng = ctx.rng
    if not s:
        return rng.choice(ALPHABET)
    i = rng.randrange(len(s))
    k = rng.randrange(5)
    if k == 0:
        return s[:i] + s[i + 1:]
    if k == 1:
        return s[:i] + rng.choice(ALPHABET + UNICODE) + s[i:]
    if k == 2:
        return s[:i] + s[i] + s[i:]
    if k == 3 and i + 1 < len(s):
        return s[:i] + s[i + 1] + s[i] + s[i + 2:]
    return s[:i] + rng.choice(ALPHABET + UNICODE) + s[i + 1:]


def gather(ctx: Ctx):
    rng = ctx.rng
    cases = []
    if CORPUS.exists():
        for line in CORPUS.read_text(encoding="utf-8").splitlines():
            if line.strip():
                cases.append(("corpus", json.loads(line)["s"]))
    for _ in range(ctx.pick(150, 1500)):
        cases.append(("valid-cond", gen_valid_cond(ctx)))
    for _ in range(ctx.pick(250, 2500)):
        cases.append(("valid-ahb", gen_ahb(ctx)))
    for _ in range(ctx.pick(250, 2500)):
        cases.append(("ahb-bad-part", gen_ahb(ctx, bad_part=True)))
    for _ in range(ctx.pick(500, 6000)):
        base = gen_valid_cond(ctx, 5) if rng.random() < 0.5 else gen_ahb(ctx)
        for _ in range(rng.randint(1, 3)):
            base = mutate(ctx, base)
        cases.append(("mutated", base))
    maxlen = ctx.pick(3, 4)
    for L in range(0, maxlen + 1):
        for tup in itertools.product(ALPHABET, repeat=L):
            cases.append(("short-exhaustive", "".join(tup)))
    ctx.coverage["short_strings_exhaustive_up_to"] = maxlen
    # everything that can stand between [ and ] (atoms are where most of the lexical rules live)
    inner = ctx.pick(3, 4)
    for L in range(0, inner + 1):
        for tup in itertools.product(ALPHABET, repeat=L):
            w = "".join(tup)
            cases.append(("bracket-exhaustive", "[" + w + "]"))
            if L == inner and rng.random() < 0.15:
                cases.append(("bracket-exhaustive", "Muss[" + w + "]"))
    ctx.coverage["bracket_contents_exhaustive_up_to"] = inner
    # atoms written with characters the regex engine may treat like digits / letters (Unicode digits, case-fold partners)
    odd = ["1", "P", ".", " ", "٣", "１", "²", "۵", "K", "ſ", "ᛔ"]
    for L in range(1, 4):
        for tup in itertools.product(odd, repeat=L):
            w = "".join(tup)
            if any(ord(ch) > 127 for ch in w):
                cases.append(("unicode-atoms", "[" + w + "]"))
                if L <= 2:
                    cases.append(("unicode-atoms", "Muss [" + w + "]"))
                    cases.append(("unicode-atoms", "[1P" + w + "..2]"))
                    cases.append(("unicode-atoms", "[1P1.." + w + "]"))
    for _ in range(ctx.pick(1500, 20000)):
        L = rng.randint(maxlen + 1, 9)
        cases.append(("random", "".join(rng.choice(ALPHABET) for _ in range(L))))
    for _ in range(ctx.pick(300, 3000)):
        L = rng.randint(1, 7)
        cases.append(("unicode", "".join(rng.choice(ALPHABET + UNICODE + list("ussollan")) for _ in range(L))))
    # blanks that Python's \s / str.strip know but Lark's WS does not, at the edges of condition parts and between tokens
    import re
    exotic = [chr(i) for i in range(0x3100) if (chr(i).isspace() or re.fullmatch(r"\s", chr(i))) and chr(i) not in " \t\f\r\n"]
    ctx.coverage["exotic_blanks"] = len(exotic)
    for c in exotic:
        for shape in ("Muss{c}[1]", "Muss[1]{c}", "Muss [1] Soll{c}[2]", "Muss[1]{c}Soll[2]", "X{c}[1]", "X[1]{c}", "Muss{c}", "{c}Muss[1]", "[1]{c}U[2]", "{c}[1]", "[1]{c}",
                      "Muss [1]{c}U [2]", "Muss{c} [1]", "Muss [1] {c}"):
            cases.append(("exotic-blank", shape.replace("{c}", c)))
    # near misses of every kind of atom: time conditions outside UB1-3 or in another case / spacing, package and repeatability spellings
    for w in (["UB%d" % d for d in range(10)] + ["UB", "UB12", "UB01", "ub1", "Ub2", "uB3", "UB 1", "U B1", "UB1 ", " UB3", "UBA", "UB-1", "B1", "U1"]
              + ["1P", "1p", "12 P", "P", "P1", "1PP", "01P", "1P0..1", "1P0..0", "1P2..1", "1P..2", "1P1.2", "1P1...2", "1P1..2..3", "1P 1..2", "1P1 ..2", "1P1.. 2", "1P-1..2", "1P1..02"]):
        cases.append(("atom-variants", "[" + w + "]"))
        cases.append(("atom-variants", "Muss [" + w + "]"))
        cases.append(("atom-variants", "[1] U [" + w + "]"))
    cases.append(("deep", "(" * 300 + "[1]" + ")" * 300))
    cases.append(("deep", "(" * 300 + "[1]" + ")" * 299))
    cases.append(("long-key", "[" + "7" * 4400 + "]"))
    cases.append(("long-key", "Muss[" + "7" * 4400 + "P 1..2]"))
    return cases


import re as _re

# the documented atoms, written down independently of the code's terminals: ASCII digits for keys and package numbers
# (DESIGN §3.3: the repeatability a..b is read with the engine's \d), whitespace = the five characters of Lark's WS
_DOC_ATOM = _re.compile(r"[ \t\f\r\n]*(?:[0-9]+|[0-9]+P(?:[ \t\f\r\n]*\d+\.\.[1-9]\d*)?|UB[123])[ \t\f\r\n]*")


def documented_single_atom(s: str):
    """for strings of the form '[' w ']' : is w a documented key / package / time condition? (None if s is not of that form)"""
    if len(s) >= 2 and s[0] == "[" and s[-1] == "]" and "[" not in s[1:] and "]" not in s[:-1]:
        return _DOC_ATOM.fullmatch(s[1:-1]) is not None
    return None


async def _is_valid(s: str):
    from ahbicht.content_evaluation import is_valid_expression

    return await is_valid_expression(s, evalenv.set_cer)


def run(ctx: Ctx) -> None:
    ctx.rule = ("valid condition / AHB expressions, AHB expressions with one corrupted part, 1-3 character-level mutations, all strings up to length "
                "3/4 over a 15-symbol alphabet (exhaustive), random strings, a Unicode stream, near misses of time-condition / package / repeatability atoms; every non-WS blank character (\\s / str.isspace) in 14 positions; three entry points + validity check each; "
                "non-trivial = not the empty string; distinct strings counted")
    ctx.coverage["generated_changed"] = extract.regenerate(["CharClasses", "Grammar"])
    ok = ctx.lean_build(MODULES)
    drv = ctx.lean_build_driver()
    if ok:
        ctx.lean_audit(MODULES)
        if not ctx.quick:
            ctx.lean_check_olean(MODULES)
    evalenv.configure_cer_based()
    cases = gather(ctx)
    seen = set()
    uniq = []
    for st, s in cases:
        if s not in seen:
            seen.add(s)
            uniq.append((st, s))
    cases = uniq
    impl_rows = []
    for stream, s in cases:
        ctx.case(s, nontrivial=bool(s))
        ctx.count("stream", stream)
        c = P.parse_cond(s)
        a = P.parse_ahb(s)
        r = P.resolve(s, replace_time_conditions=False)
        r_default = P.resolve(s)
        row = {"cond": c.get("flat", c.get("err")), "ahb": a.get("parts", a.get("err")), "resolve": r.get("shape", r.get("err")),
               "resolve_default": "tree" if "lark" in r_default else r_default["err"]}
        for entry in ("cond", "ahb", "resolve", "resolve_default"):
            v = row[entry]
            cls = v if isinstance(v, str) else "tree"
            ctx.count("outcome:" + entry, cls)
            if isinstance(v, str) and v.startswith("other:"):
                ctx.violation(f"{entry} parser lets {v[6:]} escape instead of SyntaxError", {"entry": entry, "s": s, "outcome": v},
                              key=f"escape:{entry}:{v}:{'ahb-shaped' if 'parts' in a else 'other'}")
        # validity check: malformed input must be reported as (False, message), never raise
        if row["resolve_default"] != "tree":
            try:
                res = asyncio.run(_is_valid(s))
                if row["resolve_default"] == "SyntaxError" and not (res[0] is False and isinstance(res[1], str)):
                    ctx.violation("is_valid_expression does not report malformed input as (False, message)", {"entry": "is_valid_expression", "s": s, "got": repr(res)},
                                  key=f"isvalid:{s}")
            except BaseException as e:  # pylint:disable=broad-except
                if row["resolve_default"] != "tree":
                    ctx.violation(f"is_valid_expression raises {type(e).__name__} on malformed input", {"entry": "is_valid_expression", "s": s, "raised": type(e).__name__},
                                  key=f"isvalid-raise:{type(e).__name__}:{'ahb-shaped' if 'parts' in a else 'other'}")
        # an AHB expression whose indicator structure is fine but whose condition part is malformed is rejected too (both sides: the real parsers)
        if "parts" in a and isinstance(row["resolve"], list):
            for part in a["parts"]:
                if part[0] == "part" and "err" in P.parse_cond(part[3]):
                    ctx.violation("the resolver accepts an AHB expression although one of its condition parts is rejected by the condition parser",
                                  {"entry": "resolve", "s": s, "condition_part": part[3], "condition_parser_says": P.parse_cond(part[3])["err"]}, key=f"badpart:{s}")
                    break
        doc = documented_single_atom(s)
        if doc is not None and (not isinstance(row["cond"], str)) != doc:
            ctx.violation(("something that is not a documented key / package / time condition is accepted" if not doc else "a documented atom is rejected") + " by the condition parser",
                          {"entry": "cond", "s": s, "impl": row["cond"]}, key=f"atom:{'accepted' if not doc else 'rejected'}:{s}")
        impl_rows.append(row)
    for st, s in cases[:2] + [c for c in cases if c[0] == "ahb-bad-part"][:2] + [c for c in cases if c[0] == "unicode"][:2]:
        ctx.sample({"stream": st, "s": s})
    if drv:
        reqs = []
        for _, s in cases:
            reqs += [{"op": "parse", "s": s}, {"op": "scanAhb", "s": s}, {"op": "resolve", "s": s}]
        outs = ctx.driver(reqs)
        n_diff = 0
        for i, ((stream, s), row) in enumerate(zip(cases, impl_rows)):
            m = {"cond": outs[3 * i].get("flat", outs[3 * i].get("err")), "ahb": outs[3 * i + 1].get("parts", outs[3 * i + 1].get("err")),
                 "resolve": outs[3 * i + 2].get("shape", outs[3 * i + 2].get("err"))}
            for entry in ("cond", "ahb", "resolve"):
                iv = row[entry]
                if isinstance(iv, str) and iv.startswith("other:"):
                    continue  # already reported above
                if m[entry] != iv:
                    n_diff += 1
                    acc_m, acc_i = not isinstance(m[entry], str), not isinstance(iv, str)
                    if acc_m != acc_i:
                        what = ("malformed input silently accepted" if acc_i else "documented expression rejected") + f" by the {entry} parser"
                        ctx.violation(what, {"entry": entry, "s": s, "impl": iv, "model(documented language)": m[entry]}, key=f"accept:{entry}:{s}")
                    elif n_diff <= 8:
                        ctx.broke("correspondence", entry, json.dumps({"s": s, "model": m[entry], "impl": iv}, ensure_ascii=False))
        ctx.coverage["correspondence"] = {"lines": len(reqs), "disagreements": n_diff}
    ctx.assumptions += ["inputs are str (the property's quantifier); Lark and re are observed, not modelled internally",
                        "nesting beyond 300 brackets and strings that make the cubic Earley parser run > 60 s are not explored"]


def replay(ctx: Ctx, data) -> int:
    r = data["replay"]
    s = r["s"]
    evalenv.configure_cer_based()
    print("cond:", P.parse_cond(s).get("err", "tree"), "| ahb:", P.parse_ahb(s).get("err", "tree"), "| resolve:", P.resolve(s).get("err", "tree"))
    bad = any(P_(s).get("err", "").startswith("other:") for P_ in (P.parse_cond, P.parse_ahb, P.resolve))
    return 1 if bad else 0
