"""
C12 — results do not depend on the completion order of asynchronous evaluators.

Proof: Properties/C12.lean (gather slots, gather_if_necessary bookkeeping, dict(zip), placeholder pass, context machine: for every
completion order / schedule).  Runtime facts named, not proved: asyncio.gather returns results in argument order and runs every
coroutine as its own task with a copy of the caller's context.
Tie / predicate: T3 over schedules — user evaluators, hint provider and package resolver await a schedule-chosen number of
sleep(0)s; every result is compared with the run in which nothing yields; all permutations for <= 4 awaitables.
"""
from __future__ import annotations

import asyncio
import itertools
import json

from .. import evalenv, evaluation as E, extract, parsing as P, schedules as S, trees as T, valgen as V
from ..common import Ctx

MODULES = ["Ahbicht.Properties.C12"]


def run(ctx: Ctx) -> None:
    from ahbicht.expressions.ahb_expression_evaluation import evaluate_ahb_expression_tree
    from ahbicht.expressions.expression_resolver import parse_expression_including_unresolved_subexpressions
    from ahbicht.utility_functions import gather_if_necessary

    ctx.rule = ("AHB expressions with 1-4 parts, 2-6 requirement keys, hints, format keys, 1-4 package occurrences; per case 8/40 random schedules "
                "(delays 0-6 per awaitable) and, where at most 4 awaitables of a kind take part, ALL completion permutations; gather_if_necessary on mixed lists; 2-4 evaluations run at once, each with its own context-local outcomes / hint texts / messages / package bodies, compared with each run alone; "
                "distinct = (expression, content result, schedule)")
    ctx.coverage["generated_changed"] = extract.regenerate([])
    ok = ctx.lean_build(MODULES)
    drv = ctx.lean_build_driver()
    if ok:
        ctx.lean_audit(MODULES)
        if not ctx.quick:
            ctx.lean_check_olean(MODULES)
    S.configure()
    rng = ctx.rng
    probe = S.probe_runtime(rng)
    ctx.coverage["runtime_assumptions_probed"] = probe
    if not (probe["order_ok"] == probe["context_ok"] == probe["gathers"]):
        from ..common import ToolFailure
        raise ToolFailure(f"this interpreter's asyncio does not behave as the model of C12 assumes: {probe}")
    orders_seen = set()

    # ---- gather_if_necessary itself ------------------------------------------------------------------------
    gin = []
    for _ in range(ctx.pick(200, 2000)):
        n = rng.randint(0, 7)
        items = [("a" if rng.random() < 0.5 else "r", f"v{i}") for i in range(n)]
        delays = [rng.randint(0, 5) for _ in range(n)]

        async def go():
            async def aw(v, d):
                for _ in range(d):
                    await asyncio.sleep(0)
                return v
            return await gather_if_necessary([aw(v, d) if k == "a" else v for (k, v), d in zip(items, delays)])

        got = asyncio.run(go())
        ctx.case(("gin", tuple(items), tuple(delays)), nontrivial=n > 1)
        gin.append((items, got))
        if got != [v for _, v in items]:
            ctx.violation("gather_if_necessary does not return every element's own value in input order", {"items": items, "delays": delays, "got": got}, key="gather_if_necessary")

    # ---- evaluation under schedules ------------------------------------------------------------------------
    g = V.Gen(rng)
    n_sched = ctx.pick(8, 40)
    for _ in range(ctx.pick(60, 500)):
        x = g.expr()
        # make packages likely: the resolver is one of the gathered awaitables
        if rng.random() < 0.5:
            x = {"parts": [["MUSS", "Muss", rng.choice(["[7P] O ([8P] U [9P])", "[8P] U [7P]", "[7P][901] X [9P][902]", "([9P] O [7P]) U [8P] U [1]"])]]}
        s = V.expr_text(x)
        cer = g.cer(p_unknown=0.1)
        cer["packages"] = {"7P": "[1] U [2]", "8P": "[3] O [4]", "9P": "[5]"}
        V.set_cer(cer)

        async def evaluate():
            tree = await parse_expression_including_unresolved_subexpressions(s, resolve_packages=True)
            r = await evaluate_ahb_expression_tree(tree)
            return (P.resolved_shape(tree), str(r.requirement_indicator.value), repr(r.requirement_constraint_evaluation_result), repr(r.format_constraint_evaluation_result))

        # the evaluators are either the content-evaluation-result based ones or evaluate_<key> methods as users write them
        fv = rng.choice([evalenv.FV, evalenv.FV_METHODS])
        ctx.count("evaluators", "evaluate_<key> methods" if fv is evalenv.FV_METHODS else "content-evaluation-result based")

        def run_one(sched):
            evalenv.current_fv.set(fv)
            S.set_schedule(sched)
            try:
                return asyncio.run(evaluate())
            except BaseException as e:  # pylint:disable=broad-except
                return ("raises", type(e).__name__)

        base = run_one({})
        awaitables = list(dict.fromkeys(S.COMPLETIONS))
        scheds = []
        for _ in range(n_sched):
            scheds.append({a: rng.randint(0, 6) for a in awaitables})
        for kind in ("rc", "fc", "hint", "pkg"):
            ks = [a for a in awaitables if a[0] == kind]
            if 2 <= len(ks) <= 4:
                for perm in itertools.permutations(range(len(ks))):
                    scheds.append({a: 2 * perm[i] for i, a in enumerate(ks)})
        for sched in scheds:
            got = run_one(sched)
            order = tuple(S.COMPLETIONS)
            orders_seen.add((s, order))
            ctx.case((s, str(cer["rc"]), tuple(sorted(sched.items()))), nontrivial=len(awaitables) > 1)
            ctx.count("awaitables", str(min(len(awaitables), 12)))
            if got != base:
                ctx.violation("the result depends on the completion order of the asynchronous evaluators / resolvers",
                              {"expression": s, "content_evaluation": cer, "delays": {f"{k}:{v}": d for (k, v), d in sched.items()}, "completion_order": [f"{k}:{v}" for k, v in order],
                               "without_yielding": base, "got": got}, key=f"order:{'pkg' if any(k == 'pkg' and d for (k, _), d in sched.items()) else 'keys'}")
                break
    ctx.coverage["distinct_completion_orders"] = len(orders_seen)

    # ---- several evaluations at once, each with its own context-local data (own outcomes, hint texts, messages, package bodies) ----
    for _ in range(ctx.pick(40, 300)):
        m = rng.randint(2, 4)
        jobs = []
        for j in range(m):
            x = g.expr()
            if rng.random() < 0.5:
                x = {"parts": [["MUSS", "Muss", rng.choice(["[1] U [501] U [502]", "[7P] O ([8P] U [9P])", "[1][901] X [2][902]", "([9P] O [7P]) U [8P] U [501]", "[501] O [502]"])]]}
            cer = g.cer(p_unknown=0.05)
            cer["hints"] = {k: f"Hinweis {k} von {j}" for k in cer["hints"]}
            cer["packages"] = {"7P": rng.choice(["[1] U [2]", "[2] O [3]"]), "8P": rng.choice(["[3] O [4]", "[4]"]), "9P": rng.choice(["[5]", "[1] X [5]"])}
            jobs.append((V.expr_text(x), cer, rng.choice([0, 0, 1, 2, 3, 5])))

        async def one(s, cer, pre):
            S.JOB_DELAY.set(pre * 3)  # this evaluation's requirement evaluators are slower than the others' by a job-specific amount
            for _ in range(pre):
                await asyncio.sleep(0)
            evalenv.set_cer(evalenv.make_cer(rc=cer["rc"], fc={k: (v, None if v else f"fc {k} of this evaluation failed: {cer['hints']['501']}") for k, v in cer["fc"].items()},
                                             hints=cer["hints"], packages=cer["packages"]))
            try:
                tree = await parse_expression_including_unresolved_subexpressions(s, resolve_packages=True)
                r = await evaluate_ahb_expression_tree(tree)
                return (P.resolved_shape(tree), str(r.requirement_indicator.value), repr(r.requirement_constraint_evaluation_result), repr(r.format_constraint_evaluation_result))
            except BaseException as e:  # pylint:disable=broad-except
                return ("raises", type(e).__name__)

        async def alone(job):
            return await asyncio.create_task(one(job[0], job[1], 0))  # (own task: the context-local settings of one job do not reach the next)

        async def together():
            return await asyncio.gather(*[one(*job) for job in jobs])

        evalenv.current_fv.set(rng.choice([evalenv.FV, evalenv.FV_METHODS]))
        S.set_schedule({})
        ref = []
        for job in jobs:
            S.configure()  # fresh evaluator / provider instances: the reference must not depend on what an instance has seen before
            ref.append(asyncio.run(alone(job)))
        S.configure()
        for k in range(ctx.pick(3, 10)):
            S.set_schedule({} if k == 0 else {(kind, key): rng.randint(0, 4) for kind in ("rc", "fc", "hint", "pkg") for key in list(jobs[0][1]["rc"]) + list(jobs[0][1]["fc"]) + list(jobs[0][1]["hints"]) + ["7P", "8P", "9P"]})
            got = asyncio.run(together())
            ctx.case(("concurrent", tuple(j[0] for j in jobs), tuple(str(j[1]["rc"]) for j in jobs), k), nontrivial=True)
            ctx.count("concurrent_evaluations", str(m))
            bad = [j for j in range(m) if got[j] != ref[j]]
            if bad:
                j = bad[0]
                ctx.violation("an evaluation running concurrently with others (each with its own context-local data) does not give the result it gives alone",
                              {"evaluations": [{"expression": q[0], "content_evaluation": q[1], "starts_after_yields": q[2]} for q in jobs], "evaluation": j,
                               "alone": ref[j], "concurrently": got[j], "delays": {f"{a}:{b}": d for (a, b), d in S.SCHEDULE.items() if d}}, key="concurrent-evaluations")
                break

    # ---- the library's own injection helper with a context-local data provider: evaluations for different formats at once -------------------
    import contextvars
    import inject
    from efoli import EdifactFormat
    from ahbicht.content_evaluation.evaluationdatatypes import EvaluatableData
    from ahbicht.content_evaluation.evaluator_factory import create_and_inject_hardcoded_evaluators
    data_var: contextvars.ContextVar = contextvars.ContextVar("vf_evaluatable_data")
    hard = evalenv.make_cer(rc={"1": "F", "2": "U"}, hints={"501": "Hinweis"}, fc={"901": True})

    def fresh_injection():
        inject.clear()
        create_and_inject_hardcoded_evaluators(hard, evaluatable_data_provider=data_var.get, edifact_format=evalenv.FMT, edifact_format_version=evalenv.FV)

    async def fmt_job(fmt, delay):
        for _ in range(delay):
            await asyncio.sleep(0)
        data_var.set(EvaluatableData(body={}, edifact_format=fmt, edifact_format_version=evalenv.FV))
        try:
            tree = await parse_expression_including_unresolved_subexpressions("Muss [1] U [501] Soll [2][901]")
            r = await evaluate_ahb_expression_tree(tree)
            return (str(r.requirement_indicator.value), repr(r.requirement_constraint_evaluation_result.requirement_constraints_fulfilled))
        except BaseException as e:  # pylint:disable=broad-except
            return ("raises", type(e).__name__)

    async def fmt_alone(fmt):
        return await asyncio.create_task(fmt_job(fmt, 0))

    async def fmt_together(fmts, delays):
        return await asyncio.gather(*[fmt_job(f, d) for f, d in zip(fmts, delays)])

    try:
        fmts = [evalenv.FMT, EdifactFormat.MSCONS, evalenv.FMT]
        ref = []
        for f in fmts:
            fresh_injection()
            ref.append(asyncio.run(fmt_alone(f)))
        for _ in range(ctx.pick(12, 60)):
            delays = [rng.randint(0, 4) for _ in fmts]
            order = list(range(len(fmts)))
            rng.shuffle(order)
            fresh_injection()
            got = asyncio.run(fmt_together([fmts[i] for i in order], [delays[i] for i in order]))
            ctx.case(("formats", tuple(order), tuple(delays)))
            if got != [ref[i] for i in order]:
                ctx.violation("concurrent evaluations injected through create_and_inject_hardcoded_evaluators with a context-local data provider do not each see their own data",
                              {"formats": [str(fmts[i]) for i in order], "start_delays": [delays[i] for i in order], "alone": [ref[i] for i in order], "concurrently": got}, key="formats-concurrent")
                break
    finally:
        S.configure()

    # ---- concurrent evaluations taking their data from context-local storage ----------------------------------
    from ahbicht.content_evaluation import is_valid_expression
    for s in ["Muss [1] U [2]", "Muss [1] O [501]", "Muss [983][1] X [984][2]", "Muss ([1] O [2]) U [3][901]", "Soll [1] X [2] Kann [3]"]:
        S.set_schedule({})
        base = asyncio.run(is_valid_expression(s, evalenv.set_cer))
        for k in range(ctx.pick(6, 30)):
            S.set_schedule({(kind, key): rng.randint(0, 5) for kind in ("rc", "fc", "hint") for key in ("1", "2", "3", "501", "901", "983", "984")})
            got = asyncio.run(is_valid_expression(s, evalenv.set_cer))
            ctx.case(("isvalid", s, k))
            if got[0] != base[0]:
                ctx.violation("validity check depends on the interleaving of the concurrently running evaluations", {"expression": s, "without_yielding": base, "got": got}, key="isvalid-interleaving")
        # each of the concurrently running evaluations must be handed its own content evaluation result (the one the setter was called with for it),
        # and the caller's context-local data must still be the caller's afterwards
        sentinel = evalenv.make_cer(rc={"1": "F"})
        handed_to_setter = []

        def spy_setter(cer):
            handed_to_setter.append(cer)
            evalenv.set_cer(cer)

        async def check_with_own_data():
            evalenv.set_cer(sentinel)
            evalenv.provider_log = []
            try:
                res = await is_valid_expression(s, spy_setter)
                return res, list(evalenv.provider_log), evalenv.current_cer.get()
            finally:
                evalenv.provider_log = None

        for k in range(ctx.pick(2, 6)):
            S.set_schedule({(kind, key): rng.randint(0, 4) for kind in ("rc", "fc", "hint") for key in ("1", "2", "3", "501", "901", "983", "984")} if k else {})
            res, seen, after = asyncio.run(check_with_own_data())
            ctx.case(("isvalid-own-data", s, k))
            seen_ids = {id(c) for c in seen}
            not_seen = [c for c in handed_to_setter if id(c) not in seen_ids]
            foreign = [c for c in seen if c is not sentinel and all(c is not h for h in handed_to_setter)]
            if res[0] and handed_to_setter and (not_seen or foreign):
                ctx.violation("the concurrent evaluations of a validity check are not each handed their own context-local content evaluation result",
                              {"expression": s, "results_handed_to_the_setter": len(handed_to_setter), "of_which_never_seen_by_an_evaluation": len(not_seen),
                               "distinct_results_seen": len(seen_ids), "python": "see vf/props/c12.py: check_with_own_data (ContextVar-based setter, provider that logs what it hands out)"},
                              key="isvalid-own-data")
            if after is not sentinel:
                ctx.violation("a validity check overwrites the caller's own context-local evaluatable data",
                              {"expression": s, "callers_data_before": "sentinel result (1 = FULFILLED)", "callers_data_after": "one of the generated results" if after is not None else None}, key="isvalid-caller-data")
            handed_to_setter.clear()
        # negative control: a process-global instead of a context-local setter must be disturbed by the interleavings we generate
    ctx.sample({"gather_if_necessary": gin[:2]})
    if drv:
        outs = ctx.driver({"op": "gatherIfNecessary", "items": [[k, v] for k, v in items]} for items, _ in gin)
        n_diff = sum(1 for (items, got), o in zip(gin, outs) if o["result"] != got)
        if n_diff:
            ctx.broke("correspondence", "gatherIfNecessary", f"{n_diff} disagreements")
        ctx.coverage["correspondence"] = {"gatherIfNecessary": {"lines": len(gin), "disagreements": n_diff}}
    ctx.assumptions += ["asyncio.gather returns results in argument order; every gathered coroutine runs as its own task with a copy of the caller's context (PEP 567)",
                        "inject calls the EvaluatableDataProvider when the wrapped coroutine runs"]


def replay(ctx: Ctx, data) -> int:
    print(data["replay"])
    return 1
