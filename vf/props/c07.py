"""
C07 — the collected format-constraint expression is well-formed and meaning-preserving.

Proof: Properties/C07.lean (AST-level: value of the collected expression = fcSem for every tree and assignment).
Tie: T3 — presence/absence of the string, flat of its parse, key set, and its value under every truth assignment gate;
the character-by-character layout is advisory.
"""
from __future__ import annotations

import itertools
import json

from .. import evalenv, evaluation as E, extract, parsing as P, trees as T
from ..common import Ctx
from . import _evalcommon as EC
from .c08 import bool_sem

MODULES = ["Ahbicht.Properties.C07", "Ahbicht.Properties.C07Str"]


def comb(op, a, b):
    if a is None:
        return b
    if b is None:
        return a
    return {T.AND: a and b, T.OR: a or b, T.XOR: a != b}[op]


def fc_sem(e, rc, fc):
    """the direct reading of the source expression (None = contributes nothing)"""
    if e[0] == "cond":
        return fc[e[1]] if E.kind_of(e[1]) == "fc" else None
    a, b = e[1], e[2]
    if e[0] == T.THEN:
        if a[0] == "cond" and E.kind_of(a[1]) == "fc":
            f, x = a, b
        else:
            f, x = b, a
        # what is attached: a single format key, or (to the right of its operand) a bracketed group of format keys joined by U/O/X
        attached = fc[f[1]] if f[0] == "cond" else bool_sem(f, fc)
        if E.denote(x, rc) == "F" or (x[0] == "cond" and E.kind_of(x[1]) == "hint"):
            return comb(T.AND, attached, fc_sem(x, rc, fc))
        return None
    return comb(e[0], fc_sem(a, rc, fc), fc_sem(b, rc, fc))


def run(ctx: Ctx) -> None:
    ctx.rule = ("valid well-formed trees (exhaustive up to 3/4 leaves over {1,2,900,901}, random up to 7/9 leaves with <=3 format keys); all 3^m requirement "
                "assignments (sampled beyond 81/243) x ALL 2^n truth assignments of the format keys; distinct = (tree, rc assignment); non-trivial = has a format key")
    ctx.coverage["generated_changed"] = extract.regenerate(["Cfv", "CharClasses"])
    ok = ctx.lean_build(MODULES)
    drv = ctx.lean_build_driver()
    if ok:
        ctx.lean_audit(MODULES)
        if not ctx.quick:
            ctx.lean_check_olean(MODULES)
    exprs = [(s, e) for s, e in EC.gen_exprs(ctx, ctx.pick(300, 3000), ctx.pick(7, 9), ctx.pick(3, 4)) if E.well_formed(e) and not E.invalid_at(e)]
    # format-constraint-heavy stream: compound contributions on both sides of every operator
    def fc_leaf(r):
        f = ("cond", r.choice(E.FC_KEYS[:3] + ["950"]))
        if r.random() < 0.4:
            x = ("cond", r.choice(E.RC_KEYS[:3]))
            return (T.THEN, x, f) if r.random() < 0.7 else (T.THEN, f, x)
        return f
    for _ in range(ctx.pick(400, 4000)):
        e = T.rand_expr(ctx.rng, ctx.rng.randint(3, ctx.pick(8, 10)), fc_leaf, (T.AND, T.OR, T.XOR))
        if E.well_formed(e) and not E.invalid_at(e) and len(E.keys_by_kind(e)["rc"]) <= 3:
            exprs.append(("fc-heavy", e))
    cases = EC.rc_cases(ctx, exprs, ctx.pick(81, 243))
    EC.run_impl_and_model(ctx, cases, drv)
    E.configure(ctx.rng)  # evaluators / providers suspend under a random schedule half of the time
    parse_cache = {}
    n_meaning = 0
    for c in cases:
        e, i = c["e"], c["impl"]
        fkeys = E.keys_by_kind(e)["fc"]
        ctx.case((T.to_json(e), sorted(c["rc"].items())), nontrivial=bool(fkeys))
        s0 = T.render(e, T.Style(ctx.rng, "min", "upper", "one")).strip()
        if "err" in i:
            ctx.violation(f"valid expression raises {i['exc']}", {"tree": T.to_json(e), "string": s0, "rc": c["rc"]}, key=f"raise:{T.to_json(e)}")
            continue
        fce = i["fce"]
        ctx.count("fce", "absent" if fce is None else "present")
        ctx.count("stream", c["stream"])
        sems = {vals: fc_sem(e, c["rc"], dict(zip(fkeys, vals))) for vals in itertools.product([True, False], repeat=len(fkeys))}
        contributes = any(v is not None for v in sems.values())
        if (fce is None) != (not contributes):
            ctx.violation("collected format-constraint expression " + ("missing although format constraints take part" if fce is None else "present although nothing takes part"),
                          {"tree": T.to_json(e), "string": s0, "rc": c["rc"], "fce": fce}, key=f"absent:{T.to_json(e)}:{sorted(c['rc'].items())}")
            continue
        if fce is None:
            continue
        if fce not in parse_cache:
            parse_cache[fce] = P.parse_cond(fce)
        p = parse_cache[fce]
        if "err" in p:
            ctx.violation("collected format-constraint expression is not well-formed", {"tree": T.to_json(e), "string": s0, "rc": c["rc"], "fce": fce}, key=f"wf:{fce}")
            continue
        ft = T.from_json(p["tree"])
        lv = T.leaves(ft)
        if not all(l[0] == "cond" and l[1] in fkeys for l in lv) or T.THEN in json.dumps(p["tree"]):
            ctx.violation("collected expression uses something else than format keys of the source joined by U/O/X", {"tree": T.to_json(e), "string": s0, "fce": fce}, key=f"keys:{fce}")
            continue
        c["fce_flat"] = p["flat"]
        for vals, want in sems.items():
            env = dict(zip(fkeys, vals))
            got = bool_sem(ft, env)
            n_meaning += 1
            if got != want:
                ctx.violation("value of the collected expression differs from the direct reading of the source",
                              {"tree": T.to_json(e), "string": s0, "rc": c["rc"], "fce": fce, "fc": env, "expected": want, "got": got},
                              key=f"meaning:{T.to_json(e)}:{sorted(c['rc'].items())}")
                break
        # and the real format_constraint_evaluation on the real string, one assignment per case
        vals = ctx.rng.choice(list(sems))
        env = dict(zip(fkeys, vals))
        r = E.eval_fc_string(fce, {k: (v, None if v else "x") for k, v in env.items()})
        if r.get("ok") != sems[vals]:
            ctx.violation("format_constraint_evaluation of the collected expression differs from the direct reading",
                          {"tree": T.to_json(e), "string": s0, "rc": c["rc"], "fce": fce, "fc": env, "expected": sems[vals], "got": r}, key=f"fceval:{T.to_json(e)}:{sorted(c['rc'].items())}")
    # a bracketed GROUP of format constraints attached (without operator) to the right of an operand, e.g. "[1]([901] O [902])": the model's domain has a
    # single key on one side of every juxtaposition, so this shape is checked on the implementation only, with the same direct reading
    n_group = 0
    for _ in range(ctx.pick(150, 1500)):
        rng = ctx.rng
        x = rng.choice([("cond", "1"), ("cond", "2"), ("cond", "501"), (T.AND, ("cond", "1"), ("cond", "2")), (T.OR, ("cond", "1"), ("cond", "3"))])
        grp = T.rand_expr(rng, rng.randint(2, 3), lambda r: ("cond", r.choice(E.FC_KEYS[:3])), (T.AND, T.OR, T.XOR))
        e = (T.THEN, x, grp)
        r = rng.random()
        if r < 0.25:
            e = (rng.choice([T.AND, T.OR]), e, ("cond", "4"))
        elif r < 0.4:
            e = (T.AND, (T.THEN, ("cond", "4"), ("cond", "950")), e)
        elif r < 0.5 and x != ("cond", "501"):  # (a second attachment onto a hint that already carries a group is not implemented by the library)
            e = (T.THEN, e, ("cond", "950"))
        if E.invalid_at(e):
            continue
        fkeys = E.keys_by_kind(e)["fc"]
        s0 = T.render(e, T.Style(rng, "min", "upper", "between")).strip()
        for a in E.assignments(E.keys_by_kind(e)["rc"], "FUK", rng, 27):
            i = E.eval_rc(T.to_lark(e), a, EC.hints_for(e))
            n_group += 1
            ctx.case(("attached-group", T.to_json(e), sorted(a.items())), nontrivial=True)
            if "err" in i:
                ctx.violation(f"expression with an attached group of format constraints raises {i['exc']}", {"string": s0, "rc": a}, key=f"group-raise:{s0}")
                break
            sems = {vals: fc_sem(e, a, dict(zip(fkeys, vals))) for vals in itertools.product([True, False], repeat=len(fkeys))}
            fce = i["fce"]
            if (fce is None) != all(v is None for v in sems.values()):
                ctx.violation("collected format-constraint expression " + ("missing although format constraints take part" if fce is None else "present although nothing takes part"),
                              {"string": s0, "rc": a, "fce": fce}, key=f"group-absent:{s0}:{sorted(a.items())}")
                break
            if fce is None:
                continue
            pf = P.parse_cond(fce)
            if "err" in pf:
                ctx.violation("collected format-constraint expression is not well-formed", {"string": s0, "rc": a, "fce": fce}, key=f"group-wf:{fce}")
                break
            ft = T.from_json(pf["tree"])
            bad = next((vals for vals, want in sems.items() if bool_sem(ft, dict(zip(fkeys, vals))) != want), None)
            if bad is not None:
                ctx.violation("value of the collected expression differs from the direct reading of the source",
                              {"string": s0, "rc": a, "fce": fce, "fc": dict(zip(fkeys, bad)), "expected": sems[bad]}, key=f"group-meaning:{s0}:{sorted(a.items())}")
                break
    ctx.coverage["attached_group_checks"] = n_group
    ctx.coverage["meaning_checks"] = n_meaning
    # correspondence: presence and flat(parse) gate, layout advisory
    n_diff = 0
    if drv:
        reqs, idx = [], []
        for k, c in enumerate(cases):
            m = c.get("model", {})
            if m.get("fce") is not None:
                reqs.append({"op": "parse", "s": m["fce"]})
                idx.append(k)
        outs = ctx.driver(reqs) if reqs else []
        mflat = {k: o.get("flat", o.get("err")) for k, o in zip(idx, outs)}
        for k, c in enumerate(cases):
            i, m = c["impl"], c.get("model", {})
            if "err" in i or "err" in m:
                continue
            if (i["fce"] is None) != (m["fce"] is None) or (i["fce"] is not None and c.get("fce_flat") != mflat.get(k)):
                n_diff += 1
                if n_diff <= 6:
                    ctx.broke("correspondence", "fce", json.dumps({"e": T.to_json(c["e"]), "rc": c["rc"], "impl": i["fce"], "model": m["fce"]}))
            elif i["fce"] != m["fce"]:
                ctx.advise({"e": T.to_json(c["e"]), "impl": i["fce"], "model": m["fce"]})
    ctx.coverage.setdefault("correspondence", {})["fce"] = {"lines": len(cases), "disagreements": n_diff}
    EC.compare(ctx, cases, gate=["fulfilled", "conditional"], advisory=["hints"], name="evalRc")
    for c in [c for c in cases if c["impl"].get("fce")][:: max(1, len(cases) // 6)][:6]:
        ctx.sample({"tree": T.to_json(c["e"]), "rc": c["rc"], "fce": c["impl"]["fce"]})


def replay(ctx: Ctx, data) -> int:
    evalenv.configure_cer_based()
    r = data["replay"]
    e = T.from_json(r["tree"])
    i = E.eval_rc(T.to_lark(e), r["rc"], EC.hints_for(e))
    print("impl fce:", i.get("fce"), "recorded:", r.get("fce"))
    return 1
