"""
C01 — condition expressions are grouped by the documented operator precedence.

Proof: Properties/C01.lean (Written → parse = e modulo flat; spelling/whitespace; redundant brackets).
Tie: T2 grammar data = the grammar modelled; T3 flat(Lark tree) = flat(model tree) on generated strings.
Predicate on the implementation: every rendering of one tree yields flat-equal Lark trees equal to flat(e).
"""
from __future__ import annotations

import itertools
import json
from pathlib import Path

from .. import extract, parsing as P, trees as T
from ..common import Ctx, VERIF

MODULES = ["Ahbicht.Properties.Grammar", "Ahbicht.Properties.C01", "Ahbicht.Properties.C01Every"]
CORPUS = VERIF / "corpus" / "C01.jsonl"


def _styles(ctx: Ctx):
    rng = ctx.rng
    yield "min", T.Style(rng, "min", "upper", "none")
    yield "min-ws", T.Style(rng, "min", "rand", "rand")
    yield "rand", T.Style(rng, "rand", "rand", "rand")
    yield "max", T.Style(rng, "max", "rand", "one")


def gather_cases(ctx: Ctx):
    """[(stream, string, expected_flat_json | None)]"""
    rng = ctx.rng
    cases = []
    # A: exhaustive sweep over all separator sequences
    maxlen = ctx.pick(5, 6)
    for L in range(0, maxlen + 1):
        for seps in itertools.product(T.OPS, repeat=L):
            st = T.Style(rng, "min", "rand", "rand" if rng.random() < 0.5 else "none")
            cases.append(("sweep", T.render_chain(seps, st), T.flat_json(T.chain_expr(seps))))
    ctx.coverage["sweep_exhaustive_up_to_separators"] = maxlen
    # B: random trees, several renderings each
    n_trees = ctx.pick(250, 1500)
    max_leaves = ctx.pick(14, 30)
    for _ in range(n_trees):
        n = rng.randint(1, max_leaves) if rng.random() < 0.8 else rng.randint(1, 4)
        e = T.rand_expr(rng, n)
        want = T.flat_json(e)
        for name, st in _styles(ctx):
            cases.append(("tree:" + name, T.render(e, st), want))
        ctx.count("tree_leaves", str(min(n, 40) // 5 * 5))
    # D: long alternating chains, all 24 orders of the four separators
    length = ctx.pick(24, 60)
    for perm in itertools.permutations(T.OPS):
        seps = [perm[i % 4] for i in range(length)]
        st = T.Style(rng, "min", "rand", "one")
        cases.append(("long", T.render_chain(seps, st), T.flat_json(T.chain_expr(seps))))
    # C: corpus (past failures, strings of the repo's own tests)
    if CORPUS.exists():
        for line in CORPUS.read_text(encoding="utf-8").splitlines():
            if line.strip():
                cases.insert(0, ("corpus", json.loads(line)["s"], None))
    return cases


def run(ctx: Ctx) -> None:
    ctx.rule = ("strings generated from random trees (1..14/30 leaves; keys of all ranges, packages with/without repeatability, UB1-3) in four "
                "bracket/spelling/whitespace styles, the exhaustive sweep of all separator sequences up to length 5/6, 24 long alternating chains, corpus; "
                "distinct = distinct strings, non-trivial = at least one operator or bracket")
    changed = extract.regenerate(["CharClasses", "Grammar"])
    ctx.coverage["generated_changed"] = changed
    ok = ctx.lean_build(MODULES)
    drv = ctx.lean_build_driver()
    if ok:
        ctx.lean_audit(MODULES)
        if not ctx.quick:
            ctx.lean_check_olean(MODULES)
    cases = gather_cases(ctx)
    impl_out = []
    import re as _re
    for idx, (stream, s, want) in enumerate(cases):
        if want is not None and idx % 3 == 0:
            # a user mistypes first and corrects then: the same expression with a blank inside its first multi-digit key (malformed) is parsed just before
            m = _re.search(r"\[\s*(\d)(\d+)", s)
            if m:
                P.parse_cond(s[:m.start(1)] + m.group(1) + " " + m.group(2) + s[m.end():])
                ctx.count("stream", "mistyped-twin-first")
        r = P.parse_cond(s)
        impl_out.append(r)
        ctx.case(s, nontrivial=any(ch in s for ch in "UuOoXx∧∨⊻(") or "][" in s.replace(" ", ""))
        ctx.count("stream", stream.split(":")[0])
        if "err" in r:
            ctx.count("outcome", r["err"])
            if want is not None:
                ctx.violation(f"well-formed expression rejected with {r['err']}", {"entry": "parse_condition_expression_to_tree", "s": s, "expected_flat": want,
                              "parser_calls_before (parser, string, by keyword)": P.recent()[:-1]}, key=f"reject:{s}")
            continue
        ctx.count("outcome", "tree")
        if want is not None and r["flat"] != want:
            ctx.violation("grouping differs from the documented precedence",
                          {"entry": "parse_condition_expression_to_tree", "s": s, "expected_flat": want, "got_flat": r["flat"],
                           "passed_by_keyword": P._by_keyword(s), "parser_calls_before (parser, string, by keyword)": P.recent()[:-1]}, key=f"group:{s}")
    for _, s, want in cases[:3] + cases[-2:]:
        ctx.sample({"s": s, "flat": want})
    if drv:
        outs = ctx.driver({"op": "parse", "s": s} for _, s, _ in cases)
        n_diff = 0
        for (stream, s, want), mo, io in zip(cases, outs, impl_out):
            m = mo.get("flat", mo.get("err"))
            i = io.get("flat", io.get("err"))
            if m != i:
                n_diff += 1
                if n_diff <= 5:
                    ctx.broke("correspondence", "parse", json.dumps({"s": s, "model": m, "impl": i}, ensure_ascii=False))
        ctx.coverage["correspondence_parse"] = {"lines": len(cases), "disagreements": n_diff}
    ctx.assumptions += ["Lark's Earley engine, dynamic lexer and forest resolution are observed through the correspondence, not derived",
                        "chains beyond 40/80 operands are not run on the implementation (cubic parser); the theorem has no bound"]


def replay(ctx: Ctx, data) -> int:
    r = data["replay"]
    for which, s0, _ in r.get("parser_calls_before (parser, string, by keyword)", []):
        (P.parse_cond if which == "cond" else P.parse_ahb)(s0)
    out = P.parse_cond(r["s"])
    print("impl:", out.get("flat", out.get("err")))
    print("expected:", r.get("expected_flat"))
    return 0 if out.get("flat") == r.get("expected_flat") else 1
