"""
C18 — key extraction partitions keys by range; all possible evaluations enumerated.

Proof: Properties/C18.lean (range table on 0..3000 = documented ranges; partition; sanitize sorted/nodup; union;
product = combinations-of-product, every combination once).  Finding K2: no keys at all gives [] instead of [∅].
Tie: T1 (derive_condition_node_type on 0..3000), T3 (large numbers, leading zeros, extraction, __add__, generation as multisets).
"""
from __future__ import annotations

import asyncio
import itertools
import json

from .. import evalenv, extract, parsing as P, trees as T
from ..common import Ctx

MODULES = ["Ahbicht.Properties.C18"]
K2_KEY = "K2:generate_possible_content_evaluation_results:no-keys"


def doc_type(n: int):
    if 1 <= n <= 499:
        return "REQUIREMENT_CONSTRAINT"
    if 2000 <= n <= 2499:
        return "REPEATABILITY_CONSTRAINT"
    if 500 <= n <= 900:
        return "HINT"
    if 901 <= n <= 999:
        return "FORMAT_CONSTRAINT"
    return "ValueError"


def doc_cat(k: str):
    t = doc_type(int(k))
    return {"REQUIREMENT_CONSTRAINT": "rc", "REPEATABILITY_CONSTRAINT": "rc", "HINT": "hint", "FORMAT_CONSTRAINT": "fc"}.get(t)


def leaf(rng):
    r = rng.random()
    if r < 0.12:
        return ("pkg", f"{rng.randint(1, 99)}P", None if rng.random() < 0.5 else "0..1")
    if r < 0.2:
        return ("time", "UB" + rng.choice("123"))
    kind = rng.choice(["rc", "rc", "hint", "fc", "rc2000"])
    return ("cond", T.rand_key(rng, kind))


def tie_leaf(rng):
    """few numbers in several spellings ('1', '01', '001'): repeated keys separated by numerically equal, differently spelt ones"""
    n = rng.choice([1, 2, 7, 501, 502, 901, 950, 2001])
    return ("cond", "0" * rng.choice([0, 0, 0, 1, 1, 2]) + str(n))


def extract_dict(x):
    return {"hint": list(x.hint_keys), "fc": list(x.format_constraint_keys), "rc": list(x.requirement_constraint_keys),
            "pkg": list(x.package_keys), "time": list(x.time_condition_keys)}


def canon_ties(d):
    """numerically equal keys ('7', '007') come in set-iteration order: compare such ties as multisets"""
    out = {}
    for f, l in d.items():
        if f in ("pkg", "time"):
            out[f] = list(l)
        else:
            groups = [sorted(g) for _, g in itertools.groupby(l, key=int)]
            out[f] = [k for g in groups for k in g]
    return out


def run(ctx: Ctx) -> None:
    from ahbicht.condition_node_distinction import derive_condition_node_type
    from ahbicht.expressions.condition_expression_parser import extract_categorized_keys, extract_categorized_keys_from_tree
    from ahbicht.models.categorized_key_extract import CategorizedKeyExtract

    ctx.rule = ("all numbers 0..3000 (exhaustive, by extraction) + boundary neighbours with leading zeros + random large numbers; random expressions (30% over a few numbers in several zero-padded spellings, so that repeats are separated by numeric ties) for "
                "extraction / sanitising / union; generated results for all m<=3/4 requirement and n<=3/4 format keys compared with the product as multisets")
    ctx.coverage["generated_changed"] = extract.regenerate(["NodeTypes"])
    ok = ctx.lean_build(MODULES)
    drv = ctx.lean_build_driver()
    if ok:
        ctx.lean_audit(MODULES)
        if not ctx.quick:
            ctx.lean_check_olean(MODULES)
    evalenv.configure_cer_based()
    rng = ctx.rng
    # --- ranges -----------------------------------------------------------------------------------------
    keys = [str(n) for n in range(0, 3001)]
    for b in (1, 499, 500, 900, 901, 999, 1000, 1999, 2000, 2499, 2500):
        for d in (-1, 0, 1):
            if b + d >= 0:
                keys += ["0" * z + str(b + d) for z in (1, 2, 5)]
    keys += [str(rng.randint(3001, 10 ** rng.randint(4, 30))) for _ in range(ctx.pick(300, 3000))]
    impl_types = []
    for k in keys:
        try:
            t = str(derive_condition_node_type(k).value)
        except ValueError:
            t = "ValueError"
        except Exception as e:  # pylint:disable=broad-except
            t = "other:" + type(e).__name__
        impl_types.append(t)
        ctx.case(("type", k))
        ctx.count("node_type", t)
        if t != doc_type(int(k)):
            ctx.violation("key is put into the wrong category for its number range", {"key": k, "derive_condition_node_type": t, "documented": doc_type(int(k)),
                          "python": f"from ahbicht.condition_node_distinction import derive_condition_node_type as d; print(d({k!r}))"}, key=f"range:{k}")
    # --- extraction ---------------------------------------------------------------------------------------
    rows = []
    for _ in range(ctx.pick(300, 3000)):
        e = T.rand_expr(rng, rng.randint(1, 9), tie_leaf if rng.random() < 0.3 else leaf)
        if rng.random() < 0.3:  # force repetitions
            e = (rng.choice([T.AND, T.OR]), e, rng.choice([e, T.rand_expr(rng, 2, leaf)]))
        tree = T.to_lark(e)
        ctx.case(("extract", T.to_json(e)), nontrivial=not T.is_leaf(e))
        try:
            x = extract_dict(extract_categorized_keys_from_tree(tree, sanitize=True))
            raw = extract_dict(extract_categorized_keys_from_tree(tree, sanitize=False))
        except Exception as ex:  # pylint:disable=broad-except
            ctx.violation(f"extraction raises {type(ex).__name__}", {"tree": T.to_json(e)}, key=f"extract-raise:{T.to_json(e)}")
            continue
        rows.append((e, x, raw))
        conds = [l[1] for l in T.leaves(e) if l[0] == "cond"]
        for k in set(conds):
            where = [f for f in ("rc", "hint", "fc") if k in x[f]]
            if where != [doc_cat(k)]:
                ctx.violation("a key is not in exactly the category of its range", {"tree": T.to_json(e), "key": k, "found_in": where, "documented": doc_cat(k)}, key=f"partition:{k}")
        for f in ("rc", "hint", "fc"):
            ints = [int(k) for k in x[f]]
            if ints != sorted(ints) or len(set(x[f])) != len(x[f]) or set(x[f]) != {k for k in conds if doc_cat(k) == f}:
                ctx.violation("sanitised key list is not 'every key once, ascending'", {"tree": T.to_json(e), "category": f, "got": x[f]}, key=f"sorted:{T.to_json(e)}:{f}")
        if set(x["pkg"]) != {l[1] for l in T.leaves(e) if l[0] == "pkg"} or set(x["time"]) != {l[1] for l in T.leaves(e) if l[0] == "time"}:
            ctx.violation("package / time condition keys are not categorised by token type", {"tree": T.to_json(e), "got": x}, key=f"tokens:{T.to_json(e)}")
        if not T.is_leaf(e):
            xl = extract_categorized_keys_from_tree(T.to_lark(e[1]), sanitize=True)
            xr = extract_categorized_keys_from_tree(T.to_lark(e[2]), sanitize=True)
            before = (extract_dict(xl), extract_dict(xr))
            s = extract_dict(xl + xr)
            s_again = extract_dict(xl + xr)  # the summands are used again: a sum must not depend on what was added before
            if (extract_dict(xl), extract_dict(xr)) != before or canon_ties(s_again) != canon_ties(s):
                ctx.violation("adding two extracts changes a summand / the same sum computed twice differs",
                              {"tree": T.to_json(e), "summands_before": before, "summands_after": [extract_dict(xl), extract_dict(xr)], "sum": s, "sum_again": s_again},
                              key=f"summand:{T.to_json(e)}")
                continue
            if canon_ties(s) != canon_ties(x):
                ctx.violation("extract of a composed expression is not the union of the extracts of its parts", {"tree": T.to_json(e), "sum": s, "whole": x}, key=f"union:{T.to_json(e)}")
    # through the string entry point, with and without resolution
    for _ in range(ctx.pick(40, 400)):
        e = T.rand_expr(rng, rng.randint(1, 6), leaf)
        s = T.render(e, T.Style(rng, "min", "rand", "one")).strip()
        pk = {l[1]: rng.choice(["[1] U [502]", "[UB1] U [21]", "[3] O [UB3]", "[7][UB2]", "[22] X [950]"]) for l in T.leaves(e) if l[0] == "pkg"}
        evalenv.set_cer(evalenv.make_cer(packages=pk))
        # the extract of the resolved expression = the union of the extracts of what the abbreviations stand for = the extract of the textually substituted expression
        from .c10 import substituted
        st0 = T.Style(rng, "min", "upper", "one")
        try:
            via_text = P.parse_cond(substituted(e, pk, st0, True, True))
            want_text = extract_dict(extract_categorized_keys_from_tree(via_text["lark"], sanitize=True)) if "err" not in via_text else None
            got_res = extract_dict(asyncio.run(extract_categorized_keys(s, resolve_packages=True, replace_time_conditions=True)))
        except Exception as ex:  # pylint:disable=broad-except
            want_text, got_res = None, None
            ctx.violation(f"extract_categorized_keys raises {type(ex).__name__}", {"s": s, "packages": pk}, key=f"extract-res:{s}")
        if want_text is not None and canon_ties(got_res) != canon_ties(want_text):
            ctx.violation("the extract of an expression with packages / time conditions is not the union of the extracts of what they stand for",
                          {"s": s, "packages": pk, "extract": got_res, "extract_of_substituted_text": want_text}, key=f"extract-union:{s}")
        for rp, rt in ((False, False), (True, True)):
            try:
                x = extract_dict(asyncio.run(extract_categorized_keys(s, resolve_packages=rp, replace_time_conditions=rt)))
            except Exception as ex:  # pylint:disable=broad-except
                ctx.violation(f"extract_categorized_keys raises {type(ex).__name__}", {"s": s, "resolve": rp}, key=f"extract-str:{s}")
                continue
            ctx.case(("extract-str", s, rp))
            if not rp:
                # without resolution the extract lists exactly what is written (whatever was parsed or resolved before)
                lv = T.leaves(e)
                written = {"pkg": {l[1] for l in lv if l[0] == "pkg"}, "time": {l[1] for l in lv if l[0] == "time"}}
                for f in ("rc", "hint", "fc"):
                    written[f] = {l[1] for l in lv if l[0] == "cond" and doc_cat(l[1]) == f}
                if {f: set(v) for f, v in x.items()} != written:
                    ctx.violation("the extract of an unresolved expression does not list exactly the keys that are written in it",
                                  {"s": s, "packages_resolved_before": pk, "extract": x, "written": {f: sorted(v) for f, v in written.items()}}, key=f"extract-written:{s}")
                    continue
            r = P.resolve(s, resolve_packages=rp, replace_time_conditions=rt)
            want = extract_dict(extract_categorized_keys_from_tree(r["lark"], sanitize=True))
            if canon_ties(x) != canon_ties(want):
                ctx.violation("string and tree entry points of key extraction disagree", {"s": s, "resolve": rp, "string": x, "tree": want}, key=f"extract-entry:{s}")
    # --- enumeration ---------------------------------------------------------------------------------------
    lim = ctx.pick(3, 4)
    gens = []
    # key sets: consecutive; of different digit counts (numeric and lexicographic order differ); not in ascending order
    rc_sets = [["10", "11", "12", "13"], ["9", "10", "100", "2000"], ["499", "2", "31", "7"], ["2499", "1", "20", "300"]]
    fc_sets = [["901", "902", "903", "904"], ["999", "950", "901", "932"]]
    for m, n, ri, fi in [(m, n, ri, fi) for m in range(0, lim + 1) for n in range(0, lim + 1) for ri in range(len(rc_sets)) for fi in range(len(fc_sets))]:
        if (m == 0 and ri > 0) or (n == 0 and fi > 0):
            continue
        for _ in (0,):
            rck = rc_sets[ri][:m]
            fck = fc_sets[fi][:n]
            x = CategorizedKeyExtract(hint_keys=["501"], format_constraint_keys=list(fck), requirement_constraint_keys=list(rck), package_keys=[], time_condition_keys=[])
            res = x.generate_possible_content_evaluation_results()
            got = sorted((tuple(sorted((k, v.format_constraint_fulfilled) for k, v in r.format_constraints.items())),
                          tuple(sorted((k, str(v.value)) for k, v in r.requirement_constraints.items()))) for r in res)
            want = sorted((tuple(sorted(zip(fck, fv))), tuple(sorted(zip(rck, rv)))) for fv in itertools.product([True, False], repeat=n)
                          for rv in itertools.product(["FULFILLED", "UNFULFILLED", "UNKNOWN"], repeat=m))
            ctx.case(("gen", m, n, ri, fi))
            ctx.count("generated", f"m={m},n={n}", len(res))
            gens.append((rck, fck, got))
            if got != want:
                key = K2_KEY if (m == 0 and n == 0 and got == []) else f"product:m={m},n={n}:{ri}{fi}"
                ctx.violation("generated content evaluation results are not exactly the Cartesian product (every combination once)" if key != K2_KEY else
                              "no requirement and no format key: [] is returned although the product over zero keys has exactly one element",
                              {"requirement_keys": rck, "format_keys": fck, "generated": len(got), "expected": len(want),
                               "missing": [w for w in want if w not in got][:3], "surplus_or_duplicate": [g for g in got if got.count(g) > 1 or g not in want][:3]}, key=key)
    ctx.sample({"node_types": dict(zip(keys[497:503], impl_types[497:503]))})
    ctx.sample({"extract": T.to_json(rows[0][0]), "result": rows[0][1]})
    if drv:
        reqs = [{"op": "nodeType", "key": k} for k in keys]
        reqs += [{"op": "extract", "tree": T.to_json(e), "sanitize": True} for e, _, _ in rows]
        reqs += [{"op": "extract", "tree": T.to_json(e), "sanitize": False} for e, _, _ in rows]
        reqs += [{"op": "gen", "rc": r, "fc": f} for r, f, _ in gens]
        outs = ctx.driver(reqs)
        n_diff = 0
        o = 0
        for k, t in zip(keys, impl_types):
            if outs[o]["type"] != t:
                n_diff += 1
                if n_diff <= 5:
                    ctx.broke("correspondence", "nodeType", json.dumps({"key": k, "impl": t, "model": outs[o]["type"]}))
            o += 1
        for which in (1, 2):
            for e, x, raw in rows:
                m = outs[o]
                o += 1
                i = x if which == 1 else raw
                mm = {f: m.get(f) for f in ("hint", "fc", "rc", "pkg", "time")}
                if (canon_ties(mm) != canon_ties(i)) if which == 1 else ({f: sorted(v) for f, v in mm.items()} != {f: sorted(v) for f, v in i.items()}):
                    n_diff += 1
                    if n_diff <= 5:
                        ctx.broke("correspondence", "extract", json.dumps({"tree": T.to_json(e), "sanitize": which == 1, "impl": i, "model": mm}))
        for rck, fck, got in gens:
            m = outs[o]["results"]
            o += 1
            mg = sorted((tuple(sorted((k, v) for k, v in fr[0])), tuple(sorted((k, v) for k, v in fr[1]))) for fr in m)
            if mg != got:
                n_diff += 1
                if n_diff <= 5:
                    ctx.broke("correspondence", "gen", json.dumps({"rc": rck, "fc": fck, "impl": len(got), "model": len(mg)}))
        ctx.coverage["correspondence"] = {"lines": len(reqs), "disagreements": n_diff}
    ctx.assumptions += ["keys with equal numeric value ('7', '007') are ordered by Python set iteration order; such ties are compared as multisets"]


def replay(ctx: Ctx, data) -> int:
    r = data["replay"]
    print(r)
    return 1
