"""
C15 — each data element's format constraints see only that element's own input.

Proof: Properties/C15.lean (task/context machine: observed values are schedule free; well-scoped programs give every read its own input).
Tie: trace validation — the context-variable operations and task creations of real validation runs are recorded (proxy around the
ContextVar, task factory); the Lean driver decides well-formedness and well-scopedness of the recorded program and computes the
expected value of every read, which must equal what CPython delivered.  Plus T3 over schedules: format evaluators that yield.
"""
from __future__ import annotations

import asyncio
import json
import re

from .. import evalenv, extract, valgen as V
from ..common import Ctx

MODULES = ["Ahbicht.Properties.C15"]
SCHED = {}


def build(ctx: Ctx, n_des: int):
    """a deep AHB whose free-text elements carry pairwise different inputs and format constraints"""
    rng = ctx.rng
    counter = [0]
    used = []

    def de():
        counter[0] += 1
        k = counter[0]
        keys = rng.sample(["950", "951", "952", "953"], rng.randint(1, 3))
        if rng.random() < 0.3:  # the plain (non-async) evaluation methods
            keys[rng.randrange(len(keys))] = rng.choice(["954", "955"])
        cond = (" " + rng.choice(["U", "O", "X"]) + " ").join(f"[{x}]" for x in keys)
        if rng.random() < 0.4:
            cond = f"[{rng.choice('123')}]" + (f"[{keys[0]}]" if len(keys) == 1 else f"({cond})")
        inp = None if rng.random() < 0.15 else ("" if rng.random() < 0.05 else f"in{k}")
        if inp and used and rng.random() < 0.25:
            inp = rng.choice(used)  # two elements may carry the same text (and must then get the same verdicts, each its own)
        elif inp:
            used.append(inp)
        if inp and rng.random() < 0.3:  # inputs are checked as entered: padding, blanks only, upper case, inner blanks are part of the text
            inp = rng.choice([f" in{k}", f"in{k} ", f"\tin{k}\n", " " * (k + 1), f"IN{k}", f"in {k}", f"in{k}\u00a0"])
        parts = [[rng.choice(["X", "MUSS"]), rng.choice(["X", "Muss"]), cond]]
        if rng.random() < 0.3:
            # several modal marks on one element, the branches shaped differently (with / without format constraints): which branch decides must not
            # depend on which branch's evaluators answer first
            parts = [["MUSS", "Muss", f"[{rng.choice('123')}]" + (f"[{rng.choice(['950', '952'])}]" if rng.random() < 0.6 else "")],
                     ["SOLL", "Soll", f"[{rng.choice('123')}]" + (f"[{rng.choice(['951', '953'])}]" if rng.random() < 0.6 else "")]]
            if rng.random() < 0.4:
                parts.append(["KANN", "Kann", None if rng.random() < 0.5 else f"[{rng.choice('123')}][{rng.choice(['950', '953'])}]"])
        return {"t": "free", "disc": f"ft{k}", "expr": {"parts": parts}, "input": inp, "vtype": "TEXT"}

    segs, left = [], n_des
    while left > 0:
        m = min(left, rng.randint(1, 6))
        counter[0] += 0
        segs.append({"disc": f"seg{len(segs)}", "expr": {"parts": [["X", "X", None]]}, "des": [de() for _ in range(m)]})
        left -= m
    groups = []
    for i in range(0, len(segs), 2):
        groups.append({"t": "g", "disc": f"sg{i}", "expr": {"parts": [["X", "X", None]]}, "groups": [], "segs": segs[i:i + 2]})
    if len(groups) > 2 and rng.random() < 0.5:
        groups[0]["groups"].append(groups.pop())
    return {"lines": groups}


def make_evaluator():
    from ahbicht.content_evaluation.fc_evaluators import FcEvaluator
    from ahbicht.models.condition_nodes import EvaluatedFormatConstraint

    class YieldingFc(FcEvaluator):
        edifact_format = evalenv.FMT
        edifact_format_version = evalenv.FV

    def mk(key):
        async def method(self, entered_input):
            for _ in range(SCHED.get("n", 0) and SCHED["rng"].randint(0, SCHED["n"])):
                await asyncio.sleep(0)
            return EvaluatedFormatConstraint(format_constraint_fulfilled=False, error_message=f"saw:{entered_input}#")
        def sync_method(self, entered_input):
            # a plain (non-async) evaluation method that also looks at the context variable, which is documented to hold "the correct value in your context"
            from ahbicht.content_evaluation import fc_evaluators
            in_context = fc_evaluators.text_to_be_evaluated_by_format_constraint.get()
            return EvaluatedFormatConstraint(format_constraint_fulfilled=False, error_message=f"saw:{entered_input}#saw:{in_context}#")
        if key in ("954", "955"):
            method = sync_method
        method.__name__ = f"evaluate_{key}"
        return method

    for key in ("950", "951", "952", "953", "954", "955"):
        setattr(YieldingFc, f"evaluate_{key}", mk(key))
    return YieldingFc()


class RecordingVar:
    """proxy around the real ContextVar that records set/get per task"""

    def __init__(self, real, log):
        self._real, self._log = real, log

    def set(self, v):
        self._log("set", v)
        return self._real.set(v)

    def get(self, *a):
        v = self._real.get(*a)
        self._log("get", v)
        return v

    def __getattr__(self, name):
        return getattr(self._real, name)


def traced_run(spec, cer, soll=True):
    """validate under a task factory + recording proxy; returns (results, program)"""
    from ahbicht.content_evaluation import fc_evaluators
    from ahbicht.validation.validation import validate_deep_anwendungshandbuch

    V.set_cer(cer)
    ahb = V.to_maus(spec)
    tasks, ops, parent, owner_de = {}, [], [], []

    def tid(loop=None):
        try:
            t = asyncio.current_task(loop)
        except RuntimeError:
            return None
        return tasks.get(id(t))

    def log(kind, v):
        t = tid()
        if t is not None:
            ops[t].append((kind, v))

    def factory(loop, coro, **kw):
        task = asyncio.Task(coro, loop=loop, **kw)
        me = len(ops)
        tasks[id(task)] = me
        ops.append([])
        p = tid(loop)
        if p is None:
            parent.append(None)
        else:
            parent.append((p, len(ops[p])))
            ops[p].append(("spawn", me))
        de = None
        fr = getattr(coro, "cr_frame", None)
        if fr is not None and getattr(coro, "__name__", "") == "validate_data_element":
            de = fr.f_locals.get("data_element")
        owner_de.append(de)
        return task

    real = fc_evaluators.text_to_be_evaluated_by_format_constraint
    proxy = RecordingVar(real, log)
    fc_evaluators.text_to_be_evaluated_by_format_constraint = proxy
    loop = asyncio.new_event_loop()
    loop.set_task_factory(factory)
    try:
        res = loop.run_until_complete(validate_deep_anwendungshandbuch(ahb, soll_is_required=soll))
    finally:
        fc_evaluators.text_to_be_evaluated_by_format_constraint = real
        loop.close()
    return [V.canon_result(r) for r in res], {"ops": ops, "parent": parent, "owner": owner_de}


def run(ctx: Ctx) -> None:
    from ahbicht.content_evaluation import fc_evaluators
    from ahbicht.models.validation_values import RequirementValidationValue as R
    from ahbicht.validation.validation import validate_data_element_freetext

    ctx.rule = ("deep AHBs with 2-30 free-text elements carrying mostly different inputs (some absent / empty / padded / equal to another element's) and 1-3 format keys each; every fifth run validates one element on its own and then the tree inside one task; format evaluators (four async ones that yield, two plain ones that also read the context variable themselves) that yield "
                "0-4 times per call under 10/60 schedules; every element's result compared with validating it alone; one traced run per AHB decided by the Lean driver; "
                "distinct = (AHB, schedule)")
    ctx.coverage["generated_changed"] = extract.regenerate([])
    ok = ctx.lean_build(MODULES)
    drv = ctx.lean_build_driver()
    if ok:
        ctx.lean_audit(MODULES)
        if not ctx.quick:
            ctx.lean_check_olean(MODULES)
    ev = make_evaluator()
    from ahbicht.content_evaluation.evaluator_factory import create_content_evaluation_result_based_evaluators
    rc, _, hints, pk = create_content_evaluation_result_based_evaluators(evalenv.FMT, evalenv.FV)
    evalenv.configure_cer_based(extra=[rc, ev, hints, pk])
    rng = ctx.rng
    from .. import schedules as S
    probe = S.probe_runtime(rng)
    ctx.coverage["runtime_assumptions_probed"] = probe
    if not (probe["order_ok"] == probe["context_ok"] == probe["gathers"]):
        from ..common import ToolFailure
        raise ToolFailure(f"this interpreter's asyncio does not behave as the model of C15 assumes: {probe}")
    traces = []
    for a in range(ctx.pick(25, 200)):
        spec = build(ctx, rng.randint(2, ctx.pick(14, 30)))
        cer = {"rc": {"1": "F", "2": rng.choice("FU"), "3": "F"}, "fc": {}, "hints": {}, "packages": {}}
        des = [n for k, n, _ in V.walk(spec) if k == "free"]
        # each element validated on its own (segment requirement as in the tree: all segments are X -> required)
        alone = {}
        SCHED.clear()
        for d in des:
            V.set_cer(cer)
            one = V.to_maus({"lines": [{"t": "g", "disc": "g", "expr": {"parts": [["X", "X", None]]}, "groups": [], "segs": [{"disc": "s", "expr": {"parts": [["X", "X", None]]}, "des": [d]}]}]})
            el = one.lines[0].segments[0].data_elements[0]
            alone[d["disc"]] = V.canon_result(asyncio.run(validate_data_element_freetext(el, R.IS_REQUIRED, True)))
        for k in range(ctx.pick(10, 60)):
            SCHED.update({"n": 4 if k else 0, "rng": rng})
            if k % 5 == 4 and des:
                # history inside ONE task / context: an element is validated on its own first (its input stays behind in the caller's context), then the tree
                first = rng.choice(des)

                async def both():
                    from ahbicht.validation.validation import validate_deep_anwendungshandbuch
                    one = V.to_maus({"lines": [{"t": "g", "disc": "g", "expr": {"parts": [["X", "X", None]]}, "groups": [], "segs": [{"disc": "s", "expr": {"parts": [["X", "X", None]]}, "des": [first]}]}]})
                    await validate_data_element_freetext(one.lines[0].segments[0].data_elements[0], R.IS_REQUIRED, True)
                    return await validate_deep_anwendungshandbuch(V.to_maus(spec), soll_is_required=True)

                V.set_cer(cer)
                try:
                    im = {"results": [V.canon_result(r) for r in asyncio.run(both())]}
                except BaseException as e:  # pylint:disable=broad-except
                    im = {"err": type(e).__name__}
                ctx.count("history", "element alone, then the tree, in one context")
            else:
                im = V.run_validation(spec, cer, True)
            ctx.case((str(spec), k), nontrivial=len(des) > 1)
            ctx.count("elements", str(min(len(des), 30) // 5 * 5))
            if "err" in im:
                ctx.violation(f"validation raises {im['err']}", {"ahb": spec}, key=f"raise:{im['err']}")
                break
            by = {r["disc"]: r for r in im["results"]}
            bad = None
            for d in des:
                r = by.get(d["disc"])
                if r is None:
                    continue
                seen = re.findall(r"saw:(.*?)#", r["fc_msg"] or "", re.S)
                own = str(d["input"])
                if any(x != own for x in seen):
                    bad = ("a format constraint of a data element was not evaluated against that element's own entered input (it saw another element's, or an altered text)", {"element": d["disc"], "own_input": d["input"], "saw": seen})
                elif r != alone[d["disc"]]:
                    bad = ("the result of a data element inside the tree differs from validating it on its own", {"element": d["disc"], "in_tree": r, "alone": alone[d["disc"]]})
                if bad:
                    break
            if bad:
                ctx.violation(bad[0], {"ahb": spec, "content_evaluation": cer, "schedule_index": k, **bad[1]}, key="foreign-input" if "saw" in bad[1] else "differs-from-alone")
                break
        # trace validation of one run
        SCHED.update({"n": 3, "rng": rng})
        try:
            _, prog = traced_run(spec, cer)
        except BaseException as e:  # pylint:disable=broad-except
            ctx.broke("trace", "recording", f"{type(e).__name__}: {e}")
            continue
        inputs = {}
        def code(v):
            return inputs.setdefault(v, len(inputs) + 1)
        # owner of a task: nearest ancestor-or-self that is a validate_data_element task
        owner = []
        for t, de_obj in enumerate(prog["owner"]):
            cur, o = t, None
            while cur is not None:
                if prog["owner"][cur] is not None:
                    o = prog["owner"][cur]
                    break
                cur = prog["parent"][cur][0] if prog["parent"][cur] else None
            owner.append(o)
        tasks_j, observed = [], []
        for t, ol in enumerate(prog["ops"]):
            row = []
            for i, (kind, v) in enumerate(ol):
                if kind == "set":
                    row.append(["set", code(v)])
                elif kind == "spawn":
                    row.append(["spawn", v])
                else:
                    row.append(["get"])
                    observed.append([t, i, code(v)])
            tasks_j.append(row)
        input_of = [None if o is None else code(o.entered_input) for o in owner]
        # only tasks that read are constrained; tasks without owner never read in a correct run
        traces.append({"op": "trace", "tasks": tasks_j, "parent": [list(p) if p else None for p in prog["parent"]], "inputOf": input_of, "_observed": observed, "_spec": spec})
        ctx.count("trace_tasks", str(min(len(tasks_j), 200) // 20 * 20))
    ctx.sample({"trace_program_head": {k: v[:6] for k, v in traces[0].items() if not k.startswith("_")}} if traces else {})
    if drv and traces:
        outs = ctx.driver({k: v for k, v in t.items() if not k.startswith("_")} for t in traces)
        n_bad = 0
        for t, o in zip(traces, outs):
            exp = sorted(o["gets"])
            obs = sorted(t["_observed"])
            if not o["wf"]:
                n_bad += 1
                ctx.broke("trace", "well-formedness", "the recorded program is not a spawn tree (task/context machine does not apply)")
            elif exp != obs:
                n_bad += 1
                ctx.broke("trace", "machine-vs-cpython", json.dumps({"expected_by_machine": exp[:5], "observed": obs[:5]}))
            elif not o["well_scoped"]:
                n_bad += 1
                g = next(g for g in o["gets"] if g[2] != t["inputOf"][g[0]])
                ctx.violation("the recorded program of a validation run is not well scoped: some read of the context variable is not preceded by the own element's write",
                              {"ahb": t["_spec"], "task": g[0], "position": g[1], "expected_value_code": g[2], "own_input_code": t["inputOf"][g[0]]}, key="not-well-scoped")
        ctx.coverage["traces_validated_against_impl"] = len(traces)
        ctx.coverage["correspondence"] = {"trace": {"programs": len(traces), "rejected": n_bad}}
    ctx.assumptions += ["PEP 567: a task runs in a copy of the context current at its creation (validated on every traced run: observed reads = machine's expected values)",
                        "the spawn structure of a validation run does not depend on the schedule (C12)"]


def replay(ctx: Ctx, data) -> int:
    print(data["replay"].get("element"), data["replay"].get("saw"))
    return 1
