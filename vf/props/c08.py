"""
C08 — format-constraint evaluation is Boolean and explains every failure.

Proof: Properties/C08.lean (value = Boolean semantics for any grouping; message iff unfulfilled under the stated premises).
Tie: T3 on evaluate_format_constraint_tree (given trees) and format_constraint_evaluation (strings, CER-based evaluator).
"""
from __future__ import annotations

import itertools
import json

from .. import evalenv, evaluation as E, extract, parsing as P, trees as T
from ..common import Ctx

MODULES = ["Ahbicht.Properties.C08"]
KEYS = ["901", "902", "903", "950", "999"]


def bool_sem(e, env):
    if e[0] == "cond":
        return env[e[1]]
    a, b = bool_sem(e[1], env), bool_sem(e[2], env)
    return {T.AND: a and b, T.OR: a or b, T.XOR: a != b}[e[0]]


def run(ctx: Ctx) -> None:
    ctx.rule = ("every tree with up to 3/4 leaves over two keys and U/O/X (exhaustive), random trees up to 7/10 leaves over <=5 keys; ALL 2^n truth assignments; "
                "leaf messages: present iff unfulfilled (the property's premise) plus a stream with arbitrary messages; strings through the real parser; "
                "distinct = (tree, assignment, message mode)")
    ctx.coverage["generated_changed"] = extract.regenerate([])
    ok = ctx.lean_build(MODULES)
    drv = ctx.lean_build_driver()
    if ok:
        ctx.lean_audit(MODULES)
        if not ctx.quick:
            ctx.lean_check_olean(MODULES)
    E.configure(ctx.rng)  # evaluators / providers suspend under a random schedule half of the time
    rng = ctx.rng
    ops = (T.OR, T.XOR, T.AND)
    exprs = []
    for n in range(1, ctx.pick(3, 4) + 1):
        exprs += list(E.all_shapes(n, [("cond", "901"), ("cond", "902")], ops))
    for _ in range(ctx.pick(200, 3000)):
        ks = KEYS[: rng.randint(1, 5)]
        exprs.append(T.rand_expr(rng, rng.randint(2, ctx.pick(7, 10)), lambda r: ("cond", r.choice(ks)), ops))
    cases = []
    for e in exprs:
        keys = sorted({l[1] for l in T.leaves(e)})
        for vals in itertools.product([True, False], repeat=len(keys)):
            env = dict(zip(keys, vals))
            for mode in ("premise", "arbitrary"):
                if mode == "premise":
                    fc = {k: (v, None if v else f"fc {k} failed") for k, v in env.items()}
                else:
                    if rng.random() < 0.7:
                        continue
                    fc = {k: (v, rng.choice([None, f"note {k}", ""])) for k, v in env.items()}
                cases.append({"e": e, "env": env, "fc": fc, "mode": mode})
    last_e, tree, reuse, before = None, None, False, []
    for c in cases:
        e = c["e"]
        if e is not last_e:
            # callers may parse once and evaluate many times: for half of the expressions ONE tree object is evaluated under all its assignments
            last_e, tree, reuse, before = e, T.to_lark(e), rng.random() < 0.5, []
            ctx.count("tree_object", "reused" if reuse else "fresh")
        c["same_tree_object_evaluated_before_under"] = list(before) if reuse else []
        c["impl"] = E.eval_fc_tree(tree if reuse else T.to_lark(e), c["fc"])
        before.append(c["fc"])
        ctx.case((T.to_json(e), sorted(c["fc"].items(), key=str), c["mode"]), nontrivial=not T.is_leaf(e))
        ctx.count("mode", c["mode"])
        i = c["impl"]
        s = T.render(e, T.Style(rng, "min", "upper", "one")).strip()
        if "err" in i:
            ctx.violation(f"format-constraint evaluation raises {i['exc']}", {"tree": T.to_json(e), "string": s, "fc": c["fc"]}, key=f"raise:{T.to_json(e)}")
            continue
        want = bool_sem(e, c["env"])
        ctx.count("value", str(want))
        if i["ok"] != want:
            ctx.violation("value differs from the Boolean value of the expression", {"tree": T.to_json(e), "string": s, "fc": c["fc"], "expected": want, "got": i["ok"],
                                                                                                  "same_tree_object_evaluated_before_under": c["same_tree_object_evaluated_before_under"][-3:]},
                          key=f"value:{T.to_json(e)}:{sorted(c['env'].items())}")
        if c["mode"] == "premise" and ((i["msg"] is not None) != (not i["ok"])):
            ctx.violation("error message present iff unfulfilled is broken", {"tree": T.to_json(e), "string": s, "fc": c["fc"], "ok": i["ok"], "msg": i["msg"]},
                          key=f"msg:{T.to_json(e)}:{sorted(c['env'].items())}")
        if c["mode"] == "arbitrary" and all(v[0] or v[1] is not None for v in c["fc"].values()) and not i["ok"] and i["msg"] is None:
            ctx.violation("unfulfilled result without error message although every unfulfilled constraint carries one",
                          {"tree": T.to_json(e), "string": s, "fc": c["fc"]}, key=f"msg-if:{T.to_json(e)}")
    # string level: absent/empty, and precedence through the parser
    for expr in (None, ""):
        r = E.eval_fc_string(expr, {})
        ctx.case(("empty", expr))
        if r != {"ok": True, "msg": None}:
            ctx.violation("absent or empty expression is not reported fulfilled", {"expression": expr, "got": r}, key=f"empty:{expr!r}")
    n_str = 0
    for c in cases[:: max(1, len(cases) // ctx.pick(300, 3000))]:
        if c["mode"] != "premise":
            continue
        s = T.render(c["e"], T.Style(rng, rng.choice(["min", "rand"]), "rand", "rand"))
        r = E.eval_fc_string(s, c["fc"])
        n_str += 1
        ctx.case(("string", s, sorted(c["env"].items())))
        if r.get("ok") != bool_sem(c["e"], c["env"]):
            ctx.violation("string-level evaluation differs from the Boolean value (precedence)", {"string": s, "fc": c["fc"], "got": r}, key=f"string:{s}")
    # string level, exhaustively for small expressions: every tree shape with up to 4 leaves over distinct keys and every operator choice, written with
    # the brackets the documented precedence needs (and, thorough, with redundant ones / the other spellings), under every truth assignment
    n_exh = 0
    styles = [("min", "upper", "between"), ("min", "upper", "none")] if ctx.quick else \
        [("min", "upper", "between"), ("min", "upper", "none"), ("min", "upper", "one"), ("max", "upper", "between"), ("min", "lower", "between"), ("min", "symbol", "none"), ("rand", "rand", "rand")]
    for n in range(2, 5):
        leaves = [("cond", k) for k in KEYS[:n]]
        for e in E.all_shapes(n, leaves, ops):
            order = [l[1] for l in T.leaves(e)]
            if sorted(order) != sorted(KEYS[:n]) or (ctx.quick and order != KEYS[:n]):
                continue  # every key once (quick: in one order, thorough: in every order)
            keys = sorted(l[1] for l in T.leaves(e))
            for br, sp, ws in styles:
                s = T.render(e, T.Style(rng, br, sp, ws)).strip()
                for vals in itertools.product([True, False], repeat=n):
                    env = dict(zip(keys, vals))
                    r = E.eval_fc_string(s, {k: (v, None if v else f"fc {k} failed") for k, v in env.items()})
                    n_exh += 1
                    want = bool_sem(e, env)
                    if r.get("ok") != want or ((r.get("msg") is not None) != (not want)):
                        ctx.violation("string-level evaluation differs from the Boolean value (precedence / brackets) or message-iff-unfulfilled is broken",
                                      {"string": s, "fc": env, "expected": want, "got": r}, key=f"string-exh:{s}")
                        break
    ctx.case(("string-exhaustive", n_exh))
    ctx.coverage["string_level_exhaustive_evaluations"] = n_exh
    ctx.coverage["string_level_cases"] = n_str
    for c in cases[:: max(1, len(cases) // 5)][:5]:
        ctx.sample({"tree": T.to_json(c["e"]), "fc": c["fc"], "impl": c["impl"]})
    if drv:
        outs = ctx.driver({"op": "evalFc", "tree": T.to_json(c["e"]), "fc": {k: list(v) for k, v in c["fc"].items()}} for c in cases)
        n_diff = 0
        for c, o in zip(cases, outs):
            i = c["impl"]
            if ("err" in i) != ("err" in o) or i.get("ok") != o.get("ok") or (i.get("msg") is None) != (o.get("msg") is None):
                n_diff += 1
                if n_diff <= 6:
                    ctx.broke("correspondence", "evalFc", json.dumps({"e": T.to_json(c["e"]), "fc": c["fc"], "impl": i, "model": o}, ensure_ascii=False, default=str))
            elif i.get("msg") != o.get("msg"):
                ctx.advise({"e": T.to_json(c["e"]), "impl": i.get("msg"), "model": o.get("msg")})
        ctx.coverage["correspondence"] = {"evalFc": {"lines": len(cases), "disagreements": n_diff}}
    ctx.assumptions += ["single constraints are evaluated by user code returning EvaluatedFormatConstraint; its truth value and message are inputs here"]


def replay(ctx: Ctx, data) -> int:
    r = data["replay"]
    e = T.from_json(r["tree"])
    fc = {k: tuple(v) for k, v in r["fc"].items()}
    tree = T.to_lark(e)
    for earlier in r.get("same_tree_object_evaluated_before_under", []):
        E.eval_fc_tree(tree, {k: tuple(v) for k, v in earlier.items()})
    i = E.eval_fc_tree(tree, fc)
    want = bool_sem(e, {k: v[0] for k, v in fc.items()})
    print("impl:", i, "boolean value:", want)
    return 0 if i.get("ok") == want else 1
