"""
C06 — expression validity is structural; validity check and evaluation agree.

Proof: Properties/C06.lean (raises ⇔ invalidAt, for every assignment; all-or-none; neutral ⇔ neutral-only).
Tie: T3 (error class of requirement evaluation on trees), plus is_valid_expression on rendered AHB expressions.
Predicate on the implementation: raises InvalidExpressionError under all assignments iff the structural criterion holds.
"""
from __future__ import annotations

import asyncio

from .. import evalenv, evaluation as E, extract, parsing as P, trees as T
from ..common import Ctx
from . import _evalcommon as EC

MODULES = ["Ahbicht.Properties.C06", "Ahbicht.Properties.C06Check"]


async def _is_valid(x):
    from ahbicht.content_evaluation import is_valid_expression

    return await is_valid_expression(x, evalenv.set_cer)


def run(ctx: Ctx) -> None:
    ctx.rule = ("every tree with up to 3/4 leaves over {rc 1, rc 2, hint 501, fc 901} that is in the documented domain plus random well-formed trees "
                "(valid and invalid), each under ALL 3^m assignments (m<=4/5); is_valid_expression on rendered single- and multi-part AHB expressions "
                "under all 3^m*2^n generated results; distinct = tree; non-trivial = has an O/X node")
    ctx.coverage["generated_changed"] = extract.regenerate(["Cfv"])
    ok = ctx.lean_build(MODULES)
    drv = ctx.lean_build_driver()
    if ok:
        ctx.lean_audit(MODULES)
        if not ctx.quick:
            ctx.lean_check_olean(MODULES)
    exprs = [(s, e) for s, e in EC.gen_exprs(ctx, ctx.pick(300, 3000), ctx.pick(7, 9), ctx.pick(3, 4)) if E.well_formed(e)]
    cases = EC.rc_cases(ctx, exprs, ctx.pick(81, 243))
    EC.run_impl_and_model(ctx, cases, drv)
    by_tree = {}
    for c in cases:
        by_tree.setdefault(repr(c["e"]), []).append(c)
    for key, cs in by_tree.items():
        e = cs[0]["e"]
        inv = E.invalid_at(e)
        ctx.case(key, nontrivial=any(op in key for op in (T.OR, T.XOR)))
        ctx.count("structurally", "invalid" if inv else "valid")
        raised = [c["impl"].get("err") == "InvalidExpressionError" for c in cs]
        other = [c["impl"]["exc"] for c in cs if "err" in c["impl"] and c["impl"]["err"] != "InvalidExpressionError"]
        ctx.count("assignments_per_tree", str(len(cs)))
        s = T.render(e, T.Style(ctx.rng, "min", "upper", "one")).strip()
        if any(raised) and not all(raised):
            bad = [c["rc"] for c, r in zip(cs, raised) if r][:1] + [c["rc"] for c, r in zip(cs, raised) if not r][:1]
            ctx.violation("validity depends on condition states", {"tree": T.to_json(e), "string": s, "raises_under": bad[0], "not_under": bad[-1]}, key=f"statedep:{key}")
        elif all(raised) != inv:
            ctx.violation("evaluation and the structural criterion disagree" + (" (valid expression raises)" if not inv else " (invalid expression accepted)"),
                          {"tree": T.to_json(e), "string": s, "structurally_invalid": inv, "rc": cs[0]["rc"]}, key=f"struct:{key}")
        if other and not inv:
            ctx.violation(f"valid expression raises {other[0]}", {"tree": T.to_json(e), "string": s}, key=f"other:{key}")
    # the validity check itself, through the parser (grouping as Lark produces it)
    E.configure(ctx.rng)  # evaluators / providers suspend under a random schedule half of the time
    marks = ["Muss", "Soll", "Kann", "M", "X", "muss"]
    n_check = ctx.pick(150, 1500)
    checked = 0
    pool = [e for _, e in exprs if sum(len(v) for k, v in E.keys_by_kind(e).items() if k != "hint") <= 5]
    for _ in range(n_check):
        n_parts = ctx.rng.choice([1, 1, 1, 2, 3])
        parts = [ctx.rng.choice(pool) for _ in range(n_parts)]
        if sum(len(set(E.keys_by_kind(p)["rc"] + E.keys_by_kind(p)["fc"])) for p in parts) > 6:
            continue
        if n_parts == 1:
            s = ctx.rng.choice(marks) + " " + T.render(parts[0], T.Style(ctx.rng, "min", "rand", "one")).strip()
        else:
            s = " ".join(ctx.rng.choice(marks[:4]) + " " + T.render(p, T.Style(ctx.rng, "min", "rand", "one")).strip() for p in parts)
        r = P.resolve(s, replace_time_conditions=False)
        if "err" in r:
            ctx.violation("rendered well-formed AHB expression does not parse", {"s": s, "outcome": r["err"]}, key=f"parse:{s}")
            continue
        lark_parts = [T.from_lark(ch.children[1]) for ch in r["lark"].children if ch.data == "single_requirement_indicator_expression"]
        if not all(E.well_formed(p) for p in lark_parts):
            continue  # Lark regrouped a same-operator run so that juxtaposition left the documented use
        want_invalid = any(E.invalid_at(p) for p in lark_parts)
        try:
            res = asyncio.run(_is_valid(s))
        except BaseException as ex:  # pylint:disable=broad-except
            ctx.violation(f"is_valid_expression raises {type(ex).__name__}", {"s": s}, key=f"isvalid-raise:{type(ex).__name__}:{s}")
            continue
        checked += 1
        ctx.case(("isvalid", s))
        ctx.count("is_valid", str(res[0]))
        ok_shape = (res[0] is True and res[1] is None) or (res[0] is False and isinstance(res[1], str))
        if not ok_shape or res[0] == want_invalid:
            ctx.violation("validity check disagrees with the structural criterion", {"s": s, "is_valid_expression": repr(res), "structurally_invalid": want_invalid,
                          "parts": [T.to_json(p) for p in lark_parts]}, key=f"isvalid:{s}")
        res_tree = asyncio.run(_is_valid(r["lark"]))
        if res_tree[0] != res[0]:
            ctx.violation("validity check differs between string and tree argument", {"s": s, "string": repr(res), "tree": repr(res_tree)}, key=f"isvalid-tree:{s}")
    ctx.coverage["is_valid_expression_checked"] = checked
    for c in cases[:: max(1, len(cases) // 5)][:5]:
        ctx.sample({"tree": T.to_json(c["e"]), "rc": c["rc"], "impl": c["impl"].get("err", "ok")})
    EC.compare(ctx, cases, gate=["fulfilled", "conditional"], advisory=["fce", "hints"], name="evalRc")
    # code and model differ somewhere: search around those expressions for an input on which validity itself goes wrong
    for e0 in EC.disagreeing(cases)[:8]:
        for t in EC.contexts_around(e0):
            keys = E.keys_by_kind(t)["rc"]
            if len(keys) > 4:
                continue
            outs = [(a, E.eval_rc(T.to_lark(t), a, EC.hints_for(t)).get("err") == "InvalidExpressionError") for a in E.assignments(keys, "FUK", ctx.rng, 81)]
            ctx.count("search_around_disagreement", "expressions")
            st = T.render(t, T.Style(ctx.rng, "min", "upper", "one")).strip()
            raised = [r for _, r in outs]
            if any(raised) and not all(raised):
                ctx.violation("validity depends on condition states", {"tree": T.to_json(t), "string": st, "raises_under": next(a for a, r in outs if r), "not_under": next(a for a, r in outs if not r)},
                              key=f"statedep:{repr(t)}")
            elif all(raised) != E.invalid_at(t):
                ctx.violation("evaluation and the structural criterion disagree" + (" (valid expression raises)" if not E.invalid_at(t) else " (invalid expression accepted)"),
                              {"tree": T.to_json(t), "string": st, "structurally_invalid": E.invalid_at(t), "rc": outs[0][0]}, key=f"struct:{repr(t)}")
    ctx.assumptions += ["InvalidExpressionError derives from BaseException, so lark's Transformer does not wrap it (observed: the error class reaches the caller)"]


def replay(ctx: Ctx, data) -> int:
    evalenv.configure_cer_based()
    r = data["replay"]
    if "tree" in r:
        e = T.from_json(r["tree"])
        keys = E.keys_by_kind(e)["rc"]
        outs = [E.eval_rc(T.to_lark(e), a, EC.hints_for(e)).get("err") for a in E.assignments(keys)]
        print("structurally invalid:", E.invalid_at(e), "raises:", sorted(set(map(str, outs))))
        return 0 if all((o == "InvalidExpressionError") == E.invalid_at(e) for o in outs) else 1
    print(asyncio.run(_is_valid(r["s"])))
    return 1
