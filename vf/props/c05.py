"""
C05 — hints, format constraints, brackets, operand order never change the requirement; UNKNOWN is sound.

Proof: Properties/C05.lean (context lemmas; swap, and-hint, attach-fc, refinement; K1 witness).
Predicates on the implementation: every transformation at every admissible position of every generated valid
expression, under every assignment; redundant brackets through the real parser.  Finding K1 is replayed on every run.
"""
from __future__ import annotations

from .. import evalenv, evaluation as E, extract, parsing as P, trees as T
from ..common import Ctx
from . import _evalcommon as EC

MODULES = ["Ahbicht.Properties.C05", "Ahbicht.Properties.C05Brackets"]
K1_KEY = "K1:brackets:bare-hint-and-bare-fc-in-one-O/X-run"
K1_WITNESS = ("Muss [501] O [901] O [502] U [503]", "Muss [501] O [901] O ([502] U [503])")


def positions(e, path=()):
    """(path, sub-expression, parent operator or None)"""
    yield path, e, None
    if not T.is_leaf(e):
        for i in (1, 2):
            for p, s, par in positions(e[i], path + (i,)):
                yield p, s, (e[0] if p == path + (i,) else par)


def replace_at(e, path, new):
    if not path:
        return new
    l = list(e)
    l[path[0]] = replace_at(e[path[0]], path[1:], new)
    return tuple(l)


def transformations(ctx: Ctx, e):
    """(kind, transformed tree)"""
    rng = ctx.rng
    used = {l[1] for l in T.leaves(e)}
    # a fresh hint key; the boundaries of the hint range (500, 900) first, so that they are used whenever the expression does not contain them yet
    cands = ["900", "500", "777", "555", "600"]
    ctx.rng.shuffle(cands)
    hint = next(k for k in cands if k not in used)
    fcs = [k for k in ["950", "951"] if k not in used]
    out = []
    for path, s, parent in positions(e):
        if parent is None and path == () or parent in (T.AND, T.OR, T.XOR):
            h = ("cond", hint)
            out.append(("and_hint", replace_at(e, path, (T.AND, s, h))))
            out.append(("and_hint", replace_at(e, path, (T.AND, h, s))))
        if not E.neutral_only(s):
            f = ("cond", fcs[0])
            out.append(("attach_fc", replace_at(e, path, (T.THEN, s, f))))
            if rng.random() < 0.3:
                out.append(("attach_fc", replace_at(e, path, (T.THEN, f, s))))
        if not T.is_leaf(s) and s[0] in (T.AND, T.OR, T.XOR):
            out.append(("swap", replace_at(e, path, (s[0], s[2], s[1]))))
    return out


in_k1_class = E.in_k1_class


def outcome(i):
    return i.get("err") or (i["fulfilled"], i["conditional"])


def run(ctx: Ctx) -> None:
    ctx.rule = ("valid well-formed trees (all with <=3 leaves over {1,2,900,901} + random up to 6/8 leaves); every transformation at every admissible "
                "position; all 3^m assignments (m<=3/4) and all refinements of their UNKNOWN entries; bracket variants through the real parser; swaps / brackets also with 2-3 requirement keys abbreviated by packages, through resolve + evaluate; "
                "distinct = (tree, transformation, position)")
    ctx.coverage["generated_changed"] = extract.regenerate(["Cfv"])
    ok = ctx.lean_build(MODULES)
    drv = ctx.lean_build_driver()
    if ok:
        ctx.lean_audit(MODULES)
        if not ctx.quick:
            ctx.lean_check_olean(MODULES)
    E.configure(ctx.rng)  # evaluators / providers suspend under a random schedule half of the time
    exprs = [e for _, e in EC.gen_exprs(ctx, ctx.pick(120, 1500), ctx.pick(6, 8), 3) if E.well_formed(e) and not E.invalid_at(e)]
    ctx.rng.shuffle(exprs)
    exprs = exprs[: ctx.pick(260, 3000)]
    all_cases = []
    for e in exprs:
        keys = E.keys_by_kind(e)["rc"]
        assigns = list(E.assignments(keys, "FUK", ctx.rng, ctx.pick(27, 81)))
        base = {}
        for a in assigns:
            c = {"stream": "base", "e": e, "rc": a, "hints": EC.hints_for(e)}
            c["impl"] = E.eval_rc(T.to_lark(e), a, c["hints"])
            base[tuple(sorted(a.items()))] = c
            all_cases.append(c)
        s0 = T.render(e, T.Style(ctx.rng, "min", "upper", "one")).strip()
        for kind, t2 in transformations(ctx, e):
            ctx.case((kind, T.to_json(t2)))
            ctx.count("transformation", kind)
            for a in assigns:
                c2 = {"stream": kind, "e": t2, "rc": a, "hints": EC.hints_for(t2)}
                c2["impl"] = E.eval_rc(T.to_lark(t2), a, c2["hints"])
                all_cases.append(c2)
                b = base[tuple(sorted(a.items()))]["impl"]
                if outcome(c2["impl"]) != outcome(b):
                    what = f"{kind} changes the requirement" + (" (expression becomes invalid)" if c2["impl"].get("err") else "")
                    ctx.violation(what, {"original": s0, "original_tree": T.to_json(e), "transformed_tree": T.to_json(t2),
                                         "transformed": T.render(t2, T.Style(ctx.rng, "min", "upper", "one")).strip(), "rc": a,
                                         "before": repr(outcome(b)), "after": repr(outcome(c2["impl"]))}, key=f"{kind}:{T.to_json(t2)}")
        # UNKNOWN soundness
        for a in assigns:
            b = base[tuple(sorted(a.items()))]["impl"]
            if "err" in b or b["fulfilled"] is None or "K" not in a.values():
                continue
            unk = [k for k, v in a.items() if v == "K"]
            for ref in E.assignments(unk, "FU"):
                a2 = {**a, **ref}
                r = base.get(tuple(sorted(a2.items())))
                r = r["impl"] if r else E.eval_rc(T.to_lark(e), a2, EC.hints_for(e))
                ctx.count("refinements", "checked")
                if outcome(r) != outcome(b):
                    ctx.violation("a definite outcome changes when UNKNOWN keys are resolved", {"string": s0, "tree": T.to_json(e), "rc": a, "resolved": a2,
                                  "before": repr(outcome(b)), "after": repr(outcome(r))}, key=f"refine:{T.to_json(e)}")
        # redundant brackets, through the parser: brackets around sub-expressions of the tree Lark itself produced
        p0 = P.parse_cond(s0)
        if "err" in p0:
            ctx.violation("rendered expression does not parse", {"s": s0}, key=f"brackets-parse:{s0}")
            continue
        t0 = T.from_json(p0["tree"])
        if not E.well_formed(t0) or E.invalid_at(t0):
            ctx.count("brackets", "skipped: Lark groups the juxtaposition run outside the documented use")
            continue
        variants = [s0] + [T.render(t0, T.Style(ctx.rng, b, "upper", "one")).strip() for b in ("rand", "rand", "max")]
        parsed = [p0] + [P.parse_cond(v) for v in variants[1:]]
        if any("err" in p for p in parsed):
            ctx.violation("bracket variant does not parse", {"variants": variants}, key=f"brackets-parse:{variants[0]}")
            continue
        trees = [T.from_json(p["tree"]) for p in parsed]
        for a in assigns[:3]:
            outs = [outcome(E.eval_rc(p["lark"], a, EC.hints_for(e))) for p in parsed]
            ctx.count("brackets", "variants", len(variants))
            if len(set(map(repr, outs))) > 1:
                key = K1_KEY if all(in_k1_class(t) for t in trees) and any(o == "InvalidExpressionError" for o in outs) else f"brackets:{variants[0]}"
                ctx.violation("redundant brackets change validity or outcome", {"variants": variants, "outcomes": [repr(o) for o in outs], "rc": a}, key=key)
                break
    # string level against the DOCUMENTED grouping: brackets that are redundant by the documented precedence, and swapped operands,
    # written with all operator spellings, must not change the outcome (the tree `e` is what the precedence rules prescribe)
    def nested_then(x):
        return (not T.is_leaf(x)) and ((x[0] == T.THEN and any((not T.is_leaf(c)) and c[0] == T.THEN for c in (x[1], x[2]))) or nested_then(x[1]) or nested_then(x[2]))
    for e in exprs[: ctx.pick(200, 2000)]:
        if nested_then(e):
            continue
        keys = E.keys_by_kind(e)["rc"]
        a = {k: ctx.rng.choice("FUK") for k in keys}
        swaps = [t2 for kind, t2 in transformations(ctx, e) if kind == "swap"][:2]
        base_s = T.render(e, T.Style(ctx.rng, "min", "rand", "one")).strip()
        variants = [("brackets", T.render(e, T.Style(ctx.rng, b, "rand", "one")).strip()) for b in ("rand", "max")]
        variants += [("swap", T.render(t2, T.Style(ctx.rng, "min", "rand", "one")).strip()) for t2 in swaps]
        p0 = P.parse_cond(base_s)
        if "err" in p0:
            ctx.violation("rendered expression does not parse", {"s": base_s}, key=f"str-parse:{base_s}")
            continue
        o0 = outcome(E.eval_rc(p0["lark"], a, EC.hints_for(e)))
        for kind, s in variants:
            pv = P.parse_cond(s)
            ctx.case(("string-level", kind, s))
            ctx.count("string_level", kind)
            ov = outcome(E.eval_rc(pv["lark"], a, EC.hints_for(e))) if "err" not in pv else pv["err"]
            if ov != o0:
                t0, tv = T.from_json(p0["tree"]), (T.from_json(pv["tree"]) if "err" not in pv else e)
                k1 = in_k1_class(t0) and in_k1_class(tv) and "InvalidExpressionError" in (o0, ov)
                ctx.violation(("redundant brackets" if kind == "brackets" else "swapping the operands of an operator") + " change validity or outcome (string level, documented precedence)",
                              {"expression": base_s, "variant": s, "rc": a, "outcome": repr(o0), "variant_outcome": repr(ov)}, key=K1_KEY if k1 else f"string-{kind}:{base_s}")
                break

    # the same, with requirement keys abbreviated by packages and evaluated through the whole pipeline (resolve packages, then evaluate):
    # swapping operands / redundant brackets must not change the outcome, which is that of the unabbreviated expression
    def pack(t, names):
        if T.is_leaf(t):
            return ("pkg", names[t[1]], None) if t[0] == "cond" and t[1] in names else t
        return (t[0], pack(t[1], names), pack(t[2], names))
    for e in exprs[: ctx.pick(300, 2500)]:
        keys = E.keys_by_kind(e)["rc"]
        if len(keys) < 2 or nested_then(e):
            continue
        chosen = ctx.rng.sample(keys, ctx.rng.randint(2, min(3, len(keys))))
        names = {k: f"{i + 1}P" for i, k in enumerate(chosen)}
        table = {names[k]: f"[{k}]" for k in chosen}
        a = {k: ctx.rng.choice("FUK") for k in keys}
        ref = outcome(E.eval_rc(T.to_lark(e), a, EC.hints_for(e)))
        if ref == "InvalidExpressionError":
            continue
        swaps = [t2 for kind, t2 in transformations(ctx, e) if kind == "swap"][:3]
        variants = [("as written", T.render(pack(e, names), T.Style(ctx.rng, "min", "rand", "one")).strip())]
        variants += [("brackets", T.render(pack(e, names), T.Style(ctx.rng, b, "rand", "one")).strip()) for b in ("rand", "max")]
        variants += [("swap", T.render(pack(t2, names), T.Style(ctx.rng, "min", "rand", "one")).strip()) for t2 in swaps]
        evalenv.set_cer(evalenv.make_cer(packages=table))
        for kind, sv in variants:
            evalenv.set_cer(evalenv.make_cer(packages=table))
            pv = P.resolve(sv, resolve_packages=True, replace_time_conditions=True)
            ctx.case(("packages", kind, sv, sorted(a.items())))
            ctx.count("with_packages", kind)
            if "err" in pv:
                ctx.violation(f"expression with packages does not resolve ({pv['err']})", {"expression": sv, "packages": table}, key=f"pkg-resolve:{sv}")
                break
            ov = outcome(E.eval_rc(pv["lark"], a, EC.hints_for(e)))
            if ov != ref:
                ctx.violation(("the outcome of an expression written with packages differs from the outcome of the expression they abbreviate" if kind == "as written" else
                               ("redundant brackets" if kind == "brackets" else "swapping the operands of an operator") + " change the outcome of an expression written with packages"),
                              {"expression": variants[0][1], "variant": sv, "packages": table, "rc": a, "unabbreviated": T.render(e, T.Style(ctx.rng, "min", "upper", "one")).strip(),
                               "outcome_unabbreviated": repr(ref), "variant_outcome": repr(ov)},
                              # inside K1's class validity depends on how Lark happens to group a same-operator run: that is the known finding, not a new one
                              key=K1_KEY if (in_k1_class(e) and "InvalidExpressionError" in (ref, ov)) else f"pkg-{kind}:{variants[0][1]}")
                break

    # K1 witness, replayed on every run
    from ahbicht.content_evaluation import is_valid_expression
    import asyncio
    res = [asyncio.run(is_valid_expression(s, evalenv.set_cer))[0] for s in K1_WITNESS]
    ctx.coverage["K1_witness"] = {"strings": K1_WITNESS, "is_valid": res}
    if res[0] != res[1]:
        ctx.violation("redundant brackets change validity: 'Muss [501] O [901] O [502] U [503]' is valid, with brackets around '[502] U [503]' it is invalid",
                      {"strings": K1_WITNESS, "is_valid": res}, key=K1_KEY)
    for c in all_cases[:: max(1, len(all_cases) // 6)][:6]:
        ctx.sample({"stream": c["stream"], "tree": T.to_json(c["e"]), "rc": c["rc"], "impl": outcome(c["impl"])})
    if drv:
        outs = ctx.driver({"op": "evalRc", "tree": T.to_json(c["e"]), "rc": c["rc"], "hints": c["hints"]} for c in all_cases)
        for c, o in zip(all_cases, outs):
            c["model"] = o
    EC.compare(ctx, all_cases, gate=["fulfilled", "conditional"], advisory=["fce", "hints"], name="evalRc")
    ctx.assumptions += ["bracket clause: proved only as the K1 counter-example plus the string-level C01 theorem; outside K1's class it is checked on the implementation"]


def replay(ctx: Ctx, data) -> int:
    evalenv.configure_cer_based()
    r = data["replay"]
    if "transformed_tree" in r:
        e, t2 = T.from_json(r["original_tree"]), T.from_json(r["transformed_tree"])
        a = outcome(E.eval_rc(T.to_lark(e), r["rc"], EC.hints_for(e)))
        b = outcome(E.eval_rc(T.to_lark(t2), r["rc"], EC.hints_for(t2)))
        print("before:", a, "after:", b)
        return 0 if a == b else 1
    print(r)
    return 1
