"""
C16 — an invalid expression makes one node optional and never aborts validation.

Proof: Properties/C16.lean (no abort from invalid expressions; the node is optional with the reason as hint; every other node's
result equals the result for the AHB with 'Kann' in place of the invalid expressions; invalid pool entries are offered).
Predicate on the implementation: plant 1-5 invalid expressions at random node kinds, compare with the Kann-substituted AHB.
"""
from __future__ import annotations

from .. import evaluation as E, evalenv, extract, trees as T, valgen as V
from ..common import Ctx
from . import _valcommon as VC

MODULES = ["Ahbicht.Properties.C16", "Ahbicht.Properties.C16Full"]
KANN = {"parts": [["KANN", "Kann", None]]}


def run(ctx: Ctx) -> None:
    ctx.rule = ("random deep AHBs with 1-5 well-formed but invalid expressions planted at random groups, segments, free-text elements and value-pool entries "
                "(simultaneous faults included), compared node by node with the AHB that has 'Kann' in their place; distinct = (AHB, content result, flag); "
                "non-trivial = at least one invalid expression at a visited node")
    ctx.coverage["generated_changed"] = extract.regenerate(["Validation"])
    ok = ctx.lean_build(MODULES)
    drv = ctx.lean_build_driver()
    if ok:
        ctx.lean_audit(MODULES)
        if not ctx.quick:
            ctx.lean_check_olean(MODULES)
    E.configure(ctx.rng)  # evaluators: content-result based or evaluate_<key> methods, suspending under a random schedule half of the time
    rng = ctx.rng
    runs = []
    for i in range(ctx.pick(100, 1000)):
        g = V.Gen(rng, depth=rng.randint(1, 3), branching=rng.randint(1, 3))
        spec = g.ahb()
        cer = g.cer(p_unknown=0.0)
        # plant invalid expressions
        slots = []
        for kind, node, _ in V.walk(spec):
            if kind == "pool":
                slots += [("entry", e) for e in node["entries"]]
            else:
                slots.append((kind, node))
        chosen = rng.sample(slots, min(len(slots), rng.randint(1, 5)))
        # boundary counts inside one pool: every entry invalid / all but one / exactly the first or the last
        pools = [node for kind, node, _ in V.walk(spec) if kind == "pool" and len(node["entries"]) >= 2]
        if pools and rng.random() < 0.35:
            pool = rng.choice(pools)
            es = pool["entries"]
            pick = rng.choice([es, es[1:], es[:-1], es[:1], es[-1:]])
            chosen = [c for c in chosen if not any(c[1] is e for e in es)] + [("entry", e) for e in pick]
            ctx.count("pool_boundary", "all" if len(pick) == len(es) else ("all but one" if len(pick) == len(es) - 1 else "one"))
        invalid_discs, invalid_entries = set(), 0
        for kind, node in chosen:
            bad_cond = rng.choice(V.INVALID_CONDS + ["([2] U [3]) O [501]", "[501] X ([2] O [3])"])
            if rng.random() < 0.4:
                # the invalid condition sits in a later (or earlier) modal-mark part of a multi-part expression
                ok_parts = [[k, rng.choice(V.MODAL[k]), T.render(rng.choice(g.pool), T.Style(rng, "min", "upper", "one")).strip()] for k in rng.choices(["MUSS", "KANN", "SOLL"], k=rng.randint(1, 2))]
                bad_part = [rng.choice(["MUSS", "KANN"]), "Muss", bad_cond]
                bad_part[1] = V.MODAL[bad_part[0]][0]
                pos = rng.randint(0, len(ok_parts))
                node["expr"] = {"parts": ok_parts[:pos] + [bad_part] + ok_parts[pos:], "invalid": True, "bad": pos}
            else:
                w = rng.choice(["Muss", "M", "X", "Soll"])
                node["expr"] = {"parts": [["X" if w == "X" else "MUSS", w, bad_cond]], "invalid": True, "bad": 0}
            if kind == "entry":
                invalid_entries += 1
            else:
                invalid_discs.add(node["disc"])
        kann = V.map_exprs(spec, lambda kind, node, x: KANN if x.get("invalid") else x)
        soll = rng.random() < 0.7
        a = V.run_validation(spec, cer, soll)
        b = V.run_validation(kann, cer, soll)
        runs.append({"spec": spec, "cer": cer, "soll": soll, "impl": a})
        visited = {r["disc"] for r in a.get("results", [])}
        ctx.case((str(spec), str(cer), soll), nontrivial=bool(invalid_discs & visited) or invalid_entries > 0)
        ctx.count("planted", str(len(chosen)))
        for kind, _ in chosen:
            ctx.count("planted_at", kind)
        rep = {"ahb": spec, "content_evaluation": cer, "soll_is_required": soll, "invalid_at": sorted(invalid_discs), "invalid_pool_entries": invalid_entries}
        if "err" in a:
            if "err" not in b:
                # is the abort really about an invalid expression?  A planted multi-part expression may contain a (valid-looking) part that the library cannot
                # evaluate at all (a juxtaposition run that Lark groups as format constraint next to format constraint raises NotImplementedError); the AHB
                # with 'Kann' in its place no longer contains that part, so the two runs are not comparable
                other_part_raises, not_recognised = False, None
                for kind, node, _ in V.walk(spec):
                    for x in ([e["expr"] for e in node["entries"]] if kind == "pool" else [node["expr"]]):
                        if not x.get("invalid"):
                            continue
                        for j, part in enumerate(x["parts"]):
                            ev = V.eval_node_expr(V.expr_text({"parts": [part]}), cer)
                            if j == x.get("bad", 0):
                                if "invalid" not in ev:
                                    not_recognised = (V.expr_text({"parts": [part]}), ev)
                            elif "raises" in ev:
                                other_part_raises = True
                if not_recognised is not None:
                    ctx.violation("a structurally invalid expression is not treated as invalid (evaluated on its own it does not raise the invalid-expression error)",
                                  {**rep, "expression": not_recognised[0], "evaluated_alone": not_recognised[1]}, key=f"not-recognised:{not_recognised[0]}")
                    continue
                if other_part_raises:
                    ctx.count("skipped", "another part of a planted multi-part expression raises on its own (not an invalid-expression error)")
                    continue
                ctx.violation(f"an invalid expression aborts validation ({a['err']})", rep, key=f"abort:{a['err']}")
            continue
        if "err" in b:
            continue
        ra, rb = a["results"], b["results"]
        if [r["disc"] for r in ra] != [r["disc"] for r in rb]:
            ctx.violation("the set of reported nodes differs from the AHB with 'Kann' in place of the invalid expressions", {**rep, "got": [r["disc"] for r in ra], "kann": [r["disc"] for r in rb]}, key="nodes")
            continue
        for x, y in zip(ra, rb):
            if x["disc"] in invalid_discs:
                if not x["status"] == "IS_OPTIONAL" or not x["hints"]:
                    ctx.violation("a node with an invalid expression is not reported optional with the reason as hint", {**rep, "node": x}, key=f"node:{x['disc'][:2]}")
            elif x != y:
                ctx.violation("another node's result differs from the AHB with 'Kann' in place of the invalid expression", {**rep, "node": x, "with_kann": y}, key=f"others:{x['disc'][:2]}")
                break
    ctx.sample({"ahb": runs[0]["spec"], "result": runs[0]["impl"]}, limit=1)
    VC.correspondence(ctx, runs, drv)


def replay(ctx: Ctx, data) -> int:
    evalenv.configure_cer_based()
    r = data["replay"]
    a = V.run_validation(r["ahb"], r["content_evaluation"], r["soll_is_required"])
    print(a.get("err", "results"))
    return 1 if "err" in a else 0
