"""
C14 — soll_is_required is equivalent to rewriting SOLL at every level.

Proof: Properties/C14.lean (validate b a = validate b' (rewriteSoll b a), using the extracted mapping table).
Predicate on the implementation: validating with the flag equals validating the AHB whose SOLL marks are rewritten
(to MUSS for True, to KANN for False) — for both values of the flag on the rewritten AHB.
"""
from __future__ import annotations

from .. import evaluation as E, evalenv, extract, valgen as V
from ..common import Ctx
from . import _valcommon as VC

MODULES = ["Ahbicht.Properties.C14"]


def rewrite_soll(spec, to: str):
    word = {"MUSS": "Muss", "KANN": "Kann"}[to]

    def fn(kind, node, x):
        if kind == "entry":
            return x  # value-pool entries only say whether a qualifier is possible; the property speaks of groups, segments, free text
        return {**x, "parts": [[to, word, c] if k == "SOLL" else [k, w, c] for k, w, c in x["parts"]]}

    return V.map_exprs(spec, fn)


def run(ctx: Ctx) -> None:
    ctx.rule = ("random deep AHBs with SOLL marks at random groups, segments and free-text elements (also inside multi-part expressions), content results, "
                "both flag values; each compared with the SOLL-rewritten AHB under both flag values; 220 sampled / all 14 580 three-level chains (indicator x parent status x own outcome incl. UNKNOWN); distinct = (AHB, content result, flag)")
    ctx.coverage["generated_changed"] = extract.regenerate(["Validation"])
    ok = ctx.lean_build(MODULES)
    drv = ctx.lean_build_driver()
    if ok:
        ctx.lean_audit(MODULES)
        if not ctx.quick:
            ctx.lean_check_olean(MODULES)
    E.configure(ctx.rng)  # evaluators: content-result based or evaluate_<key> methods, suspending under a random schedule half of the time
    runs = []
    for i in range(ctx.pick(90, 900)):
        g = V.Gen(ctx.rng, depth=ctx.rng.randint(1, ctx.pick(3, 4)), branching=ctx.rng.randint(1, 3), p_soll=0.45)
        spec = g.ahb()
        cer = g.cer(p_unknown=0.0 if i % 3 else 0.12)  # UNKNOWN outcomes: SOLL read as MUSS must abort like MUSS does
        n_soll = sum(1 for kind, node, _ in V.walk(spec) if kind != "pool" for k, _, _ in node["expr"]["parts"] if k == "SOLL")
        for soll in (True, False):
            base = V.run_validation(spec, cer, soll)
            runs.append({"spec": spec, "cer": cer, "soll": soll, "impl": base})
            ctx.case((str(spec), str(cer), soll), nontrivial=n_soll > 0)
            ctx.count("soll_marks", str(min(n_soll, 10)))
            rew = rewrite_soll(spec, "MUSS" if soll else "KANN")
            for soll2 in (True, False):
                other = V.run_validation(rew, cer, soll2)
                if other != base:
                    diff = None
                    if "results" in base and "results" in other:
                        diff = next(({"discriminator": a["disc"], "with_flag": a["status"], "rewritten": b["status"]} for a, b in zip(base["results"], other["results"]) if a != b), None)
                    depth_kind = diff["discriminator"][:2] if diff else "abort"
                    ctx.violation(f"soll_is_required={soll} differs from rewriting SOLL to {'MUSS' if soll else 'KANN'}",
                                  {"ahb": spec, "content_evaluation": cer, "soll_is_required": soll, "rewritten_validated_with_flag": soll2, "first_difference": diff,
                                   "outcomes": [base.get("err", "results"), other.get("err", "results")]}, key=f"rewrite:{soll}:{depth_kind}")
                    break
    # systematic small chains group > segment > free text: every combination of own indicator, parent status and outcome of the own
    # condition (fulfilled / unfulfilled / UNKNOWN) at every level -- the flag must act like the rewrite in each of them
    def x(*parts):
        return {"parts": [[k, k.capitalize() if len(k) > 1 else k, c] for k, c in parts]}
    A = [x(("MUSS", None)), x(("KANN", None)), x(("KANN", "[1]")), x(("SOLL", "[1]")), x(("MUSS", "[1]")), x(("SOLL", None))]
    B = [x(("SOLL", "[2]")), x(("MUSS", "[2]")), x(("KANN", "[2]")), x(("SOLL", None)), x(("MUSS", "[3]"), ("SOLL", "[2]")), x(("SOLL", "[2]"), ("KANN", None))]
    C = [x(("SOLL", "[2]")), x(("SOLL", "[3]")), x(("MUSS", "[2]")), x(("X", None)), x(("SOLL", "[3][901]"))]
    combos = [(a, b, c, r1, r2, r3) for a in A for b in B for c in C for r1 in "FUK" for r2 in "FUK" for r3 in "FUK"]
    if ctx.quick:
        combos = ctx.rng.sample(combos, 220)
    g0 = V.Gen(ctx.rng)
    for a, b, c, r1, r2, r3 in combos:
        spec = {"lines": [{"t": "g", "disc": "sg1", "expr": a, "groups": [], "segs": [{"disc": "seg1", "expr": b, "des": [
            {"t": "free", "disc": "ft1", "expr": c, "input": ctx.rng.choice([None, "abc"]), "vtype": "TEXT"}]}]}]}
        cer = g0.cer(p_unknown=0.0)
        cer["rc"].update({"1": r1, "2": r2, "3": r3})
        for soll in (True, False):
            base = V.run_validation(spec, cer, soll)
            ctx.case(("chain", str(spec), r1 + r2 + r3, soll), nontrivial=True)
            ctx.count("chain_outcome", base.get("err", "results"))
            other = V.run_validation(rewrite_soll(spec, "MUSS" if soll else "KANN"), cer, not soll)
            if other != base:
                ctx.violation(f"soll_is_required={soll} differs from rewriting SOLL to {'MUSS' if soll else 'KANN'}",
                              {"ahb": spec, "content_evaluation": {"1": r1, "2": r2, "3": r3}, "full_content_evaluation": cer, "soll_is_required": soll,
                               "with_flag": base, "rewritten": other}, key=f"rewrite-chain:{soll}")
                break
    ctx.sample({"ahb": runs[0]["spec"], "soll": runs[0]["soll"]}, limit=1)
    VC.correspondence(ctx, runs, drv)


def replay(ctx: Ctx, data) -> int:
    evalenv.configure_cer_based()
    r = data["replay"]
    soll = r["soll_is_required"]
    a = V.run_validation(r["ahb"], r["content_evaluation"], soll)
    b = V.run_validation(rewrite_soll(r["ahb"], "MUSS" if soll else "KANN"), r["content_evaluation"], r["rewritten_validated_with_flag"])
    print("equal:", a == b)
    return 0 if a == b else 1
