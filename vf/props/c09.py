"""
C09 — AHB expressions split into their parts; the first fulfilled part decides.

Proof: Properties/C09.lean (normalised indicators over the extracted table; selection lemmas; bare indicator).
Tie: T1 (indicator table), T2 (AHB grammar), T3 (parts list, resolved tree, evaluation result).
Predicates on the implementation: written parts come back in order; the result is the first fulfilled part's own
evaluation (indicator normalised, conditional overridden for several parts), else the last part's.
"""
from __future__ import annotations

import itertools
import json

from .. import evalenv, evaluation as E, extract, parsing as P, trees as T
from ..common import Ctx
from . import _evalcommon as EC

MODULES = ["Ahbicht.Properties.Grammar", "Ahbicht.Properties.C09", "Ahbicht.Properties.C09Split"]
MARK_WORDS = {"MUSS": ["M", "Muss"], "SOLL": ["S", "Soll"], "KANN": ["K", "Kann"]}
WS = " \t\n\r\f"


def case_variants(word, rng, exhaustive):
    combos = list(itertools.product([0, 1], repeat=len(word)))
    if not exhaustive:
        combos = [rng.choice(combos)]
    for mask in combos:
        yield "".join(ch.upper() if m else ch.lower() for ch, m in zip(word, mask))


def cond_text(ctx: Ctx, e) -> str:
    rng = ctx.rng
    s = T.render(e, T.Style(rng, rng.choice(["min", "rand"]), "rand", rng.choice(["one", "rand", "none"]))).strip(WS)
    if s[0] in "uU" and len(s) > 1:  # cannot happen: a condition text starts with '[' or '('
        s = " " + s
    lead = "".join(rng.choice(WS) for _ in range(rng.choice([0, 0, 1, 1, 2])))
    trail = "".join(rng.choice(WS) for _ in range(rng.choice([0, 0, 1, 2])))
    return lead + s + trail


def gen_case(ctx: Ctx, pool):
    """(string, [written parts], [exprs])"""
    rng = ctx.rng
    r = rng.random()
    if r < 0.08:  # bare indicator
        w = rng.choice(["M", "Muss", "S", "Soll", "K", "Kann", "X", "O", "U"])
        w = next(case_variants(w, rng, False))
        return w, [("bare", w, None)], []
    if r < 0.25:  # prefix operator part
        w = next(case_variants(rng.choice("XOU"), rng, False))
        e = rng.choice(pool)
        c = cond_text(ctx, e)
        return w + c, [("part", w, c)], [e]
    n = rng.randint(1, 5)
    parts, exprs, s = [], [], ""
    for _ in range(n):
        w = next(case_variants(rng.choice(sum(MARK_WORDS.values(), [])), rng, False))
        e = rng.choice(pool)
        c = cond_text(ctx, e)
        parts.append(("part", w, c))
        exprs.append(e)
        s += w + c
    if rng.random() < 0.3:
        w = next(case_variants(rng.choice(sum(MARK_WORDS.values(), [])), rng, False))
        parts.append(("bare", w, None))
        s += w
    return s, parts, exprs


def norm(w: str) -> str:
    u = w.upper()
    return {"M": "MUSS", "S": "SOLL", "K": "KANN"}.get(u, u)


def run(ctx: Ctx) -> None:
    ctx.rule = ("AHB expressions with 1-5 modal-mark parts (+ optional bare mark), prefix-operator parts, bare indicators; every spelling, random letter-case "
                "patterns (all patterns exhaustively for single parts), whitespace around condition texts; condition texts from valid well-formed trees; "
                "assignments F/U/K per key so that every 'first fulfilled' index occurs; distinct = (string, assignment)")
    ctx.coverage["generated_changed"] = extract.regenerate(["CharClasses", "Grammar", "Indicators", "Cfv"])
    ok = ctx.lean_build(MODULES)
    drv = ctx.lean_build_driver()
    if ok:
        ctx.lean_audit(MODULES)
        if not ctx.quick:
            ctx.lean_check_olean(MODULES)
    E.configure(ctx.rng)  # evaluators / providers suspend under a random schedule half of the time
    rng = ctx.rng
    pool = [e for _, e in EC.gen_exprs(ctx, ctx.pick(150, 800), 5, 2) if E.well_formed(e) and not E.invalid_at(e)]
    cases = []
    # all case patterns of all spellings, single part and bare
    for canon, words in list(MARK_WORDS.items()) + [("X", ["X"]), ("O", ["O"]), ("U", ["U"])]:
        for w0 in words:
            for w in case_variants(w0, rng, True):
                cases.append((w + "[1]", [("part", w, "[1]")], [("cond", "1")]))
                cases.append((w, [("bare", w, None)], []))
    for _ in range(ctx.pick(500, 5000)):
        cases.append(gen_case(ctx, pool))
    rows = []
    for s, parts, exprs in cases:
        a = P.parse_ahb(s)
        ctx.count("n_parts", str(len(parts)))
        if "err" in a:
            ctx.case(s)
            ctx.violation(f"AHB expression of the documented form is rejected ({a['err']})", {"s": s, "parts": parts}, key=f"reject:{[p[1] for p in parts]}")
            continue
        got = [(p[0], p[2], p[3]) for p in a["parts"]]
        if got != [tuple(p) for p in parts]:
            ctx.case(s)
            ctx.violation("AHB expression is not split into its written parts", {"s": s, "expected": parts, "got": got}, key=f"split:{s}")
            continue
        r = P.resolve(s, replace_time_conditions=False)
        if "err" in r:
            ctx.case(s)
            ctx.violation(f"resolver rejects the expression ({r['err']})", {"s": s}, key=f"resolve:{s}")
            continue
        # assignment
        keys = sorted({k for e in exprs for k in E.keys_by_kind(e)["rc"]})
        fkeys = sorted({k for e in exprs for k in E.keys_by_kind(e)["fc"]})
        hints = {k: f"Hinweis {k}" for e in exprs for k in E.keys_by_kind(e)["hint"]}
        for _ in range(ctx.pick(2, 4)):
            rc = {k: rng.choice("FFUUK") for k in keys}
            fc = {k: ((True, None) if rng.random() < 0.5 else (False, f"fc {k}")) for k in fkeys}
            ctx.case((s, sorted(rc.items()), sorted(fc.items())), nontrivial=len(parts) > 1 or bool(exprs))
            whole = E.eval_ahb(r["lark"], rc, hints, fc)
            # every part on its own, through the implementation
            singles = []
            lark_parts = [ch for ch in r["lark"].children]
            for ch, p in zip(lark_parts, parts):
                if p[0] == "bare":
                    singles.append({"indicator": norm(p[1]), "fulfilled": True, "conditional": False, "fce": None, "hints": None, "fc_ok": True, "fc_msg": None})
                else:
                    rr = E.eval_rc(ch.children[1], rc, hints)
                    if "err" in rr:
                        singles.append(rr)
                        continue
                    ff = E.eval_fc_string(rr["fce"], fc)
                    singles.append({"indicator": norm(p[1]), **{k: rr[k] for k in ("fulfilled", "conditional", "fce", "hints")}, "fc_ok": ff.get("ok"), "fc_msg": ff.get("msg")})
            row = {"s": s, "shape": r["shape"], "rc": rc, "fc": fc, "hints": hints, "impl": whole}
            rows.append(row)
            if any("err" in x for x in singles):
                if "err" not in whole:
                    ctx.violation("a part raises on its own but the whole expression evaluates", {"s": s, "rc": rc}, key=f"parterr:{s}")
                continue
            if "err" in whole:
                ctx.violation(f"evaluation of an AHB expression of the documented form raises {whole['exc']}", {"s": s, "rc": rc, "fc": fc, "indicators": [p[1] for p in parts]},
                              key=f"raise:{whole['exc']}:{[norm(p[1]) == p[1] for p in parts if p[1].upper() in 'XOU']}")
                continue
            idx = next((i for i, x in enumerate(singles) if x["fulfilled"] is True), len(singles) - 1)
            ctx.count("selected_index", str(idx) if singles[idx]["fulfilled"] is True else "last(unfulfilled)")
            want = dict(singles[idx])
            if want["fulfilled"] is True and len(singles) > 1:
                want["conditional"] = True
            bad = [k for k in ("indicator", "fulfilled", "hints", "fce", "fc_ok", "fc_msg", "conditional") if whole.get(k) != want.get(k)]
            if bad:
                ctx.violation("result is not the first fulfilled (else last) part's own evaluation", {"s": s, "rc": rc, "fc": fc, "differs_in": bad, "expected": want, "got": whole},
                              key=f"select:{s}:{sorted(rc.items())}")
    for row in rows[:: max(1, len(rows) // 6)][:6]:
        ctx.sample({"s": row["s"], "rc": row["rc"], "impl": row["impl"]})
    if drv:
        reqs = []
        for row in rows:
            parts_j = row["shape"][1] if row["shape"][0] == "ahb" else []
            # the model wants binary trees: re-parse each condition text with the model's own parser is not the point here, send Lark's tree
            reqs.append(row)
        lines = []
        for row in rows:
            r = P.resolve(row["s"], replace_time_conditions=False)
            pj = []
            for ch in r["lark"].children:
                if ch.data == "single_requirement_indicator_expression":
                    pj.append(["part", str(ch.children[0].type), str(ch.children[0].value), T.to_json(T.from_lark(ch.children[1]))])
                else:
                    pj.append(["bare", str(ch.children[0].type), str(ch.children[0].value), None])
            lines.append({"op": "evalAhb", "parts": pj, "rc": row["rc"], "hints": row["hints"], "fc": {k: list(v) for k, v in row["fc"].items()}})
        outs = ctx.driver(lines)
        n_diff = 0
        for row, o in zip(rows, outs):
            i = row["impl"]
            if ("err" in i) != ("err" in o):
                n_diff += 1
                if n_diff <= 6:
                    ctx.broke("correspondence", "evalAhb", json.dumps({"s": row["s"], "rc": row["rc"], "impl": i, "model": o}, ensure_ascii=False))
                continue
            if "err" in i:
                continue
            bad = [k for k in ("indicator", "fulfilled", "conditional", "fc_ok") if i.get(k) != o.get(k)]
            if bad or (i.get("fc_msg") is None) != (o.get("fc_msg") is None) or (i.get("fce") is None) != (o.get("fce") is None):
                n_diff += 1
                if n_diff <= 6:
                    ctx.broke("correspondence", "evalAhb", json.dumps({"s": row["s"], "rc": row["rc"], "fields": bad, "impl": i, "model": o}, ensure_ascii=False))
            elif any(i.get(k) != o.get(k) for k in ("fce", "hints", "fc_msg")):
                ctx.advise({"s": row["s"], "impl": {k: i.get(k) for k in ("fce", "hints", "fc_msg")}, "model": {k: o.get(k) for k in ("fce", "hints", "fc_msg")}})
        ctx.coverage["correspondence"] = {"evalAhb": {"lines": len(rows), "disagreements": n_diff}}
    ctx.assumptions += ["letter case is ASCII case (the property's 'any letter case'); U+212A / U+017F spellings accepted by the regex engine are outside the quantifier"]


def replay(ctx: Ctx, data) -> int:
    evalenv.configure_cer_based()
    r = data["replay"]
    res = P.resolve(r["s"], replace_time_conditions=False)
    if "err" in res:
        print("resolve:", res["err"])
        return 1
    out = E.eval_ahb(res["lark"], r.get("rc", {}), {}, {k: tuple(v) for k, v in r.get("fc", {}).items()})
    print(out)
    return 1 if "err" in out else 0
