"""entry point: python -m vf.check Cxx [--tier quick|thorough] [--replay FILE]"""
from __future__ import annotations

import argparse
import importlib
import json
import os
import sys
import traceback

from .common import Ctx, ToolFailure


def main(argv=None) -> int:
    ap = argparse.ArgumentParser()
    ap.add_argument("prop")
    ap.add_argument("--tier", default=os.environ.get("VERIF_TIER", "quick"), choices=["quick", "thorough"])
    ap.add_argument("--replay", default=None)
    args = ap.parse_args(argv)
    try:
        seed = int(os.environ.get("VERIF_SEED", "0") or 0)
    except ValueError:
        seed = 0
    prop = args.prop.upper()
    try:
        mod = importlib.import_module(f"vf.props.{prop.lower()}")
    except ModuleNotFoundError:
        print(f"no check for {prop}", file=sys.stderr)
        return 2
    ctx = Ctx(prop, args.tier, seed)
    try:
        if args.replay:
            data = json.load(open(args.replay, encoding="utf-8"))
            return mod.replay(ctx, data)
        mod.run(ctx)
        return ctx.finish()
    except ToolFailure as tf:
        print(f"TOOL-FAILURE [{prop}]: {tf}", file=sys.stderr)
        return 2
    except Exception:  # pylint:disable=broad-except
        traceback.print_exc()
        if getattr(ctx, "violations", None) and not args.replay:
            # concrete failing inputs had already been found on the implementation before the harness itself gave up: they are reported, the crash is recorded
            ctx.coverage["harness_crash_after_violations"] = traceback.format_exc()[-1500:]
            print(f"TOOL-NOTE [{prop}]: harness crashed after violations had been found; reporting those", file=sys.stderr)
            return ctx.finish()
        print(f"TOOL-FAILURE [{prop}]: harness crashed", file=sys.stderr)
        return 2


if __name__ == "__main__":
    sys.exit(main())
