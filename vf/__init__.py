"""verification framework for Hochfrequenz/ahbicht (Lean 4 proof + correspondence)"""
