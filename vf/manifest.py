"""writes /verif/MANIFEST.json from the table below (python -m vf.manifest)"""
import json
from pathlib import Path

VERIF = Path(__file__).resolve().parent.parent

NOTE_COMMON = ("Trusted: Lean 4.33.0 kernel; axioms ⊆ {propext, Quot.sound, Classical.choice} (audited each run); "
               "vf/extract.py and the correspondence harness. ")

CHECKS = {
    "C01": dict(
        category="proof",
        text=("Lean theorems C01_precedence / C01_string / C01_spelling_ws / C01_redundant_brackets / C01_unambiguous: every writing of a tree by the "
              "documented stratified grammar (brackets > juxtaposition > AND > XOR > OR), in any operator spelling, with any whitespace and any redundant "
              "brackets, is parsed by the model to that tree modulo same-operator flattening -- for all lengths and nestings. The model is tied to Lark by "
              "the grammar data extracted from the live parser (T2, proved equal to the grammar modelled), the character classes extracted over all code "
              "points (T1) and a differential run: flat(Lark tree) = flat(model tree) on an exhaustive separator sweep plus generated strings."),
        design_ref="§5 C01",
        note=NOTE_COMMON + "Modelled rather than verified: Lark's Earley engine, dynamic lexer and ambiguity resolution (observed through the correspondence).",
        technique="Lean 4 proof (induction over the written form; stack-machine invariant) + differential correspondence with Lark",
    ),
    "C02": dict(
        category="proof",
        text=("Lean theorems: acceptance of the condition parser model = the context-free grammar as written (both directions, unbounded); an AHB-shaped "
              "string is never a condition expression, so a malformed condition part always ends in SyntaxError; the model's outcomes are tree|SyntaxError. "
              "Tied to the code by T1/T2 and by comparing, for every generated string (valid, mutated, all short strings exhaustively, Unicode), the outcome "
              "class and accepted structure of all three entry points and of is_valid_expression with the model."),
        design_ref="§5 C02",
        note=NOTE_COMMON + "Modelled rather than verified: Lark, Python re; 'no other exception escapes' is observed on the generated strings (exhaustive for short ones), proved only for the model.",
        technique="Lean 4 proof (recogniser = grammar, simulation of value machine by its skeleton) + outcome-class correspondence",
    ),
    "C03": dict(
        category="proof",
        text=("All clauses of C03 are Lean theorems (29) stated about the operator tables extracted exhaustively from the running "
              "enum and about the README rows parsed from README.rst; lake build re-proves them against the current code on every run. "
              "The domain is finite, so the extracted table is the function; nothing is sampled."),
        design_ref="§5 C03",
        note=NOTE_COMMON + "Modelled rather than verified: nothing beyond the extractor (operands restricted to the four enum members).",
        technique="Lean 4 proof by kernel-decided case analysis over tables regenerated from the code (T1/T2)",
    ),
}

PENDING = {}
for i in range(1, 21):
    pid = f"C{i:02d}"
    if pid not in CHECKS:
        PENDING[pid] = "check under construction in this round; not claimed until its Lean theorems and correspondence run (see DESIGN.md §5)"


def main():
    checks = []
    for pid, c in sorted(CHECKS.items()):
        checks.append({
            "property_id": pid,
            "quick_cmd": f"./check {pid} --tier quick",
            "thorough_cmd": f"./check {pid} --tier thorough",
            "evidence_file": f"evidence/{pid}.json",
            "replay_cmd_template": f"./check {pid} --replay {{path}}",
            "engine": "lean4+correspondence",
            "level_claimed": {"category": c["category"], "text": c["text"], "design_ref": c["design_ref"]},
            "level_note": c["note"],
            "technique": c["technique"],
        })
    manifest = {
        "version": 1,
        "setup_cmd": "./setup.sh",
        "hooks": {
            "guard": "AHBICHT_VERIF",
            "enable": "no source hooks are needed: checks import ahbicht from /repo/src in-process (vf/impl.py sets AHBICHT_VERIF=1, nothing in the repo reads it)",
            "baseline_off_cmd": "cd /repo && /venv/bin/python -m pytest -ra -q -p no:cacheprovider --timeout=900 --continue-on-collection-errors",
            "source_commits": [],
            "add_only": True,
        },
        "engines": [
            {"name": "lean4+correspondence", "path": "lean/", "serves_properties": sorted(CHECKS),
             "kind_free_text": "Lean 4 model + theorems (lake build, axiom audit, leanchecker) tied to /repo by regenerated tables (vf/extract.py) and a differential line-protocol correspondence (vf/, lean/Main.lean)"},
        ],
        "checks": checks,
        "not_applicable": [{"property_id": k, "reason": v} for k, v in sorted(PENDING.items())],
        "notes": "See DESIGN.md. Exit 2 = tool failure (never a verdict). known_findings.json lists known/fixed findings.",
    }
    (VERIF / "MANIFEST.json").write_text(json.dumps(manifest, indent=1, ensure_ascii=False) + "\n")


if __name__ == "__main__":
    main()
