"""writes /verif/MANIFEST.json from the table below (python -m vf.manifest)"""
import json
from pathlib import Path

VERIF = Path(__file__).resolve().parent.parent

NOTE_COMMON = ("Trusted: Lean 4.33.0 kernel; axioms ⊆ {propext, Quot.sound, Classical.choice} (audited each run); "
               "vf/extract.py and the correspondence harness. ")

CHECKS = {
    "C01": dict(
        category="proof",
        text=("Lean theorems C01_precedence / C01_string / C01_spelling_ws / C01_redundant_brackets / C01_unambiguous: every writing of a tree by the "
              "documented stratified grammar (brackets > juxtaposition > AND > XOR > OR), in any operator spelling, with any whitespace and any redundant "
              "brackets, is parsed by the model to that tree modulo same-operator flattening -- for all lengths and nestings; conversely C01_every_input: every token string "
              "the model accepts is a writing of its result in that grammar, so the result is always the documented reading. The model is tied to Lark by "
              "the grammar data extracted from the live parser (T2, proved equal to the grammar modelled), the character classes extracted over all code "
              "points (T1) and a differential run: flat(Lark tree) = flat(model tree) on an exhaustive separator sweep plus generated strings."),
        design_ref="§5 C01",
        note=NOTE_COMMON + "Modelled rather than verified: Lark's Earley engine, dynamic lexer and ambiguity resolution (observed through the correspondence).",
        technique="Lean 4 proof (induction over the written form; stack-machine invariant) + differential correspondence with Lark",
    ),
    "C02": dict(
        category="proof",
        text=("Lean theorems: acceptance of the condition parser model = the context-free grammar as written (both directions, unbounded); an AHB-shaped "
              "string is never a condition expression, so a malformed condition part always ends in SyntaxError; the model's outcomes are tree|SyntaxError; C02_lex_iff: the scanner "
              "accepts a character string iff it is a documented spelling of the tokens; C02_ahb_sound: an accepted AHB string is a sequence of modal-mark parts or one prefix-operator part. "
              "Tied to the code by T1/T2 and by comparing, for every generated string (valid, mutated, all short strings exhaustively, Unicode), the outcome "
              "class and accepted structure of all three entry points and of is_valid_expression with the model."),
        design_ref="§5 C02",
        note=NOTE_COMMON + "Modelled rather than verified: Lark, Python re; 'no other exception escapes' is observed on the generated strings (exhaustive for short ones), proved only for the model.",
        technique="Lean 4 proof (recogniser = grammar, simulation of value machine by its skeleton) + outcome-class correspondence",
    ),
    "C04": dict(
        category="proof",
        text=("Lean: eval_char (one induction) shows that on the documented domain the model of RequirementConstraintTransformer succeeds exactly on structurally "
              "valid trees and then has state = denote (the 4-line compositional semantics) for every tree and assignment; C04_outcome lifts this to the reported "
              "(fulfilled, conditional) pair of requirement_constraint_evaluation. The model (node classes, both expression builders) is tied to the code by a "
              "differential run on trees (exhaustive small shapes x all 3^k assignments + random), gating on outcome and error class, and by C03's extracted operator tables."),
        design_ref="§5 C04",
        note=NOTE_COMMON + "Modelled rather than verified: lark Transformer dispatch, the inject plumbing, user evaluators (assumed functions of the key).",
        technique="Lean 4 proof by structural induction over the expression tree + differential correspondence on trees",
    ),
    "C05": dict(
        category="proof",
        text=("Lean: one-hole-context lemmas (Rel/Weak closed under every surrounding context) give, for every valid tree, every position and every assignment: swapping "
              "operands of U/O/X, and-ing a hint onto the whole or onto any U/O/X operand (either side), attaching a format constraint to any requirement-bearing "
              "sub-expression keep domain membership and validity and leave denote (hence, by C04, the outcome) unchanged; denote is monotone in the information order, "
              "so definite outcomes survive every resolution of UNKNOWN. Brackets: C05_brackets_partial / C05_brackets_written prove that outside the class of finding K1 (no O/X run with a bare "
              "hint next to a bare format constraint) re-bracketing changes neither validity nor outcome; K1 itself is a proved counterexample (decide) and K1_is_excluded shows it is exactly outside the hypothesis. Same model/correspondence as C04; all transformations are also run on the implementation."),
        design_ref="§5 C05",
        note=NOTE_COMMON + "Partial: 'redundant brackets keep validity' is false of the code on K1's class (known finding); the theorem carries the hypothesis that excludes exactly that class.",
        technique="Lean 4 proof (context induction, monotonicity of the four-valued operators) + transformation predicates on the implementation",
    ),
    "C06": dict(
        category="proof",
        text=("Lean: C06_structural — for every tree of the documented domain and EVERY assignment the model raises the invalid-expression error iff the structural "
              "criterion invalidAt holds (so states never matter: C06_all_or_none), C06_neutral_iff, C06_evaluation (whole requirement_constraint_evaluation), "
              "C06_no_keys; C06_check: the model of is_valid_expression (enumerate generated content results, evaluate, look for the error) equals the criterion. Tied to the code by the tree correspondence (error class gates) and by running is_valid_expression on rendered single- and multi-part AHB "
              "expressions against the structural criterion evaluated on the tree Lark produced."),
        design_ref="§5 C06",
        note=NOTE_COMMON + "Modelled rather than verified: is_valid_expression's gather over generated results (observed), BaseException-ness of InvalidExpressionError (observed).",
        technique="Lean 4 proof by structural induction + error-class correspondence + validity-check predicate",
    ),
    "C07": dict(
        category="proof",
        text=("Lean: the collected expression is modelled as the AST whose rendering is character-for-character what the f-strings of the builder produce; "
              "C07_meaning: for every valid tree, requirement assignment and truth assignment its value equals the direct reading fcSem; C07_absent; C07_keys (only "
              "format keys of the source); C07_reported; C07_render_parses / C07_string_value: the rendered string lexes and parses back to that AST and has its value. The tie compares, per case, presence, flat(parse) of the real string, its key set and its value under ALL 2^n "
              "truth assignments (plus format_constraint_evaluation on the real string); the exact layout is compared as advisory and has never differed."),
        design_ref="§5 C07",
        note=NOTE_COMMON + "Python re.sub/strip in the builder are observed through the correspondence (layout has never differed).",
        technique="Lean 4 proof by structural induction over tree and builder AST + meaning correspondence under all truth assignments",
    ),
    "C08": dict(
        category="proof",
        text=("Lean: C08_value (evaluation succeeds and equals the Boolean value for every U/O/X tree and environment), C08_assoc (grouping irrelevant), C08_empty, "
              "C08_msg_if (literal premise of the property), C08_msg_iff (with the converse premise made explicit), C08_default_message. Tied by a differential run of "
              "evaluate_format_constraint_tree on exhaustive small trees x all assignments and of format_constraint_evaluation on rendered strings."),
        design_ref="§5 C08",
        note=NOTE_COMMON + "Modelled rather than verified: string-level precedence rests on C01; single-constraint evaluators are inputs.",
        technique="Lean 4 proof by induction with a combinator-closed invariant + differential correspondence",
    ),
    "C09": dict(
        category="proof",
        text=("Lean: C09_normalise over the table extracted from the transformer callbacks for every ASCII case pattern of every spelling (60 entries, kernel-decided); "
              "selection lemmas (first fulfilled part is returned with exactly its own indicator/outcome/hints/format result, else the last; single part unchanged; bare "
              "indicator result); C09_split_modal / C09_split_prefix: the scanner splits every documented writing into exactly its written parts. The AHB scanner model is the one of C02 (T1 classes, T2 grammar). Predicates on the implementation: written parts come back in order for "
              "every spelling/case/whitespace pattern; the whole result equals the selected part's own evaluation obtained by evaluating that part alone."),
        design_ref="§5 C09",
        note=NOTE_COMMON + "Modelled rather than verified: Lark's AHB grammar engine and the async evaluation of the parts (observed through the correspondence).",
        technique="Lean 4 proof over extracted table + list lemmas; part-wise predicate on the implementation; correspondence",
    ),
    "C10": dict(
        category="proof",
        text=("Lean: parse_subst — replacing every atom token by a token list that 'behaves like one item' commutes with parsing EXACTLY (not only modulo flat), for every "
              "token list; instantiated for packages ('(' tokens of the package expression ')') and time conditions (C10_subst_packages, C10_subst_time, C10_subst), "
              "C10_one_level (atoms of package expressions stay untouched), C10_unknown (unknown package aborts), C10_textual (one textual replacement = one token "
              "replacement). Predicate on the implementation: flat(resolved tree) = flat(parse of the textually substituted string) for generated tables/expressions "
              "(condition and multi-part AHB expressions); correspondence: the model's expansion of Lark's tree = the implementation's resolved tree."),
        design_ref="§5 C10",
        note=NOTE_COMMON + "Modelled rather than verified: the coroutine placeholder pass is the business of C12; Lark may group same-operator runs differently at another offset, hence flat.",
        technique="Lean 4 proof (simulation of the bracket-stack machine under token substitution) + substitution predicate + correspondence",
    ),
    "C11": dict(
        category="proof",
        text=("Lean: heap model of Tree objects / children-list objects with region tags, LRU memo, deep vs shared copies, arbitrary in-place edits; C11_pure: under a "
              "copy discipline that shares nothing, for every pure parser, capacity and finite history every parse returns the pure parse (invariant proof); "
              "C11_share_counterexample: lark's Tree.copy() breaks it in three operations. The discipline of the code is OBSERVED on every run (alias analysis of "
              "returned trees against the lru_cache entry) and the theorem is instantiated with it (C11_code_copies_deeply). Histories (both parsers, hits, misses, "
              "evictions beyond 1024 in the thorough tier, edits at any depth; a third of the strings have a near twin in the same history: equal up to blanks / case / "
              "stripping, some malformed) run on the implementation, are compared with an uncached parse and replayed by the model."),
        design_ref="§5 C11",
        note=NOTE_COMMON + "Modelled rather than verified: functools.lru_cache, copy.deepcopy (observed through alias analysis + histories). Thread races are outside (histories, not schedules).",
        technique="Lean 4 proof (heap invariant over arbitrary histories) instantiated with an observed copy discipline + history replay",
    ),
    "C12": dict(
        category="proof",
        text=("Partial by nature (CPython's scheduler is observed): Lean proves, for EVERY completion order / schedule, the logic ahbicht adds on top of asyncio.gather — "
              "slot filling, the index bookkeeping of gather_if_necessary, dict(zip(keys, results)) also with repeated keys, the placeholder pass of package "
              "expansion (every occurrence gets the expression resolved for it), and the task/context machine (values read from context-local storage are schedule "
              "free). On the implementation every generated expression is evaluated under random delay schedules and under ALL completion permutations for <= 4 "
              "awaitables of a kind and compared with the run in which nothing yields; for the validity check the content evaluation results handed to the evaluations are "
              "logged: each concurrent evaluation sees the result the setter was called with for it, the caller's context-local data stay untouched."),
        design_ref="§5 C12",
        note=NOTE_COMMON + "Runtime facts named, not proved: gather returns results in argument order; every gathered coroutine is its own task with a copy of the caller's context; inject resolves providers when the coroutine runs.",
        technique="Lean 4 proof over all completion orders of the modelled bookkeeping + schedule exploration on the implementation",
    ),
    "C13": dict(
        category="proof",
        text=("Lean (model of the five validate_* functions over the three extracted tables): C13_order (reported discriminators are a sub-sequence of document "
              "order), C13_complete (nothing missing unless below a forbidden node), C13_pruned_*, C13_status / C13_status_freetext (own status x parent via the "
              "documented tables, FILLED/EMPTY suffix), C13_dominate_optional (at any depth) / _required, C13_only_not_implemented (the only abort is the documented "
              "one). The tables are proved equal to the documented mapping (mapOwn_eq_spec, combine_eq_spec). C13Full (end to end): a second model whose nodes carry the "
              "expression TEXT calls the modelled scanner/parser/resolver/evaluator (C02-C10) exactly where validation.py does; C13_full_bridge proves it equal to the table walk "
              "on the evaluated tree whenever those evaluations succeed, so C13_full_order / C13_full_complete hold for it. Both models are compared with "
              "validate_deep_anwendungshandbuch on random deep AHBs (the end-to-end one gets only texts and the content evaluation result); all clauses are also checked "
              "directly on the implementation, with evaluators that suspend and with evaluate_<key>-method evaluators."),
        design_ref="§5 C13",
        note=NOTE_COMMON + "Modelled rather than verified: MAUS data classes, asyncio.gather order (C12). Inside the class of C05's known finding K1 the end-to-end model may group a same-operator run differently from Lark; AHBs containing such an expression are counted separately in the end-to-end correspondence.",
        technique="Lean 4 proof (mutual structural induction over the AHB tree, kernel-decided table facts, bridge theorem text-walk = table-walk) + full-result correspondence (table walk and end to end)",
    ),
    "C14": dict(
        category="proof",
        text=("Lean: C14 — validateAhb lines b = validateAhb (rewriteSoll b lines) b' for every tree and both b' (table fact map_rewrite by decide, then mutual "
              "induction). Predicate on the implementation: validation with the flag equals validation of the SOLL-rewritten AHB (strings rewritten part by part) under both flags."),
        design_ref="§5 C14",
        note=NOTE_COMMON + "Rewriting of the marks inside multi-part expression strings commutes with part selection by C09 (checked on the implementation).",
        technique="Lean 4 proof by mutual induction + rewrite predicate on the implementation",
    ),
    "C15": dict(
        category="proof",
        text=("Partial by nature (PEP 567 semantics observed): Lean proves for the task/context machine that under EVERY schedule every read returns the statically "
              "expected value (C15_schedule_free) and, for a well-scoped program, the own element's input (C15_isolation, C15). The program of real validation runs "
              "is RECORDED (proxy around the ContextVar, task factory); the Lean driver decides well-formedness and well-scopedness of the recorded program and "
              "its expected values must equal what CPython delivered (trace validation on every run). Plus schedule exploration with yielding format evaluators and "
              "comparison with validating each element alone."),
        design_ref="§5 C15",
        note=NOTE_COMMON + "Assumes the spawn structure is schedule independent (C12) and PEP 567 context copying (validated per traced run).",
        technique="Lean 4 proof (invariant over arbitrary schedules) + trace validation of recorded programs + schedule exploration",
    ),
    "C16": dict(
        category="proof",
        text=("Lean: C16_others — for ANY set of nodes with invalid expressions, simultaneously, the masked results equal those of the AHB with 'Kann' in their place "
              "(so one run aborts iff the other does); C16_node_* (optional + reason as hint), C16_pool (invalid entries offered as Kann), C16_same_as_kann. "
              "C16Full (end to end): evalPart_total / evalAhb_total — on the documented domain the modelled evaluator of AHB expressions raises the invalid-expression error iff a part "
              "is structurally invalid and otherwise returns a result (composition of C06-C09); C16_full_invalid_iff — a node of the end-to-end validation model is reported as "
              "'invalid expression' exactly then and never aborts for another reason. "
              "Predicate on the implementation: 1-5 planted invalid expressions at random node kinds (and every / all but one / one entry of a pool) vs the Kann-substituted AHB, node by node."),
        design_ref="§5 C16",
        note=NOTE_COMMON + "Which expressions are invalid is C06's business; here the evaluation outcome 'invalid' is an input of the model.",
        technique="Lean 4 proof by mutual induction with a mask + Kann-substitution predicate",
    ),
    "C17": dict(
        category="proof",
        text=("Lean: C17_offered / _offered_mem (offered qualifiers = those whose own expression is fulfilled, pool order, first position for repeats), C17_single, "
              "C17_forbidden_segment, C17_result (never fails; forbidden iff nothing offered; accepted iff offered; unexpected value flagged and reported empty), "
              "C17_accept_iff. Predicate on the implementation: validate_data_element_valuepool over pools of size 0-6, all input kinds, all parent statuses."),
        design_ref="§5 C17",
        note=NOTE_COMMON + "Python dict semantics for repeated qualifiers are modelled (dictInsert) and corresponded.",
        technique="Lean 4 proof + direct predicate and correspondence on value pools",
    ),
    "C18": dict(
        category="proof",
        text=("Lean: C18_table (derive_condition_node_type on 0..3000, extracted, = the documented range function, decide +kernel), C18_ranges, C18_categories, "
              "C18_partition(_tokens), C18_sorted (Nodup, ascending, same elements), C18_union, C18_assignments + C18_product_partial: the code's "
              "'combinations of a product filtered on distinct keys' enumerates exactly one value per key, every combination once (membership + Nodup, any number "
              "of keys). K2 (no key at all gives []) is a known finding (C18_empty_counterexample). Correspondence on large numbers, leading zeros, extraction, "
              "__add__, generated lists as multisets."),
        design_ref="§5 C18",
        note=NOTE_COMMON + "Numerically equal keys ('7','007') are ordered by set iteration order in the code; ties are compared as multisets.",
        technique="Lean 4 proof (extracted table + list combinatorics) + correspondence",
    ),
    "C19": dict(
        category="proof",
        text=("Partial (marshmallow interpreted): per class a concrete dump/load model whose nullability is looked up in the field descriptors extracted from the live "
              "marshmallow schemas; theorems load (dump x) = some x for trees (any depth/width), requirement/format/AHB results incl. the undetermined outcome, content "
              "evaluation results, key extracts; dump orders = declaration orders (T2). The implementation's dumped JSON must be accepted and reproduced by the model; "
              "Schema().loads(dumps(x)) == x and evaluation of round-tripped trees are checked on the implementation."),
        design_ref="§5 C19",
        note=NOTE_COMMON + "Modelled rather than verified: marshmallow field semantics and hooks (pre_load/post_load/pre_dump/post_dump modelled by hand), UUID text form.",
        technique="Lean 4 proof over extracted schema descriptors + JSON correspondence",
    ),
    "C20": dict(
        category="proof",
        text=("Partial (datetime/pytz arithmetic observed): Lean proves that the transition table pytz uses 1996-2037 IS the EU rule (84 rows, decide +kernel), that the "
              "offset in force at EVERY second from 1996 to the end of 2037 is the EU rule's (C20_eu_summer / _winter / _before_first / _after_last) with the closed form of "
              "the verdicts (22:00/04:00 UTC in summer, 23:00/05:00 UTC in winter), that the verdict of 932-935 is a function of the instant (C20_notation, C20_shift), "
              "931 = zero offset, and the hour-grid lemma that makes the exhaustive sweep over all 368184 whole hours (thorough tier) meet every fulfilled instant. "
              "String level (Model/Iso.lean, C20Iso.lean): parse_as_datetime is modelled on the extended ISO-8601 family YYYY-MM-DD<sep>HH:MM:SS(Z|+-HH:MM|+-HH:MM:SS); "
              "every valid datetime in every such writing is read back as itself (C20_iso_roundtrip), what is read is in range (C20_iso_sound), two writings of one instant "
              "get one verdict (C20_iso_notation, C20_iso_every_writing), out-of-range fields give unfulfilled + message (C20_iso_invalid). C20Write.lean states the property with its own "
              "quantifiers: for every second of 1996-2037, every offset inside +-24 h, every separator and offset style the written string gets the verdict of the instant "
              "(C20_every_instant_every_offset, C20_offset_irrelevant; calendar inverse checked on all 15343 days of the range by decide +kernel); the `write` correspondence "
              "compares the model's writing of (instant, offset) with datetime.isoformat. The `iso` correspondence sends only the "
              "string to the model and compares parsed fields and all five verdicts. The implementation is compared with independent integer arithmetic of the EU "
              "rule over every switch day of all 42 years, random seconds, 11 offsets incl. fractional ones and 7 notations plus the family's 16 separators / 4 offset styles, plus the non-datetime stream."),
        design_ref="§5 C20, §13",
        note=NOTE_COMMON + "Modelled rather than verified: datetime.fromisoformat outside the extended family (basic format, +hh, +hhmm, fractions, week dates: sampled), astimezone, pytz lookup (corresponded).",
        technique="Lean 4 proof over the extracted pytz table + exhaustive/hour-grid comparison with independent arithmetic",
    ),
    "C03": dict(
        category="proof",
        text=("All clauses of C03 are Lean theorems (29) stated about the operator tables extracted exhaustively from the running "
              "enum and about the README rows parsed from README.rst; lake build re-proves them against the current code on every run. "
              "The domain is finite, so the extracted table is the function; nothing is sampled."),
        design_ref="§5 C03",
        note=NOTE_COMMON + "Modelled rather than verified: nothing beyond the extractor (operands restricted to the four enum members).",
        technique="Lean 4 proof by kernel-decided case analysis over tables regenerated from the code (T1/T2)",
    ),
}

PENDING = {}
for i in range(1, 21):
    pid = f"C{i:02d}"
    if pid not in CHECKS:
        PENDING[pid] = "check under construction in this round; not claimed until its Lean theorems and correspondence run (see DESIGN.md §5)"


def main():
    checks = []
    for pid, c in sorted(CHECKS.items()):
        checks.append({
            "property_id": pid,
            "quick_cmd": f"./check {pid} --tier quick",
            "thorough_cmd": f"./check {pid} --tier thorough",
            "evidence_file": f"evidence/{pid}.json",
            "replay_cmd_template": f"./check {pid} --replay {{path}}",
            "engine": "lean4+correspondence",
            "level_claimed": {"category": c["category"], "text": c["text"], "design_ref": c["design_ref"]},
            "level_note": c["note"],
            "technique": c["technique"],
        })
    manifest = {
        "version": 1,
        "setup_cmd": "./setup.sh",
        "hooks": {
            "guard": "AHBICHT_VERIF",
            "enable": "no source hooks are needed: checks import ahbicht from /repo/src in-process (vf/impl.py sets AHBICHT_VERIF=1, nothing in the repo reads it)",
            "baseline_off_cmd": "cd /repo && /venv/bin/python -m pytest -ra -q -p no:cacheprovider --timeout=900 --continue-on-collection-errors",
            "source_commits": [],
            "add_only": True,
        },
        "engines": [
            {"name": "lean4+correspondence", "path": "lean/", "serves_properties": sorted(CHECKS),
             "kind_free_text": "Lean 4 model + theorems (lake build, axiom audit, leanchecker) tied to /repo by regenerated tables (vf/extract.py) and a differential line-protocol correspondence (vf/, lean/Main.lean)"},
        ],
        "checks": checks,
        "not_applicable": [{"property_id": k, "reason": v} for k, v in sorted(PENDING.items())],
        "notes": "See DESIGN.md. Exit 2 = tool failure (never a verdict). known_findings.json lists known/fixed findings.",
    }
    (VERIF / "MANIFEST.json").write_text(json.dumps(manifest, indent=1, ensure_ascii=False) + "\n")


if __name__ == "__main__":
    main()
