"""writes /verif/MANIFEST.json from the table below (python -m vf.manifest)"""
import json
from pathlib import Path

VERIF = Path(__file__).resolve().parent.parent

NOTE_COMMON = ("Trusted: Lean 4.33.0 kernel; axioms ⊆ {propext, Quot.sound, Classical.choice} (audited each run); "
               "vf/extract.py and the correspondence harness. ")

CHECKS = {
    "C01": dict(
        category="proof",
        text=("Lean theorems C01_precedence / C01_string / C01_spelling_ws / C01_redundant_brackets / C01_unambiguous: every writing of a tree by the "
              "documented stratified grammar (brackets > juxtaposition > AND > XOR > OR), in any operator spelling, with any whitespace and any redundant "
              "brackets, is parsed by the model to that tree modulo same-operator flattening -- for all lengths and nestings. The model is tied to Lark by "
              "the grammar data extracted from the live parser (T2, proved equal to the grammar modelled), the character classes extracted over all code "
              "points (T1) and a differential run: flat(Lark tree) = flat(model tree) on an exhaustive separator sweep plus generated strings."),
        design_ref="§5 C01",
        note=NOTE_COMMON + "Modelled rather than verified: Lark's Earley engine, dynamic lexer and ambiguity resolution (observed through the correspondence).",
        technique="Lean 4 proof (induction over the written form; stack-machine invariant) + differential correspondence with Lark",
    ),
    "C02": dict(
        category="proof",
        text=("Lean theorems: acceptance of the condition parser model = the context-free grammar as written (both directions, unbounded); an AHB-shaped "
              "string is never a condition expression, so a malformed condition part always ends in SyntaxError; the model's outcomes are tree|SyntaxError. "
              "Tied to the code by T1/T2 and by comparing, for every generated string (valid, mutated, all short strings exhaustively, Unicode), the outcome "
              "class and accepted structure of all three entry points and of is_valid_expression with the model."),
        design_ref="§5 C02",
        note=NOTE_COMMON + "Modelled rather than verified: Lark, Python re; 'no other exception escapes' is observed on the generated strings (exhaustive for short ones), proved only for the model.",
        technique="Lean 4 proof (recogniser = grammar, simulation of value machine by its skeleton) + outcome-class correspondence",
    ),
    "C04": dict(
        category="proof",
        text=("Lean: eval_char (one induction) shows that on the documented domain the model of RequirementConstraintTransformer succeeds exactly on structurally "
              "valid trees and then has state = denote (the 4-line compositional semantics) for every tree and assignment; C04_outcome lifts this to the reported "
              "(fulfilled, conditional) pair of requirement_constraint_evaluation. The model (node classes, both expression builders) is tied to the code by a "
              "differential run on trees (exhaustive small shapes x all 3^k assignments + random), gating on outcome and error class, and by C03's extracted operator tables."),
        design_ref="§5 C04",
        note=NOTE_COMMON + "Modelled rather than verified: lark Transformer dispatch, the inject plumbing, user evaluators (assumed functions of the key).",
        technique="Lean 4 proof by structural induction over the expression tree + differential correspondence on trees",
    ),
    "C05": dict(
        category="proof",
        text=("Lean: one-hole-context lemmas (Rel/Weak closed under every surrounding context) give, for every valid tree, every position and every assignment: swapping "
              "operands of U/O/X, and-ing a hint onto the whole or onto any U/O/X operand (either side), attaching a format constraint to any requirement-bearing "
              "sub-expression keep domain membership and validity and leave denote (hence, by C04, the outcome) unchanged; denote is monotone in the information order, "
              "so definite outcomes survive every resolution of UNKNOWN. The bracket clause is proved only as finding K1 (witness by decide); outside K1's class it is "
              "checked on the implementation through the real parser. Same model/correspondence as C04; all transformations are also run on the implementation."),
        design_ref="§5 C05",
        note=NOTE_COMMON + "Partial: 'redundant brackets keep validity' is a known finding (K1) and is not a theorem; string-level bracket invariance rests on C01 + the correspondence.",
        technique="Lean 4 proof (context induction, monotonicity of the four-valued operators) + transformation predicates on the implementation",
    ),
    "C06": dict(
        category="proof",
        text=("Lean: C06_structural — for every tree of the documented domain and EVERY assignment the model raises the invalid-expression error iff the structural "
              "criterion invalidAt holds (so states never matter: C06_all_or_none), C06_neutral_iff, C06_evaluation (whole requirement_constraint_evaluation), "
              "C06_no_keys. Tied to the code by the tree correspondence (error class gates) and by running is_valid_expression on rendered single- and multi-part AHB "
              "expressions against the structural criterion evaluated on the tree Lark produced."),
        design_ref="§5 C06",
        note=NOTE_COMMON + "Modelled rather than verified: is_valid_expression's gather over generated results (observed), BaseException-ness of InvalidExpressionError (observed).",
        technique="Lean 4 proof by structural induction + error-class correspondence + validity-check predicate",
    ),
    "C07": dict(
        category="proof",
        text=("Lean: the collected expression is modelled as the AST whose rendering is character-for-character what the f-strings of the builder produce; "
              "C07_meaning: for every valid tree, requirement assignment and truth assignment its value equals the direct reading fcSem; C07_absent; C07_keys (only "
              "format keys of the source); C07_reported. The tie compares, per case, presence, flat(parse) of the real string, its key set and its value under ALL 2^n "
              "truth assignments (plus format_constraint_evaluation on the real string); the exact layout is compared as advisory and has never differed."),
        design_ref="§5 C07",
        note=NOTE_COMMON + "Partial: that the rendered string parses back to the AST (string-level well-formedness) is covered by C01's theorems only informally plus the correspondence; Python re.sub/strip are observed.",
        technique="Lean 4 proof by structural induction over tree and builder AST + meaning correspondence under all truth assignments",
    ),
    "C08": dict(
        category="proof",
        text=("Lean: C08_value (evaluation succeeds and equals the Boolean value for every U/O/X tree and environment), C08_assoc (grouping irrelevant), C08_empty, "
              "C08_msg_if (literal premise of the property), C08_msg_iff (with the converse premise made explicit), C08_default_message. Tied by a differential run of "
              "evaluate_format_constraint_tree on exhaustive small trees x all assignments and of format_constraint_evaluation on rendered strings."),
        design_ref="§5 C08",
        note=NOTE_COMMON + "Modelled rather than verified: string-level precedence rests on C01; single-constraint evaluators are inputs.",
        technique="Lean 4 proof by induction with a combinator-closed invariant + differential correspondence",
    ),
    "C09": dict(
        category="proof",
        text=("Lean: C09_normalise over the table extracted from the transformer callbacks for every ASCII case pattern of every spelling (60 entries, kernel-decided); "
              "selection lemmas (first fulfilled part is returned with exactly its own indicator/outcome/hints/format result, else the last; single part unchanged; bare "
              "indicator result). The AHB scanner model is the one of C02 (T1 classes, T2 grammar). Predicates on the implementation: written parts come back in order for "
              "every spelling/case/whitespace pattern; the whole result equals the selected part's own evaluation obtained by evaluating that part alone."),
        design_ref="§5 C09",
        note=NOTE_COMMON + "Partial: the round-trip theorem scanAhb(concat(write parts)) = parts is not yet proved in Lean; it is checked against the implementation and the model on generated expressions.",
        technique="Lean 4 proof over extracted table + list lemmas; part-wise predicate on the implementation; correspondence",
    ),
    "C03": dict(
        category="proof",
        text=("All clauses of C03 are Lean theorems (29) stated about the operator tables extracted exhaustively from the running "
              "enum and about the README rows parsed from README.rst; lake build re-proves them against the current code on every run. "
              "The domain is finite, so the extracted table is the function; nothing is sampled."),
        design_ref="§5 C03",
        note=NOTE_COMMON + "Modelled rather than verified: nothing beyond the extractor (operands restricted to the four enum members).",
        technique="Lean 4 proof by kernel-decided case analysis over tables regenerated from the code (T1/T2)",
    ),
}

PENDING = {}
for i in range(1, 21):
    pid = f"C{i:02d}"
    if pid not in CHECKS:
        PENDING[pid] = "check under construction in this round; not claimed until its Lean theorems and correspondence run (see DESIGN.md §5)"


def main():
    checks = []
    for pid, c in sorted(CHECKS.items()):
        checks.append({
            "property_id": pid,
            "quick_cmd": f"./check {pid} --tier quick",
            "thorough_cmd": f"./check {pid} --tier thorough",
            "evidence_file": f"evidence/{pid}.json",
            "replay_cmd_template": f"./check {pid} --replay {{path}}",
            "engine": "lean4+correspondence",
            "level_claimed": {"category": c["category"], "text": c["text"], "design_ref": c["design_ref"]},
            "level_note": c["note"],
            "technique": c["technique"],
        })
    manifest = {
        "version": 1,
        "setup_cmd": "./setup.sh",
        "hooks": {
            "guard": "AHBICHT_VERIF",
            "enable": "no source hooks are needed: checks import ahbicht from /repo/src in-process (vf/impl.py sets AHBICHT_VERIF=1, nothing in the repo reads it)",
            "baseline_off_cmd": "cd /repo && /venv/bin/python -m pytest -ra -q -p no:cacheprovider --timeout=900 --continue-on-collection-errors",
            "source_commits": [],
            "add_only": True,
        },
        "engines": [
            {"name": "lean4+correspondence", "path": "lean/", "serves_properties": sorted(CHECKS),
             "kind_free_text": "Lean 4 model + theorems (lake build, axiom audit, leanchecker) tied to /repo by regenerated tables (vf/extract.py) and a differential line-protocol correspondence (vf/, lean/Main.lean)"},
        ],
        "checks": checks,
        "not_applicable": [{"property_id": k, "reason": v} for k, v in sorted(PENDING.items())],
        "notes": "See DESIGN.md. Exit 2 = tool failure (never a verdict). known_findings.json lists known/fixed findings.",
    }
    (VERIF / "MANIFEST.json").write_text(json.dumps(manifest, indent=1, ensure_ascii=False) + "\n")


if __name__ == "__main__":
    main()
