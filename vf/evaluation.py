"""running ahbicht's evaluators on trees / strings under a ContentEvaluationResult, and generators for the evaluation domain"""
from __future__ import annotations

import asyncio
import itertools
import random
from typing import Any, Dict, List, Optional, Sequence, Tuple

from . import evalenv, impl, trees as T
from ahbicht.expressions import InvalidExpressionError
from ahbicht.expressions.ahb_expression_evaluation import evaluate_ahb_expression_tree
from ahbicht.expressions.format_constraint_expression_evaluation import (
    evaluate_format_constraint_tree,
    format_constraint_evaluation,
)
from ahbicht.expressions.requirement_constraint_expression_evaluation import requirement_constraint_evaluation
from ahbicht.models.condition_nodes import EvaluatedFormatConstraint

RC_KEYS = ["1", "2", "499", "2000", "3", "4", "77", "2499"]  # the first four are what most generators draw from: both range boundaries are among them
HINT_KEYS = ["501", "900", "500", "502"]  # 500 and 900 are the boundaries of the hint range
FC_KEYS = ["901", "999", "902", "903"]  # 901 and 999 are the boundaries of the format-constraint range


def kind_of(key: str) -> Optional[str]:
    try:
        n = int(key)
    except ValueError:
        return None
    if 1 <= n <= 499 or 2000 <= n <= 2499:
        return "rc"
    if 500 <= n <= 900:
        return "hint"
    if 901 <= n <= 999:
        return "fc"
    return None


def err_class(e: BaseException) -> str:
    if isinstance(e, InvalidExpressionError):
        return "InvalidExpressionError"
    n = type(e).__name__
    return n if n in ("NotImplementedError", "ValueError", "KeyError") else "other"


DELAYS: Optional[random.Random] = None
ARM_STATS: Dict[str, int] = {}  # how the evaluations of this run were served (reported in the evidence by the checks)


def configure(rng: Optional[random.Random] = None) -> None:
    """bind the ContentEvaluationResult-based evaluators; with `rng`, bind their suspending variants (vf/schedules.py) and let every
    evaluation below run under a random schedule half of the time (each evaluator / provider call yields 0-3 times before answering)"""
    global DELAYS  # pylint:disable=global-statement
    evalenv.current_fv.set(evalenv.FV)
    if rng is None:
        DELAYS = None
        evalenv.configure_cer_based()
    else:
        from . import schedules as S
        DELAYS = random.Random(rng.getrandbits(32))
        S.configure()


def disarm() -> None:
    """reference runs: content-evaluation-result based evaluators, nothing suspends"""
    if DELAYS is None:
        return
    from . import schedules as S
    evalenv.current_fv.set(evalenv.FV)
    S.set_schedule({})


def _arm(rc=(), fc=(), hints=(), pkg=()) -> None:
    if DELAYS is None:
        return
    from . import schedules as S
    methods = DELAYS.random() < 0.5
    evalenv.current_fv.set(evalenv.FV_METHODS if methods else evalenv.FV)
    yielding = DELAYS.random() < 0.5
    k = ("evaluate_<key> methods" if methods else "content-evaluation-result based") + (", suspending" if yielding else ", not suspending")
    ARM_STATS[k] = ARM_STATS.get(k, 0) + 1
    if not yielding:
        S.set_schedule({})
    else:
        S.set_schedule({(kind, k): DELAYS.randint(0, 3) for kind, ks in (("rc", rc), ("fc", fc), ("hint", hints), ("pkg", pkg)) for k in ks})


def eval_rc(tree, rc: Dict[str, str], hints: Dict[str, str]) -> Dict[str, Any]:
    """requirement_constraint_evaluation(tree) under the given assignment"""
    evalenv.set_cer(evalenv.make_cer(rc=rc, hints=hints, fc={}))
    _arm(rc, (), hints)

    async def go():
        return await requirement_constraint_evaluation(tree)

    try:
        r = asyncio.run(go())
    except BaseException as e:  # pylint:disable=broad-except
        return {"err": err_class(e), "exc": type(e).__name__}
    return {"fulfilled": r.requirement_constraints_fulfilled, "conditional": r.requirement_is_conditional,
            "fce": r.format_constraints_expression, "hints": r.hints}


def eval_fc_tree(tree, fc: Dict[str, Tuple[bool, Optional[str]]]) -> Dict[str, Any]:
    vals = {k: EvaluatedFormatConstraint(format_constraint_fulfilled=v[0], error_message=v[1]) for k, v in fc.items()}
    try:
        r = evaluate_format_constraint_tree(tree, vals)
    except BaseException as e:  # pylint:disable=broad-except
        return {"err": err_class(e), "exc": type(e).__name__}
    return {"ok": r.format_constraint_fulfilled, "msg": r.error_message}


def eval_fc_string(expr: Optional[str], fc: Dict[str, Tuple[bool, Optional[str]]]) -> Dict[str, Any]:
    evalenv.set_cer(evalenv.make_cer(fc=fc))
    _arm((), fc, ())

    async def go():
        return await format_constraint_evaluation(expr)

    try:
        r = asyncio.run(go())
    except BaseException as e:  # pylint:disable=broad-except
        return {"err": err_class(e), "exc": type(e).__name__}
    return {"ok": r.format_constraints_fulfilled, "msg": r.error_message}


def eval_ahb(tree, rc, hints, fc) -> Dict[str, Any]:
    evalenv.set_cer(evalenv.make_cer(rc=rc, hints=hints, fc=fc))
    _arm(rc, fc, hints)

    async def go():
        return await evaluate_ahb_expression_tree(tree)

    try:
        r = asyncio.run(go())
    except BaseException as e:  # pylint:disable=broad-except
        return {"err": err_class(e), "exc": type(e).__name__}
    rr, fr = r.requirement_constraint_evaluation_result, r.format_constraint_evaluation_result
    return {"indicator": str(r.requirement_indicator.value), "fulfilled": rr.requirement_constraints_fulfilled,
            "conditional": rr.requirement_is_conditional, "fce": rr.format_constraints_expression, "hints": rr.hints,
            "fc_ok": fr.format_constraints_fulfilled, "fc_msg": fr.error_message}


# ---------------------------------------------------------------------------------------------
# reference semantics written directly from the property texts (used as predicates on the implementation)
# ---------------------------------------------------------------------------------------------
def denote(e, rc: Dict[str, str]) -> str:
    """C04: recursive application of the four-valued operators; hints/fc NEUTRAL; attached fc leaves its partner's state"""
    if e[0] == "cond":
        return rc[e[1]] if kind_of(e[1]) == "rc" else "N"
    a, b = e[1], e[2]
    if e[0] == T.THEN:
        if a[0] == "cond" and kind_of(a[1]) == "fc":
            return denote(b, rc)
        return denote(a, rc)
    x, y = impl.CFV_BY_LETTER[denote(a, rc)], impl.CFV_BY_LETTER[denote(b, rc)]
    r = {T.AND: x & y, T.OR: x | y, T.XOR: x ^ y}[e[0]]
    return impl.cfv_letter(r)


def outcome_of_state(st: str):
    return {"F": (True, True), "U": (False, True), "N": (True, False), "K": (None, None)}[st]


def neutral_only(e) -> bool:
    return all(kind_of(l[1]) != "rc" for l in T.leaves(e))


def invalid_at(e) -> bool:
    """C06: structural invalidity"""
    if T.is_leaf(e):
        return False
    if invalid_at(e[1]) or invalid_at(e[2]):
        return True
    if e[0] in (T.OR, T.XOR):
        a, b = e[1], e[2]
        if neutral_only(a) != neutral_only(b):
            return True
        ka = kind_of(a[1]) if a[0] == "cond" else None
        kb = kind_of(b[1]) if b[0] == "cond" else None
        if {ka, kb} == {"hint", "fc"}:
            return True
    return False


def in_k1_class(e) -> bool:
    """an O- or X-run whose flattened operand list contains a bare hint key and a bare format-constraint key (known finding K1 of C05:
    there, and only there, the grouping of a same-operator run decides validity)"""
    def walk(f):
        if f[0] in T.OPS:
            if f[0] in (T.OR, T.XOR):
                kinds = {kind_of(a[1]) for a in f[1] if a[0] == "cond"}
                if {"hint", "fc"} <= kinds:
                    return True
            return any(walk(a) for a in f[1])
        return False
    return walk(T.flat(e))


def well_formed(e) -> bool:
    """the quantifier of C04/C06: juxtaposition attaches a single fc key to a hint leaf or to an operand containing an rc"""
    if T.is_leaf(e):
        return e[0] == "cond" and kind_of(e[1]) is not None
    if not (well_formed(e[1]) and well_formed(e[2])):
        return False
    if e[0] == T.THEN:
        a, b = e[1], e[2]
        for f, o in ((a, b), (b, a)):
            if f[0] == "cond" and kind_of(f[1]) == "fc":
                if (o[0] == "cond" and kind_of(o[1]) == "hint") or not neutral_only(o):
                    return True
        return False
    return True


# ---------------------------------------------------------------------------------------------
# generators
# ---------------------------------------------------------------------------------------------
def rand_eval_expr(rng: random.Random, n: int, rcs=RC_KEYS[:4], hints=HINT_KEYS[:3], fcs=FC_KEYS[:3], wf: bool = True, valid_bias: float = 0.7):
    """random expression over rc/hint/fc keys; `wf` keeps juxtaposition inside the documented use"""

    def leaf(kinds):
        k = rng.choice(kinds)
        return ("cond", rng.choice({"rc": rcs, "hint": hints, "fc": fcs}[k]))

    def rc_bearing(m):
        """an expression that contains at least one rc"""
        if m <= 1:
            return leaf(["rc"])
        r = rng.random()
        if r < 0.25 and m >= 2:  # attach an fc
            inner = rc_bearing(m - 1)
            f = leaf(["fc"])
            return (T.THEN, inner, f) if rng.random() < 0.8 else (T.THEN, f, inner)
        k = rng.randint(1, m - 1)
        op = rng.choice([T.AND, T.AND, T.OR, T.XOR])
        if op == T.AND and rng.random() < 0.4:
            # and-ing information-only elements is always fine
            other = neutral(k) if rng.random() < 0.5 else rc_bearing(k)
            pair = (other, rc_bearing(m - k))
            return (op, *pair) if rng.random() < 0.5 else (op, pair[1], pair[0])
        if rng.random() > valid_bias:
            return (op, any_expr(k), any_expr(m - k))
        return (op, rc_bearing(k), rc_bearing(m - k))

    def neutral(m):
        if m <= 1:
            return leaf(["hint", "fc"])
        if m == 2 and rng.random() < 0.3:
            return (T.THEN, leaf(["hint"]), leaf(["fc"])) if rng.random() < 0.5 else (T.THEN, leaf(["fc"]), leaf(["hint"]))
        k = rng.randint(1, m - 1)
        op = rng.choice([T.AND, T.AND, T.OR, T.XOR])
        return (op, neutral(k), neutral(m - k))

    def any_expr(m):
        if not wf:
            return T.rand_expr(rng, m, lambda r: leaf(["rc", "rc", "hint", "fc"]))
        return rc_bearing(m) if rng.random() < 0.6 else neutral(m)

    return any_expr(n)


def all_shapes(n_leaves: int, leaves: Sequence[Any], ops=T.OPS):
    """every binary tree with n_leaves leaves over the given leaf alphabet (exhaustive small scope)"""
    if n_leaves == 1:
        for l in leaves:
            yield l
        return
    for k in range(1, n_leaves):
        for op in ops:
            for a in all_shapes(k, leaves, ops):
                for b in all_shapes(n_leaves - k, leaves, ops):
                    yield (op, a, b)


def keys_by_kind(e) -> Dict[str, List[str]]:
    out: Dict[str, List[str]] = {"rc": [], "hint": [], "fc": []}
    for l in T.leaves(e):
        k = kind_of(l[1]) if l[0] == "cond" else None
        if k and l[1] not in out[k]:
            out[k].append(l[1])
    return out


def assignments(keys: Sequence[str], values: str = "FUK", rng: Optional[random.Random] = None, limit: Optional[int] = None):
    allv = list(itertools.product(values, repeat=len(keys)))
    if limit is not None and len(allv) > limit and rng is not None:
        allv = rng.sample(allv, limit)
    for combo in allv:
        yield dict(zip(keys, combo))
