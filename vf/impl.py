"""
Adapters that call the real ahbicht (imported from /repo/src, i.e. the working tree) in-process.
"""
from __future__ import annotations

import logging
import os
import sys
from pathlib import Path

REPO = Path(os.environ.get("AHBICHT_REPO", "/repo"))
if str(REPO / "src") not in sys.path:
    sys.path.insert(0, str(REPO / "src"))
os.environ.setdefault("AHBICHT_VERIF", "1")
logging.disable(logging.CRITICAL)

import ahbicht.content_evaluation  # noqa: E402,F401  (must be first: circular imports otherwise)
import ahbicht  # noqa: E402

assert Path(ahbicht.__file__).resolve().is_relative_to(REPO.resolve()), (
    f"ahbicht imported from {ahbicht.__file__}, expected the working tree {REPO}"
)

from ahbicht.models.condition_nodes import ConditionFulfilledValue as PyCFV  # noqa: E402

CFV_NAMES = {"FULFILLED": "F", "UNFULFILLED": "U", "UNKNOWN": "K", "NEUTRAL": "N"}
CFV_BY_LETTER = {v: PyCFV(k) for k, v in CFV_NAMES.items()}


def cfv_letter(x) -> str:
    return CFV_NAMES[PyCFV(x).value]


def exc_class(e: BaseException) -> str:
    return type(e).__name__
