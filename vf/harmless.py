"""
development helper (not a registered check): apply every behaviour-preserving rewrite kept under /verif/harmless/ to /repo, run ALL quick checks,
revert, and record which checks stayed green (harmless/RESULT.json).  A check that turns red on such a rewrite is either a false alarm of a
predicate (to be corrected) or a broken tie / proof obligation (allowed by the protocol, reported with `no-failing-input-found`).

python -m vf.harmless [Hxx ...]
"""
import json
import subprocess
import sys
from pathlib import Path

VERIF = Path(__file__).resolve().parent.parent
PROPS = [f"C{i:02d}" for i in range(1, 21)]


def sh(cmd, **kw):
    return subprocess.run(cmd, shell=True, capture_output=True, text=True, **kw)


def main():
    only = set(sys.argv[1:])
    if sh("git -C /repo status --porcelain").stdout.strip():
        print("refusing: /repo is dirty")
        sys.exit(2)
    out = {}
    for d in sorted((VERIF / "harmless").glob("H*.diff")):
        hid = d.stem
        if only and hid not in only:
            continue
        ap = sh(f"git -C /repo apply {d}")
        row = {"applied": ap.returncode == 0, "checks": {}}
        try:
            if row["applied"]:
                for p in PROPS:
                    c = sh(f"cd {VERIF} && ./check {p} --tier quick", timeout=3000)
                    lines = [l for l in c.stdout.splitlines() if l.startswith("VIOLATION")]
                    row["checks"][p] = {"exit": c.returncode, "violation_lines": [l.split("replay=")[1] for l in lines][:3]}
        finally:
            sh("git -C /repo reset -q --hard HEAD; git -C /repo checkout -- .; git -C /repo clean -fdq")
            sh(f"cd {VERIF} && git checkout -- evidence lean/Ahbicht/Generated 2>/dev/null")
        row["red"] = sorted(p for p, v in row["checks"].items() if v["exit"] != 0)
        out[hid] = row
        print(hid, "applied" if row["applied"] else "NOT APPLIED", "red:", row["red"], flush=True)
    if not only:
        json.dump(out, open(VERIF / "harmless" / "RESULT.json", "w"), indent=1)


if __name__ == "__main__":
    main()
