"""dependency-injection set-up for evaluating expressions against a ContentEvaluationResult held in a ContextVar"""
from __future__ import annotations

from contextvars import ContextVar
from typing import Optional

import inject
from efoli import EdifactFormat, EdifactFormatVersion

from . import impl  # noqa: F401
from ahbicht.content_evaluation.evaluationdatatypes import EvaluatableData, EvaluatableDataProvider
from ahbicht.content_evaluation.evaluator_factory import create_content_evaluation_result_based_evaluators
from ahbicht.content_evaluation.token_logic_provider import SingletonTokenLogicProvider, TokenLogicProvider
from ahbicht.models.condition_nodes import ConditionFulfilledValue, EvaluatedFormatConstraint
from ahbicht.models.content_evaluation_result import ContentEvaluationResult, ContentEvaluationResultSchema

FMT = EdifactFormat.UTILMD
FV = EdifactFormatVersion.FV2210
FV_METHODS = EdifactFormatVersion.FV2310  # under this version vf/schedules.py registers evaluators written the way users write them (evaluate_<key> methods)
current_fv: ContextVar[EdifactFormatVersion] = ContextVar("vf_current_fv", default=FV)
current_cer: ContextVar[Optional[ContentEvaluationResult]] = ContextVar("vf_current_cer", default=None)
_schema = ContentEvaluationResultSchema()


provider_log: Optional[list] = None  # when a list: the ContentEvaluationResult objects the evaluations were handed, in call order (C12)


def _provider():
    cer = current_cer.get()
    if provider_log is not None:
        provider_log.append(cer)
    return EvaluatableData(body=_schema.dump(cer) if cer is not None else {}, edifact_format=FMT, edifact_format_version=current_fv.get())


def configure_cer_based(extra=None):
    """(re)configure inject with the ContentEvaluationResult-based RC/FC/hints/package logic"""
    providers = list(extra) if extra is not None else [*create_content_evaluation_result_based_evaluators(FMT, FV)]

    def conf(binder):
        binder.bind(TokenLogicProvider, SingletonTokenLogicProvider(providers))
        binder.bind_to_provider(EvaluatableDataProvider, _provider)

    inject.clear_and_configure(conf)


def make_cer(rc=None, fc=None, hints=None, packages=None) -> ContentEvaluationResult:
    """rc: {key: 'F'|'U'|'K'|'N'}, fc: {key: bool | (bool, msg)}, hints: {key: text}"""
    fcs = {}
    for k, v in (fc or {}).items():
        if isinstance(v, tuple):
            fcs[k] = EvaluatedFormatConstraint(format_constraint_fulfilled=v[0], error_message=v[1])
        else:
            fcs[k] = EvaluatedFormatConstraint(format_constraint_fulfilled=bool(v), error_message=None if v else f"fc {k} failed")
    return ContentEvaluationResult(
        hints=dict(hints or {}),
        format_constraints=fcs,
        requirement_constraints={k: impl.CFV_BY_LETTER[v] for k, v in (rc or {}).items()},
        packages=dict(packages) if packages is not None else {},
    )


def set_cer(cer: ContentEvaluationResult) -> None:
    current_cer.set(cer)
