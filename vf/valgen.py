"""generation of deep AHBs (as plain dict specs), conversion to MAUS objects, running the implementation, node-wise evaluation"""
from __future__ import annotations

import asyncio
import copy
import random
from typing import Any, Dict, List, Optional, Tuple

from . import evalenv, evaluation as E, impl, parsing as P, trees as T
from ahbicht.content_evaluation import fc_evaluators
from ahbicht.expressions import InvalidExpressionError
from ahbicht.expressions.ahb_expression_evaluation import evaluate_ahb_expression_tree
from ahbicht.expressions.expression_resolver import parse_expression_including_unresolved_subexpressions
from ahbicht.validation.validation import (
    validate_data_element_freetext,
    validate_data_element_valuepool,
    validate_deep_anwendungshandbuch,
    validate_segment,
    validate_segment_level,
)
from maus.models.anwendungshandbuch import AhbMetaInformation, DeepAnwendungshandbuch
from maus.models.edifact_components import (
    DataElementDataType,
    DataElementFreeText,
    DataElementValuePool,
    Segment,
    SegmentGroup,
    ValuePoolEntry,
)

RC = ["1", "2", "3", "4", "5", "6"]
HINTS = ["501", "502", "900", "500"]
FCS = ["901", "902", "999"]
MODAL = {"MUSS": ["Muss", "M", "muss", "MUSS"], "SOLL": ["Soll", "S", "soll", "SOLL"], "KANN": ["Kann", "K", "kann"]}
PACKAGES = {"7P": "[1] U [2]", "8P": "[3] O [4]"}
# the same package keys mean different things in different content evaluation results (runs in one process must not remember them)
PACKAGE_BODIES = {"7P": ["[1] U [2]", "[2]", "[3] O [1]", "[2] X [4]"], "8P": ["[3] O [4]", "[4]", "[5] U [6]", "[1] U [501]"]}


def cond_pool(rng: random.Random, n: int = 60):
    out = []
    while len(out) < n:
        e = E.rand_eval_expr(rng, rng.randint(1, 4), rcs=RC[:5], hints=HINTS, fcs=FCS, wf=True, valid_bias=0.95)
        if E.well_formed(e) and not E.invalid_at(e):
            out.append(e)
    return out


INVALID_CONDS = ["[1] O [501]", "[501] X [2]", "([1] U [2]) O [502]", "[501] O [901]", "[1] X [901]",
                 # the same kinds of invalidity with the keys at the borders of the ranges (last / first hint key, first / last format key, )
                 "[900] O [901]", "[901] X [900]", "[6] O [900]", "[500] X [2]", "[1] X [999]", "[500] O [999]"]


def gen_expr(rng: random.Random, pool, p_invalid: float = 0.0, p_soll: float = 0.2, allow_prefix: bool = True) -> Dict[str, Any]:
    """structured AHB expression: list of (indicator kind, written indicator, condition text | None)"""
    def cond():
        if rng.random() < 0.1:
            # packages in every legal spelling: plain, with repeatability, with blanks inside the brackets, twice in one expression
            return rng.choice(["[7P]", "[7P] U [5]", "[8P][901]", "[7P0..1]", "[7P 1..2] U [5]", "[ 8P ][901]", "[8P2..3] O [7P]", "[7P] U [8P] U [7P]", "[ 7P 0..3 ]",
                               "[7P] U [7P] U [8P]", "[8P] O [8P] O [7P]", "[7P] O ([8P] U [4])", "[8P] O ([7P] U [4])", "([7P] U [3]) O [8P]"])
        if rng.random() < 0.08:
            # unfulfilled and still carrying a hint: an exclusive or of two fulfilled branches, one of them with a hint (a forbidden node with a hint)
            a, b = rng.sample(["1", "2", "3", "4"], 2)
            return rng.choice([f"([{a}] U [501]) X [{b}]", f"[{b}] X ([{a}] U [502])", f"([{a}] U [501]) X ([{b}] U [502])"])
        return T.render(rng.choice(pool), T.Style(rng, "min", "upper", "one")).strip()

    if rng.random() < p_invalid:
        return {"parts": [["MUSS", rng.choice(MODAL["MUSS"]), rng.choice(INVALID_CONDS)]], "invalid": True}
    r = rng.random()
    if r < 0.25:
        if allow_prefix and rng.random() < 0.6:
            w = rng.choice(["X", "X", "O", "U", "x"])
            return {"parts": [[w.upper(), w, None]]}
        k = rng.choice(["MUSS", "KANN", "SOLL"] if rng.random() < p_soll * 2 else ["MUSS", "KANN"])
        return {"parts": [[k, rng.choice(MODAL[k]), None]]}
    if r < 0.45 and allow_prefix:
        w = rng.choice(["X", "X", "O", "U", "u"])
        return {"parts": [[w.upper(), w, cond()]]}
    n = rng.choice([1, 1, 1, 2, 2, 3])
    parts = []
    for _ in range(n):
        k = "SOLL" if rng.random() < p_soll else rng.choice(["MUSS", "MUSS", "KANN"])
        parts.append([k, rng.choice(MODAL[k]), cond()])
    if rng.random() < 0.25:
        k = "SOLL" if rng.random() < p_soll else rng.choice(["MUSS", "KANN"])
        parts.append([k, rng.choice(MODAL[k]), None])
    return {"parts": parts}


def expr_text(x: Dict[str, Any]) -> str:
    out = ""
    for _, w, c in x["parts"]:
        out += w + ("" if c is None else " " + c + " ")
    return out.strip() if len(x["parts"]) == 1 and x["parts"][0][2] is None else out.rstrip()


class Gen:
    def __init__(self, rng: random.Random, depth=3, branching=3, p_invalid=0.0, p_soll=0.2, pools=True):
        self.rng, self.depth, self.branching, self.p_invalid, self.p_soll, self.pools = rng, depth, branching, p_invalid, p_soll, pools
        self.pool = cond_pool(rng)
        self.n = 0

    def disc(self, kind):
        self.n += 1
        return f"{kind}{self.n}"

    def expr(self, allow_prefix=True):
        return gen_expr(self.rng, self.pool, self.p_invalid, self.p_soll, allow_prefix)

    def de(self):
        rng = self.rng
        if self.pools and rng.random() < 0.35:
            n = rng.choice([0, 1, 1, 2, 2, 3, 4, 5])
            qs = [f"Z{rng.randint(1, 6):02d}" for _ in range(n)]
            entries = [{"q": q, "m": f"meaning {q}/{i}", "expr": self.expr()} for i, q in enumerate(qs)]
            inp = rng.choice([None, None, "", "Z01", "Z02", "Z09", rng.choice(qs) if qs else "Z01"])
            return {"t": "pool", "disc": self.disc("vp"), "entries": entries, "input": inp}
        return {"t": "free", "disc": self.disc("ft"), "expr": self.expr(), "input": rng.choice([None, None, "", "abc", "2022-01-01T00:00:00+00:00"]),
                "vtype": rng.choice(["TEXT", "TEXT", "DATETIME"])}

    def seg(self):
        return {"disc": self.disc("seg"), "expr": self.expr(), "des": [self.de() for _ in range(self.rng.randint(0, 4))]}

    def group(self, depth):
        rng = self.rng
        groups = [self.group(depth - 1) for _ in range(rng.randint(0, self.branching))] if depth > 1 else []
        return {"t": "g", "disc": self.disc("sg"), "expr": self.expr(), "groups": groups, "segs": [self.seg() for _ in range(rng.randint(0, self.branching))]}

    def ahb(self):
        lines = [self.group(self.depth) for _ in range(self.rng.randint(1, 3))]
        # maus metadata that ahbicht's results must not depend on: where each line stood in the flat AHB (None = unknown, the default)
        return {"lines": lines, "line_index": self.rng.choice([None, "flat", "flat", "reversed"])}

    def cer(self, p_unknown=0.06):
        rng = self.rng
        rc = {k: ("K" if rng.random() < p_unknown else rng.choice("FFU")) for k in RC}
        return {"rc": rc, "fc": {k: rng.random() < 0.6 for k in FCS}, "hints": {k: f"Hinweis {k}" for k in HINTS},
                "packages": {k: rng.choice(v) for k, v in PACKAGE_BODIES.items()}}


# ---------------------------------------------------------------------------------------------
def to_maus(spec):
    def de(d):
        if d["t"] == "free":
            return DataElementFreeText(discriminator=d["disc"], ahb_expression=expr_text(d["expr"]), entered_input=d["input"], data_element_id="1234",
                                       value_type=DataElementDataType(d.get("vtype") or "TEXT"))
        return DataElementValuePool(discriminator=d["disc"], data_element_id="0333", entered_input=d["input"],
                                    value_pool=[ValuePoolEntry(qualifier=e["q"], meaning=e["m"], ahb_expression=expr_text(e["expr"])) for e in d["entries"]])

    def seg(s):
        return Segment(discriminator=s["disc"], ahb_expression=expr_text(s["expr"]), data_elements=[de(d) for d in s["des"]])

    def grp(g):
        return SegmentGroup(discriminator=g["disc"], ahb_expression=expr_text(g["expr"]), segments=[seg(s) for s in g["segs"]],
                            segment_groups=[grp(x) for x in g["groups"]])

    ahb = DeepAnwendungshandbuch(meta=AhbMetaInformation(pruefidentifikator="11042"), lines=[grp(g) for g in spec["lines"]])
    mode = spec.get("line_index")
    if mode:
        # flat-AHB order: a group's own line, then its segments, then its nested groups (as maus numbers them)
        order = []

        def walk(g):
            order.append(g)
            for sg in g.segments or []:
                order.append(sg)
            for sub in g.segment_groups or []:
                walk(sub)

        for line in ahb.lines:
            walk(line)
        for i, node in enumerate(order):
            node.ahb_line_index = (i + 1) if mode == "flat" else (len(order) - i)
    return ahb


def set_cer(cer):
    evalenv.set_cer(evalenv.make_cer(rc=cer["rc"], fc={k: (v, None if v else f"fc {k} failed") for k, v in cer["fc"].items()}, hints=cer["hints"], packages=cer["packages"]))


def canon_result(r) -> Dict[str, Any]:
    v = r.validation_result
    is_de = hasattr(v, "format_validation_fulfilled")
    return {"disc": r.discriminator, "is_de": is_de, "status": str(v.requirement_validation.value), "hints": v.hints,
            "fc_ok": getattr(v, "format_validation_fulfilled", None), "fc_msg": getattr(v, "format_error_message", None),
            "possible": [list(kv) for kv in v.possible_values.items()] if getattr(v, "possible_values", None) is not None else None,
            "dtype": str(v.data_element_data_type.value) if getattr(v, "data_element_data_type", None) is not None else None}


def run_validation(spec, cer, soll: bool) -> Dict[str, Any]:
    set_cer(cer)
    E._arm(cer["rc"], cer["fc"], cer["hints"], cer["packages"])  # no-op unless the check configured suspending / method-based evaluators
    ahb = to_maus(spec)

    async def go():
        return await validate_deep_anwendungshandbuch(ahb, soll_is_required=soll)

    try:
        res = asyncio.run(go())
    except BaseException as e:  # pylint:disable=broad-except
        return {"err": type(e).__name__ if isinstance(e, (NotImplementedError, ValueError)) else "other:" + type(e).__name__}
    return {"results": [canon_result(r) for r in res]}


_eval_cache: Dict[Any, Any] = {}


def eval_node_expr(text: str, cer, entered_input=None) -> Dict[str, Any]:
    """what validation should see of a node's expression: the evaluation result of the selected part, or 'invalid'.
    Packages are substituted TEXTUALLY first (C10: resolving = bracketed textual substitution), so this reference does not go through
    the library's package expansion and notices when validation resolves packages differently."""
    set_cer(cer)
    E.disarm()
    import re as _re
    pk = cer.get("packages") or {}
    text = _re.sub(r"\[\s*(\d+P)[^\]]*\]", lambda m: "(" + pk[m.group(1)] + ")" if m.group(1) in pk else m.group(0), text)

    async def go():
        tree = await parse_expression_including_unresolved_subexpressions(text, resolve_packages=True)
        fc_evaluators.text_to_be_evaluated_by_format_constraint.set(entered_input)
        return await evaluate_ahb_expression_tree(tree)

    try:
        r = asyncio.run(go())
    except InvalidExpressionError as e:
        return {"invalid": e.error_message}
    except BaseException as e:  # pylint:disable=broad-except
        return {"raises": type(e).__name__}
    rr, fr = r.requirement_constraint_evaluation_result, r.format_constraint_evaluation_result
    return {"ind": str(r.requirement_indicator.value), "fulfilled": rr.requirement_constraints_fulfilled, "hints": rr.hints,
            "fc_ok": fr.format_constraints_fulfilled, "fc_msg": fr.error_message}


def model_input(spec, cer) -> Tuple[Dict[str, Any], bool]:
    """the spec with every expression replaced by its evaluation result (through the implementation); second component: usable"""
    usable = True

    def res(x, inp=None):
        nonlocal usable
        r = eval_node_expr(expr_text(x), cer, inp)
        if "raises" in r:
            usable = False
        return r

    def de(d):
        if d["t"] == "free":
            return {"k": "free", "disc": d["disc"], "res": res(d["expr"], d["input"]), "input": d["input"], "vtype": d.get("vtype")}
        return {"k": "pool", "disc": d["disc"], "entries": [{"q": e["q"], "m": e["m"], "res": res(e["expr"])} for e in d["entries"]], "input": d["input"]}

    def seg(s):
        return {"disc": s["disc"], "res": res(s["expr"]), "des": [de(d) for d in s["des"]]}

    def grp(g):
        return {"disc": g["disc"], "res": res(g["expr"]), "groups": [grp(x) for x in g["groups"]], "segs": [seg(s) for s in g["segs"]]}

    return {"lines": [grp(g) for g in spec["lines"]]}, usable


def walk(spec):
    """(kind, node, parent_node) in document order"""
    def grp(g, parent):
        yield "group", g, parent
        for x in g["groups"]:
            yield from grp(x, g)
        for s in g["segs"]:
            yield "segment", s, g
            for d in s["des"]:
                yield d["t"], d, s

    for g in spec["lines"]:
        yield from grp(g, None)


def map_exprs(spec, fn):
    """deep copy with every expression spec replaced by fn(kind, node, expr)"""
    new = copy.deepcopy(spec)
    for kind, node, _ in walk(new):
        if kind == "pool":
            for e in node["entries"]:
                e["expr"] = fn("entry", e, e["expr"])
        else:
            node["expr"] = fn(kind, node, node["expr"])
    return new
