"""calling the three parsing entry points of ahbicht and canonicalising what comes back"""
from __future__ import annotations

import asyncio
import signal
from typing import Any, Dict, List, Optional

from . import impl, trees as T
from ahbicht.expressions.ahb_expression_parser import parse_ahb_expression_to_single_requirement_indicator_expressions as _parse_ahb
from ahbicht.expressions.condition_expression_parser import parse_condition_expression_to_tree as _parse_cond
from ahbicht.expressions.expression_resolver import parse_expression_including_unresolved_subexpressions as _resolve


def _kw_name(fn):
    """the public name of the string parameter of a parser function (behind the tree_copy / lru_cache decorators), None if it cannot be found"""
    import inspect
    try:
        for c in (fn.__closure__ or []):
            if hasattr(c.cell_contents, "cache_clear"):
                return next(iter(inspect.signature(c.cell_contents.__wrapped__).parameters))
        return next(iter(inspect.signature(fn).parameters))
    except Exception:  # pylint:disable=broad-except
        return None


_KW = {"cond": _kw_name(_parse_cond), "ahb": _kw_name(_parse_ahb)}


def _by_keyword(s) -> bool:
    """callers may pass the expression by keyword: a third of the strings (a fixed function of the string) always are"""
    import zlib
    return isinstance(s, str) and zlib.crc32(s.encode("utf-8", "replace")) % 3 == 0


import collections

RECENT = collections.deque(maxlen=4)  # the last parser calls (which parser, string, passed by keyword): part of a replay when the outcome depends on the history


def recent():
    return [list(x) for x in RECENT]


def _call(which, fn, s):
    kw = _KW.get(which)
    by_kw = bool(kw and kw != "args" and _by_keyword(s))
    if isinstance(s, str) and len(s) < 400:
        RECENT.append((which, s, by_kw))
    if by_kw:
        return fn(**{kw: s})
    return fn(s)


class LarkTimeout(Exception):
    pass


def _alarm(_sig, _frm):
    raise LarkTimeout()


def guarded(fn, *a, seconds: int = 60):
    """every call into Lark runs under a wall-clock guard (the ambiguous grammar is cubic)"""
    old = signal.signal(signal.SIGALRM, _alarm)
    signal.alarm(seconds)
    try:
        return fn(*a)
    finally:
        signal.alarm(0)
        signal.signal(signal.SIGALRM, old)


def outcome_class(e: BaseException) -> str:
    return "SyntaxError" if type(e) is SyntaxError else "other:" + type(e).__name__  # pylint:disable=unidiomatic-typecheck


def parse_cond(s: Any) -> Dict[str, Any]:
    try:
        t = guarded(lambda x: _call("cond", _parse_cond, x), s)
    except LarkTimeout:
        raise
    except BaseException as e:  # pylint:disable=broad-except
        return {"err": outcome_class(e)}
    e = T.from_lark(t)
    return {"tree": T.to_json(e), "flat": T.flat_json(e), "lark": t}


def parse_ahb(s: Any) -> Dict[str, Any]:
    try:
        t = guarded(lambda x: _call("ahb", _parse_ahb, x), s)
    except LarkTimeout:
        raise
    except BaseException as e:  # pylint:disable=broad-except
        return {"err": outcome_class(e)}
    return {"lark": t, "parts": ahb_parts(t)}


def ahb_parts(t) -> List[Any]:
    """[(kind, indicator_token_type, indicator_value, condition_text | None)] in written order"""
    parts = []
    for ch in t.children:
        if ch.data == "single_requirement_indicator_expression":
            ind, ce = ch.children
            parts.append(["part", str(ind.type), str(ind.value), str(ce.value) if hasattr(ce, "value") else None])
        elif ch.data == "requirement_indicator":
            ind = ch.children[0]
            parts.append(["bare", str(ind.type), str(ind.value), None])
        else:
            parts.append(["other", str(ch.data), None, None])
    return parts


def run(coro):
    return asyncio.run(coro)


def resolve(s: Any, resolve_packages: bool = False, replace_time_conditions: bool = True) -> Dict[str, Any]:
    async def go():
        return await _resolve(s, resolve_packages=resolve_packages, replace_time_conditions=replace_time_conditions)

    try:
        t = guarded(lambda: asyncio.run(go()))
    except LarkTimeout:
        raise
    except BaseException as e:  # pylint:disable=broad-except
        return {"err": outcome_class(e)}
    return {"lark": t, "shape": resolved_shape(t)}


def resolved_shape(t) -> Any:
    """canonical form of a resolved tree: condition trees flattened, AHB structure kept"""
    from lark import Tree

    if isinstance(t, Tree) and t.data == "ahb_expression":
        out = []
        for ch in t.children:
            if ch.data == "single_requirement_indicator_expression":
                ind, ce = ch.children
                out.append(["part", str(ind.type), str(ind.value), T.flat_json(T.from_lark(ce))])
            elif ch.data == "requirement_indicator":
                ind = ch.children[0]
                out.append(["bare", str(ind.type), str(ind.value), None])
            else:
                out.append(["other", str(ch.data), None, None])
        return ["ahb", out]
    return ["cond", T.flat_json(T.from_lark(t))]
