"""evaluators / providers / resolvers that yield a schedule-chosen number of times, so that completion orders are permuted"""
from __future__ import annotations

import asyncio
from typing import Dict, Tuple

from . import evalenv, impl  # noqa: F401
from ahbicht.content_evaluation.fc_evaluators import ContentEvaluationResultBasedFcEvaluator
from ahbicht.content_evaluation.rc_evaluators import ContentEvaluationResultBasedRcEvaluator
from ahbicht.expressions.hints_provider import ContentEvaluationResultBasedHintsProvider
from ahbicht.expressions.package_expansion import ContentEvaluationResultBasedPackageResolver

SCHEDULE: Dict[Tuple[str, str], int] = {}
COMPLETIONS = []


async def sleeps(kind: str, key: str):
    for _ in range(SCHEDULE.get((kind, key), 0)):
        await asyncio.sleep(0)
    COMPLETIONS.append((kind, key))


class DelayRc(ContentEvaluationResultBasedRcEvaluator):
    async def evaluate_single_condition(self, condition_key, evaluatable_data, context=None):
        await sleeps("rc", condition_key)
        return await super().evaluate_single_condition(condition_key, evaluatable_data, context)


class DelayFc(ContentEvaluationResultBasedFcEvaluator):
    async def evaluate_single_format_constraint(self, condition_key):
        await sleeps("fc", condition_key)
        return await super().evaluate_single_format_constraint(condition_key)


class DelayHints(ContentEvaluationResultBasedHintsProvider):
    async def get_hint_text(self, condition_key):
        await sleeps("hint", condition_key)
        return await super().get_hint_text(condition_key)


class DelayPackages(ContentEvaluationResultBasedPackageResolver):
    async def get_condition_expression(self, package_key):
        await sleeps("pkg", package_key)
        return await super().get_condition_expression(package_key)


def configure():
    provs = [DelayRc(), DelayFc(), DelayHints(), DelayPackages()]
    for p in provs:
        p.edifact_format = evalenv.FMT
        p.edifact_format_version = evalenv.FV
    evalenv.configure_cer_based(extra=provs)


def set_schedule(d: Dict[Tuple[str, str], int]):
    SCHEDULE.clear()
    SCHEDULE.update(d)
    COMPLETIONS.clear()
