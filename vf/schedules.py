"""evaluators / providers / resolvers that yield a schedule-chosen number of times, so that completion orders are permuted"""
from __future__ import annotations

import asyncio
from typing import Dict, Tuple

from . import evalenv, impl  # noqa: F401
from ahbicht.content_evaluation.fc_evaluators import ContentEvaluationResultBasedFcEvaluator
from ahbicht.content_evaluation.rc_evaluators import ContentEvaluationResultBasedRcEvaluator
from ahbicht.expressions.hints_provider import ContentEvaluationResultBasedHintsProvider
from ahbicht.expressions.package_expansion import ContentEvaluationResultBasedPackageResolver

SCHEDULE: Dict[Tuple[str, str], int] = {}
COMPLETIONS = []


import contextvars

# extra yields of every requirement-constraint evaluation of ONE evaluation (context-local): lets concurrently running evaluations drift apart
JOB_DELAY: "contextvars.ContextVar[int]" = contextvars.ContextVar("vf_job_delay", default=0)


async def sleeps(kind: str, key: str):
    for _ in range(SCHEDULE.get((kind, key), 0) + (JOB_DELAY.get() if kind == "rc" else 0)):
        await asyncio.sleep(0)
    COMPLETIONS.append((kind, key))


class DelayRc(ContentEvaluationResultBasedRcEvaluator):
    async def evaluate_single_condition(self, condition_key, evaluatable_data, context=None):
        await sleeps("rc", condition_key)
        return await super().evaluate_single_condition(condition_key, evaluatable_data, context)


class DelayFc(ContentEvaluationResultBasedFcEvaluator):
    async def evaluate_single_format_constraint(self, condition_key):
        await sleeps("fc", condition_key)
        return await super().evaluate_single_format_constraint(condition_key)


class DelayHints(ContentEvaluationResultBasedHintsProvider):
    async def get_hint_text(self, condition_key):
        await sleeps("hint", condition_key)
        return await super().get_hint_text(condition_key)


class DelayPackages(ContentEvaluationResultBasedPackageResolver):
    async def get_condition_expression(self, package_key):
        await sleeps("pkg", package_key)
        return await super().get_condition_expression(package_key)


# ---- evaluators written the way a user writes them: one evaluate_<key> method per condition, some async, some not ----------------
def _rc_method(key: str, is_async: bool):
    def value(k=key):
        try:
            return evalenv.current_cer.get().requirement_constraints[k]
        except KeyError as e:
            raise NotImplementedError(f"No result was provided for condition '{k}'.") from e

    if is_async:
        async def method(self, evaluatable_data, context):  # pylint:disable=unused-argument
            # as a user evaluator may do: narrow the scope of the context it was handed, wait for I/O, then evaluate within the scope it finds there.
            # Every call owns its context object, so it finds its own scope again -- unless the library shares one context between calls.
            context.scope = f"$.{key}"
            await sleeps("rc", key)
            seen = context.scope[2:] if isinstance(context.scope, str) and context.scope.startswith("$.") else key
            return value(seen)
    else:
        def method(self, evaluatable_data, context):  # pylint:disable=unused-argument
            COMPLETIONS.append(("rc", key))
            return value()
    return method


def _fc_method(key: str, is_async: bool):
    def value():
        from ahbicht.models.condition_nodes import EvaluatedFormatConstraint
        try:
            v = evalenv.current_cer.get().format_constraints[key]
        except KeyError as e:
            raise NotImplementedError(f"No result was provided for format constraint '{key}'.") from e
        return EvaluatedFormatConstraint(format_constraint_fulfilled=v.format_constraint_fulfilled, error_message=v.error_message)

    if is_async:
        async def method(self, entered_input):  # pylint:disable=unused-argument
            await sleeps("fc", key)
            return value()
    else:
        def method(self, entered_input):  # pylint:disable=unused-argument
            COMPLETIONS.append(("fc", key))
            return value()
    return method


def _method_based():
    from ahbicht.content_evaluation.evaluationdatatypes import EvaluationContext
    from ahbicht.content_evaluation.fc_evaluators import FcEvaluator
    from ahbicht.content_evaluation.rc_evaluators import RcEvaluator

    rc_ns = {f"evaluate_{k}": _rc_method(str(k), k % 3 != 0) for k in list(range(1, 500)) + list(range(2000, 2500))}
    rc_ns["_get_default_context"] = lambda self: EvaluationContext(scope=None)
    fc_ns = {f"evaluate_{k}": _fc_method(str(k), k % 3 != 1) for k in range(901, 1000)}
    return type("MethodRc", (RcEvaluator,), rc_ns)(), type("MethodFc", (FcEvaluator,), fc_ns)()


def configure():
    """FV2210: ContentEvaluationResult-based evaluators that suspend on schedule; FV2310: evaluate_<key>-method evaluators (sync and async
    methods mixed, the async ones suspend on schedule) over the same context-local data.  evalenv.current_fv selects per evaluation."""
    provs = [DelayRc(), DelayFc(), DelayHints(), DelayPackages()]
    for p in provs:
        p.edifact_format = evalenv.FMT
        p.edifact_format_version = evalenv.FV
    mrc, mfc = _method_based()
    more = [mrc, mfc, DelayHints(), DelayPackages()]
    for p in more:
        p.edifact_format = evalenv.FMT
        p.edifact_format_version = evalenv.FV_METHODS
    evalenv.configure_cer_based(extra=provs + more)


def set_schedule(d: Dict[Tuple[str, str], int]):
    SCHEDULE.clear()
    SCHEDULE.update(d)
    COMPLETIONS.clear()


def probe_runtime(rng, n: int = 200) -> Dict[str, int]:
    """the two facts about asyncio the models of C12 / C15 take for granted, observed on the running interpreter:
    (1) asyncio.gather returns results in argument order whatever the completion order, (2) every gathered coroutine runs as its own
    task with a COPY of the caller's context (a ContextVar set inside does not leak to the caller or to siblings, the caller's value is seen)."""
    import contextvars
    var: contextvars.ContextVar = contextvars.ContextVar("vf_probe", default="unset")
    stats = {"gathers": 0, "order_ok": 0, "context_ok": 0}

    async def child(i, delay, seen):
        seen.append((i, var.get()))      # sees the caller's value
        var.set(f"child{i}")
        for _ in range(delay):
            await asyncio.sleep(0)
        return i, var.get()

    async def one():
        k = rng.randint(1, 7)
        delays = [rng.randint(0, 5) for _ in range(k)]
        var.set("parent")
        seen = []
        res = await asyncio.gather(*[child(i, d, seen) for i, d in enumerate(delays)])
        stats["gathers"] += 1
        stats["order_ok"] += int([r[0] for r in res] == list(range(k)))
        stats["context_ok"] += int(all(v == "parent" for _, v in seen) and all(r[1] == f"child{r[0]}" for r in res) and var.get() == "parent")

    for _ in range(n):
        asyncio.run(one())
    return stats

