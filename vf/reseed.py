"""
development helper (not a registered check): re-apply every kept seeded change (/verif/seeded/*/patch.diff) to /repo, run the
property's check, undo the change, and record whether the current machinery still detects it (seeded/RECHECK.json).

python -m vf.reseed [tier] [name ...]
"""
import json
import subprocess
import sys
import time
from pathlib import Path

VERIF = Path(__file__).resolve().parent.parent


def sh(cmd, **kw):
    return subprocess.run(cmd, shell=True, capture_output=True, text=True, **kw)


def main():
    tier = sys.argv[1] if len(sys.argv) > 1 else "quick"
    only = set(sys.argv[2:])
    if sh("git -C /repo status --porcelain").stdout.strip():
        print("refusing: /repo is dirty")
        sys.exit(2)
    out = {}
    for d in sorted((VERIF / "seeded").iterdir()):
        if not (d / "patch.diff").exists() or (only and d.name not in only):
            continue
        prop = json.load(open(d / "meta.json"))["property"]
        # exact application only: a patch that no longer applies must be rebased by hand, not half-applied with fuzz
        ap = sh(f"git -C /repo apply {d / 'patch.diff'}")
        applied = ap.returncode == 0 and bool(sh("git -C /repo status --porcelain").stdout.strip())
        row = {"property": prop, "applied": applied}
        try:
            if applied:
                t0 = time.time()
                c = sh(f"cd {VERIF} && ./check {prop} --tier {tier}", timeout=6000)
                viol = [l for l in c.stdout.splitlines() if l.startswith("VIOLATION")]
                row.update({"exit": c.returncode, "wall_s": round(time.time() - t0, 1), "detected": c.returncode == 1 and bool(viol),
                            "no_failing_input_found": any(l.rstrip().endswith("no-failing-input-found") for l in viol)})
            else:
                row["apply_err"] = (ap.stdout + ap.stderr)[-300:]
        finally:
            sh("git -C /repo reset -q --hard HEAD; git -C /repo checkout -- .; git -C /repo clean -fdq")
            sh(f"cd {VERIF} && git checkout -- evidence lean/Ahbicht/Generated 2>/dev/null")
        out[d.name] = row
        print(d.name, row, flush=True)
    import os
    seed = os.environ.get("VERIF_SEED", "0")
    if not only:
        name = "RECHECK.json" if seed == "0" else f"RECHECK-seed{seed}.json"
        json.dump({"tier": tier, "seed": seed, "results": out}, open(VERIF / "seeded" / name, "w"), indent=1)
    missed = [k for k, v in out.items() if not v.get("detected")]
    print("missed:", missed)


if __name__ == "__main__":
    main()
