"""
Shared machinery of every check: context object, evidence, verdict, Lean build / audit / driver.

Exit codes: 0 = property held on everything explored, 1 = violation (a VIOLATION line was printed),
2 = tool failure (never a verdict).
"""
from __future__ import annotations

import fcntl
import hashlib
import json
import os
import random
import re
import subprocess
import sys
import time
from pathlib import Path
from typing import Any, Dict, Iterable, List, Optional, Sequence, Tuple

VERIF = Path(__file__).resolve().parent.parent
LEAN = VERIF / "lean"
REPO = Path(os.environ.get("AHBICHT_REPO", "/repo"))
EVIDENCE = VERIF / "evidence"
REPLAYS = VERIF / "replays"
KNOWN_FINDINGS = VERIF / "known_findings.json"
ALLOWED_AXIOMS = {"propext", "Quot.sound", "Classical.choice"}
FORBIDDEN_TOKENS = re.compile(
    r"\b(sorry|admit|native_decide|bv_decide|implemented_by|unsafe)\b|^\s*axiom\s|maxHeartbeats\s+0", re.M
)

TRUSTED_BASE = [
    "Lean 4.33.0 kernel (thorough tier: re-checked with leanchecker)",
    "axioms: subset of {propext, Quot.sound, Classical.choice}; audited on every run via collectAxioms",
    "vf/extract.py (T1/T2 extraction of finite tables and declarative data from the live objects)",
    "vf correspondence harness (generators, canonicalisers: n-ary flattening, sorting hash-ordered data, exception class names)",
]


def _no_surrogates(text: str) -> str:
    """lone surrogates (generated on purpose as inputs) cannot be written as UTF-8: keep them as \\udXXX escapes in evidence and replay files"""
    return text.encode("utf-8", "backslashreplace").decode("utf-8")


class ToolFailure(Exception):
    """the machinery itself failed (timeout, crash, missing tool): exit 2"""


def _strip_comments(src: str) -> str:
    # remove /- ... -/ (nested not handled beyond depth 1 -- fine for our files) and -- comments
    out = []
    i, n, depth = 0, len(src), 0
    while i < n:
        if src.startswith("/-", i):
            depth += 1
            i += 2
            continue
        if src.startswith("-/", i) and depth > 0:
            depth -= 1
            i += 2
            continue
        if depth > 0:
            i += 1
            continue
        if src.startswith("--", i):
            j = src.find("\n", i)
            i = n if j < 0 else j
            continue
        out.append(src[i])
        i += 1
    return "".join(out)


class Ctx:
    """what a property check talks to"""

    def __init__(self, prop: str, tier: str, seed: int):
        self.prop = prop
        self.tier = tier
        self.seed = seed
        self.rng = random.Random((seed << 8) ^ int(hashlib.sha256(prop.encode()).hexdigest()[:8], 16))
        self.t0 = time.time()
        self.coverage: Dict[str, Any] = {}
        self.samples: List[Any] = []
        self.violations: List[Dict[str, Any]] = []
        self.known_hits: List[Dict[str, Any]] = []
        self.broken: List[Dict[str, Any]] = []  # proof obligations / correspondence streams that no longer check
        self.obligations: List[str] = []
        self.discharged: List[str] = []
        self.axioms: Dict[str, List[str]] = {}
        self.assumptions: List[str] = []
        self.evaluations = 0
        self.nontrivial: set = set()
        self.hist: Dict[str, Dict[str, int]] = {}
        self.advisory: List[Any] = []
        self.rule = ""
        self.level = "proof"
        self.checker_cmds: List[str] = []
        self._known = _load_known()

    # ---- bookkeeping -------------------------------------------------------------------------
    @property
    def quick(self) -> bool:
        return self.tier == "quick"

    def pick(self, quick, thorough):
        return quick if self.quick else thorough

    def count(self, family: str, key: str, n: int = 1) -> None:
        d = self.hist.setdefault(family, {})
        d[key] = d.get(key, 0) + n

    def case(self, canonical: Any, nontrivial: bool = True) -> None:
        """count one explored case; canonical is hashed for the distinct count"""
        self.evaluations += 1
        if nontrivial:
            self.nontrivial.add(hashlib.blake2b(repr(canonical).encode(), digest_size=8).digest())

    def sample(self, x: Any, limit: int = 12) -> None:
        if len(self.samples) < limit:
            self.samples.append(x)

    def advise(self, x: Any) -> None:
        if len(self.advisory) < 20:
            self.advisory.append(x)
        self.count("advisory", "mismatch")

    # ---- verdict -----------------------------------------------------------------------------
    def violation(self, what: str, replay: Dict[str, Any], key: Optional[str] = None) -> None:
        """a concrete failing input on the implementation (or the model, when it is the property itself)"""
        key = key or what
        for k in self._known:
            if k.get("property") == self.prop and k.get("status") == "known" and k.get("key") == key:
                if not any(h["key"] == key for h in self.known_hits):
                    self.known_hits.append({"key": key, "what": k.get("what", what)})
                return
        size = len(json.dumps(replay, default=str, ensure_ascii=False))
        for v in self.violations:
            if v["key"] == key:
                if size < v["size"]:
                    v.update({"what": what, "replay": replay, "size": size})
                break
        else:
            if len(self.violations) < 25:
                self.violations.append({"what": what, "key": key, "replay": replay, "size": size})
        self.count("violations", key.split(":")[0][:40])

    def broke(self, kind: str, name: str, detail: str) -> None:
        """a proof obligation or a correspondence stream no longer checks (not yet a violation)"""
        if len(self.broken) < 25:
            self.broken.append({"kind": kind, "name": name, "detail": detail[:4000]})

    # ---- Lean --------------------------------------------------------------------------------
    def lean_build(self, modules: Sequence[str], timeout: int = 1500) -> bool:
        """lake build of the given modules; records obligations (theorems of Properties files)"""
        ok = True
        from . import extract
        for name, err in extract.FAILED:
            # the extractor could not read the working tree any more: the model is no longer tied to this code
            self.broke("extraction", f"Generated/{name}.lean", f"vf/extract.py could not regenerate {name} from /repo's working tree ({err}); the committed table was kept")
        extract.FAILED.clear()
        with _lean_lock():
            for m in modules:
                cmd = ["lake", "build", m]
                self.checker_cmds.append("cd lean && " + " ".join(cmd))
                try:
                    p = subprocess.run(cmd, cwd=LEAN, capture_output=True, text=True, timeout=timeout)
                except subprocess.TimeoutExpired as e:
                    raise ToolFailure(f"lake build {m} timed out") from e
                if p.returncode != 0:
                    ok = False
                    out = p.stdout + p.stderr
                    failing = _failing_theorems(out)
                    self.broke("proof", m, "failing: " + ", ".join(failing or ["<build>"]) + "\n" + _tail(out, 60))
                    self._failed_theorems = getattr(self, "_failed_theorems", set()) | set(failing)
        return ok

    def lean_build_driver(self) -> bool:
        """the model driver only depends on the Model/Generated files, so it is usable even when a proof no longer checks"""
        with _lean_lock():
            try:
                p = subprocess.run(["lake", "build", "driver"], cwd=LEAN, capture_output=True, text=True, timeout=1500)
            except subprocess.TimeoutExpired as e:
                raise ToolFailure("lake build driver timed out") from e
        if p.returncode != 0:
            self.broke("model", "driver", "the model driver does not build:\n" + _tail(p.stdout + p.stderr, 40))
            return False
        return True

    def lean_audit(self, modules: Sequence[str]) -> None:
        """obligations, axioms and forbidden tokens of the given property modules (only call after a green build)"""
        body = "import Lean\n" + "\n".join(f"import {m}" for m in modules)
        body += "\nopen Lean Elab Command\nrun_cmd do\n  let env ← getEnv\n"
        for m in modules:
            body += (
                f"  match env.getModuleIdx? `{m} with\n"
                f"  | none => logInfo \"AUDIT-MISSING {m}\"\n"
                f"  | some idx =>\n"
                f"    for n in env.header.moduleData[idx.toNat]!.constNames do\n"
                f"      match env.find? n with\n"
                f"      | some (.thmInfo _) =>\n"
                f"        if !n.isInternal then\n"
                f"          let ax ← Lean.collectAxioms n\n"
                f"          IO.println s!\"AUDIT {m} {{n}} :: {{ax.toList}}\"\n"
                f"      | _ => pure ()\n"
            )
        tmp = LEAN / f".audit_{self.prop}_{os.getpid()}.lean"
        tmp.write_text(body)
        try:
            with _lean_lock():
                p = subprocess.run(["lake", "env", "lean", str(tmp)], cwd=LEAN, capture_output=True, text=True, timeout=900)
        except subprocess.TimeoutExpired as e:
            raise ToolFailure("axiom audit timed out") from e
        finally:
            tmp.unlink(missing_ok=True)
        if p.returncode != 0:
            raise ToolFailure("axiom audit failed:\n" + _tail(p.stdout + p.stderr, 40))
        declared = set()
        for m in modules:
            src = _strip_comments((LEAN / (m.replace(".", "/") + ".lean")).read_text())
            declared |= set(re.findall(r"^\s*(?:private\s+|protected\s+)?theorem\s+([^\s:({\[]+)", src, re.M))
        for line in p.stdout.splitlines():
            mm = re.match(r"AUDIT (\S+) (\S+) :: \[(.*)\]", line)
            if not mm:
                continue
            mod, thm, axs = mm.group(1), mm.group(2), [a.strip() for a in mm.group(3).split(",") if a.strip()]
            if thm.split(".")[-1] not in declared:
                continue  # equation lemmas and other auto-generated theorems are not obligations
            self.axioms[thm] = axs
            if ".Properties." in mod:
                self.obligations.append(thm)
                bad = [a for a in axs if a not in ALLOWED_AXIOMS]
                if bad:
                    self.broke("axioms", thm, f"depends on non-standard axioms {bad}")
                else:
                    self.discharged.append(thm)
        # the statements of the property theorems must be the locked ones
        from . import statements
        for d in statements.verify(modules):
            self.broke("statement", d.split(":")[0], d)
        # forbidden tokens in the sources of everything under lean/Ahbicht
        for f in sorted((LEAN / "Ahbicht").rglob("*.lean")):
            src = _strip_comments(f.read_text())
            mm = FORBIDDEN_TOKENS.search(src)
            if mm:
                self.broke("audit", str(f.relative_to(VERIF)), f"forbidden token {mm.group(0)!r}")

    def lean_check_olean(self, modules: Sequence[str]) -> None:
        """thorough tier: independent re-check of the compiled modules"""
        cmd = ["lake", "env", "leanchecker", *modules]
        self.checker_cmds.append("cd lean && " + " ".join(cmd))
        try:
            with _lean_lock():
                p = subprocess.run(cmd, cwd=LEAN, capture_output=True, text=True, timeout=3000)
        except subprocess.TimeoutExpired as e:
            raise ToolFailure("leanchecker timed out") from e
        self.coverage["leanchecker"] = "ok" if p.returncode == 0 else "FAILED"
        if p.returncode != 0:
            self.broke("leanchecker", ",".join(modules), _tail(p.stdout + p.stderr, 30))

    def driver(self, lines: Iterable[Dict[str, Any]], timeout: int = 1500) -> List[Dict[str, Any]]:
        """pipe JSON lines through the Lean model driver; one answer per line"""
        payload = "\n".join(json.dumps(l, ensure_ascii=False) for l in lines) + "\n"
        payload = payload.encode("utf-8", "surrogatepass").decode("utf-8", "replace")
        exe = LEAN / ".lake" / "build" / "bin" / "driver"
        with _lean_lock():
            if os.environ.get("VF_DRIVER_INTERP") or not exe.exists():
                cmd = ["lake", "env", "lean", "--run", "Main.lean"]
            else:
                cmd = [str(exe)]
        try:
            p = subprocess.run(cmd, cwd=LEAN, input=payload, capture_output=True, text=True, encoding="utf-8", timeout=timeout)
        except subprocess.TimeoutExpired as e:
            raise ToolFailure("model driver timed out") from e
        if p.returncode != 0:
            raise ToolFailure("model driver failed:\n" + _tail(p.stdout + p.stderr, 40))
        outs = [json.loads(l) for l in p.stdout.split("\n") if l.strip()]
        n = payload.count("\n")
        if len(outs) != n:
            raise ToolFailure(f"model driver answered {len(outs)} lines for {n} requests\n" + _tail(p.stderr, 20))
        return outs

    # ---- finish ------------------------------------------------------------------------------
    def finish(self) -> int:
        wall = time.time() - self.t0
        try:
            from . import evaluation as _E
            if _E.ARM_STATS:
                self.coverage["evaluations_served_by"] = dict(_E.ARM_STATS)
        except Exception:  # pylint:disable=broad-except
            pass
        REPLAYS.mkdir(exist_ok=True)
        EVIDENCE.mkdir(exist_ok=True)
        lines: List[str] = []
        for h in self.known_hits:
            lines.append(f"KNOWN-FINDING: property={self.prop} {h['what']}")
        exit_code = 0
        if self.violations:
            exit_code = 1
            for i, v in enumerate(self.violations[:5]):
                path = REPLAYS / f"{self.prop}-{_h(v['key'])}.json"
                path.write_text(_no_surrogates(json.dumps({"property": self.prop, "what": v["what"], "key": v["key"], "seed": self.seed,
                                            "tier": self.tier, "replay": v["replay"], "broken": self.broken},
                                           indent=1, ensure_ascii=False, default=str)))
                lines.append(f"VIOLATION property={self.prop} replay={path}")
        elif self.broken:
            exit_code = 1
            path = REPLAYS / f"{self.prop}-unproved-{_h(json.dumps(self.broken, default=str))}.json"
            path.write_text(_no_surrogates(json.dumps({"property": self.prop, "seed": self.seed, "tier": self.tier,
                                        "no_longer_checks": self.broken,
                                        "note": "failing-input search over the implementation found nothing"},
                                       indent=1, ensure_ascii=False, default=str)))
            lines.append(f"VIOLATION property={self.prop} replay={path} no-failing-input-found")
        cov = dict(self.coverage)
        cov.update({
            "obligations": len(self.obligations),
            "discharged": len(self.discharged),
            "checker_cmd": " && ".join(dict.fromkeys(self.checker_cmds)) or "none",
            "trusted_base": TRUSTED_BASE,
            "theorems": self.obligations,
            "axioms_used": sorted({a for t in self.obligations for a in self.axioms.get(t, [])}),
            "evaluations": self.evaluations,
            "distinct_nontrivial": len(self.nontrivial),
            "rule": self.rule,
            "samples": self.samples or ["<none>"],
            "histograms": self.hist,
            "advisory_mismatches": self.advisory,
            "known_findings_reproduced": self.known_hits,
            "broken": self.broken,
        })
        ev = {"property_id": self.prop, "tier": self.tier, "seed": self.seed, "level": self.level, "coverage": cov,
              "assumptions": self.assumptions, "wall_s": round(wall, 2), "violations": len(self.violations) + (1 if (self.broken and not self.violations) else 0)}
        (EVIDENCE / f"{self.prop}.json").write_text(_no_surrogates(json.dumps(ev, indent=1, ensure_ascii=False, default=str)) + "\n")
        for l in lines:
            print(l)
        print(f"[{self.prop}] tier={self.tier} seed={self.seed} obligations={len(self.discharged)}/{len(self.obligations)} "
              f"cases={self.evaluations} distinct={len(self.nontrivial)} violations={len(self.violations)} broken={len(self.broken)} "
              f"known={len(self.known_hits)} wall={wall:.1f}s")
        return exit_code


def _h(s: str) -> str:
    return hashlib.sha256(s.encode()).hexdigest()[:10]


def _tail(s: str, n: int) -> str:
    return "\n".join(s.splitlines()[-n:])


def _load_known() -> List[Dict[str, Any]]:
    if KNOWN_FINDINGS.exists():
        return json.loads(KNOWN_FINDINGS.read_text()).get("findings", [])
    return []


class _lean_lock:
    def __enter__(self):
        self.f = open(LEAN / ".vf.lock", "w")
        fcntl.flock(self.f, fcntl.LOCK_EX)
        return self

    def __exit__(self, *a):
        fcntl.flock(self.f, fcntl.LOCK_UN)
        self.f.close()


def _failing_theorems(build_output: str) -> List[str]:
    """map `error: file:line:col` to the enclosing theorem name"""
    names: List[str] = []
    for mm in re.finditer(r"error: (\S+?\.lean):(\d+):\d+", build_output):
        f, line = mm.group(1), int(mm.group(2))
        p = (LEAN / f) if not os.path.isabs(f) else Path(f)
        try:
            src = p.read_text().splitlines()
        except OSError:
            continue
        name = None
        for i in range(min(line, len(src)) - 1, -1, -1):
            m2 = re.match(r"\s*(?:private\s+|protected\s+)?(?:theorem|lemma|example|def|instance)\s+(\S+)?", src[i])
            if m2:
                name = f"{p.name}:{m2.group(1) or 'example'}"
                break
        names.append(name or f"{p.name}:{line}")
    return list(dict.fromkeys(names))


def write_if_changed(path: Path, content: str) -> bool:
    if path.exists() and path.read_text() == content:
        return False
    path.parent.mkdir(parents=True, exist_ok=True)
    path.write_text(content)
    return True
