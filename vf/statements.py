"""
Statement lock: the text of every theorem statement of lean/Ahbicht/Properties/*.lean is hashed into lean/statements.lock
(`python -m vf.statements --update` after an intended change).  Every check compares the statements of its modules with the
lock, so a property theorem cannot be quietly weakened, renamed or dropped to make a proof pass.
"""
from __future__ import annotations

import hashlib
import json
import re
import sys
from pathlib import Path
from typing import Dict

LEAN = Path(__file__).resolve().parent.parent / "lean"
LOCK = LEAN / "statements.lock"


def _strip_comments(src: str) -> str:
    from .common import _strip_comments as sc
    return sc(src)


def statements_of(path: Path) -> Dict[str, str]:
    """theorem name -> normalised statement text (everything between `theorem NAME` and the `:=` that starts the proof)"""
    src = _strip_comments(path.read_text())
    out: Dict[str, str] = {}
    for m in re.finditer(r"^\s*(?:private\s+|protected\s+)?theorem\s+([^\s:({\[]+)", src, re.M):
        name = m.group(1)
        rest = src[m.end():]
        # the proof starts at the first `:=` at bracket depth 0
        depth, i, end = 0, 0, len(rest)
        while i < len(rest) - 1:
            ch = rest[i]
            if ch in "([{⟨":
                depth += 1
            elif ch in ")]}⟩":
                depth -= 1
            elif ch == ":" and rest[i + 1] == "=" and depth == 0:
                end = i
                break
            elif rest.startswith("\n  | ", i) and depth == 0 and ":=" not in rest[:i].splitlines()[-1]:
                end = i  # equation-compiler style theorem (pattern matching clauses)
                break
            i += 1
        out[name] = re.sub(r"\s+", " ", rest[:end]).strip()
    return out


def module_file(mod: str) -> Path:
    return LEAN / (mod.replace(".", "/") + ".lean")


def current() -> Dict[str, Dict[str, str]]:
    res = {}
    for f in sorted((LEAN / "Ahbicht" / "Properties").glob("*.lean")):
        mod = "Ahbicht.Properties." + f.stem
        res[mod] = {n: hashlib.sha256(s.encode()).hexdigest()[:16] for n, s in statements_of(f).items()}
    return res


def verify(modules) -> list:
    """list of human-readable differences between the lock and the current statements of the given modules"""
    if not LOCK.exists():
        return ["lean/statements.lock is missing"]
    lock = json.loads(LOCK.read_text())
    cur = current()
    diffs = []
    for m in modules:
        if not m.startswith("Ahbicht.Properties."):
            continue
        a, b = lock.get(m, {}), cur.get(m, {})
        for n in a:
            if n not in b:
                diffs.append(f"{m}: theorem {n} has disappeared")
            elif a[n] != b[n]:
                diffs.append(f"{m}: statement of {n} differs from the locked one")
        for n in b:
            if n not in a:
                diffs.append(f"{m}: theorem {n} is not in the lock (run python -m vf.statements --update after an intended change)")
    return diffs


if __name__ == "__main__":
    if "--update" in sys.argv:
        LOCK.write_text(json.dumps(current(), indent=1, sort_keys=True) + "\n")
        print("updated", LOCK, sum(len(v) for v in current().values()), "statements")
    else:
        d = verify(list(current()))
        print("\n".join(d) or "statements match the lock")
        sys.exit(1 if d else 0)
